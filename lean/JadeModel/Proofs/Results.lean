import JadeModel.Model.Results

/-!
Helper lemmas for `Props/C08.lean`: list/permutation facts, the byte-level round trip, one
characterisation lemma per generated definition / model operation, the inductive invariant
`Good` of the protocol model, and the refinement of the row-level model by the byte-level one.
-/

namespace Jade.Results
open Jade.Gen.Results

/-! ## Lists -/
section Lists
variable {α β : Type}
theorem flatMap_congr_not_mem [DecidableEq α] (dir : List α) (g g' : α → List β) (b : α) (h : b ∉ dir)
    (hg : ∀ c, c ≠ b → g' c = g c) : dir.flatMap g' = dir.flatMap g := by
  induction dir with
  | nil => rfl
  | cons a t ih =>
    simp only [List.mem_cons, not_or] at h
    simp only [List.flatMap_cons]
    rw [ih h.2, hg a (fun e => h.1 e.symm)]

theorem flatMap_update_perm [DecidableEq α] (dir : List α) (g g' : α → List β) (b : α) (extra : List β)
    (hnd : dir.Nodup) (hb : b ∈ dir) (hg : ∀ c, c ≠ b → g' c = g c) (hb' : g' b = g b ++ extra) :
    (dir.flatMap g').Perm (dir.flatMap g ++ extra) := by
  induction dir with
  | nil => cases hb
  | cons a t ih =>
    simp only [List.flatMap_cons]
    rw [List.nodup_cons] at hnd
    by_cases hab : a = b
    · subst hab
      rw [flatMap_congr_not_mem t g g' a hnd.1 hg, hb']
      simp only [List.append_assoc]
      exact List.Perm.append_left _ List.perm_append_comm
    · have hbt : b ∈ t := by
        rcases List.mem_cons.1 hb with h | h
        · exact absurd h.symm hab
        · exact h
      rw [hg a hab, List.append_assoc]
      exact List.Perm.append_left _ (ih hnd.2 hbt)

theorem flatMap_erase_perm [DecidableEq α] (dir : List α) (g g' : α → List β) (b : α)
    (hnd : dir.Nodup) (hb : b ∈ dir) (hg : ∀ c, c ≠ b → g' c = g c) :
    (dir.flatMap g).Perm (g b ++ (dir.erase b).flatMap g') := by
  induction dir with
  | nil => cases hb
  | cons a t ih =>
    rw [List.nodup_cons] at hnd
    by_cases hab : a = b
    · subst hab
      simp only [List.flatMap_cons, List.erase_cons_head]
      rw [flatMap_congr_not_mem t g g' a hnd.1 hg]
    · have hbt : b ∈ t := by
        rcases List.mem_cons.1 hb with h | h
        · exact absurd h.symm hab
        · exact h
      rw [List.erase_cons_tail (by simpa using hab)]
      simp only [List.flatMap_cons]
      rw [hg a hab]
      have := ih hnd.2 hbt
      refine (List.Perm.append_left (g a) this).trans ?_
      simp only [← List.append_assoc]
      exact List.Perm.append_right _ List.perm_append_comm
end Lists

/-! ## Byte level -/

theorem splitOn_ne_nil (sep : Char) (l : List Char) : splitOn sep l ≠ [] := by
  induction l with
  | nil => simp [splitOn]
  | cons c cs ih =>
    unfold splitOn
    split
    · simp
    · split <;> simp

theorem splitOn_nosep (sep : Char) (l : List Char) (h : sep ∉ l) : splitOn sep l = [l] := by
  induction l with
  | nil => simp [splitOn]
  | cons c cs ih =>
    simp only [List.mem_cons, not_or] at h
    unfold splitOn
    rw [if_neg (fun e => h.1 e.symm), ih h.2]

theorem splitOn_append_sep (sep : Char) (l rest : List Char) (h : sep ∉ l) :
    splitOn sep (l ++ sep :: rest) = l :: splitOn sep rest := by
  induction l with
  | nil => simp [splitOn]
  | cons c cs ih =>
    simp only [List.mem_cons, not_or] at h
    simp only [List.cons_append, splitOn, if_neg (fun e : c = sep => h.1 e.symm), ih h.2]

theorem resultFields_eq :
    resultFields = [.name, .returnCode, .status, .execTime, .completionTime, .hpcJobId] := rfl

theorem delimiter_eq : delimiter = ',' := rfl

theorem header_names : splitOn delimiter headerLine = resultFields.map Field.pyName := by decide

theorem headerLine_no_nl : '\n' ∉ headerLine := by decide

theorem headerLine_ne_nil : headerLine ≠ [] := by decide

theorem renderRow_eq (r : Row) : renderRow r =
    r.name ++ ',' :: (r.returnCode ++ ',' :: (r.status ++ ',' :: (r.execTime ++ ',' ::
      (r.completionTime ++ ',' :: r.hpcJobId)))) := by
  simp [renderRow, resultFields_eq, joinWith, Row.get, delimiter_eq]

theorem renderRow_ne_nil (r : Row) : renderRow r ≠ [] := by
  rw [renderRow_eq]; simp

theorem renderRow_no_nl (r : Row) (h : r.Legal) : '\n' ∉ renderRow r := by
  rw [renderRow_eq]
  have := h.name.2; have := h.returnCode.2; have := h.status.2; have := h.execTime.2
  have := h.completionTime.2; have := h.hpcJobId.2
  simp_all

theorem splitOn_renderRow (r : Row) (h : r.Legal) :
    splitOn delimiter (renderRow r) =
      [r.name, r.returnCode, r.status, r.execTime, r.completionTime, r.hpcJobId] := by
  rw [renderRow_eq, delimiter_eq]
  have h1 := h.name.1; have h2 := h.returnCode.1; have h3 := h.status.1; have h4 := h.execTime.1
  have h5 := h.completionTime.1; have h6 := h.hpcJobId.1
  rw [delimiter_eq] at h1 h2 h3 h4 h5 h6
  rw [splitOn_append_sep _ _ _ h1, splitOn_append_sep _ _ _ h2, splitOn_append_sep _ _ _ h3,
    splitOn_append_sep _ _ _ h4, splitOn_append_sep _ _ _ h5, splitOn_nosep _ _ h6]

def fieldIdx : Field → Nat
  | .name => 0 | .returnCode => 1 | .status => 2 | .execTime => 3 | .completionTime => 4 | .hpcJobId => 5

theorem lastIdx_header (k : Field) :
    lastIdx (resultFields.map Field.pyName) k.pyName = some (fieldIdx k) := by
  cases k <;> decide

theorem cell_header (vals : List (List Char)) (k : Field) :
    cell (resultFields.map Field.pyName) vals k = some vals[fieldIdx k]? := by
  simp only [cell, lastIdx_header]

theorem parseRow_renderRow (r : Row) (h : r.Legal) :
    parseRow (resultFields.map Field.pyName) (renderRow r) = .ok r := by
  simp [parseRow, splitOn_renderRow r h, cell_header, fieldIdx, h.rcInt]

theorem parseRows_render (rows : List Row) (h : ∀ r ∈ rows, r.Legal) :
    parseRows (resultFields.map Field.pyName) (rows.map renderRow ++ [[]]) = .ok rows := by
  induction rows with
  | nil => simp [parseRows]
  | cons r rs ih =>
    simp only [List.map_cons, List.cons_append, parseRows, renderRow_ne_nil, if_false]
    rw [parseRow_renderRow r (h r (by simp)), ih (fun x hx => h x (by simp [hx]))]

theorem splitOn_lines (rows : List Row) (h : ∀ r ∈ rows, r.Legal) :
    splitOn '\n' (rows.flatMap (fun r => renderRow r ++ ['\n'])) = rows.map renderRow ++ [[]] := by
  induction rows with
  | nil => simp [splitOn]
  | cons r rs ih =>
    simp only [List.flatMap_cons, List.append_assoc, List.cons_append, List.nil_append, List.map_cons]
    rw [splitOn_append_sep _ _ _ (renderRow_no_nl r (h r (by simp))), ih (fun x hx => h x (by simp [hx]))]

theorem parse_render (rows : List Row) (h : ∀ r ∈ rows, r.Legal) :
    parseFile (renderFile rows) = .ok rows := by
  unfold parseFile renderFile
  rw [if_neg (by simp [headerLine_ne_nil])]
  rw [splitOn_append_sep _ _ _ headerLine_no_nl, splitOn_lines rows h]
  simp only [header_names]
  exact parseRows_render rows h


/-! ## Protocol -/
section Protocol
variable {ρ : Type}

/-! flags -/
theorem moveOrder_eq : moveOrder = [.read, .append, .remove] := rfl
/-! one characterisation per generated flag, so that a change in the source breaks exactly the
lemma that names it -/
theorem appendUnderLock_eq : appendUnderLock = true := rfl
theorem moveUnderLock_eq : moveUnderLock = true := rfl
theorem processUnderLock_eq : processUnderLock = true := rfl
theorem releaseInFinally_eq : releaseInFinally = true := rfl
theorem processAccumulates_eq : processAccumulates = true := rfl
theorem appendTruncates_eq : appendTruncates = false := rfl
theorem processedTruncates_eq : processedTruncates = false := rfl

theorem flags_eq : appendUnderLock = true ∧ moveUnderLock = true ∧ processUnderLock = true ∧
    releaseInFinally = true ∧ processAccumulates = true ∧ appendTruncates = false ∧
    processedTruncates = false :=
  ⟨appendUnderLock_eq, moveUnderLock_eq, processUnderLock_eq, releaseInFinally_eq, processAccumulates_eq,
    appendTruncates_eq, processedTruncates_eq⟩

theorem globVisible_eq : globVisible = true := by decide

abbrev AState (ρ : Type) := State ρ (List ρ)

theorem doAppend_eq (s : AState ρ) (w : Wid) (b : BatchId) (r : ρ) :
    doAppend (absOps ρ) s w b r =
      if s.nodeLock b = none then
        { (s.setNode b (some ((s.node b).getD [] ++ [r]))) with
          dir := if (s.node b).isSome then s.dir else s.dir ++ [b]
          written := s.written ++ [(w, b, r)] }
      else s := by
  simp [doAppend, lockFree, absOps, flags_eq]

theorem doBegin_eq (s : AState ρ) (p : Pid) (snap : List BatchId) :
    doBegin s p snap =
      match s.coll p with
      | .idle =>
        if s.consLock = none ∧ snap.Perm s.dir then
          { (s.setColl p (.collecting snap [])) with consLock := some p }
        else s
      | _ => s := by
  unfold doBegin
  split <;> simp_all [lockFree, flags_eq, globbed, globVisible_eq, List.isPerm_iff]

theorem doLockFile_eq (s : AState ρ) (p : Pid) :
    doLockFile (absOps ρ) s p =
      match s.coll p with
      | .collecting (b :: rest) acc =>
        if s.nodeLock b = none then
          match s.node b with
          | none => raiseOut (s.setNodeLock b (some p)) p b
          | some f => ((s.setNodeLock b (some p)).setColl p (.moving b rest acc f [.append, .remove]))
        else s
      | _ => s := by
  unfold doLockFile
  split
  · simp only [lockFree, flags_eq, moveOrder_eq, settle, Bool.not_true, Bool.false_or, if_true]
    split
    · simp only [State.setNodeLock]
      split <;> simp_all [absOps, State.setColl]
    · simp_all
  · simp_all


theorem doMoveStep_append (s : AState ρ) (p : Pid) (b : BatchId) (rest : List BatchId) (acc buf : List ρ)
    (h : s.coll p = .moving b rest acc buf [.append, .remove]) :
    doMoveStep (absOps ρ) s p =
      ({ s with cons := some (consRows s ++ buf), moved := s.moved ++ [(p, b, buf)] } : AState ρ).setColl p
        (.moving b rest acc buf [.remove]) := by
  simp [doMoveStep, h, settle, absOps, flags_eq, consRows]

theorem doMoveStep_remove (s : AState ρ) (p : Pid) (b : BatchId) (rest : List BatchId) (acc buf f : List ρ)
    (h : s.coll p = .moving b rest acc buf [.remove]) (hf : s.node b = some f) :
    doMoveStep (absOps ρ) s p =
      (({ (s.setNode b none) with dir := s.dir.erase b } : AState ρ).setNodeLock b none).setColl p
        (.collecting rest (acc ++ buf)) := by
  simp [doMoveStep, h, hf, settle, finishMove, flags_eq]

theorem doMoveStep_idle (s : AState ρ) (p : Pid) (h : s.coll p = .idle) :
    doMoveStep (absOps ρ) s p = s := by
  simp [doMoveStep, h]

theorem doMoveStep_collecting (s : AState ρ) (p : Pid) (snap : List BatchId) (acc : List ρ)
    (h : s.coll p = .collecting snap acc) : doMoveStep (absOps ρ) s p = s := by
  simp [doMoveStep, h]

theorem doEnd_eq (s : AState ρ) (p : Pid) :
    doEnd s p =
      match s.coll p with
      | .collecting [] acc =>
        { (s.setColl p .idle) with consLock := none, returned := s.returned ++ [(p, .rows acc)] }
      | _ => s := by
  unfold doEnd
  split <;> simp_all [flags_eq]

theorem doCancel_eq (s : AState ρ) (p : Pid) (r : ρ) :
    doCancel (absOps ρ) s p r =
      match s.coll p with
      | .idle =>
        if s.consLock = none then
          { s with cons := some (consRows s ++ [r]), canceled := s.canceled ++ [(p, r)] }
        else s
      | _ => s := by
  unfold doCancel
  split <;> simp_all [lockFree, flags_eq, absOps, consRows]

theorem raiseOut_eq (s : AState ρ) (p : Pid) (b : BatchId) :
    raiseOut s p b =
      { ((s.setNodeLock b none).setColl p .idle) with
        consLock := none, returned := s.returned ++ [(p, .raised)] } := by
  simp [raiseOut, flags_eq, State.setNodeLock, State.setColl]



structure Good (s : AState ρ) : Prop where
  dir_nodup : s.dir.Nodup
  dir_iff : ∀ b : BatchId, b ∈ s.dir ↔ s.node b ≠ none
  cons_lock : ∀ p : Pid, s.consLock = some p ↔ s.coll p ≠ .idle
  node_lock : ∀ (b : BatchId) (p : Pid), s.nodeLock b = some p ↔
      ∃ rest acc buf pc, s.coll p = .moving b rest acc buf pc
  snap_ok : ∀ (p : Pid) (snap : List BatchId) (acc : List ρ), s.coll p = .collecting snap acc →
      snap.Nodup ∧ ∀ b ∈ snap, b ∈ s.dir
  moving_ok : ∀ (p : Pid) (b : BatchId) (rest : List BatchId) (acc buf : List ρ) (pc : List MoveAct),
      s.coll p = .moving b rest acc buf pc →
      (b :: rest).Nodup ∧ (∀ c ∈ rest, c ∈ s.dir) ∧ s.node b = some buf ∧
        (pc = [.append, .remove] ∨ pc = [.remove])
  conserve : (writtenRows s ++ canceledRows s ++ (active s).dup).Perm (consRows s ++ nodeRows s)
  consolidated : (consRows s).Perm (canceledRows s ++ movedRows s)
  reported : (movedRows s).Perm (returnedRows s ++ (active s).held)
  moved_attr : ∀ x ∈ s.moved, ∀ r ∈ x.2.2, ∃ w, (w, x.2.1, r) ∈ s.written
  no_raise : ∀ x ∈ s.returned, x.2 ≠ .raised
  attributed : ∀ (b : BatchId) (f : List ρ) (r : ρ), s.node b = some f → r ∈ f → ∃ w, (w, b, r) ∈ s.written

theorem good_init (created : Bool) : Good (init (absOps ρ) created) := by
  constructor <;> cases created <;>
    simp [init, absOps, writtenRows, canceledRows, returnedRows, movedRows, active, nodeRows, consRows, Coll.dup,
      Coll.held]

theorem nodeRows_append (s : AState ρ) (hnd : s.dir.Nodup) (hdir : ∀ b : BatchId, b ∈ s.dir ↔ s.node b ≠ none)
    (b : BatchId) (r : ρ) (w : Wid) :
    (nodeRows ({ (s.setNode b (some ((s.node b).getD [] ++ [r]))) with
          dir := if (s.node b).isSome then s.dir else s.dir ++ [b]
          written := s.written ++ [(w, b, r)] } : AState ρ)).Perm (nodeRows s ++ [r]) := by
  simp only [nodeRows, State.setNode]
  cases hnb : s.node b with
  | none =>
    have hb : b ∉ s.dir := by rw [hdir]; simp [hnb]
    simp only [Option.isSome_none, Bool.false_eq_true, if_false, List.flatMap_append, List.flatMap_cons,
      List.flatMap_nil, if_true, Option.getD_some, Option.getD_none, List.nil_append, List.append_nil]
    rw [flatMap_congr_not_mem s.dir (fun c => (s.node c).getD []) _ b hb (by intro c hc; simp [hc])]
  | some f =>
    have hb : b ∈ s.dir := by rw [hdir]; simp [hnb]
    simp only [Option.isSome_some, if_true, Option.getD_some]
    exact flatMap_update_perm s.dir (fun c => (s.node c).getD []) _ b [r] hnd hb
      (by intro c hc; simp [hc]) (by simp [hnb])

/-- only the holder of the consolidated lock is not idle -/
theorem Good.others_idle {s : AState ρ} (h : Good s) {p q : Pid} (hp : s.coll p ≠ .idle) (hq : q ≠ p) :
    s.coll q = .idle := by
  apply Classical.byContradiction; intro hc
  have h1 := (h.cons_lock p).2 hp
  have h2 := (h.cons_lock q).2 hc
  rw [h1] at h2
  exact hq (Option.some.inj h2).symm

theorem good_append (s : AState ρ) (h : Good s) (w : Wid) (b : BatchId) (r : ρ) :
    Good (doAppend (absOps ρ) s w b r) := by
  rw [doAppend_eq]
  split
  next hl =>
    have hnm : ∀ (p : Pid) rest acc buf pc, s.coll p ≠ .moving b rest acc buf pc := by
      intro p rest acc buf pc hc
      have := (h.node_lock b p).2 ⟨rest, acc, buf, pc, hc⟩
      simp [hl] at this
    exact {
      dir_nodup := by
        show (if (s.node b).isSome then s.dir else s.dir ++ [b]).Nodup
        split
        · exact h.dir_nodup
        · next hn =>
          have : b ∉ s.dir := by rw [h.dir_iff]; simpa using hn
          exact List.nodup_append.2 ⟨h.dir_nodup, by simp, by simp; grind⟩
      dir_iff := by
        intro c
        have := h.dir_iff c
        simp only [State.setNode]
        grind
      cons_lock := h.cons_lock
      node_lock := h.node_lock
      snap_ok := by
        intro p snap acc hc
        have := h.snap_ok p snap acc hc
        show snap.Nodup ∧ ∀ b' ∈ snap, b' ∈ (if (s.node b).isSome then s.dir else s.dir ++ [b])
        grind
      moving_ok := by
        intro p b' rest acc buf pc hc
        replace hc : s.coll p = .moving b' rest acc buf pc := hc
        have := h.moving_ok p b' rest acc buf pc hc
        have : b' ≠ b := fun e => hnm p rest acc buf pc (e ▸ hc)
        simp only [State.setNode]
        grind
      conserve := by
        have h1 := h.conserve
        have h2 := nodeRows_append s h.dir_nodup h.dir_iff b r w
        have e1 : writtenRows ({ (s.setNode b (some ((s.node b).getD [] ++ [r]))) with
            dir := if (s.node b).isSome then s.dir else s.dir ++ [b]
            written := s.written ++ [(w, b, r)] } : AState ρ) = writtenRows s ++ [r] := by
          simp [writtenRows]
        rw [e1]
        simp only [canceledRows, consRows, active, State.setNode] at h1 h2 ⊢
        classical
        rw [List.perm_iff_count] at h1 h2 ⊢
        intro a
        have := h1 a; have := h2 a
        simp only [List.count_append] at *
        omega
      consolidated := h.consolidated
      reported := h.reported
      moved_attr := by
        intro x hx r' hr'
        obtain ⟨w', hw'⟩ := h.moved_attr x hx r' hr'
        exact ⟨w', List.mem_append_left _ hw'⟩
      no_raise := h.no_raise
      attributed := by
        intro b' f r' hf hr
        have := h.attributed b'
        simp only [State.setNode] at hf ⊢
        cases hnb : s.node b <;> grind }
  · exact h

theorem good_begin (s : AState ρ) (h : Good s) (p : Pid) (snap : List BatchId) :
    Good (doBegin s p snap) := by
  rw [doBegin_eq]
  split
  next hidle =>
    split
    next hen =>
      obtain ⟨hl, hperm⟩ := hen
      have hall : ∀ q : Pid, s.coll q = .idle := by
        intro q
        apply Classical.byContradiction; intro hc
        have := (h.cons_lock q).2 hc
        simp [hl] at this
      exact {
        dir_nodup := h.dir_nodup
        dir_iff := h.dir_iff
        cons_lock := by
          intro q
          have := hall q
          simp only [State.setColl]
          grind
        node_lock := by
          intro b q
          have := h.node_lock b q
          have := hall q
          simp only [State.setColl]
          grind
        snap_ok := by
          intro q snap' acc hc
          simp only [State.setColl] at hc
          by_cases hq : q = p
          · simp only [hq, if_true, Coll.collecting.injEq] at hc
            obtain ⟨rfl, rfl⟩ := hc
            exact ⟨hperm.nodup_iff.2 h.dir_nodup, fun b hb => hperm.mem_iff.1 hb⟩
          · simp only [hq, if_false] at hc
            exact h.snap_ok q snap' acc hc
        moving_ok := by
          intro q b rest acc buf pc hc
          have := hall q
          simp only [State.setColl] at hc
          grind
        conserve := by
          have := h.conserve
          simpa [active, hl, State.setColl, Coll.dup, writtenRows, canceledRows, nodeRows, consRows] using this
        consolidated := h.consolidated
        reported := by
          have := h.reported
          simpa [active, hl, State.setColl, Coll.held, returnedRows, movedRows] using this
        moved_attr := h.moved_attr
        no_raise := h.no_raise
        attributed := h.attributed }
    · exact h
  · exact h

theorem good_lock (s : AState ρ) (h : Good s) (p : Pid) : Good (doLockFile (absOps ρ) s p) := by
  rw [doLockFile_eq]
  split
  next b rest acc hc =>
    have hp : s.coll p ≠ .idle := by simp [hc]
    have hsnap := h.snap_ok p _ _ hc
    split
    next hl =>
      have hnb : s.node b ≠ none := (h.dir_iff b).1 (hsnap.2 b (by simp))
      split
      next hn => exact absurd hn hnb
      next f hf =>
        have hoth : ∀ q : Pid, q ≠ p → s.coll q = .idle := fun q hq => h.others_idle hp hq
        have hcl := (h.cons_lock p).2 hp
        exact {
          dir_nodup := h.dir_nodup
          dir_iff := h.dir_iff
          cons_lock := by
            intro q
            have := h.cons_lock q
            simp only [State.setColl, State.setNodeLock]
            grind
          node_lock := by
            intro b' q
            have hnl := h.node_lock b' q
            simp only [State.setColl, State.setNodeLock]
            by_cases hq : q = p
            · subst hq
              by_cases hb : b' = b
              · subst hb
                simp
              · have : s.nodeLock b' ≠ some q := by
                  intro e
                  obtain ⟨r1, a1, b1, p1, e1⟩ := hnl.1 e
                  rw [hc] at e1
                  cases e1
                simp [hb, this, Ne.symm hb]
            · have hi := hoth q hq
              have : s.nodeLock b' ≠ some q := by
                intro e
                obtain ⟨r1, a1, b1, p1, e1⟩ := hnl.1 e
                rw [hi] at e1
                cases e1
              by_cases hb : b' = b
              · simp [hb, hq, hi, Ne.symm hq]
              · simp [hb, hq, hi, this]
          snap_ok := by
            intro q snap' acc' hc'
            have := hoth q
            simp only [State.setColl, State.setNodeLock] at hc'
            grind
          moving_ok := by
            intro q b' rest' acc' buf' pc' hc'
            have := hoth q
            simp only [State.setColl, State.setNodeLock] at hc' ⊢
            by_cases hq : q = p
            · simp only [hq, if_true, Coll.moving.injEq] at hc'
              obtain ⟨rfl, rfl, rfl, rfl, rfl⟩ := hc'
              exact ⟨hsnap.1, fun c hc => hsnap.2 c (by simp [hc]), hf, Or.inl rfl⟩
            · grind
          conserve := by
            have := h.conserve
            simpa [active, hcl, hc, State.setColl, State.setNodeLock, Coll.dup, copied, writtenRows,
              canceledRows, nodeRows, consRows] using this
          consolidated := h.consolidated
          reported := by
            have := h.reported
            simpa [active, hcl, hc, State.setColl, State.setNodeLock, Coll.held, copied, returnedRows,
              movedRows] using this
          moved_attr := h.moved_attr
          no_raise := h.no_raise
          attributed := h.attributed }
    · exact h
  · exact h

theorem copied_ar : copied [.append, .remove] = false := rfl
theorem copied_r : copied [.remove] = true := rfl
theorem removed_r : removed [.remove] = false := rfl

theorem good_move (s : AState ρ) (h : Good s) (p : Pid) : Good (doMoveStep (absOps ρ) s p) := by
  cases hc : s.coll p with
  | idle => rw [doMoveStep_idle s p hc]; exact h
  | collecting snap acc => rw [doMoveStep_collecting s p snap acc hc]; exact h
  | moving b rest acc buf pc =>
    have hp : s.coll p ≠ .idle := by simp [hc]
    have hoth : ∀ q : Pid, q ≠ p → s.coll q = .idle := fun q hq => h.others_idle hp hq
    have hcl := (h.cons_lock p).2 hp
    obtain ⟨hnd, hrest, hnode, hpc⟩ := h.moving_ok p b rest acc buf pc hc
    have hnl : s.nodeLock b = some p := (h.node_lock b p).2 ⟨rest, acc, buf, pc, hc⟩
    rcases hpc with rfl | rfl
    · -- the copy: `func(results)`
      rw [doMoveStep_append s p b rest acc buf hc]
      exact {
        dir_nodup := h.dir_nodup
        dir_iff := h.dir_iff
        cons_lock := by
          intro q
          have := h.cons_lock q
          simp only [State.setColl]
          grind
        node_lock := by
          intro b' q
          have := h.node_lock b' q
          have := hoth q
          simp only [State.setColl]
          grind
        snap_ok := by
          intro q snap' acc' hc'
          have := hoth q
          simp only [State.setColl] at hc'
          grind
        moving_ok := by
          intro q b' rest' acc' buf' pc' hc'
          have := hoth q
          simp only [State.setColl] at hc' ⊢
          by_cases hq : q = p
          · simp only [hq, if_true, Coll.moving.injEq] at hc'
            obtain ⟨rfl, rfl, rfl, rfl, rfl⟩ := hc'
            exact ⟨hnd, hrest, hnode, Or.inr rfl⟩
          · grind
        conserve := by
          have h1 := h.conserve
          simp only [active, hcl, hc, State.setColl, Coll.dup, copied_ar, copied_r, removed_r, writtenRows,
            canceledRows, nodeRows, consRows, Option.getD_some, if_true, Bool.false_and, Bool.false_eq_true, if_false, Bool.not_false,
            Bool.and_self, List.append_nil] at h1 ⊢
          classical
          rw [List.perm_iff_count] at h1 ⊢
          intro a
          have := h1 a
          simp only [List.count_append] at *
          omega
        consolidated := by
          have h1 := h.consolidated
          simp only [State.setColl, movedRows, canceledRows, consRows, Option.getD_some, List.flatMap_append,
            List.flatMap_cons, List.flatMap_nil, List.append_nil] at h1 ⊢
          classical
          rw [List.perm_iff_count] at h1 ⊢
          intro a
          have := h1 a
          simp only [List.count_append] at *
          omega
        reported := by
          have h1 := h.reported
          simp only [active, hcl, hc, State.setColl, Coll.held, copied_ar, copied_r, returnedRows, movedRows,
            if_true, Bool.false_eq_true, if_false, List.flatMap_append, List.flatMap_cons, List.flatMap_nil,
            List.append_nil] at h1 ⊢
          classical
          rw [List.perm_iff_count] at h1 ⊢
          intro a
          have := h1 a
          simp only [List.count_append] at *
          omega
        moved_attr := by
          intro x hx r hr
          simp only [State.setColl, List.mem_append, List.mem_singleton] at hx
          rcases hx with hx | rfl
          · exact h.moved_attr x hx r hr
          · exact h.attributed b buf r hnode hr
        no_raise := h.no_raise
        attributed := h.attributed }
    · -- the removal: `os.remove`, `return results`, release, `results += …`
      rw [doMoveStep_remove s p b rest acc buf buf hc hnode]
      have hbdir : b ∈ s.dir := (h.dir_iff b).2 (by simp [hnode])
      rw [List.nodup_cons] at hnd
      exact {
        dir_nodup := h.dir_nodup.erase b
        dir_iff := by
          intro c
          have hdc := h.dir_iff c
          simp only [State.setColl, State.setNodeLock, State.setNode]
          by_cases hcb : c = b
          · subst hcb
            simp [List.Nodup.mem_erase_iff h.dir_nodup]
          · simp [hcb, List.mem_erase_of_ne hcb, hdc]
        cons_lock := by
          intro q
          have := h.cons_lock q
          simp only [State.setColl, State.setNodeLock, State.setNode]
          grind
        node_lock := by
          intro b' q
          have := h.node_lock b' q
          have := hoth q
          simp only [State.setColl, State.setNodeLock, State.setNode]
          grind
        snap_ok := by
          intro q snap' acc' hc'
          have := hoth q
          simp only [State.setColl, State.setNodeLock, State.setNode] at hc' ⊢
          by_cases hq : q = p
          · simp only [hq, if_true, Coll.collecting.injEq] at hc'
            obtain ⟨rfl, rfl⟩ := hc'
            refine ⟨hnd.2, fun c hcm => ?_⟩
            have : c ≠ b := fun e => hnd.1 (e ▸ hcm)
            exact (List.mem_erase_of_ne this).2 (hrest c hcm)
          · grind
        moving_ok := by
          intro q b' rest' acc' buf' pc' hc'
          have := hoth q
          simp only [State.setColl, State.setNodeLock, State.setNode] at hc'
          grind
        conserve := by
          have h1 := h.conserve
          have h2 := flatMap_erase_perm s.dir (fun c => (s.node c).getD [])
            (fun c => ((if c = b then none else s.node c) : Option (List ρ)).getD []) b h.dir_nodup hbdir
            (by intro c hcb; simp [hcb])
          simp only [active, hcl, hc, State.setColl, State.setNodeLock, State.setNode, Coll.dup, copied_r,
            removed_r, writtenRows, canceledRows, nodeRows, consRows, if_true, hnode, Option.getD_some, Bool.not_false,
            Bool.and_self, List.append_nil] at h1 h2 ⊢
          classical
          rw [List.perm_iff_count] at h1 h2 ⊢
          intro a
          have := h1 a; have := h2 a
          simp only [List.count_append] at *
          omega
        consolidated := h.consolidated
        reported := by
          have h1 := h.reported
          simpa only [active, hcl, hc, State.setColl, State.setNodeLock, State.setNode, Coll.held, copied_r,
            returnedRows, movedRows, if_true] using h1
        moved_attr := h.moved_attr
        no_raise := h.no_raise
        attributed := by
          intro b' f r hf hr
          simp only [State.setColl, State.setNodeLock, State.setNode] at hf ⊢
          have := h.attributed b' f r
          grind }

theorem good_end (s : AState ρ) (h : Good s) (p : Pid) : Good (doEnd s p) := by
  rw [doEnd_eq]
  split
  next acc hc =>
    have hp : s.coll p ≠ .idle := by simp [hc]
    have hoth : ∀ q : Pid, q ≠ p → s.coll q = .idle := fun q hq => h.others_idle hp hq
    have hcl := (h.cons_lock p).2 hp
    exact {
      dir_nodup := h.dir_nodup
      dir_iff := h.dir_iff
      cons_lock := by
        intro q
        have := hoth q
        simp only [State.setColl]
        grind
      node_lock := by
        intro b' q
        have := h.node_lock b' q
        have := hoth q
        simp only [State.setColl]
        grind
      snap_ok := by
        intro q snap' acc' hc'
        have := hoth q
        simp only [State.setColl] at hc'
        grind
      moving_ok := by
        intro q b' rest' acc' buf' pc' hc'
        have := hoth q
        simp only [State.setColl] at hc'
        grind
      conserve := by
        have := h.conserve
        simpa [active, hcl, hc, State.setColl, Coll.dup, writtenRows, canceledRows, nodeRows, consRows] using this
      consolidated := h.consolidated
      reported := by
        have h1 := h.reported
        simp only [active, hcl, hc, State.setColl, Coll.held, returnedRows, movedRows] at h1 ⊢
        simpa [Ret.toRows] using h1
      moved_attr := h.moved_attr
      no_raise := by
        intro x hx
        simp only [List.mem_append, List.mem_singleton] at hx
        rcases hx with hx | rfl
        · exact h.no_raise x hx
        · simp
      attributed := h.attributed }
  · exact h

theorem good_cancel (s : AState ρ) (h : Good s) (p : Pid) (r : ρ) : Good (doCancel (absOps ρ) s p r) := by
  rw [doCancel_eq]
  split
  next hidle =>
    split
    next hl =>
      exact {
        dir_nodup := h.dir_nodup
        dir_iff := h.dir_iff
        cons_lock := h.cons_lock
        node_lock := h.node_lock
        snap_ok := h.snap_ok
        moving_ok := h.moving_ok
        conserve := by
          have h1 := h.conserve
          simp only [active, hl, Coll.dup, writtenRows, canceledRows, nodeRows, consRows, Option.getD_some,
            List.map_append, List.map_cons, List.map_nil] at h1 ⊢
          classical
          rw [List.perm_iff_count] at h1 ⊢
          intro a
          have := h1 a
          simp only [List.count_append] at *
          omega
        consolidated := by
          have h1 := h.consolidated
          simp only [movedRows, canceledRows, consRows, Option.getD_some, List.map_append, List.map_cons,
            List.map_nil] at h1 ⊢
          classical
          rw [List.perm_iff_count] at h1 ⊢
          intro a
          have := h1 a
          simp only [List.count_append] at *
          omega
        reported := h.reported
        moved_attr := h.moved_attr
        no_raise := h.no_raise
        attributed := h.attributed }
    · exact h
  · exact h

theorem good_step (s : AState ρ) (h : Good s) (op : Op ρ) : Good (step (absOps ρ) s op) := by
  cases op with
  | append w b r => exact good_append s h w b r
  | beginCollect p snap => exact good_begin s h p snap
  | lockFile p => exact good_lock s h p
  | moveStep p => exact good_move s h p
  | endCollect p => exact good_end s h p
  | cancelAppend p r => exact good_cancel s h p r

theorem good_run (s : AState ρ) (h : Good s) (ops : List (Op ρ)) : Good (run (absOps ρ) s ops) := by
  induction ops generalizing s with
  | nil => exact h
  | cons op ops ih => exact ih _ (good_step s h op)

end Protocol

/-! ## The byte-level model refines the row-level model -/

/-- the byte-level state that a row-level state stands for -/
def renderState (s : State Row (List Row)) : State Row (List Char) where
  cons := s.cons.map renderFile
  consLock := s.consLock
  node := fun b => (s.node b).map renderFile
  dir := s.dir
  nodeLock := s.nodeLock
  coll := s.coll
  written := s.written
  canceled := s.canceled
  moved := s.moved
  returned := s.returned

theorem renderFile_append (rows more : List Row) :
    renderFile (rows ++ more) = renderFile rows ++ more.flatMap (fun r => renderRow r ++ ['\n']) := by
  simp [renderFile]

theorem renderFile_ne_nil (rows : List Row) : renderFile rows ≠ [] := by
  simp [renderFile]

theorem headerCond_eq (pos : Nat) : headerCond pos = (pos == 0) := rfl

theorem writes_eq : headerWrites = [.header, .nl] ∧ rowWrites = [.text, .nl] ∧ createWrites = [.header, .nl] :=
  ⟨rfl, rfl, rfl⟩

theorem byte_create : byteOps.create = renderFile ((absOps Row).create) := by
  simp [byteOps, absOps, writeToks, writes_eq, tokBytes, renderFile]

theorem byte_appendRow (f : Option (List Row)) (r : Row) :
    byteOps.appendRow (f.map renderFile) r = renderFile ((absOps Row).appendRow f r) := by
  cases f with
  | none =>
    simp [byteOps, absOps, openedBytes, flags_eq, headerCond_eq, writeToks, writes_eq, tokBytes, renderFile]
  | some rows =>
    have := renderFile_ne_nil rows
    simp [byteOps, absOps, openedBytes, flags_eq, headerCond_eq, writeToks, writes_eq, tokBytes,
      renderFile_append, this]

theorem processedHeader_eq :
    (∀ pos, processedHeaderCond pos = (pos == 0)) ∧ processedHeaderWrites = [.header, .nl] :=
  ⟨fun _ => rfl, rfl⟩

theorem byte_appendRows (f : Option (List Row)) (rows : List Row) :
    byteOps.appendRows (f.map renderFile) rows = renderFile ((absOps Row).appendRows f rows) := by
  cases f with
  | none =>
    simp [byteOps, absOps, openedBytes, flags_eq, processedHeader_eq, writeToks, tokBytes, renderFile]
  | some old =>
    have := renderFile_ne_nil old
    simp [byteOps, absOps, openedBytes, flags_eq, processedHeader_eq, writeToks, tokBytes, renderFile_append, this]

theorem byte_read (f : List Row) (h : ∀ r ∈ f, r.Legal) :
    byteOps.read (renderFile f) = (absOps Row).read f := by
  simp [byteOps, absOps, parse_render f h]

/-- every row in a node file is legal -/
def LegalFiles (s : State Row (List Row)) : Prop :=
  ∀ (b : BatchId) (f : List Row), s.node b = some f → ∀ r ∈ f, r.Legal

def Op.Legal : Op Row → Prop
  | .append _ _ r => r.Legal
  | .cancelAppend _ r => r.Legal
  | _ => True

theorem render_setColl (s : State Row (List Row)) (p : Pid) (c : Coll Row) :
    renderState (s.setColl p c) = (renderState s).setColl p c := rfl

theorem render_setNodeLock (s : State Row (List Row)) (b : BatchId) (h : Option Pid) :
    renderState (s.setNodeLock b h) = (renderState s).setNodeLock b h := rfl

theorem render_setNode (s : State Row (List Row)) (b : BatchId) (f : Option (List Row)) :
    renderState (s.setNode b f) = (renderState s).setNode b (f.map renderFile) := by
  simp only [renderState, State.setNode, State.mk.injEq, true_and, and_true]
  funext c
  split <;> rfl

theorem render_raiseOut (s : State Row (List Row)) (p : Pid) (b : BatchId) :
    renderState (raiseOut s p b) = raiseOut (renderState s) p b := by
  simp only [raiseOut]
  split <;> rfl

theorem render_finishMove (s : State Row (List Row)) (p : Pid) (b : BatchId) (rest : List BatchId)
    (acc buf : List Row) :
    renderState (finishMove s p b rest acc buf) = finishMove (renderState s) p b rest acc buf := by
  simp only [finishMove]
  split <;> rfl

theorem render_settle (s : State Row (List Row)) (hl : LegalFiles s) (p : Pid) (b : BatchId)
    (rest : List BatchId) (acc buf : List Row) (pc : List MoveAct) :
    settle byteOps (renderState s) p b rest acc buf pc =
      renderState (settle (absOps Row) s p b rest acc buf pc) := by
  induction pc generalizing buf with
  | nil => simp [settle, render_finishMove]
  | cons a pc ih =>
    cases a with
    | read =>
      simp only [settle]
      cases hn : s.node b with
      | none =>
        have : (renderState s).node b = none := by simp [renderState, hn]
        simp only [this, render_raiseOut]
      | some f =>
        have : (renderState s).node b = some (renderFile f) := by simp [renderState, hn]
        simp only [this, byte_read f (hl b f hn)]
        simp only [absOps]
        exact ih f
    | append => simp [settle, render_setColl]
    | remove => simp [settle, render_setColl]


theorem settle_node {ρ φ : Type} (F : FileOps ρ φ) (s : State ρ φ) (p : Pid) (b : BatchId) (rest : List BatchId)
    (acc buf : List ρ) (pc : List MoveAct) : (settle F s p b rest acc buf pc).node = s.node := by
  induction pc generalizing buf with
  | nil => simp only [settle, finishMove]; split <;> rfl
  | cons a pc ih =>
    cases a with
    | read =>
      simp only [settle]
      split
      · simp only [raiseOut]; split <;> rfl
      · split
        · simp only [raiseOut]; split <;> rfl
        · exact ih _
    | append => rfl
    | remove => rfl

theorem raiseOut_node {ρ φ : Type} (s : State ρ φ) (p : Pid) (b : BatchId) : (raiseOut s p b).node = s.node := by
  simp only [raiseOut]; split <;> rfl

theorem render_step (s : State Row (List Row)) (hl : LegalFiles s) (op : Op Row) :
    step byteOps (renderState s) op = renderState (step (absOps Row) s op) := by
  cases op with
  | append w b r =>
    simp only [step, doAppend]
    have e1 : (renderState s).nodeLock = s.nodeLock := rfl
    have e2 : (renderState s).node b = (s.node b).map renderFile := rfl
    rw [e1, e2]
    split
    · simp only [byte_appendRow, Option.isSome_map]
      simp only [renderState, State.setNode, State.mk.injEq, true_and, and_true]
      funext c
      split <;> rfl
    · rfl
  | beginCollect p snap =>
    simp only [step, doBegin]
    have e1 : (renderState s).coll = s.coll := rfl
    rw [e1]
    split
    · have e2 : (renderState s).consLock = s.consLock := rfl
      have e3 : globbed (renderState s) = globbed s := rfl
      rw [e2, e3]
      split <;> rfl
    · rfl
  | lockFile p =>
    simp only [step, doLockFile]
    have e1 : (renderState s).coll = s.coll := rfl
    have e2 : (renderState s).nodeLock = s.nodeLock := rfl
    rw [e1]
    split
    · rw [e2]
      split
      · split
        · rw [← render_setNodeLock]
          exact render_settle _ (by exact hl) _ _ _ _ _ _
        · exact render_settle _ hl _ _ _ _ _ _
      · rfl
    · rfl
  | moveStep p =>
    simp only [step, doMoveStep]
    have e1 : (renderState s).coll = s.coll := rfl
    rw [e1]
    split
    · next b rest acc buf pc hc =>
      have e : byteOps.appendRows (renderState s).cons buf = renderFile ((absOps Row).appendRows s.cons buf) :=
        byte_appendRows _ _
      rw [e]
      exact render_settle
        { s with cons := some ((absOps Row).appendRows s.cons buf), moved := s.moved ++ [(p, b, buf)] }
        hl p b rest acc buf pc
    · next b rest acc buf pc hc =>
      have e2 : (renderState s).node b = (s.node b).map renderFile := rfl
      rw [e2]
      cases hn : s.node b with
      | none => simp only [Option.map_none, render_raiseOut]
      | some f =>
        simp only [Option.map_some]
        have e : (renderState s).setNode b none = renderState (s.setNode b none) := by
          have := render_setNode s b none
          simpa using this.symm
        rw [e]
        refine render_settle { (s.setNode b none) with dir := s.dir.erase b } ?_ p b rest acc buf pc
        intro b' f' hf'
        simp only [State.setNode] at hf'
        split at hf'
        · cases hf'
        · exact hl b' f' hf'
    · exact render_settle _ hl _ _ _ _ _ _
    · rfl
  | endCollect p =>
    simp only [step, doEnd]
    have e1 : (renderState s).coll = s.coll := rfl
    rw [e1]
    split <;> rfl
  | cancelAppend p r =>
    simp only [step, doCancel]
    have e1 : (renderState s).coll = s.coll := rfl
    have e2 : (renderState s).consLock = s.consLock := rfl
    rw [e1]
    split
    · rw [e2]
      split
      · have e : (renderState s).cons = s.cons.map renderFile := rfl
        rw [e, byte_appendRow s.cons r]
        rfl
      · rfl
    · rfl

theorem legal_step (s : State Row (List Row)) (hl : LegalFiles s) (op : Op Row) (hop : op.Legal) :
    LegalFiles (step (absOps Row) s op) := by
  cases op with
  | append w b r =>
    simp only [step, doAppend]
    split
    · intro b' f hf x hx
      simp only [State.setNode] at hf
      split at hf
      · next hb =>
        subst hb
        simp only [absOps, flags_eq, Bool.false_eq_true, if_false, Option.some.injEq] at hf
        subst hf
        rcases List.mem_append.1 hx with hx | hx
        · cases hn : s.node b' with
          | none => simp [hn] at hx
          | some f0 => exact hl b' f0 hn x (by simpa [hn] using hx)
        · simp only [List.mem_singleton] at hx
          subst hx
          exact hop
      · exact hl b' f hf x hx
    · exact hl
  | beginCollect p snap =>
    simp only [step, doBegin]
    split
    · split
      · exact hl
      · exact hl
    · exact hl
  | lockFile p =>
    simp only [step, doLockFile]
    split
    · split
      · intro b' f hf
        rw [settle_node] at hf
        split at hf <;> exact hl b' f hf
      · exact hl
    · exact hl
  | moveStep p =>
    simp only [step, doMoveStep]
    split
    · intro b' f hf
      rw [settle_node] at hf
      exact hl b' f hf
    · split
      · intro b' f hf
        rw [raiseOut_node] at hf
        exact hl b' f hf
      · intro b' f hf
        rw [settle_node] at hf
        simp only [State.setNode] at hf
        split at hf
        · cases hf
        · exact hl b' f hf
    · intro b' f hf
      rw [settle_node] at hf
      exact hl b' f hf
    · exact hl
  | endCollect p =>
    simp only [step, doEnd]
    split
    · exact hl
    · exact hl
  | cancelAppend p r =>
    simp only [step, doCancel]
    split
    · split
      · exact hl
      · exact hl
    · exact hl


theorem settle_written {ρ φ : Type} (F : FileOps ρ φ) (s : State ρ φ) (p : Pid) (b : BatchId) (rest : List BatchId)
    (acc buf : List ρ) (pc : List MoveAct) : (settle F s p b rest acc buf pc).written = s.written := by
  induction pc generalizing buf with
  | nil => simp only [settle, finishMove]; split <;> rfl
  | cons a pc ih =>
    cases a with
    | read =>
      simp only [settle]
      split
      · simp only [raiseOut]; split <;> rfl
      · split
        · simp only [raiseOut]; split <;> rfl
        · exact ih _
    | append => rfl
    | remove => rfl

theorem settle_canceled {ρ φ : Type} (F : FileOps ρ φ) (s : State ρ φ) (p : Pid) (b : BatchId) (rest : List BatchId)
    (acc buf : List ρ) (pc : List MoveAct) : (settle F s p b rest acc buf pc).canceled = s.canceled := by
  induction pc generalizing buf with
  | nil => simp only [settle, finishMove]; split <;> rfl
  | cons a pc ih =>
    cases a with
    | read =>
      simp only [settle]
      split
      · simp only [raiseOut]; split <;> rfl
      · split
        · simp only [raiseOut]; split <;> rfl
        · exact ih _
    | append => rfl
    | remove => rfl

theorem raiseOut_written {ρ φ : Type} (s : State ρ φ) (p : Pid) (b : BatchId) :
    (raiseOut s p b).written = s.written := by
  simp only [raiseOut]; split <;> rfl

theorem raiseOut_canceled {ρ φ : Type} (s : State ρ φ) (p : Pid) (b : BatchId) :
    (raiseOut s p b).canceled = s.canceled := by
  simp only [raiseOut]; split <;> rfl

/-- every row ever written or cancel-appended is legal -/
def LegalHist (s : State Row (List Row)) : Prop :=
  (∀ x ∈ s.written, x.2.2.Legal) ∧ (∀ x ∈ s.canceled, x.2.Legal)

theorem legalHist_step (s : State Row (List Row)) (hl : LegalHist s) (op : Op Row) (hop : op.Legal) :
    LegalHist (step (absOps Row) s op) := by
  cases op with
  | append w b r =>
    simp only [step, doAppend]
    split
    · refine ⟨?_, hl.2⟩
      intro x hx
      simp only [List.mem_append, List.mem_singleton] at hx
      rcases hx with hx | rfl
      · exact hl.1 x hx
      · exact hop
    · exact hl
  | beginCollect p snap =>
    simp only [step, doBegin]
    split
    · split <;> exact hl
    · exact hl
  | lockFile p =>
    simp only [step, doLockFile]
    split
    · split
      · unfold LegalHist
        rw [settle_written, settle_canceled]
        split <;> exact hl
      · exact hl
    · exact hl
  | moveStep p =>
    simp only [step, doMoveStep]
    split
    · unfold LegalHist
      rw [settle_written, settle_canceled]
      exact hl
    · split
      · unfold LegalHist
        rw [raiseOut_written, raiseOut_canceled]
        exact hl
      · unfold LegalHist
        rw [settle_written, settle_canceled]
        exact hl
    · unfold LegalHist
      rw [settle_written, settle_canceled]
      exact hl
    · exact hl
  | endCollect p =>
    simp only [step, doEnd]
    split <;> exact hl
  | cancelAppend p r =>
    simp only [step, doCancel]
    split
    · split
      · refine ⟨hl.1, ?_⟩
        intro x hx
        simp only [List.mem_append, List.mem_singleton] at hx
        rcases hx with hx | rfl
        · exact hl.2 x hx
        · exact hop
      · exact hl
    · exact hl

theorem render_init (created : Bool) : renderState (init (absOps Row) created) = init byteOps created := by
  cases created <;> simp [renderState, init, byte_create]

theorem legalFiles_init (created : Bool) : LegalFiles (init (absOps Row) created) := by
  intro b f hf
  simp [init] at hf

theorem legalHist_init (created : Bool) : LegalHist (init (absOps Row) created) := by
  constructor <;> simp [init]

theorem legal_run (s : State Row (List Row)) (ops : List (Op Row)) (hops : ∀ op ∈ ops, op.Legal)
    (hf : LegalFiles s) (hh : LegalHist s) :
    LegalFiles (run (absOps Row) s ops) ∧ LegalHist (run (absOps Row) s ops) := by
  induction ops generalizing s with
  | nil => exact ⟨hf, hh⟩
  | cons op ops ih =>
    exact ih _ (fun o ho => hops o (by simp [ho])) (legal_step s hf op (hops op (by simp)))
      (legalHist_step s hh op (hops op (by simp)))

theorem render_run (s : State Row (List Row)) (ops : List (Op Row)) (hops : ∀ op ∈ ops, op.Legal)
    (hf : LegalFiles s) :
    run byteOps (renderState s) ops = renderState (run (absOps Row) s ops) := by
  induction ops generalizing s with
  | nil => rfl
  | cons op ops ih =>
    simp only [run, List.foldl_cons] at ih ⊢
    rw [render_step s hf op]
    exact ih _ (fun o ho => hops o (by simp [ho])) (legal_step s hf op (hops op (by simp)))

end Jade.Results
