import JadeModel.Model.ResultsFault
import JadeModel.Proofs.Results

/-!
Helper lemmas for `Props/C08Faults.lean`: the invariant `Safe` of the row-level model that survives
injected failures, kills and the breaking of stale markers (at-least-once: every written row is in
a file; a node file is removed only when its rows are in the consolidated file), and the fact that
a history without fault operations runs the base model.
-/

namespace Jade.Results
open Jade.Gen.Results

section Faults
variable {ρ : Type}

abbrev AXState (ρ : Type) := XState ρ (List ρ)

/-- what the proofs use of `absOpsX.opened`: opening for append keeps the rows -/
theorem opened_rows (f : Option (List ρ)) : (absOpsX ρ).opened f = f.getD [] := by
  simp [absOpsX, flags_eq]

theorem absOpsX_toFileOps : (absOpsX ρ).toFileOps = absOps ρ := rfl

/-- in which state a collector inside `_move_results` of batch `b` can be: it holds the node lock, and
    before the copy / between copy and removal the node file is what it read; after the copy the
    rows it read are in the consolidated file; `[]` (removed too) only for a process that died right after
    the removal -/
def MovingOk (s : AState ρ) (p : Pid) (b : BatchId) (buf : List ρ) (pc : List MoveAct) : Prop :=
  s.nodeLock b = some p ∧
    ((pc = [.append, .remove] ∧ s.node b = some buf) ∨
     (pc = [.remove] ∧ s.node b = some buf ∧ ∀ r ∈ buf, r ∈ consRows s) ∨
     (pc = [] ∧ ∀ r ∈ buf, r ∈ consRows s))

structure Safe (s : AState ρ) : Prop where
  dir_nodup : s.dir.Nodup
  dir_iff : ∀ b : BatchId, b ∈ s.dir ↔ s.node b ≠ none
  kept : ∀ r ∈ writtenRows s ++ canceledRows s,
      r ∈ consRows s ∨ ∃ (b : BatchId) (f : List ρ), s.node b = some f ∧ r ∈ f
  moving : ∀ (p : Pid) (b : BatchId) (rest : List BatchId) (acc buf : List ρ) (pc : List MoveAct),
      s.coll p = .moving b rest acc buf pc → MovingOk s p b buf pc

theorem safe_init (created : Bool) : Safe (init (absOps ρ) created) := by
  constructor <;> cases created <;> simp [init, absOps, writtenRows, canceledRows]

/-- the lock of a file a collector is moving is not free, and not held by anyone else -/
theorem Safe.lock_of_moving {s : AState ρ} (h : Safe s) {p : Pid} {b : BatchId} {rest : List BatchId}
    {acc buf : List ρ} {pc : List MoveAct} (hc : s.coll p = .moving b rest acc buf pc) :
    s.nodeLock b = some p := (h.moving p b rest acc buf pc hc).1

/-! ### base operations -/

theorem safe_append (s : AState ρ) (h : Safe s) (w : Wid) (b : BatchId) (r : ρ) :
    Safe (doAppend (absOps ρ) s w b r) := by
  rw [doAppend_eq]
  split
  next hl =>
    exact {
      dir_nodup := by
        show (if (s.node b).isSome then s.dir else s.dir ++ [b]).Nodup
        split
        · exact h.dir_nodup
        · next hn =>
          have : b ∉ s.dir := by rw [h.dir_iff]; simpa using hn
          exact List.nodup_append.2 ⟨h.dir_nodup, by simp, by simp; grind⟩
      dir_iff := by
        intro c
        have := h.dir_iff c
        simp only [State.setNode]
        grind
      kept := by
        intro x hx
        simp only [writtenRows, canceledRows, consRows, State.setNode, List.map_append, List.map_cons,
          List.map_nil, List.mem_append, List.mem_singleton] at hx ⊢
        rcases hx with (hx | rfl) | hx
        · rcases h.kept x (by simp [writtenRows, hx]) with hc | ⟨c, f, hf, hxf⟩
          · exact Or.inl hc
          · by_cases hcb : c = b
            · subst hcb
              exact Or.inr ⟨c, f ++ [r], by simp [hf], by simp [hxf]⟩
            · exact Or.inr ⟨c, f, by simp [hcb, hf], hxf⟩
        · exact Or.inr ⟨b, (s.node b).getD [] ++ [x], by simp, by simp⟩
        · rcases h.kept x (by simp [canceledRows, hx]) with hc | ⟨c, f, hf, hxf⟩
          · exact Or.inl hc
          · by_cases hcb : c = b
            · subst hcb
              exact Or.inr ⟨c, f ++ [r], by simp [hf], by simp [hxf]⟩
            · exact Or.inr ⟨c, f, by simp [hcb, hf], hxf⟩
      moving := by
        intro p b' rest acc buf pc hc
        replace hc : s.coll p = .moving b' rest acc buf pc := hc
        have hm := h.moving p b' rest acc buf pc hc
        have hne : b' ≠ b := by
          intro e
          have h1 := hm.1
          rw [e, hl] at h1
          cases h1
        simpa [MovingOk, State.setNode, consRows, hne] using hm }
  · exact h

theorem safe_begin (s : AState ρ) (h : Safe s) (p : Pid) (snap : List BatchId) :
    Safe (doBegin s p snap) := by
  rw [doBegin_eq]
  split
  next hidle =>
    split
    · exact {
        dir_nodup := h.dir_nodup
        dir_iff := h.dir_iff
        kept := h.kept
        moving := by
          intro q b rest acc buf pc hc
          simp only [State.setColl] at hc
          by_cases hq : q = p
          · simp [hq] at hc
          · simp only [hq, if_false] at hc
            exact h.moving q b rest acc buf pc hc }
    · exact h
  · exact h

/-- an exception leaves `_move_results` of batch `b` whose lock `p` holds -/
theorem safe_raiseOut (s : AState ρ) (h : Safe s) (p : Pid) (b : BatchId) (hl : s.nodeLock b = some p) :
    Safe (raiseOut s p b) := by
  rw [raiseOut_eq]
  exact {
    dir_nodup := h.dir_nodup
    dir_iff := h.dir_iff
    kept := h.kept
    moving := by
      intro q b' rest acc buf pc hc
      simp only [State.setColl, State.setNodeLock] at hc
      by_cases hq : q = p
      · simp [hq] at hc
      · simp only [hq, if_false] at hc
        have hm := h.moving q b' rest acc buf pc hc
        have hne : b' ≠ b := by
          intro e
          have h1 := hm.1
          rw [e, hl] at h1
          exact hq (Option.some.inj h1).symm
        simpa [MovingOk, State.setColl, State.setNodeLock, consRows, hne] using hm }

/-- … the same right after taking the lock (it was free) -/
theorem safe_raiseOut_fresh (s : AState ρ) (h : Safe s) (p : Pid) (b : BatchId) (hl : s.nodeLock b = none) :
    Safe (raiseOut (s.setNodeLock b (some p)) p b) := by
  rw [raiseOut_eq]
  exact {
    dir_nodup := h.dir_nodup
    dir_iff := h.dir_iff
    kept := h.kept
    moving := by
      intro q b' rest acc buf pc hc
      simp only [State.setColl, State.setNodeLock] at hc
      by_cases hq : q = p
      · simp [hq] at hc
      · simp only [hq, if_false] at hc
        have hm := h.moving q b' rest acc buf pc hc
        have hne : b' ≠ b := by
          intro e
          have h1 := hm.1
          rw [e, hl] at h1
          cases h1
        simpa [MovingOk, State.setColl, State.setNodeLock, consRows, hne] using hm }

theorem safe_lock (s : AState ρ) (h : Safe s) (p : Pid) : Safe (doLockFile (absOps ρ) s p) := by
  rw [doLockFile_eq]
  split
  next b rest acc hc =>
    split
    next hl =>
      split
      next hn => exact safe_raiseOut_fresh s h p b hl
      next f hf =>
        exact {
          dir_nodup := h.dir_nodup
          dir_iff := h.dir_iff
          kept := h.kept
          moving := by
            intro q b' rest' acc' buf' pc' hc'
            simp only [State.setColl, State.setNodeLock] at hc'
            by_cases hq : q = p
            · simp only [hq, if_true, Coll.moving.injEq] at hc'
              obtain ⟨rfl, rfl, rfl, rfl, rfl⟩ := hc'
              subst hq
              simp [MovingOk, State.setColl, State.setNodeLock, hf]
            · simp only [hq, if_false] at hc'
              have hm := h.moving q b' rest' acc' buf' pc' hc'
              have hne : b' ≠ b := by
                intro e
                have h1 := hm.1
                rw [e, hl] at h1
                cases h1
              simpa [MovingOk, State.setColl, State.setNodeLock, consRows, hne] using hm }
    · exact h
  · exact h

theorem doMoveStep_nil (s : AState ρ) (p : Pid) (b : BatchId) (rest : List BatchId) (acc buf : List ρ)
    (h : s.coll p = .moving b rest acc buf []) : doMoveStep (absOps ρ) s p = s := by
  simp [doMoveStep, h]

/-- the copy: `func(results)` -/
theorem safe_copy (s : AState ρ) (h : Safe s) (p : Pid) (b : BatchId) (rest : List BatchId) (acc buf : List ρ)
    (hc : s.coll p = .moving b rest acc buf [.append, .remove]) :
    Safe (({ s with cons := some (consRows s ++ buf), moved := s.moved ++ [(p, b, buf)] } : AState ρ).setColl p
        (.moving b rest acc buf [.remove])) := by
  have hm := h.moving p b rest acc buf _ hc
  exact {
    dir_nodup := h.dir_nodup
    dir_iff := h.dir_iff
    kept := by
      intro x hx
      rcases h.kept x hx with hcx | hn
      · exact Or.inl (by simp [consRows, State.setColl] at hcx ⊢; exact Or.inl hcx)
      · exact Or.inr hn
    moving := by
      intro q b' rest' acc' buf' pc' hc'
      simp only [State.setColl] at hc'
      by_cases hq : q = p
      · simp only [hq, if_true, Coll.moving.injEq] at hc'
        obtain ⟨rfl, rfl, rfl, rfl, rfl⟩ := hc'
        subst hq
        rcases hm with ⟨hl, ⟨-, hnode⟩ | ⟨he, -⟩ | ⟨he, -⟩⟩
        · exact ⟨hl, Or.inr (Or.inl ⟨rfl, hnode, by intro r hr; simp [consRows, State.setColl, hr]⟩)⟩
        · cases he
        · cases he
      · simp only [hq, if_false] at hc'
        obtain ⟨hl', hrest⟩ := h.moving q b' rest' acc' buf' pc' hc'
        refine ⟨hl', ?_⟩
        have hgrow : ∀ r, r ∈ consRows s → r ∈ consRows
            (({ s with cons := some (consRows s ++ buf), moved := s.moved ++ [(p, b, buf)] } : AState ρ).setColl p
              (.moving b rest acc buf [.remove])) := by
          intro r hr
          simp only [consRows, State.setColl, Option.getD_some, List.mem_append] at hr ⊢
          exact Or.inl hr
        rcases hrest with h1 | ⟨he, hnode, hsub⟩ | ⟨he, hsub⟩
        · exact Or.inl h1
        · exact Or.inr (Or.inl ⟨he, hnode, fun r hr => hgrow r (hsub r hr)⟩)
        · exact Or.inr (Or.inr ⟨he, fun r hr => hgrow r (hsub r hr)⟩) }

/-- the removal of the node file (whatever the collector does next: `coll'`, node lock kept or released) -/
theorem safe_removed (s : AState ρ) (h : Safe s) (p : Pid) (b : BatchId) (rest : List BatchId) (acc buf : List ρ)
    (hc : s.coll p = .moving b rest acc buf [.remove]) (c' : Coll ρ) (keep : Bool)
    (hc' : ∀ b' rest' acc' buf' pc', c' = .moving b' rest' acc' buf' pc' →
      keep = true ∧ b' = b ∧ buf' = buf ∧ pc' = []) :
    Safe ((({ (s.setNode b none) with dir := s.dir.erase b } : AState ρ).setNodeLock b
      (if keep then s.nodeLock b else none)).setColl p c') := by
  obtain ⟨hl, hpc⟩ := h.moving p b rest acc buf _ hc
  have ⟨hnode, hsub⟩ : s.node b = some buf ∧ ∀ r ∈ buf, r ∈ consRows s := by
    rcases hpc with ⟨he, -⟩ | ⟨-, h1, h2⟩ | ⟨he, -⟩
    · cases he
    · exact ⟨h1, h2⟩
    · cases he
  exact {
    dir_nodup := h.dir_nodup.erase b
    dir_iff := by
      intro c
      have hdc := h.dir_iff c
      simp only [State.setColl, State.setNodeLock, State.setNode]
      by_cases hcb : c = b
      · subst hcb
        simp [List.Nodup.mem_erase_iff h.dir_nodup]
      · simp [hcb, List.mem_erase_of_ne hcb, hdc]
    kept := by
      intro x hx
      rcases h.kept x hx with hcx | ⟨c, f, hf, hxf⟩
      · exact Or.inl hcx
      · by_cases hcb : c = b
        · subst hcb
          rw [hnode] at hf
          cases hf
          exact Or.inl (hsub x hxf)
        · exact Or.inr ⟨c, f, by simp [State.setColl, State.setNodeLock, State.setNode, hcb, hf], hxf⟩
    moving := by
      intro q b' rest' acc' buf' pc' hq'
      simp only [State.setColl, State.setNodeLock, State.setNode] at hq'
      by_cases hq : q = p
      · simp only [hq, if_true] at hq'
        obtain ⟨hk, rfl, rfl, rfl⟩ := hc' b' rest' acc' buf' pc' hq'
        subst hq
        refine ⟨by simp [State.setColl, State.setNodeLock, State.setNode, hk, hl], Or.inr (Or.inr ⟨rfl, ?_⟩)⟩
        intro r hr
        simpa [consRows, State.setColl, State.setNodeLock, State.setNode] using hsub r hr
      · simp only [hq, if_false] at hq'
        have hm := h.moving q b' rest' acc' buf' pc' hq'
        have hne : b' ≠ b := by
          intro e
          have h1 := hm.1
          rw [e, hl] at h1
          exact hq (Option.some.inj h1).symm
        simpa [MovingOk, State.setColl, State.setNodeLock, State.setNode, consRows, hne] using hm }

theorem safe_move (s : AState ρ) (h : Safe s) (p : Pid) : Safe (doMoveStep (absOps ρ) s p) := by
  cases hc : s.coll p with
  | idle => rw [doMoveStep_idle s p hc]; exact h
  | collecting snap acc => rw [doMoveStep_collecting s p snap acc hc]; exact h
  | moving b rest acc buf pc =>
    obtain ⟨hl, hpc⟩ := h.moving p b rest acc buf pc hc
    rcases hpc with ⟨rfl, hnode⟩ | ⟨rfl, hnode, hsub⟩ | ⟨rfl, -⟩
    · rw [doMoveStep_append s p b rest acc buf hc]
      exact safe_copy s h p b rest acc buf hc
    · rw [doMoveStep_remove s p b rest acc buf buf hc hnode]
      have := safe_removed s h p b rest acc buf hc (.collecting rest (acc ++ buf)) false (by intro _ _ _ _ _ e; cases e)
      simpa using this
    · rw [doMoveStep_nil s p b rest acc buf hc]; exact h

theorem safe_end (s : AState ρ) (h : Safe s) (p : Pid) : Safe (doEnd s p) := by
  rw [doEnd_eq]
  split
  · exact {
      dir_nodup := h.dir_nodup
      dir_iff := h.dir_iff
      kept := h.kept
      moving := by
        intro q b rest acc buf pc hc
        simp only [State.setColl] at hc
        by_cases hq : q = p
        · simp [hq] at hc
        · simp only [hq, if_false] at hc
          exact h.moving q b rest acc buf pc hc }
  · exact h

/-- the consolidated file gains rows (or is merely opened): nothing else changes -/
theorem safe_cons_grows (s : AState ρ) (h : Safe s) (s' : AState ρ)
    (hdir : s'.dir = s.dir) (hnode : s'.node = s.node) (hlock : s'.nodeLock = s.nodeLock) (hcoll : s'.coll = s.coll)
    (hw : writtenRows s' = writtenRows s)
    (hcons : ∀ r, r ∈ consRows s → r ∈ consRows s')
    (hcan : ∀ r, r ∈ canceledRows s' → r ∈ canceledRows s ∨ r ∈ consRows s') : Safe s' := by
  exact {
    dir_nodup := hdir ▸ h.dir_nodup
    dir_iff := by rw [hdir, hnode]; exact h.dir_iff
    kept := by
      intro x hx
      rw [hnode]
      rcases List.mem_append.1 hx with hx | hx
      · rcases h.kept x (List.mem_append_left _ (hw ▸ hx)) with hc | hn
        · exact Or.inl (hcons x hc)
        · exact Or.inr hn
      · rcases hcan x hx with hx | hx
        · rcases h.kept x (List.mem_append_right _ hx) with hc | hn
          · exact Or.inl (hcons x hc)
          · exact Or.inr hn
        · exact Or.inl hx
    moving := by
      intro q b rest acc buf pc hc
      rw [hcoll] at hc
      obtain ⟨hl, hpc⟩ := h.moving q b rest acc buf pc hc
      refine ⟨by rw [hlock]; exact hl, ?_⟩
      rw [hnode]
      rcases hpc with h1 | ⟨he, hn, hsub⟩ | ⟨he, hsub⟩
      · exact Or.inl h1
      · exact Or.inr (Or.inl ⟨he, hn, fun r hr => hcons r (hsub r hr)⟩)
      · exact Or.inr (Or.inr ⟨he, fun r hr => hcons r (hsub r hr)⟩) }

theorem safe_cancel (s : AState ρ) (h : Safe s) (p : Pid) (r : ρ) : Safe (doCancel (absOps ρ) s p r) := by
  rw [doCancel_eq]
  split
  · split
    · refine safe_cons_grows s h _ rfl rfl rfl rfl rfl ?_ ?_
      · intro x hx; simp [consRows] at hx ⊢; exact Or.inl hx
      · intro x hx
        simp only [canceledRows, consRows, List.map_append, List.map_cons, List.map_nil, List.mem_append,
          List.mem_singleton, Option.getD_some] at hx ⊢
        rcases hx with hx | rfl
        · exact Or.inl hx
        · exact Or.inr (Or.inr rfl)
    · exact h
  · exact h

theorem safe_step (s : AState ρ) (h : Safe s) (op : Op ρ) : Safe (step (absOps ρ) s op) := by
  cases op with
  | append w b r => exact safe_append s h w b r
  | beginCollect p snap => exact safe_begin s h p snap
  | lockFile p => exact safe_lock s h p
  | moveStep p => exact safe_move s h p
  | endCollect p => exact safe_end s h p
  | cancelAppend p r => exact safe_cancel s h p r

/-! ### failures, deaths, stale markers -/

/-- the append-open succeeded and nothing was written -/
theorem safe_opened (s : AState ρ) (h : Safe s) :
    Safe ({ s with cons := some ((absOpsX ρ).opened s.cons) } : AState ρ) := by
  refine safe_cons_grows s h _ rfl rfl rfl rfl rfl ?_ ?_
  · intro x hx; simpa [consRows, opened_rows] using hx
  · intro x hx; exact Or.inl hx

theorem lockFailRead_eq {φ : Type} (x : XState ρ φ) (p : Pid) :
    lockFailRead x p =
      match x.base.coll p with
      | .collecting (b :: _) _ =>
        if x.base.nodeLock b = none then
          { x.disarm p with base := raiseOut (x.base.setNodeLock b (some p)) p b }
        else x
      | _ => x := by
  unfold lockFailRead
  simp only [moveOrder_eq]
  split <;> simp_all [lockFree, flags_eq]

theorem safe_lockFailRead (x : AXState ρ) (h : Safe x.base) (p : Pid) : Safe (lockFailRead x p).base := by
  rw [lockFailRead_eq]
  split
  · split
    · next hfree => exact safe_raiseOut_fresh x.base h p _ hfree
    · exact h
  · exact h

theorem safe_moveArmed (x : AXState ρ) (h : Safe x.base) (p : Pid) (a : Armed) (y : AXState ρ)
    (hy : moveArmed (absOpsX ρ) x p a = some y) : Safe y.base := by
  unfold moveArmed at hy
  dsimp only at hy
  split at hy
  · next b _ _ _ _ hc =>
    cases hy
    exact safe_raiseOut _ h p b (h.lock_of_moving hc)
  · next b _ _ _ _ hc =>
    cases hy
    exact safe_raiseOut _ (safe_opened _ h) p b (h.lock_of_moving hc)
  · cases hy
    exact safe_opened _ h
  · next b _ _ _ _ hc =>
    cases hy
    exact safe_raiseOut _ h p b (h.lock_of_moving hc)
  · next b rest acc buf pc hc =>
    split at hy
    · cases hy
    · cases hy
      obtain ⟨hl, hpc⟩ := h.moving p b rest acc buf _ hc
      have hpc' : pc = [] := by
        rcases hpc with ⟨he, -⟩ | ⟨he, -⟩ | ⟨he, -⟩
        · cases he
        · cases he; rfl
        · cases he
      subst hpc'
      have := safe_removed x.base h p b rest acc buf hc (.moving b rest acc buf []) true
        (by intro _ _ _ _ _ e; cases e; exact ⟨rfl, rfl, rfl, rfl⟩)
      have hid : (({ (x.base.setNode b none) with dir := x.base.dir.erase b } : AState ρ).setNodeLock b
          (x.base.nodeLock b)) = ({ (x.base.setNode b none) with dir := x.base.dir.erase b } : AState ρ) := by
        simp only [State.setNodeLock, State.setNode]
        congr 1
        funext c
        split <;> simp_all
      simpa [hid, XState.die, XState.disarm] using this
  · cases hy

theorem safe_moveArmed_getD (x : AXState ρ) (h : Safe x.base) (p : Pid) (a : Armed) (s' : AState ρ)
    (hs' : Safe s') : Safe ((moveArmed (absOpsX ρ) x p a).getD { x with base := s' }).base := by
  cases hm : moveArmed (absOpsX ρ) x p a with
  | none => simpa using hs'
  | some y => simpa using safe_moveArmed x h p a y hm

theorem safe_stepBase (x : AXState ρ) (h : Safe x.base) (op : Op ρ) : Safe (stepBase (absOpsX ρ) x op).base := by
  have hplain : Safe (step (absOpsX ρ).toFileOps x.base op) := safe_step x.base h op
  unfold stepBase
  split
  · exact hplain
  · split
    · exact h
    · split
      · exact safe_lockFailRead x h _
      · exact safe_moveArmed_getD x h _ _ _ hplain
      · exact hplain

theorem safe_breakLocks (x : AXState ρ) (h : Safe x.base) : Safe (breakLocks x).base := by
  exact {
    dir_nodup := h.dir_nodup
    dir_iff := h.dir_iff
    kept := h.kept
    moving := by
      intro q b rest acc buf pc hc
      simp only [breakLocks] at hc
      split at hc
      · cases hc
      · next hq =>
        obtain ⟨hl, hpc⟩ := h.moving q b rest acc buf pc hc
        refine ⟨?_, hpc⟩
        simp [breakLocks, hl, hq] }

theorem safe_stepX (x : AXState ρ) (h : Safe x.base) (op : OpX ρ) : Safe (stepX (absOpsX ρ) x op).base := by
  cases op with
  | base op => exact safe_stepBase x h op
  | arm p a =>
    simp only [stepX]
    split <;> exact h
  | kill p => exact h
  | breakLocks => exact safe_breakLocks x h

theorem safe_runX (x : AXState ρ) (h : Safe x.base) (ops : List (OpX ρ)) : Safe (runX (absOpsX ρ) x ops).base := by
  induction ops generalizing x with
  | nil => exact h
  | cons op ops ih => exact ih _ (safe_stepX x h op)

/-! ### a history without fault operations runs the base model -/

theorem stepBase_plain {φ : Type} (F : FileOpsX ρ φ) (x : XState ρ φ) (op : Op ρ) (hd : x.dead = [])
    (ha : ∀ p, x.armed p = none) : stepBase F x op = { x with base := step F.toFileOps x.base op } := by
  unfold stepBase
  split
  · rfl
  · next p _ =>
    simp only [hd, List.not_mem_nil, if_false, ha p]

theorem runX_base {φ : Type} (F : FileOpsX ρ φ) (x : XState ρ φ) (ops : List (Op ρ)) (hd : x.dead = [])
    (ha : ∀ p, x.armed p = none) :
    runX F x (ops.map .base) = { x with base := run F.toFileOps x.base ops } := by
  induction ops generalizing x with
  | nil => rfl
  | cons op ops ih =>
    simp only [List.map_cons, runX, List.foldl_cons, stepX]
    rw [stepBase_plain F x op hd ha]
    exact ih _ hd ha

/-- a dead process does nothing -/
theorem stepBase_dead {φ : Type} (F : FileOpsX ρ φ) (x : XState ρ φ) (op : Op ρ) (p : Pid)
    (hp : op.pid = some p) (hd : p ∈ x.dead) : stepBase F x op = x := by
  unfold stepBase
  split
  · next h => rw [hp] at h; cases h
  · next q h =>
    rw [hp] at h
    cases h
    simp [hd]

end Faults
end Jade.Results
