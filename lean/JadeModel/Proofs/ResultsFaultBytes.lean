import JadeModel.Proofs.ResultsFault

/-!
The byte-level fault model refines the row-level one (`Props/C08Faults.lean`), for histories that start
with the consolidated file created (`ResultsAggregator.create` has run: the normal flow).  Without that
file a failed write / a death after the append-open leaves a 0-byte file, which has no row-level
counterpart (`renderFile []` is the header line): that case is tied by the correspondence suite only.
-/

namespace Jade.Results
open Jade.Gen.Results

/-- the byte-level fault state a row-level fault state stands for -/
def renderX (x : XState Row (List Row)) : XState Row (List Char) :=
  { base := renderState x.base, dead := x.dead, armed := x.armed }

theorem byte_opened_some (rows : List Row) :
    byteOpsX.opened (some (renderFile rows)) = renderFile ((absOpsX Row).opened (some rows)) := by
  simp [byteOpsX, absOpsX, openedBytes, flags_eq]

/-! ### the consolidated file, once created, stays -/
section Cons
variable {ρ φ : Type}

theorem finishMove_cons (s : State ρ φ) (p : Pid) (b : BatchId) (rest : List BatchId) (acc buf : List ρ) :
    (finishMove s p b rest acc buf).cons = s.cons := by
  simp only [finishMove]; split <;> rfl

theorem raiseOut_cons (s : State ρ φ) (p : Pid) (b : BatchId) : (raiseOut s p b).cons = s.cons := by
  simp only [raiseOut]; split <;> rfl

theorem settle_cons (F : FileOps ρ φ) (s : State ρ φ) (p : Pid) (b : BatchId) (rest : List BatchId)
    (acc buf : List ρ) (pc : List MoveAct) : (settle F s p b rest acc buf pc).cons = s.cons := by
  induction pc generalizing buf with
  | nil => simp only [settle, finishMove_cons]
  | cons a pc ih =>
    cases a with
    | read =>
      simp only [settle]
      split
      · exact raiseOut_cons _ _ _
      · split
        · exact raiseOut_cons _ _ _
        · exact ih _
    | append => rfl
    | remove => rfl

theorem step_cons_isSome (F : FileOps ρ φ) (s : State ρ φ) (op : Op ρ) (h : s.cons.isSome) :
    (step F s op).cons.isSome := by
  cases op with
  | append w b r =>
    simp only [step, doAppend]
    split <;> exact h
  | beginCollect p snap =>
    simp only [step, doBegin]
    split
    · split <;> exact h
    · exact h
  | lockFile p =>
    simp only [step, doLockFile]
    split
    · split
      · rw [settle_cons]; split <;> exact h
      · exact h
    · exact h
  | moveStep p =>
    simp only [step, doMoveStep]
    split
    · rw [settle_cons]; rfl
    · split
      · rw [raiseOut_cons]; exact h
      · rw [settle_cons]; exact h
    · rw [settle_cons]; exact h
    · exact h
  | endCollect p =>
    simp only [step, doEnd]
    split <;> exact h
  | cancelAppend p r =>
    simp only [step, doCancel]
    split
    · split
      · rfl
      · exact h
    · exact h

end Cons

/-! ### one step -/

def OpX.Legal : OpX Row → Prop
  | .base op => op.Legal
  | _ => True

theorem render_disarm (x : XState Row (List Row)) (p : Pid) : renderX (x.disarm p) = (renderX x).disarm p := rfl
theorem render_die (x : XState Row (List Row)) (p : Pid) : renderX (x.die p) = (renderX x).die p := rfl

theorem render_lockFailRead (x : XState Row (List Row)) (p : Pid) :
    lockFailRead (renderX x) p = renderX (lockFailRead x p) := by
  have e1 : (renderX x).base.coll p = x.base.coll p := rfl
  rw [lockFailRead_eq, lockFailRead_eq, e1]
  split
  · next b _ _ _ =>
    have e2 : (renderX x).base.nodeLock b = x.base.nodeLock b := rfl
    rw [e2]
    split
    · simp only [renderX, XState.disarm, render_raiseOut, render_setNodeLock]
    · rfl
  · rfl

theorem render_withCons (s : State Row (List Row)) (c : List Row) :
    renderState { s with cons := some c } = { renderState s with cons := some (renderFile c) } := rfl

set_option linter.unusedSimpArgs false in
theorem render_moveArmed (x : XState Row (List Row)) (rows : List Row) (hcons : x.base.cons = some rows)
    (p : Pid) (a : Armed) :
    moveArmed byteOpsX (renderX x) p a = (moveArmed (absOpsX Row) x p a).map renderX := by
  have e1 : (renderState x.base).coll p = x.base.coll p := rfl
  have e2 : (renderState x.base).cons = some (renderFile rows) := by simp [renderState, hcons]
  have e3 : ∀ b, (renderState x.base).node b = (x.base.node b).map renderFile := fun _ => rfl
  unfold moveArmed
  simp only [renderX]
  rw [e1]
  cases hc : x.base.coll p with
  | idle => simp
  | collecting snap acc => simp
  | moving b rest acc buf pc =>
    cases pc with
    | nil => simp
    | cons act pc =>
      cases act with
      | read =>
        cases a with
        | fail f => cases f <;> simp
        | die d => cases d <;> simp
      | append =>
        cases a with
        | fail f =>
          cases f <;> simp [e2, hcons, renderX, XState.disarm, render_raiseOut, render_withCons, byte_opened_some]
        | die d =>
          cases d with
          | opened =>
            simp only [e2, hcons, Option.map_some, byte_opened_some, Option.some.injEq]
            rfl
          | removed => simp
      | remove =>
        cases a with
        | fail f =>
          cases f <;> simp [e2, hcons, renderX, XState.disarm, render_raiseOut, render_withCons, byte_opened_some]
        | die d =>
          cases d with
          | opened => simp
          | removed =>
            simp only [e3]
            cases hn : x.base.node b with
            | none => simp
            | some f =>
              simp only [Option.map_some, Option.some.injEq]
              have e : (renderState x.base).setNode b none = renderState (x.base.setNode b none) := by
                have := render_setNode x.base b none
                simpa using this.symm
              rw [e]
              rfl

theorem render_stepBase (x : XState Row (List Row)) (hl : LegalFiles x.base) (rows : List Row)
    (hcons : x.base.cons = some rows) (op : Op Row) :
    stepBase byteOpsX (renderX x) op = renderX (stepBase (absOpsX Row) x op) := by
  have hstep : step byteOps (renderState x.base) op = renderState (step (absOps Row) x.base op) :=
    render_step x.base hl op
  have hplain : ({ renderX x with base := step byteOpsX.toFileOps (renderX x).base op } : XState Row (List Char)) =
      renderX { x with base := step (absOpsX Row).toFileOps x.base op } := by
    simp only [renderX]
    congr 1
  have hdead : (renderX x).dead = x.dead := rfl
  have harmed : (renderX x).armed = x.armed := rfl
  cases op with
  | append w b r => simpa [stepBase, Op.pid] using hplain
  | beginCollect p snap =>
    by_cases hd : p ∈ x.dead
    · simp [stepBase, Op.pid, hd, hdead]
    · simpa [stepBase, Op.pid, hd, hdead] using hplain
  | endCollect p =>
    by_cases hd : p ∈ x.dead
    · simp [stepBase, Op.pid, hd, hdead]
    · simpa [stepBase, Op.pid, hd, hdead] using hplain
  | cancelAppend p r =>
    by_cases hd : p ∈ x.dead
    · simp [stepBase, Op.pid, hd, hdead]
    · simpa [stepBase, Op.pid, hd, hdead] using hplain
  | lockFile p =>
    by_cases hd : p ∈ x.dead
    · simp [stepBase, Op.pid, hd, hdead]
    · cases ha : x.armed p with
      | none => simpa [stepBase, Op.pid, hd, hdead, harmed, ha] using hplain
      | some a =>
        cases a with
        | die d => simpa [stepBase, Op.pid, hd, hdead, harmed, ha] using hplain
        | fail f =>
          cases f with
          | read => simpa [stepBase, Op.pid, hd, hdead, harmed, ha] using render_lockFailRead x p
          | «open» => simpa [stepBase, Op.pid, hd, hdead, harmed, ha] using hplain
          | write => simpa [stepBase, Op.pid, hd, hdead, harmed, ha] using hplain
          | remove => simpa [stepBase, Op.pid, hd, hdead, harmed, ha] using hplain
  | moveStep p =>
    by_cases hd : p ∈ x.dead
    · simp [stepBase, Op.pid, hd, hdead]
    · cases ha : x.armed p with
      | none => simpa [stepBase, Op.pid, hd, hdead, harmed, ha] using hplain
      | some a =>
        have hm := render_moveArmed x rows hcons p a
        cases hy : moveArmed (absOpsX Row) x p a with
        | none =>
          rw [hy] at hm
          simpa [stepBase, Op.pid, hd, hdead, harmed, ha, hm, hy] using hplain
        | some y =>
          rw [hy] at hm
          simp [stepBase, Op.pid, hd, hdead, harmed, ha, hm, hy]

/-! ### what the refinement needs of a state is kept by every step -/

/-- every node file holds legal rows and the consolidated file exists -/
structure BytesOk (x : XState Row (List Row)) : Prop where
  legal : LegalFiles x.base
  cons : x.base.cons.isSome

theorem legal_of_sub (s s' : State Row (List Row)) (hl : LegalFiles s)
    (h : ∀ b f, s'.node b = some f → s.node b = some f) : LegalFiles s' :=
  fun b f hf => hl b f (h b f hf)

theorem bytesOk_lockFailRead (x : XState Row (List Row)) (h : BytesOk x) (p : Pid) : BytesOk (lockFailRead x p) := by
  rw [lockFailRead_eq]
  split
  · split
    · refine ⟨legal_of_sub _ _ h.legal ?_, ?_⟩
      · intro b f hf
        simpa [raiseOut_node, State.setNodeLock] using hf
      · simpa [raiseOut_cons, State.setNodeLock] using h.cons
    · exact h
  · exact h

theorem bytesOk_moveArmed (x : XState Row (List Row)) (h : BytesOk x) (p : Pid) (a : Armed)
    (y : XState Row (List Row)) (hy : moveArmed (absOpsX Row) x p a = some y) : BytesOk y := by
  unfold moveArmed at hy
  dsimp only at hy
  split at hy
  · cases hy
    exact ⟨legal_of_sub _ _ h.legal (by intro b f hf; simpa [raiseOut_node] using hf), by simpa [raiseOut_cons] using h.cons⟩
  · cases hy
    exact ⟨legal_of_sub _ _ h.legal (by intro b f hf; simpa [raiseOut_node] using hf), by simp [raiseOut_cons]⟩
  · cases hy
    exact ⟨h.legal, rfl⟩
  · cases hy
    exact ⟨legal_of_sub _ _ h.legal (by intro b f hf; simpa [raiseOut_node] using hf), by simpa [raiseOut_cons] using h.cons⟩
  · split at hy
    · cases hy
    · cases hy
      refine ⟨legal_of_sub _ _ h.legal ?_, h.cons⟩
      intro b' f hf
      simp only [State.setColl, State.setNode] at hf
      split at hf
      · cases hf
      · exact hf
  · cases hy

theorem bytesOk_moveArmed_getD (x : XState Row (List Row)) (h : BytesOk x) (p : Pid) (a : Armed)
    (y0 : XState Row (List Row)) (h0 : BytesOk y0) : BytesOk ((moveArmed (absOpsX Row) x p a).getD y0) := by
  cases hm : moveArmed (absOpsX Row) x p a with
  | none => simpa using h0
  | some y => simpa using bytesOk_moveArmed x h p a y hm

theorem bytesOk_stepBase (x : XState Row (List Row)) (h : BytesOk x) (op : Op Row) (hop : op.Legal) :
    BytesOk (stepBase (absOpsX Row) x op) := by
  have hplain : BytesOk { x with base := step (absOpsX Row).toFileOps x.base op } :=
    ⟨legal_step x.base h.legal op hop, step_cons_isSome _ x.base op h.cons⟩
  unfold stepBase
  split
  · exact hplain
  · split
    · exact h
    · split
      · exact bytesOk_lockFailRead x h _
      · exact bytesOk_moveArmed_getD x h _ _ _ hplain
      · exact hplain

theorem bytesOk_stepX (x : XState Row (List Row)) (h : BytesOk x) (op : OpX Row) (hop : op.Legal) :
    BytesOk (stepX (absOpsX Row) x op) := by
  cases op with
  | base op => exact bytesOk_stepBase x h op hop
  | arm p a =>
    simp only [stepX]
    split
    · exact h
    · exact ⟨h.legal, h.cons⟩
  | kill p => exact ⟨h.legal, h.cons⟩
  | breakLocks => exact ⟨h.legal, h.cons⟩

theorem render_stepX (x : XState Row (List Row)) (h : BytesOk x) (op : OpX Row) :
    stepX byteOpsX (renderX x) op = renderX (stepX (absOpsX Row) x op) := by
  cases op with
  | base op =>
    obtain ⟨rows, hrows⟩ := Option.isSome_iff_exists.1 h.cons
    exact render_stepBase x h.legal rows hrows op
  | arm p a =>
    simp only [stepX]
    have hdead : (renderX x).dead = x.dead := rfl
    rw [hdead]
    split <;> rfl
  | kill p => rfl
  | breakLocks => rfl

theorem render_runX (x : XState Row (List Row)) (h : BytesOk x) (ops : List (OpX Row))
    (hops : ∀ op ∈ ops, op.Legal) :
    runX byteOpsX (renderX x) ops = renderX (runX (absOpsX Row) x ops) ∧ BytesOk (runX (absOpsX Row) x ops) := by
  induction ops generalizing x with
  | nil => exact ⟨rfl, h⟩
  | cons op ops ih =>
    simp only [runX, List.foldl_cons] at ih ⊢
    rw [render_stepX x h op]
    exact ih _ (bytesOk_stepX x h op (hops op (by simp))) (fun o ho => hops o (by simp [ho]))

theorem render_initX : renderX (initX (absOpsX Row) true) = initX byteOpsX true := by
  simp only [renderX, initX]
  congr 1

theorem bytesOk_initX : BytesOk (initX (absOpsX Row) true) :=
  ⟨legalFiles_init true, rfl⟩

/-! ### every row in the consolidated file is legal (so the file parses) -/

/-- the rows in the consolidated file and the rows a collector has read are legal -/
structure RowsLegal (s : State Row (List Row)) : Prop where
  cons : ∀ r ∈ consRows s, r.Legal
  buf : ∀ (p : Pid) (b : BatchId) (rest : List BatchId) (acc buf : List Row) (pc : List MoveAct),
      s.coll p = .moving b rest acc buf pc → ∀ r ∈ buf, r.Legal

theorem rowsLegal_init (created : Bool) : RowsLegal (init (absOps Row) created) := by
  constructor <;> cases created <;> simp [init, absOps, consRows]

/-- the collector `p` leaves its call, or nothing the statement looks at changes -/
theorem rowsLegal_of_sub (s s' : State Row (List Row)) (h : RowsLegal s)
    (hc : ∀ r, r ∈ consRows s' → r ∈ consRows s)
    (hb : ∀ p b rest acc buf pc, s'.coll p = .moving b rest acc buf pc →
      ∃ rest' acc' pc', s.coll p = .moving b rest' acc' buf pc') : RowsLegal s' := by
  refine ⟨fun r hr => h.cons r (hc r hr), ?_⟩
  intro p b rest acc buf pc hcoll r hr
  obtain ⟨rest', acc', pc', h'⟩ := hb p b rest acc buf pc hcoll
  exact h.buf p b rest' acc' buf pc' h' r hr

theorem rowsLegal_raiseOut (s : State Row (List Row)) (h : RowsLegal s) (p : Pid) (b : BatchId) :
    RowsLegal (raiseOut s p b) := by
  rw [raiseOut_eq]
  refine rowsLegal_of_sub s _ h (fun r hr => hr) ?_
  intro q b' rest acc buf pc hc
  simp only [State.setColl, State.setNodeLock] at hc
  split at hc
  · cases hc
  · exact ⟨rest, acc, pc, hc⟩

theorem rowsLegal_step (s : State Row (List Row)) (hs : Safe s) (hf : LegalFiles s) (h : RowsLegal s) (op : Op Row)
    (hop : op.Legal) : RowsLegal (step (absOps Row) s op) := by
  cases op with
  | append w b r =>
    simp only [step]
    rw [doAppend_eq]
    split
    · exact rowsLegal_of_sub s _ h (fun r hr => hr) (fun p b rest acc buf pc hc => ⟨rest, acc, pc, hc⟩)
    · exact h
  | beginCollect p snap =>
    simp only [step]
    rw [doBegin_eq]
    split
    · split
      · refine rowsLegal_of_sub s _ h (fun r hr => hr) ?_
        intro q b rest acc buf pc hc
        simp only [State.setColl] at hc
        split at hc
        · cases hc
        · exact ⟨rest, acc, pc, hc⟩
      · exact h
    · exact h
  | lockFile p =>
    simp only [step]
    rw [doLockFile_eq]
    split
    · next b rest acc hc =>
      split
      · split
        · exact rowsLegal_raiseOut _ (rowsLegal_of_sub s (s.setNodeLock b (some p)) h (fun r hr => hr)
            (fun p b rest acc buf pc hc => ⟨rest, acc, pc, hc⟩)) p b
        · next f hfile =>
          refine ⟨h.cons, ?_⟩
          intro q b' rest' acc' buf' pc' hc' r hr
          simp only [State.setColl, State.setNodeLock] at hc'
          split at hc'
          · cases hc'
            exact hf b f hfile r hr
          · exact h.buf q b' rest' acc' buf' pc' hc' r hr
      · exact h
    · exact h
  | moveStep p =>
    simp only [step]
    cases hc : s.coll p with
    | idle => rw [doMoveStep_idle s p hc]; exact h
    | collecting snap acc => rw [doMoveStep_collecting s p snap acc hc]; exact h
    | moving b rest acc buf pc =>
      obtain ⟨-, hpc⟩ := hs.moving p b rest acc buf pc hc
      rcases hpc with ⟨rfl, hnode⟩ | ⟨rfl, hnode, -⟩ | ⟨rfl, -⟩
      · rw [doMoveStep_append s p b rest acc buf hc]
        refine ⟨?_, ?_⟩
        · intro r hr
          simp only [consRows, State.setColl, Option.getD_some, List.mem_append] at hr
          rcases hr with hr | hr
          · exact h.cons r hr
          · exact h.buf p b rest acc buf _ hc r hr
        · intro q b' rest' acc' buf' pc' hc' r hr
          simp only [State.setColl] at hc'
          split at hc'
          · cases hc'
            exact h.buf p b rest acc buf _ hc r hr
          · exact h.buf q b' rest' acc' buf' pc' hc' r hr
      · rw [doMoveStep_remove s p b rest acc buf buf hc hnode]
        refine rowsLegal_of_sub s _ h (fun r hr => hr) ?_
        intro q b' rest' acc' buf' pc' hc'
        simp only [State.setColl, State.setNodeLock, State.setNode] at hc'
        split at hc'
        · cases hc'
        · exact ⟨rest', acc', pc', hc'⟩
      · rw [doMoveStep_nil s p b rest acc buf hc]; exact h
  | endCollect p =>
    simp only [step]
    rw [doEnd_eq]
    split
    · refine rowsLegal_of_sub s _ h (fun r hr => hr) ?_
      intro q b rest acc buf pc hc
      simp only [State.setColl] at hc
      split at hc
      · cases hc
      · exact ⟨rest, acc, pc, hc⟩
    · exact h
  | cancelAppend p r =>
    simp only [step]
    rw [doCancel_eq]
    split
    · split
      · refine ⟨?_, h.buf⟩
        intro x hx
        simp only [consRows, Option.getD_some, List.mem_append, List.mem_singleton] at hx
        rcases hx with hx | rfl
        · exact h.cons x hx
        · exact hop
      · exact h
    · exact h

theorem rowsLegal_opened (s : State Row (List Row)) (h : RowsLegal s) :
    RowsLegal ({ s with cons := some ((absOpsX Row).opened s.cons) } : State Row (List Row)) :=
  rowsLegal_of_sub s _ h (by intro r hr; simpa [consRows, opened_rows] using hr)
    (fun p b rest acc buf pc hc => ⟨rest, acc, pc, hc⟩)

theorem rowsLegal_lockFailRead (x : XState Row (List Row)) (h : RowsLegal x.base) (p : Pid) :
    RowsLegal (lockFailRead x p).base := by
  rw [lockFailRead_eq]
  split
  · next b _ _ _ =>
    split
    · exact rowsLegal_raiseOut _ (rowsLegal_of_sub x.base (x.base.setNodeLock b (some p)) h (fun r hr => hr)
        (fun p b rest acc buf pc hc => ⟨rest, acc, pc, hc⟩)) p b
    · exact h
  · exact h

theorem rowsLegal_moveArmed (x : XState Row (List Row)) (h : RowsLegal x.base) (p : Pid) (a : Armed)
    (y : XState Row (List Row)) (hy : moveArmed (absOpsX Row) x p a = some y) : RowsLegal y.base := by
  unfold moveArmed at hy
  dsimp only at hy
  split at hy
  · cases hy; exact rowsLegal_raiseOut _ h _ _
  · cases hy; exact rowsLegal_raiseOut _ (rowsLegal_opened _ h) _ _
  · cases hy; exact rowsLegal_opened _ h
  · cases hy; exact rowsLegal_raiseOut _ h _ _
  · next b rest acc buf pc hc =>
    split at hy
    · cases hy
    · cases hy
      refine rowsLegal_of_sub x.base _ h (fun r hr => hr) ?_
      intro q b' rest' acc' buf' pc' hc'
      simp only [State.setColl, State.setNode] at hc'
      split at hc'
      · next hq =>
        cases hc'
        exact ⟨rest, acc, _, hq ▸ hc⟩
      · exact ⟨rest', acc', pc', hc'⟩
  · cases hy

theorem rowsLegal_moveArmed_getD (x : XState Row (List Row)) (h : RowsLegal x.base) (p : Pid) (a : Armed)
    (s' : State Row (List Row)) (hs' : RowsLegal s') :
    RowsLegal ((moveArmed (absOpsX Row) x p a).getD { x with base := s' }).base := by
  cases hm : moveArmed (absOpsX Row) x p a with
  | none => simpa using hs'
  | some y => simpa using rowsLegal_moveArmed x h p a y hm

theorem rowsLegal_breakLocks (x : XState Row (List Row)) (h : RowsLegal x.base) : RowsLegal (breakLocks x).base := by
  refine rowsLegal_of_sub x.base _ h (fun r hr => hr) ?_
  intro q b rest acc buf pc hc
  simp only [breakLocks] at hc
  split at hc
  · cases hc
  · exact ⟨rest, acc, pc, hc⟩

theorem rowsLegal_stepX (x : XState Row (List Row)) (hs : Safe x.base) (hf : LegalFiles x.base)
    (h : RowsLegal x.base) (op : OpX Row) (hop : op.Legal) : RowsLegal (stepX (absOpsX Row) x op).base := by
  cases op with
  | arm p a =>
    simp only [stepX]
    split <;> exact h
  | kill p => exact h
  | breakLocks => exact rowsLegal_breakLocks x h
  | base op =>
    have hplain : RowsLegal (step (absOpsX Row).toFileOps x.base op) := rowsLegal_step x.base hs hf h op hop
    show RowsLegal (stepBase (absOpsX Row) x op).base
    unfold stepBase
    split
    · exact hplain
    · split
      · exact h
      · split
        · exact rowsLegal_lockFailRead x h _
        · exact rowsLegal_moveArmed_getD x h _ _ _ hplain
        · exact hplain

theorem all_runX (x : XState Row (List Row)) (hs : Safe x.base) (hb : BytesOk x) (hr : RowsLegal x.base)
    (ops : List (OpX Row)) (hops : ∀ op ∈ ops, op.Legal) :
    BytesOk (runX (absOpsX Row) x ops) ∧ RowsLegal (runX (absOpsX Row) x ops).base := by
  induction ops generalizing x with
  | nil => exact ⟨hb, hr⟩
  | cons op ops ih =>
    have hop := hops op (by simp)
    exact ih _ (safe_stepX x hs op) (bytesOk_stepX x hb op hop) (rowsLegal_stepX x hs hb.legal hr op hop)
      (fun o ho => hops o (by simp [ho]))

end Jade.Results
