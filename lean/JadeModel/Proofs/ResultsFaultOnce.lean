import JadeModel.Proofs.ResultsFault

/-!
Second invariant of the fault model (`Props/C08Faults.lean`): *no row is ever reported twice*, whatever
failed or died.  Counting argument: every row a finished round has returned, every row the round in
progress (alive or dead) has taken out of a node file and not yet returned, and every row still in a
node file are distinct occurrences of rows written by runners.  An aborted / killed round only ever
drops its claim (its rows are then reported to no one), it never returns it.
-/

namespace Jade.Results
open Jade.Gen.Results

/-- rows a collection has taken out of node files (the removal has happened) and not yet returned -/
def Coll.claimed {ρ : Type} : Coll ρ → List ρ
  | .idle => []
  | .collecting _ acc => acc
  | .moving _ _ acc buf pc => if removed pc then acc ++ buf else acc

section Once
variable {ρ : Type} [DecidableEq ρ]

structure Once (s : AState ρ) : Prop where
  safe : Safe s
  cons_lock : ∀ p : Pid, s.consLock = some p ↔ s.coll p ≠ .idle
  atMost : ∀ a : ρ, (returnedRows s).count a + (active s).claimed.count a + (nodeRows s).count a
      ≤ (writtenRows s).count a

theorem once_init (created : Bool) : Once (init (absOps ρ) created) := by
  refine ⟨safe_init created, ?_, ?_⟩ <;> cases created <;>
    simp [init, absOps, writtenRows, returnedRows, active, nodeRows, Coll.claimed]

theorem Once.others_idle {s : AState ρ} (h : Once s) {p q : Pid} (hp : s.coll p ≠ .idle) (hq : q ≠ p) :
    s.coll q = .idle := by
  apply Classical.byContradiction; intro hc
  have h1 := (h.cons_lock p).2 hp
  have h2 := (h.cons_lock q).2 hc
  rw [h1] at h2
  exact hq (Option.some.inj h2).symm

theorem Once.all_idle {s : AState ρ} (h : Once s) (hl : s.consLock = none) (q : Pid) : s.coll q = .idle := by
  apply Classical.byContradiction; intro hc
  have := (h.cons_lock q).2 hc
  rw [hl] at this
  cases this

theorem Once.active_eq {s : AState ρ} (h : Once s) {p : Pid} (hp : s.coll p ≠ .idle) : active s = s.coll p := by
  simp [active, (h.cons_lock p).2 hp]

omit [DecidableEq ρ] in
theorem Once.active_idle {s : AState ρ} (hl : s.consLock = none) : active s = .idle := by
  simp [active, hl]

/-- nothing the counting looks at changed -/
theorem once_of_same (s s' : AState ρ) (h : Once s) (hs : Safe s') (h1 : s'.consLock = s.consLock)
    (h2 : s'.coll = s.coll) (h3 : s'.returned = s.returned) (h4 : s'.node = s.node) (h5 : s'.dir = s.dir)
    (h6 : s'.written = s.written) : Once s' := by
  refine ⟨hs, ?_, ?_⟩
  · intro p; rw [h1, h2]; exact h.cons_lock p
  · intro a
    have := h.atMost a
    simpa [returnedRows, active, nodeRows, writtenRows, h1, h2, h3, h4, h5, h6] using this

/-- the holder of the consolidated lock drops out (exception / stale marker broken): it returns nothing -/
theorem once_drop (s s' : AState ρ) (h : Once s) (hs : Safe s') (p : Pid) (hp : s.coll p ≠ .idle)
    (h1 : s'.consLock = none) (h2 : ∀ q, s'.coll q = if q = p then .idle else s.coll q)
    (h3 : returnedRows s' = returnedRows s) (h4 : s'.node = s.node) (h5 : s'.dir = s.dir)
    (h6 : s'.written = s.written) : Once s' := by
  refine ⟨hs, ?_, ?_⟩
  · intro q
    rw [h1, h2 q]
    by_cases hq : q = p
    · simp [hq]
    · simp [hq, h.others_idle hp hq]
  · intro a
    have := h.atMost a
    simp only [Once.active_idle h1, Coll.claimed, List.count_nil, h3, nodeRows, h4, h5, writtenRows, h6] at this ⊢
    omega

theorem once_append (s : AState ρ) (h : Once s) (w : Wid) (b : BatchId) (r : ρ) :
    Once (doAppend (absOps ρ) s w b r) := by
  have hs := safe_append s h.safe w b r
  rw [doAppend_eq] at hs ⊢
  split at hs
  next hl =>
    rw [if_pos hl]
    refine ⟨hs, h.cons_lock, ?_⟩
    intro a
    have h1 := h.atMost a
    have h2 := (nodeRows_append s h.safe.dir_nodup h.safe.dir_iff b r w).count_eq a
    have e1 : writtenRows ({ (s.setNode b (some ((s.node b).getD [] ++ [r]))) with
        dir := if (s.node b).isSome then s.dir else s.dir ++ [b]
        written := s.written ++ [(w, b, r)] } : AState ρ) = writtenRows s ++ [r] := by
      simp [writtenRows]
    rw [e1]
    simp only [returnedRows, active, State.setNode, List.count_append] at h1 h2 ⊢
    omega
  next hl => rw [if_neg hl]; exact h

theorem once_begin (s : AState ρ) (h : Once s) (p : Pid) (snap : List BatchId) : Once (doBegin s p snap) := by
  have hs := safe_begin s h.safe p snap
  rw [doBegin_eq] at hs ⊢
  split
  next hidle =>
    split
    next hen =>
      simp only [hidle, hen, and_self, if_true] at hs
      obtain ⟨hl, -⟩ := hen
      refine ⟨hs, ?_, ?_⟩
      · intro q
        have := h.all_idle hl q
        simp only [State.setColl]
        by_cases hq : q = p
        · simp [hq]
        · simp [hq, this, Ne.symm hq]
      · intro a
        have := h.atMost a
        simpa [returnedRows, active, nodeRows, writtenRows, hl, State.setColl, Coll.claimed] using this
    · exact h
  · exact h

/-- an exception leaves the collection of `p` -/
theorem once_raiseOut (s : AState ρ) (h : Once s) (p : Pid) (b : BatchId) (hp : s.coll p ≠ .idle)
    (hs : Safe (raiseOut s p b)) : Once (raiseOut s p b) := by
  refine once_drop s _ h hs p hp ?_ ?_ ?_ ?_ ?_ ?_ <;> rw [raiseOut_eq]
  · intro q; simp [State.setColl, State.setNodeLock]
  · simp [returnedRows, Ret.toRows]
  all_goals rfl

omit [DecidableEq ρ] in
/-- a free node lock is taken (intermediate state of a step) -/
theorem safe_takeLock (s : AState ρ) (h : Safe s) (p : Pid) (b : BatchId) (hl : s.nodeLock b = none) :
    Safe (s.setNodeLock b (some p)) := by
  exact {
    dir_nodup := h.dir_nodup
    dir_iff := h.dir_iff
    kept := h.kept
    moving := by
      intro q b' rest' acc' buf' pc' hc'
      replace hc' : s.coll q = .moving b' rest' acc' buf' pc' := hc'
      have hm := h.moving q b' rest' acc' buf' pc' hc'
      have hne : b' ≠ b := by
        intro e
        have h1 := hm.1
        rw [e, hl] at h1
        cases h1
      simpa [MovingOk, State.setNodeLock, consRows, hne] using hm }

theorem once_lock (s : AState ρ) (h : Once s) (p : Pid) : Once (doLockFile (absOps ρ) s p) := by
  have hs := safe_lock s h.safe p
  rw [doLockFile_eq] at hs ⊢
  split
  next b rest acc hc =>
    have hp : s.coll p ≠ .idle := by simp [hc]
    simp only [hc] at hs
    split
    next hl =>
      simp only [hl, if_true] at hs
      split
      next hn =>
        simp only [hn] at hs
        have h' : Once (s.setNodeLock b (some p)) :=
          once_of_same s _ h (safe_takeLock s h.safe p b hl) rfl rfl rfl rfl rfl rfl
        exact once_raiseOut _ h' p b hp hs
      next f hf =>
        simp only [hf] at hs
        refine ⟨hs, ?_, ?_⟩
        · intro q
          have := h.cons_lock q
          simp only [State.setColl, State.setNodeLock]
          by_cases hq : q = p
          · subst hq; simpa [hc] using this
          · simpa [hq] using this
        · intro a
          have := h.atMost a
          rw [h.active_eq hp, hc] at this
          have hcl := (h.cons_lock p).2 hp
          simpa [returnedRows, active, nodeRows, writtenRows, hcl, State.setColl, State.setNodeLock, Coll.claimed,
            removed] using this
    · exact h
  · exact h

theorem once_move (s : AState ρ) (h : Once s) (p : Pid) : Once (doMoveStep (absOps ρ) s p) := by
  have hs := safe_move s h.safe p
  cases hc : s.coll p with
  | idle => rw [doMoveStep_idle s p hc]; exact h
  | collecting snap acc => rw [doMoveStep_collecting s p snap acc hc]; exact h
  | moving b rest acc buf pc =>
    have hp : s.coll p ≠ .idle := by simp [hc]
    have hcl := (h.cons_lock p).2 hp
    obtain ⟨hl, hpc⟩ := h.safe.moving p b rest acc buf pc hc
    rcases hpc with ⟨rfl, hnode⟩ | ⟨rfl, hnode, hsub⟩ | ⟨rfl, -⟩
    · rw [doMoveStep_append s p b rest acc buf hc] at hs ⊢
      refine ⟨hs, ?_, ?_⟩
      · intro q
        have := h.cons_lock q
        simp only [State.setColl]
        by_cases hq : q = p
        · subst hq; simpa [hc] using this
        · simpa [hq] using this
      · intro a
        have := h.atMost a
        rw [h.active_eq hp, hc] at this
        simpa [returnedRows, active, nodeRows, writtenRows, hcl, State.setColl, Coll.claimed, removed] using this
    · rw [doMoveStep_remove s p b rest acc buf buf hc hnode] at hs ⊢
      have hbdir : b ∈ s.dir := (h.safe.dir_iff b).2 (by simp [hnode])
      refine ⟨hs, ?_, ?_⟩
      · intro q
        have := h.cons_lock q
        simp only [State.setColl, State.setNodeLock, State.setNode]
        by_cases hq : q = p
        · subst hq; simpa [hc] using this
        · simpa [hq] using this
      · intro a
        have h1 := h.atMost a
        rw [h.active_eq hp, hc] at h1
        have h2 := (flatMap_erase_perm s.dir (fun c => (s.node c).getD [])
          (fun c => ((if c = b then none else s.node c) : Option (List ρ)).getD []) b h.safe.dir_nodup hbdir
          (by intro c hcb; simp [hcb])).count_eq a
        simp only [returnedRows, active, nodeRows, writtenRows, hcl, State.setColl, State.setNodeLock,
          State.setNode, Coll.claimed, removed, hnode, Option.getD_some, List.count_append, if_true,
          List.contains_cons, List.contains_nil, Bool.or_false, BEq.rfl, Bool.not_true, Bool.false_eq_true,
          if_false] at h1 h2 ⊢
        omega
    · rw [doMoveStep_nil s p b rest acc buf hc]; exact h

theorem once_end (s : AState ρ) (h : Once s) (p : Pid) : Once (doEnd s p) := by
  have hs := safe_end s h.safe p
  rw [doEnd_eq] at hs ⊢
  split
  next acc hc =>
    have hp : s.coll p ≠ .idle := by simp [hc]
    simp only [hc] at hs
    refine ⟨hs, ?_, ?_⟩
    · intro q
      simp only [State.setColl]
      by_cases hq : q = p
      · simp [hq]
      · simp [hq, h.others_idle hp hq]
    · intro a
      have := h.atMost a
      rw [h.active_eq hp, hc] at this
      simp only [returnedRows, active, nodeRows, writtenRows, State.setColl, Coll.claimed, List.flatMap_append,
        List.flatMap_cons, List.flatMap_nil, Ret.toRows, List.append_nil, List.count_append, List.count_nil] at this ⊢
      omega
  · exact h

theorem once_cancel (s : AState ρ) (h : Once s) (p : Pid) (r : ρ) : Once (doCancel (absOps ρ) s p r) := by
  have hs := safe_cancel s h.safe p r
  rw [doCancel_eq] at hs ⊢
  split
  next hidle =>
    simp only [hidle] at hs
    split
    next hl =>
      rw [if_pos hl] at hs
      exact once_of_same s _ h hs rfl rfl rfl rfl rfl rfl
    · exact h
  · exact h

theorem once_step (s : AState ρ) (h : Once s) (op : Op ρ) : Once (step (absOps ρ) s op) := by
  cases op with
  | append w b r => exact once_append s h w b r
  | beginCollect p snap => exact once_begin s h p snap
  | lockFile p => exact once_lock s h p
  | moveStep p => exact once_move s h p
  | endCollect p => exact once_end s h p
  | cancelAppend p r => exact once_cancel s h p r

/-! ### failures, deaths, stale markers -/

theorem once_lockFailRead (x : AXState ρ) (h : Once x.base) (p : Pid) : Once (lockFailRead x p).base := by
  have hs := safe_lockFailRead x h.safe p
  rw [lockFailRead_eq] at hs ⊢
  split
  next b rest acc hc =>
    have hp : x.base.coll p ≠ .idle := by simp [hc]
    simp only [hc] at hs
    split
    next hl =>
      rw [if_pos hl] at hs
      have h' : Once (x.base.setNodeLock b (some p)) :=
        once_of_same _ _ h (safe_takeLock _ h.safe p b hl) rfl rfl rfl rfl rfl rfl
      exact once_raiseOut _ h' p b hp hs
    · exact h
  · exact h

theorem once_moveArmed (x : AXState ρ) (h : Once x.base) (p : Pid) (a : Armed) (y : AXState ρ)
    (hy : moveArmed (absOpsX ρ) x p a = some y) : Once y.base := by
  have hs := safe_moveArmed x h.safe p a y hy
  unfold moveArmed at hy
  dsimp only at hy
  split at hy
  · next b _ _ _ _ hc =>
    cases hy
    exact once_raiseOut _ h p b (by simp [hc]) hs
  · next b _ _ _ _ hc =>
    cases hy
    have h' : Once ({ x.base with cons := some ((absOpsX ρ).opened x.base.cons) } : AState ρ) :=
      once_of_same _ _ h (safe_opened _ h.safe) rfl rfl rfl rfl rfl rfl
    exact once_raiseOut _ h' p b (by simp [hc]) hs
  · cases hy
    exact once_of_same _ _ h hs rfl rfl rfl rfl rfl rfl
  · next b _ _ _ _ hc =>
    cases hy
    exact once_raiseOut _ h p b (by simp [hc]) hs
  · next b rest acc buf pc hc =>
    split at hy
    · cases hy
    · cases hy
      have hp : x.base.coll p ≠ .idle := by simp [hc]
      have hcl := (h.cons_lock p).2 hp
      obtain ⟨hl, hpc⟩ := h.safe.moving p b rest acc buf _ hc
      have ⟨hpc', hnode⟩ : pc = [] ∧ x.base.node b = some buf := by
        rcases hpc with ⟨he, -⟩ | ⟨he, hn, -⟩ | ⟨he, -⟩
        · cases he
        · cases he; exact ⟨rfl, hn⟩
        · cases he
      subst hpc'
      have hbdir : b ∈ x.base.dir := (h.safe.dir_iff b).2 (by simp [hnode])
      refine ⟨hs, ?_, ?_⟩
      · intro q
        have := h.cons_lock q
        simp only [State.setColl, State.setNode]
        by_cases hq : q = p
        · subst hq; simpa [hc] using this
        · simpa [hq] using this
      · intro a
        have h1 := h.atMost a
        rw [h.active_eq hp, hc] at h1
        have h2 := (flatMap_erase_perm x.base.dir (fun c => (x.base.node c).getD [])
          (fun c => ((if c = b then none else x.base.node c) : Option (List ρ)).getD []) b h.safe.dir_nodup hbdir
          (by intro c hcb; simp [hcb])).count_eq a
        simp only [returnedRows, active, nodeRows, writtenRows, hcl, State.setColl, State.setNode, Coll.claimed,
          removed, hnode, Option.getD_some, List.count_append, if_true, List.contains_cons, List.contains_nil,
          Bool.or_false, BEq.rfl, Bool.not_true, Bool.false_eq_true, if_false, Bool.not_false] at h1 h2 ⊢
        omega
  · cases hy

theorem once_moveArmed_getD (x : AXState ρ) (h : Once x.base) (p : Pid) (a : Armed) (s' : AState ρ)
    (hs' : Once s') : Once ((moveArmed (absOpsX ρ) x p a).getD { x with base := s' }).base := by
  cases hm : moveArmed (absOpsX ρ) x p a with
  | none => simpa using hs'
  | some y => simpa using once_moveArmed x h p a y hm

theorem once_stepBase (x : AXState ρ) (h : Once x.base) (op : Op ρ) : Once (stepBase (absOpsX ρ) x op).base := by
  have hplain : Once (step (absOpsX ρ).toFileOps x.base op) := once_step x.base h op
  unfold stepBase
  split
  · exact hplain
  · split
    · exact h
    · split
      · exact once_lockFailRead x h _
      · exact once_moveArmed_getD x h _ _ _ hplain
      · exact hplain

theorem once_breakLocks (x : AXState ρ) (h : Once x.base) : Once (breakLocks x).base := by
  have hs := safe_breakLocks x h.safe
  cases hcl : x.base.consLock with
  | none =>
    refine once_of_same _ _ h hs ?_ ?_ rfl rfl rfl rfl
    · simp [breakLocks, hcl]
    · funext q
      simp [breakLocks, h.all_idle hcl q]
  | some p =>
    have hp : x.base.coll p ≠ .idle := (h.cons_lock p).1 hcl
    by_cases hd : p ∈ x.dead
    · refine once_drop _ _ h hs p hp ?_ ?_ rfl rfl rfl rfl
      · simp [breakLocks, hcl, hd]
      · intro q
        by_cases hq : q = p
        · simp [breakLocks, hq, hd]
        · simp [breakLocks, hq, h.others_idle hp hq]
    · refine once_of_same _ _ h hs ?_ ?_ rfl rfl rfl rfl
      · simp [breakLocks, hcl, hd]
      · funext q
        by_cases hq : q = p
        · simp [breakLocks, hq, hd]
        · simp [breakLocks, h.others_idle hp hq]

theorem once_stepX (x : AXState ρ) (h : Once x.base) (op : OpX ρ) : Once (stepX (absOpsX ρ) x op).base := by
  cases op with
  | base op => exact once_stepBase x h op
  | arm p a =>
    simp only [stepX]
    split <;> exact h
  | kill p => exact h
  | breakLocks => exact once_breakLocks x h

theorem once_runX (x : AXState ρ) (h : Once x.base) (ops : List (OpX ρ)) : Once (runX (absOpsX ρ) x ops).base := by
  induction ops generalizing x with
  | nil => exact h
  | cons op ops ih => exact ih _ (once_stepX x h op)

end Once
end Jade.Results
