import JadeModel.Model.Slurm

/-! Helper lemmas for C18 (SLURM boundary). -/

namespace Jade.Slurm
open Jade.Gen.Slurm

/-- The words the generated table maps to COMPLETE. -/
def completeWords : List String :=
  (statuses.filter (fun p => p.2 == "COMPLETE")).map (·.1)

theorem lookup_mem {α β} [BEq α] [LawfulBEq α] (l : List (α × β)) (k : α) (v : β)
    (h : l.lookup k = some v) : (k, v) ∈ l := by
  induction l with
  | nil => simp at h
  | cons p ps ih =>
    obtain ⟨a, b⟩ := p
    simp only [List.lookup] at h
    split at h
    · next heq =>
      have : k = a := by simpa using heq
      subst this; simp at h; subst h; simp
    · exact List.mem_cons_of_mem _ (ih h)

theorem statusOf_complete (w : String) (h : statusOf w = "COMPLETE") (hd : statusDefault ≠ "COMPLETE") :
    w ∈ completeWords := by
  unfold statusOf at h
  split at h
  · next s hs =>
    subst h
    have := lookup_mem _ _ _ hs
    simp only [completeWords, List.mem_map, List.mem_filter]
    exact ⟨(w, "COMPLETE"), ⟨this, by simp⟩, rfl⟩
  · exact absurd h hd

theorem mem_takeWhile_imp {α} {p : α → Bool} {l : List α} {x : α} (h : x ∈ l.takeWhile p) :
    p x = true :=
  (List.all_eq_true.1 (List.all_takeWhile (l := l) (p := p))) x h

/-! ### parseLines characterisation -/

theorem parseLines_ok_iff (ls : List (List Char)) (ps : List (String × String)) :
    parseLines ls = .ok ps ↔
      (ls.filterMap parseLine) = ps.map (fun p => Except.ok p) := by
  induction ls generalizing ps with
  | nil => cases ps <;> simp [parseLines]
  | cons l ls ih =>
    simp only [parseLines, List.filterMap_cons]
    cases hl : parseLine l with
    | none => simpa using ih ps
    | some r =>
      cases r with
      | error e =>
        simp only
        constructor
        · intro h; cases h
        · intro h
          cases ps with
          | nil => simp at h
          | cons p ps => simp at h
      | ok p =>
        simp only
        cases hr : parseLines ls with
        | error e =>
          simp only
          constructor
          · intro h; cases h
          · intro h
            cases ps with
            | nil => simp at h
            | cons q qs =>
              simp only [List.map_cons, List.cons.injEq] at h
              have := (ih qs).2 h.2
              rw [hr] at this; cases this
        | ok qs =>
          simp only
          have hq := (ih qs).1 hr
          constructor
          · intro h
            cases h
            simp [hq]
          · intro h
            cases ps with
            | nil => simp at h
            | cons q qs' =>
              simp only [List.map_cons, List.cons.injEq, Except.ok.injEq] at h
              obtain ⟨h1, h2⟩ := h
              subst h1
              have := (ih qs').2 h2
              rw [hr] at this
              cases this
              rfl

/-- A malformed non-empty line makes the whole parse an assertion error. -/
theorem parseLines_malformed (ls : List (List Char)) (l : List Char) (hl : l ∈ ls)
    (hne : l ≠ []) (hbad : ∀ a b, splitWs l ≠ [a, b]) : parseLines ls = .error .assertion := by
  induction ls with
  | nil => cases hl
  | cons x xs ih =>
    simp only [parseLines]
    rcases List.mem_cons.1 hl with h | h
    · subst h
      have : parseLine l = some (.error .assertion) := by
        unfold parseLine
        rw [if_neg hne]
        split
        · next a b heq => exact absurd heq (hbad a b)
        · rfl
      simp [this]
    · have ihx := ih h
      cases hx : parseLine x with
      | none => simpa using ihx
      | some r =>
        cases r with
        | error e =>
          -- the only error parseLine produces is `assertion`
          unfold parseLine at hx
          split at hx
          · cases hx
          · split at hx <;> cases hx
            rfl
        | ok p => simp [ihx]

/-! ### retry loop -/

theorem retryLoop_count_le (n : Nat) (ho : Bool) (fuel k : Nat) (outs : List Attempt) :
    (retryLoop n ho fuel k outs).1 ≤ k + fuel := by
  induction fuel generalizing k outs with
  | zero => simp [retryLoop]
  | succ f ih =>
    cases outs with
    | nil => simp [retryLoop]
    | cons a rest =>
      simp only [retryLoop]
      split
      · simp only; omega
      · have := ih (k + 1) rest; omega

end Jade.Slurm
