import JadeModel.Proofs.SystemBase
import JadeModel.Proofs.SystemRoleStep
import JadeModel.Proofs.SystemOrphanStep
import JadeModel.Proofs.SystemBatchLocStep
import JadeModel.Proofs.SystemBatchJobsStep
import JadeModel.Proofs.SystemBatchIdsStep
import JadeModel.Proofs.SystemBatchNodupStep

/-! Invariants of the system model (`Jade.Sys.step`), each preserved by every accepted op.
    Definitions: `SystemBase`; the step lemmas are in separate files so that they compile in parallel. -/

namespace Jade.Sys

theorem batchInv_step {s s' : Sys} {op : Op} (hi : BatchInv s) (h : step s op = some s') : BatchInv s' := by
  obtain ⟨l1, l2, l3⟩ := batchInv_loc_step hi h
  obtain ⟨n1, n2⟩ := batchInv_nodup_step hi h
  exact ⟨roleInv_step hi.role h, l1, l2, l3, batchInv_jobs_step hi h, batchInv_ids_step hi h, n1, n2⟩

theorem batchInv_run {s s' : Sys} (ops : List Op) (hi : BatchInv s) (h : run s ops = some s') : BatchInv s' := by
  induction ops generalizing s with
  | nil => simp [run] at h; subst h; exact hi
  | cons op ops ih =>
    simp only [run] at h
    split at h
    · next s1 hs => exact ih (batchInv_step hi hs) h
    · cases h

end Jade.Sys
