import JadeModel.Proofs.Realize
import JadeModel.Model.System

/-! Invariants of the system model (`Jade.Sys.step`), each preserved by every accepted op. -/

namespace Jade.Sys

/-- the process is between a successful promotion and its demotion -/
def holds : SPc → Bool
  | .fresh => false
  | .gone => false
  | _ => true

/-- the process may still act on the marker it created -/
def owns (a : Bool) (x : SubP) : Bool :=
  a && x.hasMarker && (x.pc == .marked || x.pc == .persisted)

/-- the marker of a crashed round: nobody will remove it, nobody can create one -/
def Orphan (s : Sys) : Prop :=
  s.marker = true ∧ ∀ q a y, s.procs q = .sub a y → owns a y = false

/-! ### basic facts about the process table -/

@[simp] theorem procs_setProc (s : Sys) (p q : Pid) (x : Proc) :
    (setProc s p x).procs q = if q = p then x else s.procs q := rfl

@[simp] theorem procs_setSub (s : Sys) (p q : Pid) (x : SubP) :
    (setSub s p x).procs q = if q = p then .sub true x else s.procs q := rfl

@[simp] theorem procs_setNode (s : Sys) (p q : Pid) (x : NodeP) :
    (setNode s p x).procs q = if q = p then .node true x else s.procs q := rfl

theorem getSub_eq {s : Sys} {p : Pid} {x : SubP} (h : getSub s p = some x) : s.procs p = .sub true x := by
  unfold getSub at h
  split at h
  · next y hy => cases h; exact hy
  · cases h

theorem getNode_eq {s : Sys} {p : Pid} {x : NodeP} (h : getNode s p = some x) : s.procs p = .node true x := by
  unfold getNode at h
  split at h
  · next y hy => cases h; exact hy
  · cases h

@[simp] theorem setSub_fields (s : Sys) (p : Pid) (x : SubP) :
    (setSub s p x).disk = s.disk ∧ (setSub s p x).submitter = s.submitter ∧
    (setSub s p x).marker = s.marker ∧ (setSub s p x).batches = s.batches ∧
    (setSub s p x).processed = s.processed ∧ (setSub s p x).nodeFile = s.nodeFile ∧
    (setSub s p x).slurm = s.slurm ∧ (setSub s p x).starts = s.starts ∧ (setSub s p x).sc = s.sc ∧
    (setSub s p x).lateSbatch = s.lateSbatch ∧ (setSub s p x).completions = s.completions ∧
    (setSub s p x).summaries = s.summaries := by
  simp [setSub, setProc]

@[simp] theorem setNode_fields (s : Sys) (p : Pid) (x : NodeP) :
    (setNode s p x).disk = s.disk ∧ (setNode s p x).submitter = s.submitter ∧
    (setNode s p x).marker = s.marker ∧ (setNode s p x).batches = s.batches ∧
    (setNode s p x).processed = s.processed ∧ (setNode s p x).nodeFile = s.nodeFile ∧
    (setNode s p x).slurm = s.slurm ∧ (setNode s p x).starts = s.starts ∧ (setNode s p x).sc = s.sc ∧
    (setNode s p x).lateSbatch = s.lateSbatch ∧ (setNode s p x).completions = s.completions ∧
    (setNode s p x).summaries = s.summaries := by
  simp [setNode, setProc]

@[simp] theorem setProc_fields (s : Sys) (p : Pid) (x : Proc) :
    (setProc s p x).disk = s.disk ∧ (setProc s p x).submitter = s.submitter ∧
    (setProc s p x).marker = s.marker ∧ (setProc s p x).batches = s.batches ∧
    (setProc s p x).processed = s.processed ∧ (setProc s p x).nodeFile = s.nodeFile ∧
    (setProc s p x).slurm = s.slurm ∧ (setProc s p x).starts = s.starts ∧ (setProc s p x).sc = s.sc ∧
    (setProc s p x).lateSbatch = s.lateSbatch ∧ (setProc s p x).completions = s.completions ∧
    (setProc s p x).summaries = s.summaries := by
  simp [setProc]

/-! ### the role invariant (C10 at system level; the backbone of C01/C11) -/

structure RoleInv (s : Sys) : Prop where
  /-- whoever is past promotion and before demotion — alive or dead — is the submitter on disk -/
  holder : ∀ q a y, s.procs q = .sub a y → holds y.pc = true → s.submitter = some q
  /-- a marker flag in a process means the marker file exists and the process holds the role -/
  markerOf : ∀ q a y, s.procs q = .sub a y → y.hasMarker = true → s.marker = true ∧ holds y.pc = true
  /-- in the submit phase the process owns the marker -/
  marked : ∀ q a y, s.procs q = .sub a y → (y.pc = .marked ∨ y.pc = .persisted) → y.hasMarker = true
  /-- batches handed out but not yet persisted exist only while the marker is held -/
  pendMarker : ∀ q a y, s.procs q = .sub a y → y.pend ≠ [] → y.hasMarker = true
  /-- after `update_job_status` nothing is pending -/
  persistedPend : ∀ q a y, s.procs q = .sub a y → y.pc = .persisted → y.pend = []

theorem roleInv_init (sc : Scn) : RoleInv (init sc) := by
  constructor <;> intro q a y h <;> simp [init] at h

end Jade.Sys

namespace Jade.Sys

theorem getSub_iff (s : Sys) (p : Pid) (x : SubP) : getSub s p = some x ↔ s.procs p = .sub true x := by
  constructor
  · exact getSub_eq
  · intro h; simp [getSub, h]

theorem getNode_iff (s : Sys) (p : Pid) (x : NodeP) : getNode s p = some x ↔ s.procs p = .node true x := by
  constructor
  · exact getNode_eq
  · intro h; simp [getNode, h]

set_option linter.unusedSimpArgs false

/-- unfold one accepted step into its cases -/
macro "step_cases" h:ident : tactic => `(tactic|
  (simp only [step] at $h:ident
   repeat' split at $h:ident
   all_goals first | cases $h:ident | skip
   all_goals try simp only [getSub_iff, getNode_iff] at *))

macro "frame_simp" "at" hq:ident : tactic => `(tactic|
  try simp only [procs_setSub, procs_setNode, procs_setProc, setSub_fields, setNode_fields, setProc_fields] at $hq:ident ⊢)

macro "frame_goal" : tactic => `(tactic|
  try simp only [procs_setSub, procs_setNode, procs_setProc, setSub_fields, setNode_fields, setProc_fields])


end Jade.Sys

namespace Jade.Sys

/-- the in-memory state of whoever the `submitter` field names (alive or dead) -/
def holderSub (s : Sys) : Option SubP :=
  match s.submitter with
  | some q => (match s.procs q with
    | .sub _ y => some y
    | _ => none)
  | none => none

def holderPend (s : Sys) : List JobId :=
  match holderSub s with
  | some y => y.pend
  | none => []

def holderBidx (s : Sys) : Nat :=
  match holderSub s with
  | some y => y.bidx
  | none => 0

/-- every batch handed out is accounted for: on disk, or pending in the role holder's memory, or
    behind the marker of a crashed round (after which nobody submits again) -/
structure BatchInv (s : Sys) : Prop where
  role : RoleInv s
  /-- the holder's copy never regresses a job to NOT_SUBMITTED -/
  locSt : ∀ q a y, s.procs q = .sub a y → holds y.pc = true → ∀ j, s.disk.st j ≠ .ns → y.loc.st j ≠ .ns
  locBidx : ∀ q a y, s.procs q = .sub a y → holds y.pc = true → s.disk.bidx ≤ y.bidx
  locBidxEq : ∀ q a y, s.procs q = .sub a y → holds y.pc = true → y.pend = [] → y.bidx = s.disk.bidx
  jobs : ∀ b ∈ s.batches, ∀ j ∈ b.jobs, s.disk.st j ≠ .ns ∨ j ∈ holderPend s ∨ Orphan s
  ids : ∀ b ∈ s.batches, b.bid < s.disk.bidx ∨ b.bid < holderBidx s ∨ Orphan s
  jobsNodup : (s.batches.flatMap (·.jobs)).Nodup
  idsNodup : (s.batches.map (·.bid)).Nodup

theorem batchInv_init (sc : Scn) : BatchInv (init sc) := by
  refine ⟨roleInv_init sc, ?_, ?_, ?_, ?_, ?_, ?_, ?_⟩ <;> simp [init]

end Jade.Sys

namespace Jade.Sys

theorem freshHid_some_iff (s : Sys) (x : SubP) (h : Hid) :
    freshHid s x (some h) = true ↔ (s.slurm h = none ∧ h ∉ x.out) := by
  simp [freshHid]

macro "frame_all" : tactic => `(tactic|
  try simp only [freshHid_some_iff, holderPend, holderBidx, holderSub, Orphan, procs_setSub, procs_setNode, procs_setProc, setSub_fields,
    setNode_fields, setProc_fields] at *)

/-- what the role holder is about to hand out is new: no job of it is in an earlier batch and its
    batch index was never used (the heart of C01) -/
theorem sbatch_fresh {s : Sys} {p : Pid} {x : SubP} {jobs : List JobId} (hi : BatchInv s)
    (hp : s.procs p = .sub true x) (hpc : x.pc = .marked)
    (hg : ∀ j ∈ jobs, x.loc.st j = .ns ∧ j ∉ x.pend) :
    (∀ j ∈ jobs, j ∉ s.batches.flatMap (·.jobs)) ∧ x.bidx ∉ s.batches.map (·.bid) := by
  obtain ⟨⟨h1, h2, h3, h4, h5⟩, l1, l2, l3, bj, bi, -, -⟩ := hi
  have hh : holds x.pc = true := by rw [hpc]; rfl
  have hsub : s.submitter = some p := h1 p true x hp hh
  have hhs : holderSub s = some x := by simp [holderSub, hsub, hp]
  have hown : owns true x = true := by
    have := h3 p true x hp (Or.inl hpc)
    simp [owns, this, hpc]
  have hno : ¬ Orphan s := fun ho => by
    have := ho.2 p true x hp
    rw [hown] at this; cases this
  constructor
  · intro j hj hmem
    obtain ⟨b, hb, hjb⟩ := List.mem_flatMap.1 hmem
    rcases bj b hb j hjb with hd | hpnd | ho
    · exact l1 p true x hp hh j hd (hg j hj).1
    · simp only [holderPend, hhs] at hpnd
      exact (hg j hj).2 hpnd
    · exact hno ho
  · intro hmem
    obtain ⟨b, hb, hbid⟩ := List.mem_map.1 hmem
    have hbid' : b.bid = x.bidx := hbid
    rcases bi b hb with hd | hpnd | ho
    · have := l2 p true x hp hh
      have h' : b.bid < x.bidx := Nat.lt_of_lt_of_le hd this
      rw [hbid'] at h'; exact Nat.lt_irrefl _ h'
    · simp only [holderBidx, hhs] at hpnd
      rw [hbid'] at hpnd; exact Nat.lt_irrefl _ hpnd
    · exact hno ho

theorem nodup_snoc {bs : List Batch} {b : Batch} (n1 : (bs.flatMap (·.jobs)).Nodup)
    (n2 : (bs.map (·.bid)).Nodup) (hnd : b.jobs.Nodup) (f1 : ∀ j ∈ b.jobs, j ∉ bs.flatMap (·.jobs))
    (f2 : b.bid ∉ bs.map (·.bid)) :
    ((bs ++ [b]).flatMap (·.jobs)).Nodup ∧ ((bs ++ [b]).map (·.bid)).Nodup := by
  constructor
  · simp only [List.flatMap_append, List.flatMap_cons, List.flatMap_nil, List.append_nil]
    rw [List.nodup_append]
    exact ⟨n1, hnd, fun a ha c hc hac => f1 c hc (hac ▸ ha)⟩
  · simp only [List.map_append, List.map_cons, List.map_nil]
    rw [List.nodup_append]
    refine ⟨n2, by simp, ?_⟩
    intro a ha c hc hac
    simp only [List.mem_singleton] at hc
    subst hc; subst hac
    exact f2 ha

end Jade.Sys

/- generate the on-demand auxiliary declarations once, here (see `Proofs/Realize.lean`) -/
#realize_aux Jade
