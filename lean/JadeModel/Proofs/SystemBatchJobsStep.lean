import JadeModel.Proofs.SystemOrphanStep

set_option linter.unusedSimpArgs false

namespace Jade.Sys

set_option maxHeartbeats 8000000 in
theorem batchInv_jobs_step {s s' : Sys} {op : Op} (hi : BatchInv s) (h : step s op = some s') :
    (∀ b ∈ s'.batches, ∀ j ∈ b.jobs, s'.disk.st j ≠ .ns ∨ j ∈ holderPend s' ∨ Orphan s') := by
  have hO : Orphan s → Orphan s' := fun ho => orphan_step hi.role ho h
  obtain ⟨⟨h1, h2, h3, h4, h5⟩, l1, l2, l3, bj, bi, -, -⟩ := hi
  cases op <;> step_cases h <;>
    (intro b hb j hj <;> frame_all <;>
      grind [holds, SubP.load, persistStatus, owns])

end Jade.Sys
