import JadeModel.Proofs.SystemBase

set_option linter.unusedSimpArgs false

namespace Jade.Sys

set_option maxHeartbeats 4000000 in
theorem batchInv_loc_step {s s' : Sys} {op : Op} (hi : BatchInv s) (h : step s op = some s') :
    (∀ q a y, s'.procs q = .sub a y → holds y.pc = true → ∀ j, s'.disk.st j ≠ .ns → y.loc.st j ≠ .ns) ∧
    (∀ q a y, s'.procs q = .sub a y → holds y.pc = true → s'.disk.bidx ≤ y.bidx) ∧
    (∀ q a y, s'.procs q = .sub a y → holds y.pc = true → y.pend = [] → y.bidx = s'.disk.bidx) := by
  obtain ⟨⟨h1, h2, h3, h4, h5⟩, l1, l2, l3, -, -, -, -⟩ := hi
  cases op <;> step_cases h <;>
    (refine ⟨?_, ?_, ?_⟩ <;> intro q a y hq <;> frame_simp at hq <;>
      grind [holds, SubP.load, persistStatus, List.append_eq_nil_iff])

end Jade.Sys
