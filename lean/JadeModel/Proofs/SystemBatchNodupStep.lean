import JadeModel.Proofs.SystemBase

set_option linter.unusedSimpArgs false

namespace Jade.Sys

set_option maxHeartbeats 8000000 in
theorem batchInv_nodup_step {s s' : Sys} {op : Op} (hi : BatchInv s) (h : step s op = some s') :
    (s'.batches.flatMap (·.jobs)).Nodup ∧ (s'.batches.map (·.bid)).Nodup := by
  have n1 := hi.jobsNodup
  have n2 := hi.idsNodup
  cases op <;> step_cases h <;> frame_all <;>
    first
    | exact ⟨n1, n2⟩
    | (rename_i hA hB
       first
       | (obtain ⟨hpc, -, -, hnd, -, hg, -⟩ := hA
          obtain ⟨f1, f2⟩ := sbatch_fresh hi hB hpc (fun j hj => ⟨(hg j hj).1, (hg j hj).2.1⟩)
          exact nodup_snoc n1 n2 hnd f1 f2)
       | (obtain ⟨hpc, -, -, hnd, -, hg, -⟩ := hB
          obtain ⟨f1, f2⟩ := sbatch_fresh hi hA hpc (fun j hj => ⟨(hg j hj).1, (hg j hj).2.1⟩)
          exact nodup_snoc n1 n2 hnd f1 f2))

end Jade.Sys
