import JadeModel.Proofs.SystemOutcome

set_option linter.unusedSimpArgs false

/-! Every row on disk is for a configured job. -/

namespace Jade.Sys

structure RowBound (s : Sys) : Prop where
  rows : ∀ r, OnDisk s r → r.job < s.sc.n
  toCancel : ∀ q a y, s.procs q = .sub a y → ∀ j ∈ y.toCancel, j < s.sc.n
  batch : ∀ B ∈ s.batches, ∀ j ∈ B.jobs, j < s.sc.n
  node : ∀ p a n, s.procs p = .node a n → (∀ j ∈ n.queued, j < s.sc.n) ∧ (∀ j ∈ n.running, j < s.sc.n)

theorem rowBound_init (sc : Scn) : RowBound (init sc) := by
  refine ⟨?_, ?_, ?_, ?_⟩ <;> simp [init, OnDisk, OnDiskF]

set_option maxHeartbeats 8000000 in
theorem rowBound_step {s s' : Sys} {op : Op} (hi : RowBound s) (h : step s op = some s') : RowBound s' := by
  have hsc := sc_step h
  obtain ⟨a1, a2, a3, a4⟩ := hi
  cases op <;> step_cases h <;> (refine ⟨?_, ?_, ?_, ?_⟩ <;> frame_out)
  all_goals first
    | proc_clause
    | grind [SubP.load, persistStatus, find?_hid, OnDiskF, cancelSetOk_iff]

theorem rowBound_run {s s' : Sys} (ops : List Op) (hi : RowBound s) (h : run s ops = some s') : RowBound s' := by
  induction ops generalizing s with
  | nil => simp [run] at h; subst h; exact hi
  | cons op ops ih =>
    simp only [run] at h
    split at h
    · next s1 hs => exact ih (rowBound_step hi hs) h
    · cases h

theorem row_job_lt (sc : Scn) (ops : List Op) (s : Sys) (h : run (init sc) ops = some s) (r : Row) (hr : OnDisk s r) :
    r.job < sc.n := by
  have := (rowBound_run ops (rowBound_init sc) h).rows r hr
  rwa [sc_run ops h] at this

end Jade.Sys
