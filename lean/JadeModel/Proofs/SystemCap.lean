import JadeModel.Proofs.SystemNode
import JadeModel.Proofs.SystemCapDefs
import JadeModel.Proofs.SystemCapCount
import JadeModel.Proofs.SystemCapTrackedStepA
import JadeModel.Proofs.SystemCapTrackedStepB

set_option linter.unusedSimpArgs false

namespace Jade.Sys

theorem capInv_tracked_step {s s' : Sys} {op : Op} (hi : CapInv s) (h : step s op = some s') :
    (∀ h, activeB s' h = true → h ∈ trackedIds s' ∨ Orphan s') ∧
    (∀ q a y, s'.procs q = .sub a y → holds y.pc = true → y.pend = [] → ∀ h ∈ y.out, h ∈ s'.disk.ids) ∧
    (∀ q, s'.submitter = some q → ∃ a y, s'.procs q = .sub a y ∧ holds y.pc = true) := by
  have c0 := capInv_tracked_step_1 hi h
  obtain ⟨c1, c2⟩ := capInv_tracked_step_2 hi h
  exact ⟨c0, c1, c2⟩

theorem capInv_step {s s' : Sys} {op : Op} (hi : CapInv s) (h : step s op = some s') : CapInv s' := by
  obtain ⟨t1, t2, t3⟩ := capInv_tracked_step hi h
  refine ⟨nodeInv_step hi.node h, t1, t2, t3, ?_⟩
  by_cases hs : isSbatch op = true
  · cases op <;> simp only [isSbatch] at hs <;> (try cases hs)
    exact capInv_cap_sbatch hi h
  · have hn : isSbatch op = false := by simpa using hs
    have hsc : s'.sc = s.sc := by
      cases op <;> step_cases h <;> frame_all <;> rfl
    rw [hsc]
    exact Nat.le_trans (activeCount_mono h hn) hi.cap

theorem capInv_run {s s' : Sys} (ops : List Op) (hi : CapInv s) (h : run s ops = some s') : CapInv s' := by
  induction ops generalizing s with
  | nil => simp [run] at h; subst h; exact hi
  | cons op ops ih =>
    simp only [run] at h
    split at h
    · next s1 hs => exact ih (capInv_step hi hs) h
    · cases h

end Jade.Sys
