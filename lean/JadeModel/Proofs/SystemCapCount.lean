import JadeModel.Proofs.SystemCapDefs

set_option linter.unusedSimpArgs false

namespace Jade.Sys

/-- nothing but `sbatch` creates an active batch -/
theorem active_mono_step {s s' : Sys} {op : Op} (h : step s op = some s') (hn : isSbatch op = false) :
    s'.batches = s.batches ∧ ∀ k, activeB s' k = true → activeB s k = true := by
  cases op <;> simp only [isSbatch] at hn <;> (try cases hn) <;> step_cases h <;>
    (refine ⟨?_, ?_⟩ <;> frame_cap <;> grind)

theorem activeCount_mono {s s' : Sys} {op : Op} (h : step s op = some s') (hn : isSbatch op = false) :
    activeCount s' ≤ activeCount s := by
  obtain ⟨hb, ha⟩ := active_mono_step h hn
  unfold activeCount
  rw [hb]
  apply filter_length_mono
  intro b _ hact
  unfold batchActive at *
  split at hact
  · next k hk => exact ha k hact
  · cases hact

/-- the hids of the active batches: distinct, all tracked -/
theorem activeCount_le_out {s : Sys} (hi : CapInv s) (l : List Hid) (hl : ∀ k, activeB s k = true → k ∈ l) :
    activeCount s ≤ l.length := by
  have hu := hi.node.hidUnique
  unfold activeCount
  -- map active batches to their hids
  have key : ∀ (bs : List Batch), (∀ b ∈ bs, b ∈ s.batches) → bs.Nodup →
      ((bs.filter (batchActive s)).filterMap (·.hid)).Nodup ∧
      ((bs.filter (batchActive s)).filterMap (·.hid)).length = (bs.filter (batchActive s)).length ∧
      ∀ k ∈ (bs.filter (batchActive s)).filterMap (·.hid), activeB s k = true := by
    intro bs
    induction bs with
    | nil => intro _ _; simp
    | cons b bs ih =>
      intro hsub hnd
      simp only [List.nodup_cons] at hnd
      obtain ⟨i1, i2, i3⟩ := ih (fun x hx => hsub x (by simp [hx])) hnd.2
      simp only [List.filter_cons]
      by_cases hb : batchActive s b = true
      · simp only [hb, if_true]
        unfold batchActive at hb
        split at hb
        · next k hk =>
          simp only [List.filterMap_cons, hk]
          refine ⟨?_, by simp [i2], ?_⟩
          · rw [List.nodup_cons]
            refine ⟨?_, i1⟩
            intro hmem
            obtain ⟨b', hb', hk'⟩ := List.mem_filterMap.1 hmem
            have hb'in := (List.mem_filter.1 hb').1
            have := hu b (hsub b (by simp)) b' (hsub b' (by simp [hb'in])) k hk hk'
            subst this
            exact hnd.1 hb'in
          · intro k' hk'
            simp only [List.mem_cons] at hk'
            rcases hk' with rfl | hk'
            · exact hb
            · exact i3 k' hk'
        · cases hb
      · simp only [hb]
        exact ⟨i1, i2, i3⟩
  have hbn : s.batches.Nodup :=
    List.Pairwise.of_map (·.bid) (fun a b hab heq => hab (heq ▸ rfl)) hi.node.batch.idsNodup
  obtain ⟨k1, k2, k3⟩ := key s.batches (fun b hb => hb) hbn
  rw [← k2]
  exact nodup_subset_length k1 (fun k hk => hl k (k3 k hk))

theorem capInv_cap_sbatch {s s' : Sys} {p : Pid} {jobs : List JobId} {hid : Option Hid} (hi : CapInv s)
    (h : step s (.sbatch p jobs hid) = some s') : activeCount s' ≤ s'.sc.maxNodes := by
  have hsc : s'.sc = s.sc := by
    step_cases h <;> frame_all <;> rfl
  rw [hsc]
  simp only [step] at h
  split at h
  case h_2 => cases h
  case h_1 x hx =>
    split at h
    case isFalse => cases h
    case isTrue hg =>
      have hp := getSub_eq hx
      have hr := hi.node.batch.role
      have hh : holds x.pc = true := by rw [hg.1]; rfl
      have hsub : s.submitter = some p := hr.holder p true x hp hh
      have hhs : holderSub s = some x := by simp [holderSub, hsub, hp]
      have hown : owns true x = true := by
        have := hr.marked p true x hp (Or.inl hg.1)
        simp [owns, this, hg.1]
      have hno : ¬ Orphan s := fun ho => by
        have := ho.2 p true x hp; rw [hown] at this; cases this
      have hle : activeCount s ≤ x.out.length := by
        apply activeCount_le_out hi
        intro k hk
        rcases hi.tracked k hk with ht | ho
        · simpa [trackedIds, hhs] using ht
        · exact absurd ho hno
      have hlt : x.out.length < s.sc.maxNodes := hg.2.2.2.2.1
      have hfr := hg.2.2.2.2.2.2
      have hknown := hi.node.hidKnown
      cases h
      simp only [activeCount, batchActive_eq, setSub_fields, List.filter_append, List.length_append] at hle ⊢
      have hold : (s.batches.filter (batchActiveF (fun k => if hid = some k then some .pending else s.slurm k))).length
          ≤ (s.batches.filter (batchActiveF s.slurm)).length := by
        apply filter_length_mono
        intro b hb hact
        unfold batchActiveF at *
        split at hact
        · next k hk =>
          by_cases hkk : hid = some k
          · exfalso
            have h1 := hknown b hb k hk
            rw [hkk] at hfr
            have := (freshHid_some_iff s x k).1 hfr
            rw [this.1] at h1; cases h1
          · simpa [hkk] using hact
        · cases hact
      have hnew := List.length_filter_le (batchActiveF (fun k => if hid = some k then some .pending else s.slurm k))
        [({ bid := x.bidx, owner := p, jobs := jobs, handed := x.loc.blk, hid := hid } : Batch)]
      simp only [List.length_cons, List.length_nil] at hnew
      omega

end Jade.Sys
