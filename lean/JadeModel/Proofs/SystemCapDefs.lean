import JadeModel.Proofs.SystemNodeDefs

set_option linter.unusedSimpArgs false

/-! C06 at system level: the number of this submission's batches queued or running never exceeds max-nodes (definitions). -/

namespace Jade.Sys

/-- the ids the current (or crashed) role holder believes active; with no holder, the persisted ids -/
def trackedIds (s : Sys) : List Hid :=
  match holderSub s with
  | some y => y.out
  | none => s.disk.ids

def batchActive (s : Sys) (b : Batch) : Bool :=
  match b.hid with
  | some h => activeB s h
  | none => false

/-- number of this submission's batches queued or running on the HPC -/
def activeCount (s : Sys) : Nat := (s.batches.filter (batchActive s)).length

theorem nodup_subset_length {α} [DecidableEq α] {l m : List α} (hn : l.Nodup) (hs : ∀ x ∈ l, x ∈ m) :
    l.length ≤ m.length := by
  induction l generalizing m with
  | nil => simp
  | cons a l ih =>
    simp only [List.nodup_cons] at hn
    have ha : a ∈ m := hs a (by simp)
    have := ih (m := m.erase a) hn.2 (by
      intro x hx
      have hxm := hs x (by simp [hx])
      have hne : x ≠ a := fun h => hn.1 (h ▸ hx)
      exact (List.mem_erase_of_ne hne).2 hxm)
    rw [List.length_erase_of_mem ha] at this
    have hpos : 0 < m.length := List.length_pos_of_mem ha
    simp only [List.length_cons]
    omega

structure CapInv (s : Sys) : Prop where
  node : NodeInv s
  /-- every active batch is known to whoever can submit next -/
  tracked : ∀ h, activeB s h = true → h ∈ trackedIds s ∨ Orphan s
  /-- with nothing pending, the holder's view is a subset of the persisted ids -/
  outSub : ∀ q a y, s.procs q = .sub a y → holds y.pc = true → y.pend = [] → ∀ h ∈ y.out, h ∈ s.disk.ids
  /-- the `submitter` field always names a process that holds the role (alive or dead) -/
  holderExists : ∀ q, s.submitter = some q → ∃ a y, s.procs q = .sub a y ∧ holds y.pc = true
  cap : activeCount s ≤ s.sc.maxNodes

theorem capInv_init (sc : Scn) : CapInv (init sc) := by
  refine ⟨nodeInv_init sc, ?_, ?_, ?_, ?_⟩ <;> simp [init, activeB, activeCount]

macro "frame_cap" : tactic => `(tactic|
  try simp only [trackedIds, activeB, freshHid_some_iff, holderPend, holderBidx, holderSub, Orphan, procs_setSub, procs_setNode,
    procs_setProc, setSub_fields, setNode_fields, setProc_fields] at *)

def isSbatch : Op → Bool
  | .sbatch _ _ _ => true
  | _ => false

theorem filter_length_mono {α} (l : List α) (p q : α → Bool) (h : ∀ x ∈ l, p x = true → q x = true) :
    (l.filter p).length ≤ (l.filter q).length := by
  rw [← List.countP_eq_length_filter, ← List.countP_eq_length_filter]
  exact List.countP_mono_left h

def batchActiveF (sl : Hid → Option BSt) (b : Batch) : Bool :=
  match b.hid with
  | some h => (match sl h with
    | some .pending => true
    | some .running => true
    | _ => false)
  | none => false

theorem batchActive_eq (s : Sys) : batchActive s = batchActiveF s.slurm := by
  funext b; simp only [batchActive, batchActiveF, activeB]; rfl

#realize_aux Jade

end Jade.Sys
