import JadeModel.Proofs.SystemCapDefs
import JadeModel.Proofs.SystemOrphanStep

set_option linter.unusedSimpArgs false

namespace Jade.Sys

set_option maxHeartbeats 16000000 in
theorem capInv_tracked_step_2 {s s' : Sys} {op : Op} (hi : CapInv s) (h : step s op = some s') :
    (∀ q a y, s'.procs q = .sub a y → holds y.pc = true → y.pend = [] → ∀ h ∈ y.out, h ∈ s'.disk.ids) ∧
    (∀ q, s'.submitter = some q → ∃ a y, s'.procs q = .sub a y ∧ holds y.pc = true) := by
  have hO : Orphan s → Orphan s' := fun ho => orphan_step hi.node.batch.role ho h
  obtain ⟨⟨⟨⟨h1, h2, h3, h4, h5⟩, -, -, -, -, -, -, -⟩, -, -, -, -, -, -, -, -⟩, t1, t2, t3, -⟩ := hi
  cases op <;> step_cases h <;>
    (refine ⟨?_, ?_⟩ <;> frame_cap <;>
      grind [holds, SubP.load, persistStatus, owns, List.append_eq_nil_iff])

end Jade.Sys
