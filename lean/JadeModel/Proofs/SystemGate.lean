import JadeModel.Proofs.SystemCap
import JadeModel.Proofs.SystemRoleStep
import JadeModel.Proofs.SystemGateDefs
import JadeModel.Proofs.SystemGateStepA
import JadeModel.Proofs.SystemGateStepB
import JadeModel.Proofs.SystemGateStepC

set_option linter.unusedSimpArgs false

namespace Jade.Sys

theorem gateInv_step {s s' : Sys} {op : Op} (hi : GateInv s) (h : step s op = some s') : GateInv s' := by
  have hr := roleInv_step hi.role h
  obtain ⟨c_flags, c_once⟩ := gateInv_step_a hr hi h
  obtain ⟨c_completeOut, c_late⟩ := gateInv_step_b hr hi h
  have c_cancelOut := gateInv_step_c hr hi h
  exact ⟨hr, c_flags, c_completeOut, c_cancelOut, c_late, c_once⟩

theorem gateInv_run {s s' : Sys} (ops : List Op) (hi : GateInv s) (h : run s ops = some s') : GateInv s' := by
  induction ops generalizing s with
  | nil => simp [run] at h; subst h; exact hi
  | cons op ops ih =>
    simp only [run] at h
    split at h
    · next s1 hs => exact ih (gateInv_step hi hs) h
    · cases h

end Jade.Sys
