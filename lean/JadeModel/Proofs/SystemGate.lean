import JadeModel.Proofs.SystemCap

set_option linter.unusedSimpArgs false

/-! Cancel is final (C14); completion happens once, after the summary, and ends submission (C05 safety). -/

namespace Jade.Sys

/-- the phases of a round in which the process may still collect, submit or summarize -/
def inRound : SPc → Bool
  | .loaded => true
  | .collecting => true
  | .ready => true
  | .marked => true
  | .persisted => true
  | .summarized => true
  | _ => false

structure GateInv (s : Sys) : Prop where
  role : RoleInv s
  /-- the holder's copy of the two flags is the disk's -/
  flags : ∀ q a y, s.procs q = .sub a y → holds y.pc = true →
    y.loc.complete = s.disk.complete ∧ y.loc.canceled = s.disk.canceled
  /-- a holder that saw the submission complete never enters a round -/
  completeOut : ∀ q a y, s.procs q = .sub a y → holds y.pc = true → y.loc.complete = true →
    (y.pc = .summarized → False) ∧ inRound y.pc = false ∧ (y.pc = .unmarked → y.decided = false)
  /-- cancel-jobs never submits or summarizes -/
  cancelOut : ∀ q a y, s.procs q = .sub a y → y.isCancel = true →
    y.pc ≠ .marked ∧ y.pc ≠ .collecting ∧ y.pc ≠ .ready ∧ y.pc ≠ .persisted ∧ y.pc ≠ .summarized ∧
    (y.pc = .unmarked → y.decided = false)
  late : s.lateSbatch = false
  once : s.completions = (if s.disk.complete then 1 else 0)

theorem gateInv_init (sc : Scn) : GateInv (init sc) := by
  refine ⟨roleInv_init sc, ?_, ?_, ?_, ?_, ?_⟩ <;> simp [init]

set_option maxHeartbeats 16000000 in
theorem gateInv_step {s s' : Sys} {op : Op} (hi : GateInv s) (h : step s op = some s') : GateInv s' := by
  have hr := roleInv_step hi.role h
  obtain ⟨⟨h1, h2, h3, h4, h5⟩, g1, g2, g3, g4, g5⟩ := hi
  cases op <;> step_cases h <;>
    (refine ⟨hr, ?_, ?_, ?_, ?_, ?_⟩ <;> frame_all <;>
      grind [holds, inRound, SubP.load, persistStatus])

theorem gateInv_run {s s' : Sys} (ops : List Op) (hi : GateInv s) (h : run s ops = some s') : GateInv s' := by
  induction ops generalizing s with
  | nil => simp [run] at h; subst h; exact hi
  | cons op ops ih =>
    simp only [run] at h
    split at h
    · next s1 hs => exact ih (gateInv_step hi hs) h
    · cases h

end Jade.Sys
