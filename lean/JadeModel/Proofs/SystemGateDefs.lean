import JadeModel.Proofs.SystemBase

set_option linter.unusedSimpArgs false

/-! Cancel is final (C14); completion happens once, after the summary, and ends submission (C05 safety). Definitions. -/

namespace Jade.Sys

/-- the phases of a round in which the process may still collect, submit or summarize -/
def inRound : SPc → Bool
  | .loaded => true
  | .collecting => true
  | .ready => true
  | .marked => true
  | .persisted => true
  | .summarized => true
  | _ => false

structure GateInv (s : Sys) : Prop where
  role : RoleInv s
  /-- the holder's copy of the two flags is the disk's -/
  flags : ∀ q a y, s.procs q = .sub a y → holds y.pc = true →
    y.loc.complete = s.disk.complete ∧ y.loc.canceled = s.disk.canceled
  /-- a holder that saw the submission complete never enters a round -/
  completeOut : ∀ q a y, s.procs q = .sub a y → holds y.pc = true → y.loc.complete = true →
    (y.pc = .summarized → False) ∧ inRound y.pc = false ∧ (y.pc = .unmarked → y.decided = false)
  /-- cancel-jobs never submits or summarizes -/
  cancelOut : ∀ q a y, s.procs q = .sub a y → y.isCancel = true →
    y.pc ≠ .marked ∧ y.pc ≠ .collecting ∧ y.pc ≠ .ready ∧ y.pc ≠ .persisted ∧ y.pc ≠ .summarized ∧
    (y.pc = .unmarked → y.decided = false)
  late : s.lateSbatch = false
  once : s.completions = (if s.disk.complete then 1 else 0)

theorem gateInv_init (sc : Scn) : GateInv (init sc) := by
  refine ⟨roleInv_init sc, ?_, ?_, ?_, ?_, ?_⟩ <;> simp [init]

#realize_aux Jade

end Jade.Sys
