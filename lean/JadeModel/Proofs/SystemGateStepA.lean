import JadeModel.Proofs.SystemGateDefs

set_option linter.unusedSimpArgs false

namespace Jade.Sys

set_option maxHeartbeats 16000000 in
theorem gateInv_step_a {s s' : Sys} {op : Op} (hr : RoleInv s') (hi : GateInv s) (h : step s op = some s') :
    (∀ q a y, s'.procs q = .sub a y → holds y.pc = true →
    y.loc.complete = s'.disk.complete ∧ y.loc.canceled = s'.disk.canceled) ∧
    (s'.completions = (if s'.disk.complete then 1 else 0)) := by
  obtain ⟨⟨h1, h2, h3, h4, h5⟩, g1, g2, g3, g4, g5⟩ := hi
  cases op <;> step_cases h <;>
    (refine ⟨?_, ?_⟩ <;> frame_all <;>
      grind [holds, inRound, SubP.load, persistStatus])

end Jade.Sys
