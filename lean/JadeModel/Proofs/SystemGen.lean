import JadeModel.Gen.Round
import JadeModel.Model.System

/-!
The decision rules and the statement order of a submitter round, as *generated from the current source*
(`Gen/Round.lean`, sites `round.*`), are the ones the hand-written system model uses.  If the source
changes — `_update_completed_jobs` tests something else than `return_code != 0`, the cancel rule or
`_is_complete` changes, two statements of `HpcSubmitter.run` are swapped, the cancel gate goes away —
the generated definitions change and one of these theorems no longer checks.
-/

namespace Jade.Sys
open Jade.Gen.Round

/-- the model's round is `HpcSubmitter.run`'s statement order -/
theorem runOrder_eq : runOrder = [.poll, .collect, .markerCheck, .mark, .submit, .persist, .decide, .unmark] := rfl

/-- program counter before/after each statement in the model -/
def actPcs : Act → SPc × SPc
  | .poll => (.loaded, .collecting)
  | .collect => (.collecting, .ready)
  | .markerCheck => (.ready, .ready)
  | .mark => (.ready, .marked)
  | .submit => (.marked, .marked)
  | .persist => (.marked, .persisted)
  | .decide => (.persisted, .persisted)
  | .unmark => (.persisted, .unmarked)

def chained : List (SPc × SPc) → Bool
  | a :: b :: rest => a.2 == b.1 && chained (b :: rest)
  | _ => true

/-- consecutive statements of the source connect in the model: each starts where the previous ended,
    from `loaded` (after promotion) to `unmarked` (before `finally: demote`) -/
theorem runOrder_chained :
    chained (runOrder.map actPcs) = true ∧ (runOrder.map actPcs).head? = some (.loaded, .collecting) ∧
    (runOrder.map actPcs).getLast? = some (.persisted, .unmarked) := by decide

/-- …and these are the pcs the step function demands and produces -/
def pcOf (s : Sys) (p : Pid) : Option SPc := (getSub s p).map (·.pc)

theorem pcOf_setSub (s : Sys) (p : Pid) (x : SubP) : pcOf (setSub s p x) p = some x.pc := by
  simp [pcOf, getSub, setSub, setProc]

def pcsAre (s s' : Sys) (p : Pid) (a : Act) : Prop := pcOf s p = some (actPcs a).1 ∧ pcOf s' p = some (actPcs a).2

theorem poll_pcs {s s' : Sys} {p : Pid} {g : List Hid} (h : step s (.poll p g) = some s') : pcsAre s s' p .poll := by
  simp only [step] at h
  split at h
  · next x hx =>
    split at h
    · next hg => cases h; exact ⟨by simp [pcOf, hx, actPcs, hg.1], by simp [pcOf_setSub, actPcs]⟩
    · cases h
  · cases h

theorem collectDone_pcs {s s' : Sys} {p : Pid} (h : step s (.collectDone p) = some s') : pcsAre s s' p .collect := by
  simp only [step] at h
  split at h
  · next x hx =>
    split at h
    · next hg => cases h; exact ⟨by simp [pcOf, hx, actPcs, hg.1], by simp [pcOf_setSub, actPcs]⟩
    · cases h
  · cases h

theorem mark_pcs {s s' : Sys} {p : Pid} (h : step s (.mark p) = some s') : s.marker = false ∧ pcsAre s s' p .mark := by
  simp only [step] at h
  split at h
  · next x hx =>
    split at h
    · next hg =>
      cases h
      exact ⟨by simpa using hg.2, by exact ⟨by simp [pcOf, hx, actPcs, hg.1], by simp [pcOf_setSub, actPcs]⟩⟩
    · cases h
  · cases h

theorem sbatch_pcs {s s' : Sys} {p : Pid} {jobs : List JobId} {hid : Option Hid} (h : step s (.sbatch p jobs hid) = some s') :
    pcsAre s s' p .submit ∧
      -- the cancel gate of the source
      (submitGatedByCancel = true → ∀ x, getSub s p = some x → x.loc.canceled = false) := by
  simp only [step] at h
  split at h
  · next x hx =>
    split at h
    · next hg =>
      cases h
      refine ⟨⟨by simp [pcOf, hx, actPcs, hg.1], by simp [pcOf_setSub, actPcs, hg.1]⟩, fun _ y hy => ?_⟩
      rw [hx] at hy; cases hy
      simpa using hg.2.1
    · cases h
  · cases h

theorem persist_pcs {s s' : Sys} {p : Pid} (h : step s (.persist p) = some s') :
    pcsAre s s' p .persist ∧
      -- the ids written are the queue's outstanding ids
      (persistsOutstanding = true → ∀ x, getSub s p = some x → s'.disk.ids = x.out) := by
  simp only [step] at h
  split at h
  · next x hx =>
    split at h
    · next hg =>
      cases h
      refine ⟨by exact ⟨by simp [pcOf, hx, actPcs, hg], by simp [pcOf_setSub, actPcs]⟩, fun _ y hy => ?_⟩
      rw [hx] at hy; cases hy
      simp [setSub, setProc, persistStatus]
    · cases h
  · cases h

theorem unmark_pcs {s s' : Sys} {p : Pid} (h : step s (.unmark p) = some s') :
    pcsAre s s' p .unmark ∧
      -- `decide` precedes `unmark`: the decision is the generated rule on the persisted copy
      (∀ x, getSub s p = some x → (getSub s' p).map (·.decided) =
        some (isCompleteRule ((List.range s.sc.n).all (fun j => x.loc.st j == .done)) x.loc.ids)) := by
  simp only [step] at h
  split at h
  · next x hx =>
    split at h
    · next hg =>
      cases h
      refine ⟨by exact ⟨by simp [pcOf, hx, actPcs, hg.1], by simp [pcOf_setSub, actPcs]⟩, fun y hy => ?_⟩
      rw [hx] at hy; cases hy
      simp only [getSub, setSub, setProc, if_true, Option.map_some, isCompleteDecision, isCompleteRule]
      cases (List.range s.sc.n).all (fun j => x.loc.st j == .done) <;> simp
    · cases h
  · cases h

/-- the model's completion decision is the generated `_is_complete` -/
theorem isCompleteDecision_gen (n : Nat) (st : Status) :
    isCompleteDecision n st = isCompleteRule ((List.range n).all (fun j => st.st j == .done)) st.ids := by
  simp only [isCompleteDecision, isCompleteRule]
  cases (List.range n).all (fun j => st.st j == .done) <;> simp

/-- the model's "bad row" test is the generated `return_code != 0` (a canceled row carries the generated
    cancel code, which is non-zero) -/
theorem bad_eq_failedResult (r : Row) (h : r.canceled = true → r.rc = cancelCode) : r.bad = failedResult r.rc := by
  unfold Row.bad failedResult
  cases hc : r.canceled with
  | false => simp
  | true => rw [h hc]; decide

/-- the row `cancelRow` appends is `_cancel_job`'s -/
theorem cancelRow_row (j : JobId) : ({ job := j, rc := 1, canceled := true } : Row) = { job := j, rc := cancelCode, canceled := true } := rfl

/-- the model's cancel decision is the generated rule (under the source's `NOT_SUBMITTED` scan and
    `if job.blocked_by:`) -/
theorem mustCancel_gen (sc : Scn) (x : SubP) (j : JobId) :
    mustCancel sc x j =
      (x.loc.st j == .ns && !(x.loc.blk j).isEmpty && cancelRule (sc.flag j) ((x.loc.blk j).any (fun b => badIn x.pass b))) := by
  simp only [mustCancel, cancelRule, Bool.and_assoc]

/-- a pass always happens before the collection ends in a fault-free round (`need_to_rerun = True` initially) -/
theorem collect_at_least_once : collectAtLeastOnce = true := rfl

end Jade.Sys

namespace Jade.Sys
open Jade.Gen.Round

/-- the source accumulates `newly_completed` over all passes of a round (C08: every collected result is
    reported by the round that collected it) — as the model's `passEnd` does -/
theorem newly_accumulates : newlyAccumulatesAcrossPasses = true := rfl

theorem passEnd_newly_grows {s s' : Sys} {p : Pid} {ks : List JobId} (h : step s (.passEnd p ks) = some s') :
    ∀ x x', getSub s p = some x → getSub s' p = some x' →
      (∀ j ∈ x.newly, j ∈ x'.newly) ∧ (∀ r ∈ x.pass, r.job ∈ x'.newly) := by
  intro x x' hx hx'
  simp only [step, hx] at h
  split at h
  · cases h
    simp only [getSub, setSub, setProc, if_true, Option.some.injEq] at hx'
    subst hx'
    constructor
    · intro j hj; simp [hj]
    · intro r hr
      by_cases hin : r.job ∈ x.newly
      · simp [hin]
      · simp only [List.mem_append, List.mem_filter, List.mem_map]
        right
        exact ⟨⟨r, hr, rfl⟩, by simpa using hin⟩
  · cases h

end Jade.Sys
