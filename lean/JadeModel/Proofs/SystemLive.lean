import JadeModel.Model.SystemPlain
import JadeModel.Proofs.SystemProgress
import JadeModel.Proofs.SystemOutcome
import JadeModel.Proofs.SystemLiveDefs
import JadeModel.Proofs.SystemLiveStep0A
import JadeModel.Proofs.SystemLiveStep0B
import JadeModel.Proofs.SystemLiveStep0C

set_option linter.unusedSimpArgs false

/-! Fault-free executions (`Jade.Sys.stepP` / `runP`), part 1: the guards of `SystemPlain` in plain language,
the phase facts of a submitter round, and "no orphaned marker" — which turns the `… ∨ Orphan s`
conclusions of `BatchInv` / `CapInv` into facts about the current role holder.
Definitions: `SystemLiveDefs`; the step lemma is proved in parts (`SystemLiveStep0*`) compiled in parallel.
 -/

namespace Jade.Sys

theorem live0_step {s s' : Sys} {op : Op} (hr : RoleInv s) (hi : Live0 s) (h : stepP s op = some s') :
    Live0 s' := by
  obtain ⟨c_noOrphan, c_persisted⟩ := live0_step_a hr hi h
  obtain ⟨c_plain, c_atLoaded⟩ := live0_step_b hr hi h
  obtain ⟨c_collected, c_noPend⟩ := live0_step_c hr hi h
  exact ⟨c_noOrphan, c_plain, c_atLoaded, c_collected, c_persisted, c_noPend⟩

end Jade.Sys
