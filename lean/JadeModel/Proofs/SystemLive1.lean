import JadeModel.Proofs.SystemLive
import JadeModel.Proofs.SystemLive1Defs
import JadeModel.Proofs.SystemLiveStep1
import JadeModel.Proofs.SystemLiveStep2

set_option linter.unusedSimpArgs false

/-! Fault-free executions, part 2: what the role holder knows (consequences of "no orphaned marker"), rows
behind every DONE state, and the accounting of node runners: a batch that ended has a row for each job.
 -/
