import JadeModel.Proofs.SystemLiveDefs

set_option linter.unusedSimpArgs false

/-! Fault-free executions, parts 2–5: the definitions of `SystemLive1` … `SystemLive4` (the step lemmas, which are
    independent of each other, are in the `SystemLiveStep*` modules and compile in parallel). -/

namespace Jade.Sys

theorem not_orphan {s : Sys} (hr : RoleInv s) (h0 : Live0 s) : ¬ Orphan s := by
  rintro ⟨hm, hn⟩
  obtain ⟨q, y, hq, hpc⟩ := h0.noOrphan hm
  have h1 := hn q true y hq
  have h2 := hr.marked q true y hq hpc
  rcases hpc with h | h <;> simp [owns, h2, h] at h1

theorem holderSub_of {s : Sys} (hr : RoleInv s) {q : Pid} {a : Bool} {y : SubP}
    (hq : s.procs q = .sub a y) (hh : holds y.pc = true) : holderSub s = some y := by
  simp [holderSub, hr.holder q a y hq hh, hq]

/-- the role holder believes every active batch active -/
theorem holder_tracked {s : Sys} (hc : CapInv s) (h0 : Live0 s) {q : Pid} {a : Bool} {y : SubP}
    (hq : s.procs q = .sub a y) (hh : holds y.pc = true) (k : Hid) (hk : activeB s k = true) : k ∈ y.out := by
  have hr := hc.node.batch.role
  rcases hc.tracked k hk with h | h
  · simpa [trackedIds, holderSub_of hr hq hh] using h
  · exact absurd h (not_orphan hr h0)

theorem free_tracked {s : Sys} (hc : CapInv s) (h0 : Live0 s) (hs : s.submitter = none) (k : Hid)
    (hk : activeB s k = true) : k ∈ s.disk.ids := by
  have hr := hc.node.batch.role
  rcases hc.tracked k hk with h | h
  · simpa [trackedIds, holderSub, hs] using h
  · exact absurd h (not_orphan hr h0)

/-- a job that is in a batch is not NOT_SUBMITTED for the role holder, unless it was handed over in
    this very round -/
theorem holder_batch_st {s : Sys} (hb : BatchInv s) (h0 : Live0 s) {q : Pid} {a : Bool} {y : SubP}
    (hq : s.procs q = .sub a y) (hh : holds y.pc = true) (B : Batch) (hB : B ∈ s.batches) (j : JobId)
    (hj : j ∈ B.jobs) : y.loc.st j ≠ .ns ∨ j ∈ y.pend := by
  have hr := hb.role
  rcases hb.jobs B hB j hj with h | h | h
  · exact Or.inl (hb.locSt q a y hq hh j h)
  · exact Or.inr (by simpa [holderPend, holderSub_of hr hq hh] using h)
  · exact absurd h (not_orphan hr h0)

theorem free_batch_st {s : Sys} (hb : BatchInv s) (h0 : Live0 s) (hs : s.submitter = none) (B : Batch)
    (hB : B ∈ s.batches) (j : JobId) (hj : j ∈ B.jobs) : s.disk.st j ≠ .ns := by
  have hr := hb.role
  rcases hb.jobs B hB j hj with h | h | h
  · exact h
  · simp [holderPend, holderSub, hs] at h
  · exact absurd h (not_orphan hr h0)

/-- batch indices identify batches -/
theorem bid_unique {bs : List Batch} (hn : (bs.map (·.bid)).Nodup) {b b' : Batch}
    (hb : b ∈ bs) (hb' : b' ∈ bs) (he : b.bid = b'.bid) : b = b' := by
  induction bs with
  | nil => cases hb
  | cons c cs ih =>
    simp only [List.map_cons, List.nodup_cons, List.mem_map, not_exists, not_and] at hn
    rcases List.mem_cons.1 hb with h1 | h1 <;> rcases List.mem_cons.1 hb' with h2 | h2
    · rw [h1, h2]
    · subst h1; exact absurd he.symm (hn.1 b' h2)
    · subst h2; exact absurd he (hn.1 b h1)
    · exact ih hn.2 h1 h2

/-- some row of `l` is for job `j` -/
def HasJob (l : List Row) (j : JobId) : Prop := ∃ r ∈ l, r.job = j

@[grind =] theorem hasJob_nil (j : JobId) : HasJob [] j ↔ False := by simp [HasJob]

@[grind =] theorem hasJob_append (l m : List Row) (j : JobId) : HasJob (l ++ m) j ↔ (HasJob l j ∨ HasJob m j) := by
  simp only [HasJob, List.mem_append]
  constructor
  · rintro ⟨r, h | h, e⟩
    · exact Or.inl ⟨r, h, e⟩
    · exact Or.inr ⟨r, h, e⟩
  · rintro (⟨r, h, e⟩ | ⟨r, h, e⟩)
    · exact ⟨r, Or.inl h, e⟩
    · exact ⟨r, Or.inr h, e⟩

@[grind =] theorem hasJob_single (r : Row) (j : JobId) : HasJob [r] j ↔ r.job = j := by simp [HasJob]

@[grind =] theorem mem_jobs (l : List Row) (j : JobId) : j ∈ List.map (fun x => x.job) l ↔ HasJob l j := by
  simp [HasJob]

theorem hasJob_of_mem {l : List Row} {r : Row} (h : r ∈ l) : HasJob l r.job := ⟨r, h, rfl⟩

/-- rows behind DONE: whatever a round has seen is in the consolidated file -/
structure Live1 (s : Sys) : Prop where
  passProc : ∀ q a y, s.procs q = .sub a y → ∀ j : JobId, HasJob y.pass j → HasJob s.processed j
  newlyProc : ∀ q a y, s.procs q = .sub a y → ∀ j ∈ y.newly, HasJob s.processed j
  locDone : ∀ q a y, s.procs q = .sub a y → ∀ j : JobId, y.loc.st j = .done →
    HasJob s.processed j ∨ j ∈ y.toCancel
  diskDone : ∀ j : JobId, s.disk.st j = .done → HasJob s.processed j

theorem live1_init (sc : Scn) : Live1 (init sc) := by
  refine ⟨?_, ?_, ?_, ?_⟩ <;> simp [init]

/-- node accounting: every job of a started batch is queued, running, or has a row; a batch ends only
    when its queue is drained -/
structure Live2 (s : Sys) : Prop where
  nodeAcct : ∀ p a n, s.procs p = .node a n → ∀ B ∈ s.batches, B.hid = some n.hid → ∀ j ∈ B.jobs,
    j ∈ n.queued ∨ j ∈ n.running ∨ HasJob (s.nodeFile B.bid) j ∨ HasJob s.processed j
  endedRows : ∀ h : Hid, s.slurm h = some .ended → ∀ B ∈ s.batches, B.hid = some h → ∀ j ∈ B.jobs,
    HasJob (s.nodeFile B.bid) j ∨ HasJob s.processed j
  aliveRunning : ∀ p n, s.procs p = .node true n → s.slurm n.hid = some .running
  fileRows : ∀ b : Bid, ∀ j : JobId, HasJob (s.nodeFile b) j → ∃ B ∈ s.batches, B.bid = b ∧ j ∈ B.jobs

theorem live2_init (sc : Scn) : Live2 (init sc) := by
  refine ⟨?_, ?_, ?_, ?_⟩ <;> simp [init, HasJob]

/-- the holder's view of the consolidated file -/
structure Live3 (s : Sys) : Prop where
  /-- every collected row is accounted for in the holder's copy -/
  hProc : ∀ q a y, s.procs q = .sub a y → holds y.pc = true → ∀ j : JobId, HasJob s.processed j →
    y.loc.st j = .done ∨ HasJob y.pass j ∨ j ∈ y.newly
  /-- …and, between rounds, in the status file -/
  dProc : s.submitter = none → ∀ j : JobId, HasJob s.processed j → s.disk.st j = .done
  newlyNotNs : ∀ q a y, s.procs q = .sub a y → holds y.pc = true → ∀ j ∈ y.newly, y.loc.st j ≠ .ns
  passNotNs : ∀ q a y, s.procs q = .sub a y → holds y.pc = true → ∀ j : JobId, HasJob y.pass j → y.loc.st j ≠ .ns
  pendNs : ∀ q a y, s.procs q = .sub a y → holds y.pc = true → ∀ j ∈ y.pend, y.loc.st j = .ns
  toCancelDone : ∀ q a y, s.procs q = .sub a y → ∀ j ∈ y.toCancel, y.loc.st j = .done
  /-- DONE in the copy but not yet on disk only for this round's cancellations and collections -/
  syncDone : ∀ q a y, s.procs q = .sub a y → holds y.pc = true → ∀ j : JobId, y.loc.st j = .done →
    s.disk.st j = .done ∨ j ∈ y.toCancel ∨ HasJob y.pass j ∨ j ∈ y.newly

theorem live3_init (sc : Scn) : Live3 (init sc) := by
  refine ⟨?_, ?_, ?_, ?_, ?_, ?_, ?_⟩ <;> simp [init, HasJob]

/-- the role holder believes every queued or running batch active (plain-language form) -/
theorem holder_tracked' {s : Sys} (hc : CapInv s) (h0 : Live0 s) {q : Pid} {a : Bool} {y : SubP}
    (hq : s.procs q = .sub a y) (hh : holds y.pc = true) (k : Hid)
    (hk : s.slurm k = some .running ∨ s.slurm k = some .pending) : k ∈ y.out := by
  apply holder_tracked hc h0 hq hh
  rcases hk with hk | hk <;> simp [activeB, hk]

/-- an id that is known to the scheduler and not active has ended -/
theorem ended_of_not_active {s : Sys} {k : Hid} (h1 : s.slurm k ≠ none) (h2 : activeB s k = false) :
    s.slurm k = some .ended := by
  unfold activeB at h2
  split at h2 <;> simp_all
  next h3 h4 =>
    cases hk : s.slurm k with
    | none => exact absurd hk h1
    | some b => cases b <;> simp_all

structure Live4 (s : Sys) : Prop where
  diskSub : ∀ j : JobId, s.disk.st j = .sub →
    ∃ B ∈ s.batches, j ∈ B.jobs ∧ ∃ h : Hid, B.hid = some h ∧ h ∈ s.disk.ids
  hSub : ∀ q a y, s.procs q = .sub a y → holds y.pc = true → ∀ j : JobId, y.loc.st j = .sub →
    j ∈ y.newly ∨ HasJob y.pass j ∨
      ∃ B ∈ s.batches, j ∈ B.jobs ∧ ∃ h : Hid, B.hid = some h ∧ (h ∈ y.out ∨ HasJob (s.nodeFile B.bid) j)
  pendBatch : ∀ q a y, s.procs q = .sub a y → holds y.pc = true → ∀ j ∈ y.pend,
    ∃ B ∈ s.batches, j ∈ B.jobs ∧ ∃ h : Hid, B.hid = some h ∧ h ∈ y.out
  /-- after the collection loop: nothing uncollected outside the batches believed active -/
  quiet : ∀ q a y, s.procs q = .sub a y → (y.pc = .ready ∨ y.pc = .marked ∨ y.pc = .persisted) →
    ∀ B ∈ s.batches, ∀ h : Hid, B.hid = some h → h ∈ y.out ∨ s.nodeFile B.bid = []

theorem live4_init (sc : Scn) : Live4 (init sc) := by
  refine ⟨?_, ?_, ?_, ?_⟩ <;> simp [init, HasJob]

/-- like `plain_cases`, after `cases op` -/
macro "plain_split" h:ident hs:ident hg:ident : tactic => `(tactic|
  (have $hs:ident := stepP_step $h:ident
   have $hg:ident := plainGuard_stepP $h:ident
   simp only [PlainGuard] at $hg:ident <;> (try (obtain ⟨_, rfl⟩ := $hg:ident)) <;> step_cases $hs:ident))

theorem snoc_mem (l : List Batch) (b : Batch) : b ∈ l ++ [b] := by simp

structure Live5 (s : Sys) : Prop where
  dBlk : ∀ j : JobId, s.disk.st j = .ns → ∀ b ∈ s.disk.blk j, s.disk.st b ≠ .done
  hBlk : ∀ q a y, s.procs q = .sub a y → holds y.pc = true → ∀ j : JobId, y.loc.st j = .ns →
    ∀ b ∈ y.loc.blk j, y.loc.st b ≠ .done ∨ b ∈ y.toCancel ∨ HasJob y.pass b
  nsBlocked : ∀ q a y, s.procs q = .sub a y → y.pc = .persisted → 1 ≤ s.sc.maxNodes → y.out = [] →
    ∀ j : JobId, j < s.sc.n → y.loc.st j = .ns → y.loc.blk j ≠ []

theorem live5_init (sc : Scn) : Live5 (init sc) := by
  refine ⟨?_, ?_, ?_⟩ <;> simp [init, HasJob]

#realize_aux Jade

end Jade.Sys
