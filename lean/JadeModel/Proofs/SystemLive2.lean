import JadeModel.Proofs.SystemLive1
import JadeModel.Proofs.SystemLiveStep3A
import JadeModel.Proofs.SystemLiveStep3B
import JadeModel.Proofs.SystemLiveStep3C

set_option linter.unusedSimpArgs false

/-! Fault-free executions, part 3: the role holder's copy is ahead of the status file in a controlled way —
every collected row is for a job that is DONE in the copy or still in this round's pass / newly set, and
a round never ends without having written that to disk.
 -/

namespace Jade.Sys

theorem live3_step {s s' : Sys} {op : Op} (hb : BatchInv s) (h0 : Live0 s) (h2 : Live2 s) (hi : Live3 s)
    (h : stepP s op = some s') : Live3 s' := by
  obtain ⟨c_hProc, c_dProc, c_pendNs⟩ := live3_step_a hb h0 h2 hi h
  obtain ⟨c_newlyNotNs, c_passNotNs⟩ := live3_step_b hb h0 h2 hi h
  obtain ⟨c_toCancelDone, c_syncDone⟩ := live3_step_c hb h0 h2 hi h
  exact ⟨c_hProc, c_dProc, c_newlyNotNs, c_passNotNs, c_pendNs, c_toCancelDone, c_syncDone⟩

end Jade.Sys
