import JadeModel.Proofs.SystemLive1

set_option linter.unusedSimpArgs false

/-!
Fault-free executions, part 3: the role holder's copy is ahead of the status file in a controlled way —
every collected row is for a job that is DONE in the copy or still in this round's pass / newly set, and
a round never ends without having written that to disk.
-/

namespace Jade.Sys

/-- the holder's view of the consolidated file -/
structure Live3 (s : Sys) : Prop where
  /-- every collected row is accounted for in the holder's copy -/
  hProc : ∀ q a y, s.procs q = .sub a y → holds y.pc = true → ∀ j : JobId, HasJob s.processed j →
    y.loc.st j = .done ∨ HasJob y.pass j ∨ j ∈ y.newly
  /-- …and, between rounds, in the status file -/
  dProc : s.submitter = none → ∀ j : JobId, HasJob s.processed j → s.disk.st j = .done
  newlyNotNs : ∀ q a y, s.procs q = .sub a y → holds y.pc = true → ∀ j ∈ y.newly, y.loc.st j ≠ .ns
  passNotNs : ∀ q a y, s.procs q = .sub a y → holds y.pc = true → ∀ j : JobId, HasJob y.pass j → y.loc.st j ≠ .ns
  pendNs : ∀ q a y, s.procs q = .sub a y → holds y.pc = true → ∀ j ∈ y.pend, y.loc.st j = .ns
  toCancelDone : ∀ q a y, s.procs q = .sub a y → ∀ j ∈ y.toCancel, y.loc.st j = .done
  /-- DONE in the copy but not yet on disk only for this round's cancellations and collections -/
  syncDone : ∀ q a y, s.procs q = .sub a y → holds y.pc = true → ∀ j : JobId, y.loc.st j = .done →
    s.disk.st j = .done ∨ j ∈ y.toCancel ∨ HasJob y.pass j ∨ j ∈ y.newly

theorem live3_init (sc : Scn) : Live3 (init sc) := by
  refine ⟨?_, ?_, ?_, ?_, ?_, ?_, ?_⟩ <;> simp [init, HasJob]

set_option maxHeartbeats 32000000 in
theorem live3_step {s s' : Sys} {op : Op} (hb : BatchInv s) (h0 : Live0 s) (h2 : Live2 s) (hi : Live3 s)
    (h : stepP s op = some s') : Live3 s' := by
  have hbs := fun q a y hq hh => @holder_batch_st s hb h0 q a y hq hh
  obtain ⟨⟨r1, r2, r3, r4, r5⟩, -, -, -, -, -, -, -⟩ := hb
  obtain ⟨a1, a2, a3, a4, a5, a6⟩ := h0
  have f4 := h2.fileRows
  obtain ⟨c1, c2, c3, c4, c5, c6, c7⟩ := hi
  plain_cases op h hs hg <;> (refine ⟨?_, ?_, ?_, ?_, ?_, ?_, ?_⟩ <;> frame_out)
  all_goals first
    | grind [SubP.load, persistStatus, find?_hid, afterCollect, afterPersist]

end Jade.Sys
