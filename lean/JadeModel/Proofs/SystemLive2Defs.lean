import JadeModel.Proofs.SystemLive1Defs

set_option linter.unusedSimpArgs false

/-! Fault-free executions, part 3: definitions (see `SystemLive2`). -/

namespace Jade.Sys

/-- the holder's view of the consolidated file -/
structure Live3 (s : Sys) : Prop where
  /-- every collected row is accounted for in the holder's copy -/
  hProc : ∀ q a y, s.procs q = .sub a y → holds y.pc = true → ∀ j : JobId, HasJob s.processed j →
    y.loc.st j = .done ∨ HasJob y.pass j ∨ j ∈ y.newly
  /-- …and, between rounds, in the status file -/
  dProc : s.submitter = none → ∀ j : JobId, HasJob s.processed j → s.disk.st j = .done
  newlyNotNs : ∀ q a y, s.procs q = .sub a y → holds y.pc = true → ∀ j ∈ y.newly, y.loc.st j ≠ .ns
  passNotNs : ∀ q a y, s.procs q = .sub a y → holds y.pc = true → ∀ j : JobId, HasJob y.pass j → y.loc.st j ≠ .ns
  pendNs : ∀ q a y, s.procs q = .sub a y → holds y.pc = true → ∀ j ∈ y.pend, y.loc.st j = .ns
  toCancelDone : ∀ q a y, s.procs q = .sub a y → ∀ j ∈ y.toCancel, y.loc.st j = .done
  /-- DONE in the copy but not yet on disk only for this round's cancellations and collections -/
  syncDone : ∀ q a y, s.procs q = .sub a y → holds y.pc = true → ∀ j : JobId, y.loc.st j = .done →
    s.disk.st j = .done ∨ j ∈ y.toCancel ∨ HasJob y.pass j ∨ j ∈ y.newly

theorem live3_init (sc : Scn) : Live3 (init sc) := by
  refine ⟨?_, ?_, ?_, ?_, ?_, ?_, ?_⟩ <;> simp [init, HasJob]

#realize_aux Jade

end Jade.Sys
