import JadeModel.Proofs.SystemLive2

set_option linter.unusedSimpArgs false

/-!
Fault-free executions, part 4: a SUBMITTED job is in a batch that is believed active — or its row is on
the way through this round's collection.  After the collection loop no uncollected row is left behind for
a batch that is not believed active.
-/

namespace Jade.Sys

/-- the role holder believes every queued or running batch active (plain-language form) -/
theorem holder_tracked' {s : Sys} (hc : CapInv s) (h0 : Live0 s) {q : Pid} {a : Bool} {y : SubP}
    (hq : s.procs q = .sub a y) (hh : holds y.pc = true) (k : Hid)
    (hk : s.slurm k = some .running ∨ s.slurm k = some .pending) : k ∈ y.out := by
  apply holder_tracked hc h0 hq hh
  rcases hk with hk | hk <;> simp [activeB, hk]

/-- an id that is known to the scheduler and not active has ended -/
theorem ended_of_not_active {s : Sys} {k : Hid} (h1 : s.slurm k ≠ none) (h2 : activeB s k = false) :
    s.slurm k = some .ended := by
  unfold activeB at h2
  split at h2 <;> simp_all
  next h3 h4 =>
    cases hk : s.slurm k with
    | none => exact absurd hk h1
    | some b => cases b <;> simp_all

structure Live4 (s : Sys) : Prop where
  diskSub : ∀ j : JobId, s.disk.st j = .sub →
    ∃ B ∈ s.batches, j ∈ B.jobs ∧ ∃ h : Hid, B.hid = some h ∧ h ∈ s.disk.ids
  hSub : ∀ q a y, s.procs q = .sub a y → holds y.pc = true → ∀ j : JobId, y.loc.st j = .sub →
    j ∈ y.newly ∨ HasJob y.pass j ∨
      ∃ B ∈ s.batches, j ∈ B.jobs ∧ ∃ h : Hid, B.hid = some h ∧ (h ∈ y.out ∨ HasJob (s.nodeFile B.bid) j)
  pendBatch : ∀ q a y, s.procs q = .sub a y → holds y.pc = true → ∀ j ∈ y.pend,
    ∃ B ∈ s.batches, j ∈ B.jobs ∧ ∃ h : Hid, B.hid = some h ∧ h ∈ y.out
  /-- after the collection loop: nothing uncollected outside the batches believed active -/
  quiet : ∀ q a y, s.procs q = .sub a y → (y.pc = .ready ∨ y.pc = .marked ∨ y.pc = .persisted) →
    ∀ B ∈ s.batches, ∀ h : Hid, B.hid = some h → h ∈ y.out ∨ s.nodeFile B.bid = []

theorem live4_init (sc : Scn) : Live4 (init sc) := by
  refine ⟨?_, ?_, ?_, ?_⟩ <;> simp [init, HasJob]

/-- like `plain_cases`, after `cases op` -/
macro "plain_split" h:ident hs:ident hg:ident : tactic => `(tactic|
  (have $hs:ident := stepP_step $h:ident
   have $hg:ident := plainGuard_stepP $h:ident
   simp only [PlainGuard] at $hg:ident <;> (try (obtain ⟨_, rfl⟩ := $hg:ident)) <;> step_cases $hs:ident))

theorem snoc_mem (l : List Batch) (b : Batch) : b ∈ l ++ [b] := by simp

set_option maxHeartbeats 32000000 in
theorem live4_sbatch {s s' : Sys} {p : Pid} {jobs : List JobId} {hid : Option Hid} (hc : CapInv s)
    (h0 : Live0 s) (hi : Live4 s) (h : stepP s (.sbatch p jobs hid) = some s') : Live4 s' := by
  have hk := hc.node.hidKnown
  obtain ⟨r1, r2, r3, r4, r5⟩ := hc.node.batch.role
  obtain ⟨a1, a2, a3, a4, a5, a6⟩ := h0
  obtain ⟨d1, d2, d3, d4⟩ := hi
  plain_split h hs hg
  refine ⟨?_, ?_, ?_, ?_⟩ <;> frame_out
  all_goals first
    | grind [snoc_mem]

set_option maxHeartbeats 32000000 in
theorem live4_step {s s' : Sys} {op : Op} (hc : CapInv s) (hp : ProgA s) (h0 : Live0 s) (h2 : Live2 s)
    (h3 : Live3 s) (hi : Live4 s) (h : stepP s op = some s') : Live4 s' := by
  cases op with
  | sbatch p jobs hid => exact live4_sbatch hc h0 hi h
  | _ =>
    have htr := fun q a y hq hh => @holder_tracked' s hc h0 q a y hq hh
    have hbu := fun b hb b' hb' => @bid_unique s.batches hc.node.batch.idsNodup b b' hb hb'
    have hend := fun k => @ended_of_not_active s k
    have nob := hc.node.ofBatch
    have hu := hc.node.hidUnique
    have hk := hc.node.hidKnown
    obtain ⟨r1, r2, r3, r4, r5⟩ := hc.node.batch.role
    obtain ⟨a1, a2, a3, a4, a5, a6⟩ := h0
    obtain ⟨-, e2, e3, -⟩ := h2
    have c1 := h3.hProc
    have p2 := hp.outIds
    obtain ⟨d1, d2, d3, d4⟩ := hi
    plain_split h hs hg <;> (refine ⟨?_, ?_, ?_, ?_⟩ <;> frame_out)
    all_goals first
      | grind [SubP.load, persistStatus, find?_hid, afterCollect, afterPersist, CollectedAll]

end Jade.Sys
