import JadeModel.Proofs.SystemLive2
import JadeModel.Proofs.SystemLiveStep4S
import JadeModel.Proofs.SystemLiveStep4A
import JadeModel.Proofs.SystemLiveStep4B

set_option linter.unusedSimpArgs false

/-! Fault-free executions, part 4: a SUBMITTED job is in a batch that is believed active — or its row is on
the way through this round's collection.  After the collection loop no uncollected row is left behind for
a batch that is not believed active.
 -/

namespace Jade.Sys

theorem live4_step {s s' : Sys} {op : Op} (hc : CapInv s) (hp : ProgA s) (h0 : Live0 s) (h2 : Live2 s)
    (h3 : Live3 s) (hi : Live4 s) (h : stepP s op = some s') : Live4 s' := by
  have hsb : ∀ p jobs hid, op = Op.sbatch p jobs hid → Live4 s' := fun p jobs hid e => by
    subst e; exact live4_sbatch hc h0 hi h
  obtain ⟨c_diskSub, c_hSub⟩ := live4_step_a hc hp h0 h2 h3 hi h hsb
  obtain ⟨c_pendBatch, c_quiet⟩ := live4_step_b hc hp h0 h2 h3 hi h hsb
  exact ⟨c_diskSub, c_hSub, c_pendBatch, c_quiet⟩

end Jade.Sys
