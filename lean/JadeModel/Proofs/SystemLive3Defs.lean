import JadeModel.Proofs.SystemLive2Defs

set_option linter.unusedSimpArgs false

/-! Fault-free executions, part 4: definitions (see `SystemLive3`). -/

namespace Jade.Sys

/-- the role holder believes every queued or running batch active (plain-language form) -/
theorem holder_tracked' {s : Sys} (hc : CapInv s) (h0 : Live0 s) {q : Pid} {a : Bool} {y : SubP}
    (hq : s.procs q = .sub a y) (hh : holds y.pc = true) (k : Hid)
    (hk : s.slurm k = some .running ∨ s.slurm k = some .pending) : k ∈ y.out := by
  apply holder_tracked hc h0 hq hh
  rcases hk with hk | hk <;> simp [activeB, hk]

/-- an id that is known to the scheduler and not active has ended -/
theorem ended_of_not_active {s : Sys} {k : Hid} (h1 : s.slurm k ≠ none) (h2 : activeB s k = false) :
    s.slurm k = some .ended := by
  unfold activeB at h2
  split at h2 <;> simp_all
  next h3 h4 =>
    cases hk : s.slurm k with
    | none => exact absurd hk h1
    | some b => cases b <;> simp_all

structure Live4 (s : Sys) : Prop where
  diskSub : ∀ j : JobId, s.disk.st j = .sub →
    ∃ B ∈ s.batches, j ∈ B.jobs ∧ ∃ h : Hid, B.hid = some h ∧ h ∈ s.disk.ids
  hSub : ∀ q a y, s.procs q = .sub a y → holds y.pc = true → ∀ j : JobId, y.loc.st j = .sub →
    j ∈ y.newly ∨ HasJob y.pass j ∨
      ∃ B ∈ s.batches, j ∈ B.jobs ∧ ∃ h : Hid, B.hid = some h ∧ (h ∈ y.out ∨ HasJob (s.nodeFile B.bid) j)
  pendBatch : ∀ q a y, s.procs q = .sub a y → holds y.pc = true → ∀ j ∈ y.pend,
    ∃ B ∈ s.batches, j ∈ B.jobs ∧ ∃ h : Hid, B.hid = some h ∧ h ∈ y.out
  /-- after the collection loop: nothing uncollected outside the batches believed active -/
  quiet : ∀ q a y, s.procs q = .sub a y → (y.pc = .ready ∨ y.pc = .marked ∨ y.pc = .persisted) →
    ∀ B ∈ s.batches, ∀ h : Hid, B.hid = some h → h ∈ y.out ∨ s.nodeFile B.bid = []

theorem live4_init (sc : Scn) : Live4 (init sc) := by
  refine ⟨?_, ?_, ?_, ?_⟩ <;> simp [init, HasJob]

/-- like `plain_cases`, after `cases op` -/
macro "plain_split" h:ident hs:ident hg:ident : tactic => `(tactic|
  (have $hs:ident := stepP_step $h:ident
   have $hg:ident := plainGuard_stepP $h:ident
   simp only [PlainGuard] at $hg:ident <;> (try (obtain ⟨_, rfl⟩ := $hg:ident)) <;> step_cases $hs:ident))

theorem snoc_mem (l : List Batch) (b : Batch) : b ∈ l ++ [b] := by simp

#realize_aux Jade

end Jade.Sys
