import JadeModel.Proofs.SystemLive3
import JadeModel.Proofs.SystemLiveStep5

set_option linter.unusedSimpArgs false

/-! Fault-free executions, part 5: a remaining blocker is never DONE (completed jobs are removed from the
blocker lists in the pass that sees their rows), and a round that ends with an empty HPC queue leaves no
unblocked NOT_SUBMITTED job.
 -/
