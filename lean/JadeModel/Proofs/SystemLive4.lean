import JadeModel.Proofs.SystemLive3

set_option linter.unusedSimpArgs false

/-!
Fault-free executions, part 5: a remaining blocker is never DONE (completed jobs are removed from the
blocker lists in the pass that sees their rows), and a round that ends with an empty HPC queue leaves no
unblocked NOT_SUBMITTED job.
-/

namespace Jade.Sys

structure Live5 (s : Sys) : Prop where
  dBlk : ∀ j : JobId, s.disk.st j = .ns → ∀ b ∈ s.disk.blk j, s.disk.st b ≠ .done
  hBlk : ∀ q a y, s.procs q = .sub a y → holds y.pc = true → ∀ j : JobId, y.loc.st j = .ns →
    ∀ b ∈ y.loc.blk j, y.loc.st b ≠ .done ∨ b ∈ y.toCancel ∨ HasJob y.pass b
  nsBlocked : ∀ q a y, s.procs q = .sub a y → y.pc = .persisted → 1 ≤ s.sc.maxNodes → y.out = [] →
    ∀ j : JobId, j < s.sc.n → y.loc.st j = .ns → y.loc.blk j ≠ []

theorem live5_init (sc : Scn) : Live5 (init sc) := by
  refine ⟨?_, ?_, ?_⟩ <;> simp [init, HasJob]

set_option maxHeartbeats 32000000 in
theorem live5_step {s s' : Sys} {op : Op} (hr : RoleInv s) (ha : OutcomeA s) (h0 : Live0 s) (hi : Live5 s)
    (h : stepP s op = some s') : Live5 s' := by
  have hsc := sc_step (stepP_step h)
  obtain ⟨r1, r2, r3, r4, r5⟩ := hr
  obtain ⟨a1, a2, a3, a4, a5, a6⟩ := h0
  have o9 := ha.newlyDisj
  obtain ⟨e1, e2, e3⟩ := hi
  plain_cases op h hs hg <;> (refine ⟨?_, ?_, ?_⟩ <;> frame_out)
  all_goals first
    | grind [SubP.load, persistStatus, afterCollect, afterPersist, RoundDone]

end Jade.Sys
