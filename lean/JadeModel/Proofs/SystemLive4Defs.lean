import JadeModel.Proofs.SystemLive3Defs

set_option linter.unusedSimpArgs false

/-! Fault-free executions, part 5: definitions (see `SystemLive4`). -/

namespace Jade.Sys

structure Live5 (s : Sys) : Prop where
  dBlk : ∀ j : JobId, s.disk.st j = .ns → ∀ b ∈ s.disk.blk j, s.disk.st b ≠ .done
  hBlk : ∀ q a y, s.procs q = .sub a y → holds y.pc = true → ∀ j : JobId, y.loc.st j = .ns →
    ∀ b ∈ y.loc.blk j, y.loc.st b ≠ .done ∨ b ∈ y.toCancel ∨ HasJob y.pass b
  nsBlocked : ∀ q a y, s.procs q = .sub a y → y.pc = .persisted → 1 ≤ s.sc.maxNodes → y.out = [] →
    ∀ j : JobId, j < s.sc.n → y.loc.st j = .ns → y.loc.blk j ≠ []

theorem live5_init (sc : Scn) : Live5 (init sc) := by
  refine ⟨?_, ?_, ?_⟩ <;> simp [init, HasJob]

#realize_aux Jade

end Jade.Sys
