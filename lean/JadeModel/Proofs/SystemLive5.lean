import JadeModel.Proofs.SystemLive4
import JadeModel.Proofs.SystemLive5Defs
import JadeModel.Proofs.SystemLiveStepF

set_option linter.unusedSimpArgs false

/-! Fault-free executions, part 6: **the completion decision is sound** — when a fault-free round decides
"complete" (all jobs DONE, or forced because no batch is believed active), every configured job has a row
in the consolidated results file; hence so does every job when the completion flag is on disk.
 -/

namespace Jade.Sys
open Jade.Ref

theorem liveAll_step {s s' : Sys} {op : Op} (hi : LiveAll s) (h : stepP s op = some s') : LiveAll s' := by
  have hs := stepP_step h
  obtain ⟨cap, prog, outA, gate, l0, l1, l2, l3, l4, l5⟩ := hi
  have hb := cap.node.batch
  exact ⟨capInv_step cap hs, progA_step prog hs, outcomeA_step outA hs, gateInv_step gate hs, live0_step hb.role l0 h, live1_step l0 l1 h,
    live2_step cap.node l2 h, live3_step hb l0 l2 l3 h, live4_step cap prog l0 l2 l3 l4 h,
    live5_step hb.role outA l0 l5 h⟩

theorem liveAll_run {s s' : Sys} (ops : List Op) (hi : LiveAll s) (h : runP s ops = some s') : LiveAll s' := by
  induction ops generalizing s with
  | nil => simp [runP] at h; subst h; exact hi
  | cons op ops ih =>
    simp only [runP] at h
    split at h
    · next s1 hs => exact ih (liveAll_step hi hs) h
    · cases h

theorem liveF_run {s s' : Sys} (ops : List Op) (rank : JobId → Nat) (hac : Acyclic s.sc.graph rank)
    (hmax : 1 ≤ s.sc.maxNodes) (hall : LiveAll s) (hi : LiveF s) (h : runP s ops = some s') :
    LiveAll s' ∧ LiveF s' ∧ s'.sc = s.sc := by
  induction ops generalizing s with
  | nil => simp [runP] at h; subst h; exact ⟨hall, hi, rfl⟩
  | cons op ops ih =>
    simp only [runP] at h
    split at h
    · next s1 hs =>
      have hsc := sc_step (stepP_step hs)
      obtain ⟨r1, r2, r3⟩ := ih (s := s1) (by rw [hsc]; exact hac) (by rw [hsc]; exact hmax) (liveAll_step hall hs)
        (liveF_step hall rank hac hmax hi hs) h
      exact ⟨r1, r2, by rw [r3, hsc]⟩
    · cases h

/-- the intermediate form: in a fault-free run, a process that has decided "complete" has a row for every
    configured job in the consolidated file -/
theorem decided_no_missing (sc : Scn) (rank : JobId → Nat) (hac : Acyclic sc.graph rank) (hmax : 1 ≤ sc.maxNodes)
    (ops : List Op) (s : Sys) (h : runP (init sc) ops = some s) (p : Pid) (x : SubP) (hx : getSub s p = some x)
    (hpc : x.pc = .unmarked) (hd : x.decided = true) :
    ∀ j : JobId, j < sc.n → ∃ r ∈ s.processed, r.job = j := by
  obtain ⟨-, hf, hsc⟩ := liveF_run (s := init sc) ops rank hac hmax (liveAll_init sc) (liveF_init sc) h
  intro j hj
  exact hf.decidedAll p true x (getSub_eq hx) (Or.inl ⟨hpc, hd⟩) j (by rw [hsc]; exact hj)

/-- **no missing jobs**: in a fault-free run, when the submission is marked complete every configured job
    has a row in the consolidated results file -/
theorem complete_no_missing (sc : Scn) (rank : JobId → Nat) (hac : Acyclic sc.graph rank) (hmax : 1 ≤ sc.maxNodes)
    (ops : List Op) (s : Sys) (h : runP (init sc) ops = some s) (hc : s.disk.complete = true) :
    ∀ j : JobId, j < sc.n → ∃ r ∈ s.processed, r.job = j := by
  obtain ⟨-, hf, hsc⟩ := liveF_run (s := init sc) ops rank hac hmax (liveAll_init sc) (liveF_init sc) h
  intro j hj
  exact hf.completeAll hc j (by rw [hsc]; exact hj)

/-- the flag is set — and, before it, `results.json` is written — only on a full consolidated file -/
theorem flag_all_rows (sc : Scn) (rank : JobId → Nat) (hac : Acyclic sc.graph rank) (hmax : 1 ≤ sc.maxNodes)
    (ops : List Op) (s s' : Sys) (h : runP (init sc) ops = some s) (p : Pid)
    (hf : stepP s (.flag p) = some s' ∨ stepP s (.summary p) = some s') :
    ∀ j : JobId, j < sc.n → ∃ r ∈ s.processed, r.job = j := by
  obtain ⟨-, hF, hsc⟩ := liveF_run (s := init sc) ops rank hac hmax (liveAll_init sc) (liveF_init sc) h
  have hx : ∃ x : SubP, s.procs p = .sub true x ∧ ((x.pc = .unmarked ∧ x.decided = true) ∨ x.pc = .summarized) := by
    rcases hf with hf | hf
    · have hs := stepP_step hf
      step_cases hs
      rename_i x hg hp
      exact ⟨x, hp, Or.inr hg.1⟩
    · have hs := stepP_step hf
      step_cases hs
      rename_i x hg hp
      exact ⟨x, hp, Or.inl hg⟩
  obtain ⟨x, hp, hpc⟩ := hx
  intro j hj
  exact hF.decidedAll p true x hp hpc j (by rw [hsc]; exact hj)

end Jade.Sys
