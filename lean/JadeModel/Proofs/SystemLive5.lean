import JadeModel.Proofs.SystemLive4

set_option linter.unusedSimpArgs false

/-!
Fault-free executions, part 6: **the completion decision is sound** — when a fault-free round decides
"complete" (all jobs DONE, or forced because no batch is believed active), every configured job has a row
in the consolidated results file; hence so does every job when the completion flag is on disk.
-/

namespace Jade.Sys
open Jade.Ref

/-- all invariants of fault-free executions -/
structure LiveAll (s : Sys) : Prop where
  cap : CapInv s
  prog : ProgA s
  outA : OutcomeA s
  gate : GateInv s
  l0 : Live0 s
  l1 : Live1 s
  l2 : Live2 s
  l3 : Live3 s
  l4 : Live4 s
  l5 : Live5 s

theorem liveAll_init (sc : Scn) : LiveAll (init sc) :=
  ⟨capInv_init sc, progA_init sc, outcomeA_init sc, gateInv_init sc, live0_init sc, live1_init sc, live2_init sc, live3_init sc,
    live4_init sc, live5_init sc⟩

theorem liveAll_step {s s' : Sys} {op : Op} (hi : LiveAll s) (h : stepP s op = some s') : LiveAll s' := by
  have hs := stepP_step h
  obtain ⟨cap, prog, outA, gate, l0, l1, l2, l3, l4, l5⟩ := hi
  have hb := cap.node.batch
  exact ⟨capInv_step cap hs, progA_step prog hs, outcomeA_step outA hs, gateInv_step gate hs, live0_step hb.role l0 h, live1_step l0 l1 h,
    live2_step cap.node l2 h, live3_step hb l0 l2 l3 h, live4_step cap prog l0 l2 l3 l4 h,
    live5_step hb.role outA l0 l5 h⟩

theorem liveAll_run {s s' : Sys} (ops : List Op) (hi : LiveAll s) (h : runP s ops = some s') : LiveAll s' := by
  induction ops generalizing s with
  | nil => simp [runP] at h; subst h; exact hi
  | cons op ops ih =>
    simp only [runP] at h
    split at h
    · next s1 hs => exact ih (liveAll_step hi hs) h
    · cases h

theorem isCompleteDecision_iff (n : Nat) (st : Status) :
    isCompleteDecision n st = true ↔ ((∀ j : JobId, j < n → st.st j = .done) ∨ st.ids = []) := by
  simp [isCompleteDecision]

/-- in a fault-free round that ends with an empty HPC queue nothing is SUBMITTED any more -/
theorem persisted_no_sub {s : Sys} (hi : LiveAll s) {q : Pid} {a : Bool} {x : SubP}
    (hq : s.procs q = .sub a x) (hpc : x.pc = .persisted) (hout : x.out = []) (j : JobId) :
    x.loc.st j ≠ .sub := by
  intro hst
  have hh : holds x.pc = true := by rw [hpc]; rfl
  have hnew := (hi.l0.persisted q a x hq (by rw [hpc]; rfl)).1
  have hpass := (hi.l0.collected q a x hq (by rw [hpc]; rfl)).1
  rcases hi.l4.hSub q a x hq hh j hst with h | h | ⟨B, hB, -, k, hk, h | h⟩
  · rw [hnew] at h; cases h
  · rw [hpass] at h; exact (hasJob_nil j).1 h
  · rw [hout] at h; cases h
  · rcases hi.l4.quiet q a x hq (Or.inr (Or.inr hpc)) B hB k hk with h' | h'
    · rw [hout] at h'; cases h'
    · rw [h'] at h; exact (hasJob_nil j).1 h

/-- …and nothing is NOT_SUBMITTED either: every job is DONE in the round's copy -/
theorem persisted_all_done {s : Sys} (hi : LiveAll s) (rank : JobId → Nat) (hac : Acyclic s.sc.graph rank)
    (hmax : 1 ≤ s.sc.maxNodes) {q : Pid} {a : Bool} {x : SubP}
    (hq : s.procs q = .sub a x) (hpc : x.pc = .persisted) (hout : x.out = []) :
    ∀ j : JobId, j < s.sc.n → x.loc.st j = .done := by
  have hh : holds x.pc = true := by rw [hpc]; rfl
  have hcol := hi.l0.collected q a x hq (by rw [hpc]; rfl)
  have key : ∀ (k : Nat) (j : JobId), rank j = k → j < s.sc.n → x.loc.st j = .done := by
    intro k
    induction k using Nat.strongRecOn with
    | _ k ih =>
      intro j hk hj
      cases hst : x.loc.st j with
      | done => rfl
      | sub => exact absurd hst (persisted_no_sub hi hq hpc hout j)
      | ns =>
        exfalso
        have hne := hi.l5.nsBlocked q a x hq hpc hmax hout j hj hst
        obtain ⟨b, hb⟩ := List.exists_mem_of_ne_nil _ hne
        have hbl : b ∈ s.sc.graph.blockers j := hi.outA.subLoc q a x hq j b hb
        have hbn : b < s.sc.n := hac.inside j hj b hbl
        have hlt : rank b < rank j := hac.lt j hj b hbl
        have hbd := ih (rank b) (by omega) b rfl hbn
        rcases hi.l5.hBlk q a x hq hh j hst b hb with h | h | h
        · exact h hbd
        · rw [hcol.2] at h; cases h
        · rw [hcol.1] at h; exact (hasJob_nil b).1 h
  exact fun j hj => key (rank j) j rfl hj

/-- **the decision is sound**: a fault-free round whose `_is_complete` answers True has a row for every job -/
theorem decision_sound {s : Sys} (hi : LiveAll s) (rank : JobId → Nat) (hac : Acyclic s.sc.graph rank)
    (hmax : 1 ≤ s.sc.maxNodes) (q : Pid) (a : Bool) (x : SubP)
    (hq : s.procs q = .sub a x) (hpc : x.pc = .persisted) (hd : isCompleteDecision s.sc.n x.loc = true) :
    ∀ j : JobId, j < s.sc.n → HasJob s.processed j := by
  have hall : ∀ j : JobId, j < s.sc.n → x.loc.st j = .done := by
    rcases (isCompleteDecision_iff _ _).1 hd with h | h
    · exact h
    · rw [hi.prog.persistedIds q a x hq hpc] at h
      exact persisted_all_done hi rank hac hmax hq hpc h
  have hcol := hi.l0.collected q a x hq (by rw [hpc]; rfl)
  intro j hj
  rcases hi.l1.locDone q a x hq j (hall j hj) with h | h
  · exact h
  · rw [hcol.2] at h; cases h

/-- who decided "complete" — and the flag on disk — stand on a full consolidated file -/
structure LiveF (s : Sys) : Prop where
  decidedAll : ∀ q a y, s.procs q = .sub a y → ((y.pc = .unmarked ∧ y.decided = true) ∨ y.pc = .summarized) →
    ∀ j : JobId, j < s.sc.n → HasJob s.processed j
  completeAll : s.disk.complete = true → ∀ j : JobId, j < s.sc.n → HasJob s.processed j

theorem liveF_init (sc : Scn) : LiveF (init sc) := by
  refine ⟨?_, ?_⟩ <;> simp [init]

set_option maxHeartbeats 32000000 in
theorem liveF_step {s s' : Sys} {op : Op} (hall : LiveAll s) (rank : JobId → Nat) (hac : Acyclic s.sc.graph rank)
    (hmax : 1 ≤ s.sc.maxNodes) (hi : LiveF s) (h : stepP s op = some s') : LiveF s' := by
  have hsc := sc_step (stepP_step h)
  have hdec := decision_sound hall rank hac hmax
  have g1 := hall.gate.flags
  obtain ⟨f1, f2⟩ := hi
  plain_cases op h hs hg <;> (refine ⟨?_, ?_⟩ <;> frame_out)
  all_goals first
    | grind [SubP.load, persistStatus]

theorem liveF_run {s s' : Sys} (ops : List Op) (rank : JobId → Nat) (hac : Acyclic s.sc.graph rank)
    (hmax : 1 ≤ s.sc.maxNodes) (hall : LiveAll s) (hi : LiveF s) (h : runP s ops = some s') :
    LiveAll s' ∧ LiveF s' ∧ s'.sc = s.sc := by
  induction ops generalizing s with
  | nil => simp [runP] at h; subst h; exact ⟨hall, hi, rfl⟩
  | cons op ops ih =>
    simp only [runP] at h
    split at h
    · next s1 hs =>
      have hsc := sc_step (stepP_step hs)
      obtain ⟨r1, r2, r3⟩ := ih (s := s1) (by rw [hsc]; exact hac) (by rw [hsc]; exact hmax) (liveAll_step hall hs)
        (liveF_step hall rank hac hmax hi hs) h
      exact ⟨r1, r2, by rw [r3, hsc]⟩
    · cases h

/-- the intermediate form: in a fault-free run, a process that has decided "complete" has a row for every
    configured job in the consolidated file -/
theorem decided_no_missing (sc : Scn) (rank : JobId → Nat) (hac : Acyclic sc.graph rank) (hmax : 1 ≤ sc.maxNodes)
    (ops : List Op) (s : Sys) (h : runP (init sc) ops = some s) (p : Pid) (x : SubP) (hx : getSub s p = some x)
    (hpc : x.pc = .unmarked) (hd : x.decided = true) :
    ∀ j : JobId, j < sc.n → ∃ r ∈ s.processed, r.job = j := by
  obtain ⟨-, hf, hsc⟩ := liveF_run (s := init sc) ops rank hac hmax (liveAll_init sc) (liveF_init sc) h
  intro j hj
  exact hf.decidedAll p true x (getSub_eq hx) (Or.inl ⟨hpc, hd⟩) j (by rw [hsc]; exact hj)

/-- **no missing jobs**: in a fault-free run, when the submission is marked complete every configured job
    has a row in the consolidated results file -/
theorem complete_no_missing (sc : Scn) (rank : JobId → Nat) (hac : Acyclic sc.graph rank) (hmax : 1 ≤ sc.maxNodes)
    (ops : List Op) (s : Sys) (h : runP (init sc) ops = some s) (hc : s.disk.complete = true) :
    ∀ j : JobId, j < sc.n → ∃ r ∈ s.processed, r.job = j := by
  obtain ⟨-, hf, hsc⟩ := liveF_run (s := init sc) ops rank hac hmax (liveAll_init sc) (liveF_init sc) h
  intro j hj
  exact hf.completeAll hc j (by rw [hsc]; exact hj)

/-- the flag is set — and, before it, `results.json` is written — only on a full consolidated file -/
theorem flag_all_rows (sc : Scn) (rank : JobId → Nat) (hac : Acyclic sc.graph rank) (hmax : 1 ≤ sc.maxNodes)
    (ops : List Op) (s s' : Sys) (h : runP (init sc) ops = some s) (p : Pid)
    (hf : stepP s (.flag p) = some s' ∨ stepP s (.summary p) = some s') :
    ∀ j : JobId, j < sc.n → ∃ r ∈ s.processed, r.job = j := by
  obtain ⟨-, hF, hsc⟩ := liveF_run (s := init sc) ops rank hac hmax (liveAll_init sc) (liveF_init sc) h
  have hx : ∃ x : SubP, s.procs p = .sub true x ∧ ((x.pc = .unmarked ∧ x.decided = true) ∨ x.pc = .summarized) := by
    rcases hf with hf | hf
    · have hs := stepP_step hf
      step_cases hs
      rename_i x hg hp
      exact ⟨x, hp, Or.inr hg.1⟩
    · have hs := stepP_step hf
      step_cases hs
      rename_i x hg hp
      exact ⟨x, hp, Or.inl hg⟩
  obtain ⟨x, hp, hpc⟩ := hx
  intro j hj
  exact hF.decidedAll p true x hp hpc j (by rw [hsc]; exact hj)

end Jade.Sys
