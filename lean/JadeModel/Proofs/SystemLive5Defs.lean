import JadeModel.Proofs.SystemLive1Defs

set_option linter.unusedSimpArgs false

/-! Fault-free executions, part 6: definitions and the soundness of the completion decision (see `SystemLive5`). -/

namespace Jade.Sys
open Jade.Ref

/-- all invariants of fault-free executions -/
structure LiveAll (s : Sys) : Prop where
  cap : CapInv s
  prog : ProgA s
  outA : OutcomeA s
  gate : GateInv s
  l0 : Live0 s
  l1 : Live1 s
  l2 : Live2 s
  l3 : Live3 s
  l4 : Live4 s
  l5 : Live5 s

theorem liveAll_init (sc : Scn) : LiveAll (init sc) :=
  ⟨capInv_init sc, progA_init sc, outcomeA_init sc, gateInv_init sc, live0_init sc, live1_init sc, live2_init sc, live3_init sc,
    live4_init sc, live5_init sc⟩

theorem isCompleteDecision_iff (n : Nat) (st : Status) :
    isCompleteDecision n st = true ↔ ((∀ j : JobId, j < n → st.st j = .done) ∨ st.ids = []) := by
  simp [isCompleteDecision]

/-- in a fault-free round that ends with an empty HPC queue nothing is SUBMITTED any more -/
theorem persisted_no_sub {s : Sys} (hi : LiveAll s) {q : Pid} {a : Bool} {x : SubP}
    (hq : s.procs q = .sub a x) (hpc : x.pc = .persisted) (hout : x.out = []) (j : JobId) :
    x.loc.st j ≠ .sub := by
  intro hst
  have hh : holds x.pc = true := by rw [hpc]; rfl
  have hnew := (hi.l0.persisted q a x hq (by rw [hpc]; rfl)).1
  have hpass := (hi.l0.collected q a x hq (by rw [hpc]; rfl)).1
  rcases hi.l4.hSub q a x hq hh j hst with h | h | ⟨B, hB, -, k, hk, h | h⟩
  · rw [hnew] at h; cases h
  · rw [hpass] at h; exact (hasJob_nil j).1 h
  · rw [hout] at h; cases h
  · rcases hi.l4.quiet q a x hq (Or.inr (Or.inr hpc)) B hB k hk with h' | h'
    · rw [hout] at h'; cases h'
    · rw [h'] at h; exact (hasJob_nil j).1 h

/-- …and nothing is NOT_SUBMITTED either: every job is DONE in the round's copy -/
theorem persisted_all_done {s : Sys} (hi : LiveAll s) (rank : JobId → Nat) (hac : Acyclic s.sc.graph rank)
    (hmax : 1 ≤ s.sc.maxNodes) {q : Pid} {a : Bool} {x : SubP}
    (hq : s.procs q = .sub a x) (hpc : x.pc = .persisted) (hout : x.out = []) :
    ∀ j : JobId, j < s.sc.n → x.loc.st j = .done := by
  have hh : holds x.pc = true := by rw [hpc]; rfl
  have hcol := hi.l0.collected q a x hq (by rw [hpc]; rfl)
  have key : ∀ (k : Nat) (j : JobId), rank j = k → j < s.sc.n → x.loc.st j = .done := by
    intro k
    induction k using Nat.strongRecOn with
    | _ k ih =>
      intro j hk hj
      cases hst : x.loc.st j with
      | done => rfl
      | sub => exact absurd hst (persisted_no_sub hi hq hpc hout j)
      | ns =>
        exfalso
        have hne := hi.l5.nsBlocked q a x hq hpc hmax hout j hj hst
        obtain ⟨b, hb⟩ := List.exists_mem_of_ne_nil _ hne
        have hbl : b ∈ s.sc.graph.blockers j := hi.outA.subLoc q a x hq j b hb
        have hbn : b < s.sc.n := hac.inside j hj b hbl
        have hlt : rank b < rank j := hac.lt j hj b hbl
        have hbd := ih (rank b) (by omega) b rfl hbn
        rcases hi.l5.hBlk q a x hq hh j hst b hb with h | h | h
        · exact h hbd
        · rw [hcol.2] at h; cases h
        · rw [hcol.1] at h; exact (hasJob_nil b).1 h
  exact fun j hj => key (rank j) j rfl hj

/-- **the decision is sound**: a fault-free round whose `_is_complete` answers True has a row for every job -/
theorem decision_sound {s : Sys} (hi : LiveAll s) (rank : JobId → Nat) (hac : Acyclic s.sc.graph rank)
    (hmax : 1 ≤ s.sc.maxNodes) (q : Pid) (a : Bool) (x : SubP)
    (hq : s.procs q = .sub a x) (hpc : x.pc = .persisted) (hd : isCompleteDecision s.sc.n x.loc = true) :
    ∀ j : JobId, j < s.sc.n → HasJob s.processed j := by
  have hall : ∀ j : JobId, j < s.sc.n → x.loc.st j = .done := by
    rcases (isCompleteDecision_iff _ _).1 hd with h | h
    · exact h
    · rw [hi.prog.persistedIds q a x hq hpc] at h
      exact persisted_all_done hi rank hac hmax hq hpc h
  have hcol := hi.l0.collected q a x hq (by rw [hpc]; rfl)
  intro j hj
  rcases hi.l1.locDone q a x hq j (hall j hj) with h | h
  · exact h
  · rw [hcol.2] at h; cases h

/-- who decided "complete" — and the flag on disk — stand on a full consolidated file -/
structure LiveF (s : Sys) : Prop where
  decidedAll : ∀ q a y, s.procs q = .sub a y → ((y.pc = .unmarked ∧ y.decided = true) ∨ y.pc = .summarized) →
    ∀ j : JobId, j < s.sc.n → HasJob s.processed j
  completeAll : s.disk.complete = true → ∀ j : JobId, j < s.sc.n → HasJob s.processed j

theorem liveF_init (sc : Scn) : LiveF (init sc) := by
  refine ⟨?_, ?_⟩ <;> simp [init]

#realize_aux Jade

end Jade.Sys
