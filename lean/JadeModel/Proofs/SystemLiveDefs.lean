import JadeModel.Proofs.SystemPlainBase
import JadeModel.Proofs.SystemProgressDefs
import JadeModel.Proofs.SystemOutcomeDefs
import JadeModel.Proofs.SystemCapDefs
import JadeModel.Proofs.SystemGateDefs

set_option linter.unusedSimpArgs false

/-! Fault-free executions (`Jade.Sys.stepP` / `runP`), part 1: definitions (see `SystemLive`). -/

namespace Jade.Sys

/-- every batch the round does not believe active has an empty result file -/
def CollectedAll (s : Sys) (x : SubP) : Prop :=
  ∀ B ∈ s.batches, ∀ h : Hid, B.hid = some h → h ∈ x.out ∨ s.nodeFile B.bid = []

/-- every unblocked NOT_SUBMITTED job was handed over in this round, or the node limit is reached -/
def RoundDone (sc : Scn) (x : SubP) : Prop :=
  sc.maxNodes ≤ x.out.length ∨
    ∀ j : JobId, j < sc.n → x.loc.st j = .ns → x.loc.blk j = [] → j ∈ x.pend

theorem collectedAll_iff (s : Sys) (x : SubP) : collectedAll s x = true ↔ CollectedAll s x := by
  simp only [collectedAll, CollectedAll, List.all_eq_true]
  constructor
  · intro h B hB k hk
    have := h B hB
    simp only [hk, Bool.or_eq_true, List.contains_eq_mem, decide_eq_true_eq, List.isEmpty_iff] at this
    exact this
  · intro h B hB
    cases hk : B.hid with
    | none => rfl
    | some k =>
      have := h B hB k hk
      simpa using this

theorem roundDone_iff (sc : Scn) (x : SubP) : roundDone sc x = true ↔ RoundDone sc x := by
  simp only [roundDone, RoundDone, Bool.or_eq_true, decide_eq_true_eq, List.all_eq_true, List.mem_range,
    Bool.not_eq_true', Bool.and_eq_false_iff, List.contains_eq_mem]
  constructor
  · rintro (h | h)
    · exact Or.inl h
    · refine Or.inr fun j hj hst hblk => ?_
      rcases h j hj with (h1 | h1) | h1
      · simp [hst] at h1
      · simp [hblk] at h1
      · simpa using h1
  · rintro (h | h)
    · exact Or.inl h
    · refine Or.inr fun j hj => ?_
      by_cases hst : x.loc.st j = .ns
      · by_cases hblk : x.loc.blk j = []
        · exact Or.inr (by simpa using h j hj hst hblk)
        · exact Or.inl (Or.inr (by simpa using hblk))
      · exact Or.inl (Or.inl (by simpa using hst))

/-- what `stepP` adds to `step`, per operation -/
def PlainGuard (s : Sys) : Op → Prop
  | .collectCopy _ _ => False
  | .persistCfg _ => False
  | .persistJobs _ => False
  | .kill _ => False
  | .fail _ => False
  | .batchLost _ => False
  | .scancel _ _ => False
  | .markCanceled _ => False
  | .sbatch _ _ hid => ∃ h : Hid, hid = some h
  | .spawnSub _ c => c = false
  | .passEnd p _ => ∀ x : SubP, s.procs p = .sub true x → CollectedAll s x
  | .collectDone p => ∀ x : SubP, s.procs p = .sub true x → CollectedAll s x
  | .persist p => ∀ x : SubP, s.procs p = .sub true x → RoundDone s.sc x
  | .skipPersist p => ∀ x : SubP, s.procs p = .sub true x → RoundDone s.sc x
  | _ => True

theorem plainGuard_stepP {s s' : Sys} {op : Op} (h : stepP s op = some s') : PlainGuard s op := by
  have hg := stepP_guard h
  cases op <;> simp only [extraGuard, Op.faulty, Bool.and_eq_true, Bool.not_eq_true'] at hg <;>
    simp only [PlainGuard] <;> (try trivial) <;> (try (cases hg.1; done))
  case spawnSub p c => cases c <;> simp_all [Op.faulty]
  case sbatch p jobs hid => cases hid <;> simp_all [Op.faulty]
  case passEnd p ks =>
    intro x hx
    have := hg.2
    simp only [(getSub_iff s p x).2 hx] at this
    exact (collectedAll_iff s x).1 this
  case collectDone p =>
    intro x hx
    have := hg.2
    simp only [(getSub_iff s p x).2 hx] at this
    exact (collectedAll_iff s x).1 this
  case persist p =>
    intro x hx
    have := hg.2
    simp only [(getSub_iff s p x).2 hx] at this
    exact (roundDone_iff s.sc x).1 this
  case skipPersist p =>
    intro x hx
    have := hg.2
    simp only [(getSub_iff s p x).2 hx] at this
    exact (roundDone_iff s.sc x).1 this

/-- unfold one accepted fault-free step: `hs` is the `step` equation (split into its cases), `hg` the
    plain-language extra guard; faulty operations are discharged -/
macro "plain_cases" op:ident h:ident hs:ident hg:ident : tactic => `(tactic|
  (have $hs:ident := stepP_step $h:ident
   have $hg:ident := plainGuard_stepP $h:ident
   cases $op:ident <;> simp only [PlainGuard] at $hg:ident <;>
     (try (obtain ⟨_, rfl⟩ := $hg:ident)) <;> step_cases $hs:ident))

/-- the phases after the collection loop -/
def afterCollect : SPc → Bool
  | .ready => true
  | .marked => true
  | .persisted => true
  | .unmarked => true
  | .summarized => true
  | .flagged => true
  | _ => false

/-- the phases after `update_job_status` -/
def afterPersist : SPc → Bool
  | .persisted => true
  | .unmarked => true
  | .summarized => true
  | .flagged => true
  | _ => false

/-- phase facts of fault-free rounds -/
structure Live0 (s : Sys) : Prop where
  /-- a marker always has a live owner that will remove it -/
  noOrphan : s.marker = true → ∃ q : Pid, ∃ y : SubP, s.procs q = .sub true y ∧ (y.pc = .marked ∨ y.pc = .persisted)
  /-- no cancel-jobs, no exception in flight, nobody dies while holding the role -/
  plain : ∀ q a y, s.procs q = .sub a y → y.isCancel = false ∧ y.pc ≠ .failing ∧ (a = true ∨ y.pc = .gone)
  atLoaded : ∀ q a y, s.procs q = .sub a y → y.pc = .loaded →
    y.pass = [] ∧ y.newly = [] ∧ y.toCancel = [] ∧ y.pend = []
  collected : ∀ q a y, s.procs q = .sub a y → afterCollect y.pc = true → y.pass = [] ∧ y.toCancel = []
  persisted : ∀ q a y, s.procs q = .sub a y → afterPersist y.pc = true → y.newly = [] ∧ y.pend = []
  noPend : ∀ q a y, s.procs q = .sub a y → (y.pc = .collecting ∨ y.pc = .ready) → y.pend = []

theorem live0_init (sc : Scn) : Live0 (init sc) := by
  refine ⟨?_, ?_, ?_, ?_, ?_, ?_⟩ <;> simp [init]

#realize_aux Jade

end Jade.Sys
