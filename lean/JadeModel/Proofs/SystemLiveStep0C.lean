import JadeModel.Proofs.SystemLiveDefs

set_option linter.unusedSimpArgs false

namespace Jade.Sys

set_option maxHeartbeats 16000000 in
theorem live0_step_c {s s' : Sys} {op : Op} (hr : RoleInv s) (hi : Live0 s) (h : stepP s op = some s') :
    (∀ q a y, s'.procs q = .sub a y → afterCollect y.pc = true → y.pass = [] ∧ y.toCancel = []) ∧
    (∀ q a y, s'.procs q = .sub a y → (y.pc = .collecting ∨ y.pc = .ready) → y.pend = []) := by
  obtain ⟨h1, h2, h3, h4, h5⟩ := hr
  obtain ⟨a1, a2, a3, a4, a5, a6⟩ := hi
  plain_cases op h hs hg <;> (refine ⟨?_, ?_⟩ <;> frame_out)
  all_goals first
    | proc_clause
    | grind [SubP.load, persistStatus, find?_hid, afterCollect, afterPersist]

end Jade.Sys
