import JadeModel.Proofs.SystemLive1Defs

set_option linter.unusedSimpArgs false

namespace Jade.Sys

set_option maxHeartbeats 16000000 in
theorem live1_step {s s' : Sys} {op : Op} (h0 : Live0 s) (hi : Live1 s) (h : stepP s op = some s') :
    Live1 s' := by
  obtain ⟨a1, a2, a3, a4, a5, a6⟩ := h0
  obtain ⟨b1, b2, b3, b4⟩ := hi
  plain_cases op h hs hg <;> (refine ⟨?_, ?_, ?_, ?_⟩ <;> frame_out)
  all_goals first
    | grind [SubP.load, persistStatus, find?_hid, afterCollect, afterPersist]

end Jade.Sys
