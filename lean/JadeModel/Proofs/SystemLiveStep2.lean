import JadeModel.Proofs.SystemLive1Defs

set_option linter.unusedSimpArgs false

namespace Jade.Sys

set_option maxHeartbeats 16000000 in
theorem live2_step {s s' : Sys} {op : Op} (hn : NodeInv s) (hi : Live2 s) (h : stepP s op = some s') :
    Live2 s' := by
  obtain ⟨-, n1, n2, n3, n4, n5, n6, n7, n8⟩ := hn
  obtain ⟨b1, b2, b3, b4⟩ := hi
  plain_cases op h hs hg <;> (refine ⟨?_, ?_, ?_, ?_⟩ <;> frame_out)
  all_goals first
    | grind [SubP.load, persistStatus, find?_hid]

end Jade.Sys
