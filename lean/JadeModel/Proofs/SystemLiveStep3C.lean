import JadeModel.Proofs.SystemLive1Defs

set_option linter.unusedSimpArgs false

namespace Jade.Sys

set_option maxHeartbeats 32000000 in
theorem live3_step_c {s s' : Sys} {op : Op} (hb : BatchInv s) (h0 : Live0 s) (h2 : Live2 s) (hi : Live3 s)
    (h : stepP s op = some s') :
    (∀ q a y, s'.procs q = .sub a y → ∀ j ∈ y.toCancel, y.loc.st j = .done) ∧
    (∀ q a y, s'.procs q = .sub a y → holds y.pc = true → ∀ j : JobId, y.loc.st j = .done →
    s'.disk.st j = .done ∨ j ∈ y.toCancel ∨ HasJob y.pass j ∨ j ∈ y.newly) := by
  have hbs := fun q a y hq hh => @holder_batch_st s hb h0 q a y hq hh
  obtain ⟨⟨r1, r2, r3, r4, r5⟩, -, -, -, -, -, -, -⟩ := hb
  obtain ⟨a1, a2, a3, a4, a5, a6⟩ := h0
  have f4 := h2.fileRows
  obtain ⟨c1, c2, c3, c4, c5, c6, c7⟩ := hi
  plain_cases op h hs hg <;> (refine ⟨?_, ?_⟩ <;> frame_out)
  all_goals first
    | grind [SubP.load, persistStatus, find?_hid, afterCollect, afterPersist]

end Jade.Sys
