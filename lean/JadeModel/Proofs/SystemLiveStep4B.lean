import JadeModel.Proofs.SystemLive1Defs

set_option linter.unusedSimpArgs false

namespace Jade.Sys

set_option maxHeartbeats 32000000 in
theorem live4_step_b {s s' : Sys} {op : Op} (hc : CapInv s) (hp : ProgA s) (h0 : Live0 s) (h2 : Live2 s)
    (h3 : Live3 s) (hi : Live4 s) (h : stepP s op = some s')
    (hsb : ∀ p jobs hid, op = Op.sbatch p jobs hid → Live4 s') :
    (∀ q a y, s'.procs q = .sub a y → holds y.pc = true → ∀ j ∈ y.pend,
    ∃ B ∈ s'.batches, j ∈ B.jobs ∧ ∃ h : Hid, B.hid = some h ∧ h ∈ y.out) ∧
    (∀ q a y, s'.procs q = .sub a y → (y.pc = .ready ∨ y.pc = .marked ∨ y.pc = .persisted) →
    ∀ B ∈ s'.batches, ∀ h : Hid, B.hid = some h → h ∈ y.out ∨ s'.nodeFile B.bid = []) := by
  cases op with
  | sbatch p jobs hid => exact ⟨(hsb p jobs hid rfl).pendBatch, (hsb p jobs hid rfl).quiet⟩
  | _ =>
    clear hsb
    have htr := fun q a y hq hh => @holder_tracked' s hc h0 q a y hq hh
    have hbu := fun b hb b' hb' => @bid_unique s.batches hc.node.batch.idsNodup b b' hb hb'
    have hend := fun k => @ended_of_not_active s k
    have nob := hc.node.ofBatch
    have hu := hc.node.hidUnique
    have hk := hc.node.hidKnown
    obtain ⟨r1, r2, r3, r4, r5⟩ := hc.node.batch.role
    obtain ⟨a1, a2, a3, a4, a5, a6⟩ := h0
    obtain ⟨-, e2, e3, -⟩ := h2
    have c1 := h3.hProc
    have p2 := hp.outIds
    obtain ⟨d1, d2, d3, d4⟩ := hi
    plain_split h hs hg <;> (refine ⟨?_, ?_⟩ <;> frame_out)
    all_goals first
      | grind [SubP.load, persistStatus, find?_hid, afterCollect, afterPersist, CollectedAll]

end Jade.Sys
