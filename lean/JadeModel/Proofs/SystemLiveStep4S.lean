import JadeModel.Proofs.SystemLive1Defs

set_option linter.unusedSimpArgs false

namespace Jade.Sys

set_option maxHeartbeats 32000000 in
theorem live4_sbatch {s s' : Sys} {p : Pid} {jobs : List JobId} {hid : Option Hid} (hc : CapInv s)
    (h0 : Live0 s) (hi : Live4 s) (h : stepP s (.sbatch p jobs hid) = some s') : Live4 s' := by
  have hk := hc.node.hidKnown
  obtain ⟨r1, r2, r3, r4, r5⟩ := hc.node.batch.role
  obtain ⟨a1, a2, a3, a4, a5, a6⟩ := h0
  obtain ⟨d1, d2, d3, d4⟩ := hi
  plain_split h hs hg
  refine ⟨?_, ?_, ?_, ?_⟩ <;> frame_out
  all_goals first
    | grind [snoc_mem]

end Jade.Sys
