import JadeModel.Proofs.SystemLive1Defs

set_option linter.unusedSimpArgs false

namespace Jade.Sys

set_option maxHeartbeats 32000000 in
theorem live5_step {s s' : Sys} {op : Op} (hr : RoleInv s) (ha : OutcomeA s) (h0 : Live0 s) (hi : Live5 s)
    (h : stepP s op = some s') : Live5 s' := by
  have hsc := sc_step (stepP_step h)
  obtain ⟨r1, r2, r3, r4, r5⟩ := hr
  obtain ⟨a1, a2, a3, a4, a5, a6⟩ := h0
  have o9 := ha.newlyDisj
  obtain ⟨e1, e2, e3⟩ := hi
  plain_cases op h hs hg <;> (refine ⟨?_, ?_, ?_⟩ <;> frame_out)
  all_goals first
    | grind [SubP.load, persistStatus, afterCollect, afterPersist, RoundDone]

end Jade.Sys
