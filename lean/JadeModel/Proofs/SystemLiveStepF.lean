import JadeModel.Proofs.SystemLive5Defs

set_option linter.unusedSimpArgs false

namespace Jade.Sys
open Jade.Ref

set_option maxHeartbeats 32000000 in
theorem liveF_step {s s' : Sys} {op : Op} (hall : LiveAll s) (rank : JobId → Nat) (hac : Acyclic s.sc.graph rank)
    (hmax : 1 ≤ s.sc.maxNodes) (hi : LiveF s) (h : stepP s op = some s') : LiveF s' := by
  have hsc := sc_step (stepP_step h)
  have hdec := decision_sound hall rank hac hmax
  have g1 := hall.gate.flags
  obtain ⟨f1, f2⟩ := hi
  plain_cases op h hs hg <;> (refine ⟨?_, ?_⟩ <;> frame_out)
  all_goals first
    | grind [SubP.load, persistStatus]

end Jade.Sys
