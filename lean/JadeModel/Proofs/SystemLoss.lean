import JadeModel.Proofs.SystemOutcome

set_option linter.unusedSimpArgs false

/-! Lost batches (C12): nothing is fabricated, nothing that waits for a job without outcome is started. -/

namespace Jade.Sys

/-- a job enters the started list only through an accepted `nodeStart` -/
theorem starts_step {s s' : Sys} {op : Op} (h : step s op = some s') (j : JobId)
    (hj : j ∈ s'.starts.map (·.1)) : j ∈ s.starts.map (·.1) ∨ ∃ p, op = .nodeStart p j := by
  cases op
  case nodeStart p k =>
    step_cases h; frame_all
    simp only [List.map_append, List.mem_append, List.map_cons, List.map_nil, List.mem_singleton] at hj
    rcases hj with hj | rfl
    · exact Or.inl hj
    · exact Or.inr ⟨p, rfl⟩
  all_goals (step_cases h <;> frame_all <;> first | exact Or.inl hj | grind)

/-- every started job had — and keeps — a recorded outcome for each of its configured blockers -/
def StartedOK (s : Sys) : Prop := ∀ j ∈ s.starts.map (·.1), ∀ b ∈ s.sc.blockers j, HasRow s b

theorem startedOK_step {s s' : Sys} {op : Op} (hb : BlockInv s) (hi : StartedOK s) (h : step s op = some s') :
    StartedOK s' := by
  intro j hj b hbl
  rw [sc_step h] at hbl
  rcases starts_step h j hj with hold | ⟨p, rfl⟩
  · exact hasRow_step h b (hi j hold b hbl)
  · exact hasRow_step h b (start_has_rows hb p j h b hbl)

theorem startedOK_run {s s' : Sys} (ops : List Op) (hb : BlockInv s) (hi : StartedOK s) (h : run s ops = some s') :
    StartedOK s' := by
  induction ops generalizing s with
  | nil => simp [run] at h; subst h; exact hi
  | cons op ops ih =>
    simp only [run] at h
    split at h
    · next s1 hs => exact ih (blockInv_step hb hs) (startedOK_step hb hi hs) h
    · cases h

theorem startedOK_reach (sc : Scn) (ops : List Op) (s : Sys) (h : run (init sc) ops = some s) : StartedOK s :=
  startedOK_run ops (blockInv_init sc) (by intro j hj; simp [init] at hj) h

/-- a set of jobs that can never get going: every member has a blocker in the set (a dependency cycle,
    or anything closed under "waits for a member") and no member carries the cancel flag -/
structure Stuck (sc : Scn) (S : JobId → Prop) : Prop where
  waits : ∀ j, S j → ∃ b ∈ sc.blockers j, S b
  unflagged : ∀ j, S j → sc.flag j = false

/-- "no member is started or has a row" -/
def NoneYet (S : JobId → Prop) (s : Sys) : Prop := ∀ j, S j → j ∉ s.starts.map (·.1) ∧ ¬ HasRow s j

theorem hasRow_onDisk {s : Sys} {j : JobId} (h : HasRow s j) : ∃ r, OnDisk s r ∧ r.job = j := by
  rcases h with ⟨r, hr, hjr⟩ | ⟨b, r, hr, hjr⟩
  · exact ⟨r, Or.inl hr, hjr⟩
  · exact ⟨r, Or.inr ⟨b, hr⟩, hjr⟩

theorem stuck_step {sc : Scn} {S : JobId → Prop} (hS : Stuck sc S) {s s' : Sys} {op : Op}
    (hb : BlockInv s) (hB' : OutcomeB s') (hsc : s.sc = sc) (hi : NoneYet S s) (h : step s op = some s') :
    NoneYet S s' := by
  have hsc' : s'.sc = sc := by rw [sc_step h]; exact hsc
  have hns : ∀ j, S j → j ∉ s'.starts.map (·.1) := by
    intro j hj hin
    rcases starts_step h j hin with hold | ⟨p, rfl⟩
    · exact (hi j hj).1 hold
    · obtain ⟨b, hbl, hSb⟩ := hS.waits j hj
      exact (hi b hSb).2 (start_has_rows hb p j h b (by rw [hsc]; exact hbl))
  intro j hj
  refine ⟨hns j hj, fun hrow => ?_⟩
  obtain ⟨r, hr, rfl⟩ := hasRow_onDisk hrow
  cases hc : r.canceled with
  | true =>
    have := (hB'.lc2 r hr hc).1
    rw [hsc', hS.unflagged r.job hj] at this; cases this
  | false => exact hns r.job hj (hB'.lc1 r hr hc).2

/-- no member of a stuck set is ever started or given a row -/
theorem stuck_never (sc : Scn) (S : JobId → Prop) (hS : Stuck sc S) (ops : List Op) (s : Sys)
    (h : run (init sc) ops = some s) : NoneYet S s := by
  have gen : ∀ (ops : List Op) (s0 s : Sys), BlockInv s0 → OutcomeA s0 → OutcomeB s0 → s0.sc = sc → NoneYet S s0 →
      run s0 ops = some s → NoneYet S s := by
    intro ops
    induction ops with
    | nil => intro s0 s _ _ _ _ hi h; simp [run] at h; subst h; exact hi
    | cons op ops ih =>
      intro s0 s hb hA hB hsc hi h
      simp only [run] at h
      split at h
      · next s1 hs =>
        have hB1 := outcomeB_step hA hB hs
        exact ih s1 s (blockInv_step hb hs) (outcomeA_step hA hs) hB1 (by rw [sc_step hs]; exact hsc)
          (stuck_step hS hb hB1 hsc hi hs) h
      · cases h
  refine gen ops (init sc) s (blockInv_init sc) (outcomeA_init sc) (outcomeB_init sc) rfl ?_ h
  intro j _
  refine ⟨by simp [init], ?_⟩
  rintro (⟨r, hr, -⟩ | ⟨b, r, hr, -⟩) <;> simp [init] at hr

end Jade.Sys
