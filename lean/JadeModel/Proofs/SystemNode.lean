import JadeModel.Proofs.System
import JadeModel.Proofs.SystemNodeDefs
import JadeModel.Proofs.SystemNodeSteps

set_option linter.unusedSimpArgs false

namespace Jade.Sys

theorem nodeInv_step {s s' : Sys} {op : Op} (hi : NodeInv s) (h : step s op = some s') : NodeInv s' := by
  obtain ⟨a1, a2, a3⟩ := nodeInv_simple_step hi h
  obtain ⟨b1, b2, b3⟩ := nodeInv_starts_step hi h
  exact ⟨batchInv_step hi.batch h, nodeInv_ofBatch_step hi h, b1, a1, a2, nodeInv_hid_step hi h, a3, b2, b3⟩

theorem nodeInv_run {s s' : Sys} (ops : List Op) (hi : NodeInv s) (h : run s ops = some s') : NodeInv s' := by
  induction ops generalizing s with
  | nil => simp [run] at h; subst h; exact hi
  | cons op ops ih =>
    simp only [run] at h
    split at h
    · next s1 hs => exact ih (nodeInv_step hi hs) h
    · cases h

/-- every reachable state of every scenario, under every schedule, crash and failure -/
theorem nodeInv_reach (sc : Scn) (ops : List Op) (s : Sys) (h : run (init sc) ops = some s) : NodeInv s :=
  nodeInv_run ops (nodeInv_init sc) h

end Jade.Sys
