import JadeModel.Proofs.SystemBase

set_option linter.unusedSimpArgs false

/-! Node runners: every start belongs to exactly one batch and happens once (definitions; steps in `SystemNodeSteps`). -/

namespace Jade.Sys

theorem mem_unique_batch {bs : List Batch} (hn : (bs.flatMap (·.jobs)).Nodup) {b b' : Batch} {j : JobId}
    (hb : b ∈ bs) (hb' : b' ∈ bs) (hj : j ∈ b.jobs) (hj' : j ∈ b'.jobs) : b = b' := by
  induction bs with
  | nil => cases hb
  | cons c cs ih =>
    simp only [List.flatMap_cons, List.nodup_append] at hn
    obtain ⟨hc, hcs, hdis⟩ := hn
    rcases List.mem_cons.1 hb with h1 | h1 <;> rcases List.mem_cons.1 hb' with h2 | h2
    · rw [h1, h2]
    · subst h1
      exact absurd rfl (hdis j hj j (List.mem_flatMap.2 ⟨b', h2, hj'⟩))
    · subst h2
      exact absurd rfl (hdis j hj' j (List.mem_flatMap.2 ⟨b, h1, hj⟩))
    · exact ih hcs h1 h2

structure NodeInv (s : Sys) : Prop where
  batch : BatchInv s
  /-- a node runner works on the batch whose HPC id it has -/
  ofBatch : ∀ p a n, s.procs p = .node a n →
    ∃ b ∈ s.batches, b.hid = some n.hid ∧ b.bid = n.bid ∧ (∀ j ∈ n.queued, j ∈ b.jobs) ∧ (∀ j ∈ n.running, j ∈ b.jobs)
  /-- what waits in a node queue has not been started -/
  queuedFresh : ∀ p a n, s.procs p = .node a n → ∀ j ∈ n.queued, j ∉ s.starts.map (·.1)
  /-- one runner per HPC id -/
  oneRunner : ∀ p p' a a' n n', s.procs p = .node a n → s.procs p' = .node a' n' → n.hid = n'.hid → p = p'
  /-- the scheduler started (or ended) the batch of every runner -/
  started : ∀ p a n, s.procs p = .node a n → s.slurm n.hid = some .running ∨ s.slurm n.hid = some .ended
  /-- HPC ids are not reused, and an id exists on the scheduler iff some batch got it -/
  hidUnique : ∀ b ∈ s.batches, ∀ b' ∈ s.batches, ∀ h, b.hid = some h → b'.hid = some h → b = b'
  hidKnown : ∀ b ∈ s.batches, ∀ h, b.hid = some h → (s.slurm h).isSome = true
  /-- every start happened on the node of the batch that contains the job, after the batch began -/
  startsIn : ∀ jh ∈ s.starts, (∃ b ∈ s.batches, b.hid = some jh.2 ∧ jh.1 ∈ b.jobs) ∧
    (s.slurm jh.2 = some .running ∨ s.slurm jh.2 = some .ended)
  startsNodup : (s.starts.map (·.1)).Nodup

theorem nodeInv_init (sc : Scn) : NodeInv (init sc) := by
  refine ⟨batchInv_init sc, ?_, ?_, ?_, ?_, ?_, ?_, ?_, ?_⟩ <;> simp [init]

theorem find?_hid {bs : List Batch} {h : Hid} {b : Batch}
    (hf : bs.find? (fun b => b.hid == some h) = some b) : b ∈ bs ∧ b.hid = some h := by
  have h1 := List.find?_some hf
  have h2 := List.mem_of_find?_eq_some hf
  exact ⟨h2, by simpa using h1⟩

/-- a job waiting in one node queue is in no other node queue -/
theorem queued_unique {s : Sys} (hi : NodeInv s) {p p' : Pid} {a a' : Bool} {n n' : NodeP} {j : JobId}
    (hp : s.procs p = .node a n) (hp' : s.procs p' = .node a' n') (hj : j ∈ n.queued) (hj' : j ∈ n'.queued) :
    p = p' := by
  obtain ⟨b, hb, hh, -, hq, -⟩ := hi.ofBatch p a n hp
  obtain ⟨b', hb', hh', -, hq', -⟩ := hi.ofBatch p' a' n' hp'
  have hbb : b = b' := mem_unique_batch hi.batch.jobsNodup hb hb' (hq j hj) (hq' j hj')
  subst hbb
  have : n.hid = n'.hid := by rw [hh] at hh'; exact Option.some.inj hh'
  exact hi.oneRunner p p' a a' n n' hp hp' this

#realize_aux Jade

end Jade.Sys
