import JadeModel.Proofs.SystemNodeDefs

set_option linter.unusedSimpArgs false

namespace Jade.Sys

set_option maxHeartbeats 8000000 in
theorem nodeInv_simple_step {s s' : Sys} {op : Op} (hi : NodeInv s) (h : step s op = some s') :
    (∀ p p' a a' n n', s'.procs p = .node a n → s'.procs p' = .node a' n' → n.hid = n'.hid → p = p') ∧
    (∀ p a n, s'.procs p = .node a n → s'.slurm n.hid = some .running ∨ s'.slurm n.hid = some .ended) ∧
    (∀ b ∈ s'.batches, ∀ h, b.hid = some h → (s'.slurm h).isSome = true) := by
  obtain ⟨-, n1, n2, n3, n4, n5, n6, n7, n8⟩ := hi
  cases op <;> step_cases h <;>
    (refine ⟨?_, ?_, ?_⟩ <;> frame_all <;> grind [freshHid])

set_option maxHeartbeats 8000000 in
theorem nodeInv_hid_step {s s' : Sys} {op : Op} (hi : NodeInv s) (h : step s op = some s') :
    (∀ b ∈ s'.batches, ∀ b' ∈ s'.batches, ∀ h, b.hid = some h → b'.hid = some h → b = b') := by
  obtain ⟨-, n1, n2, n3, n4, n5, n6, n7, n8⟩ := hi
  cases op <;> step_cases h <;> frame_all <;>
    first
    | exact n5
    | (intro b hb b' hb' h' e1 e2
       simp only [List.mem_append, List.mem_singleton] at hb hb'
       grind)

set_option maxHeartbeats 8000000 in
theorem nodeInv_ofBatch_step {s s' : Sys} {op : Op} (hi : NodeInv s) (h : step s op = some s') :
    (∀ p a n, s'.procs p = .node a n →
      ∃ b ∈ s'.batches, b.hid = some n.hid ∧ b.bid = n.bid ∧ (∀ j ∈ n.queued, j ∈ b.jobs) ∧ (∀ j ∈ n.running, j ∈ b.jobs)) := by
  obtain ⟨-, n1, n2, n3, n4, n5, n6, n7, n8⟩ := hi
  cases op <;> step_cases h <;> frame_all <;>
    (intro p0 a0 n0 hq <;> grind [find?_hid])

set_option maxHeartbeats 8000000 in
theorem nodeInv_starts_step {s s' : Sys} {op : Op} (hi : NodeInv s) (h : step s op = some s') :
    (∀ p a n, s'.procs p = .node a n → ∀ j ∈ n.queued, j ∉ s'.starts.map (·.1)) ∧
    (∀ jh ∈ s'.starts, (∃ b ∈ s'.batches, b.hid = some jh.2 ∧ jh.1 ∈ b.jobs) ∧
      (s'.slurm jh.2 = some .running ∨ s'.slurm jh.2 = some .ended)) ∧ (s'.starts.map (·.1)).Nodup := by
  have hu := @queued_unique s hi
  have hm := @mem_unique_batch s.batches hi.batch.jobsNodup
  obtain ⟨-, n1, n2, n3, n4, n5, n6, n7, n8⟩ := hi
  cases op <;> step_cases h <;> frame_all <;>
    (refine ⟨?_, ?_, ?_⟩ <;> grind [find?_hid, List.nodup_append])

end Jade.Sys
