import JadeModel.Proofs.SystemBase

set_option linter.unusedSimpArgs false

namespace Jade.Sys

theorem orphan_step {s s' : Sys} {op : Op} (hr : RoleInv s) (ho : Orphan s) (h : step s op = some s') :
    Orphan s' := by
  obtain ⟨h1, h2, h3, h4, h5⟩ := hr
  obtain ⟨hm, hn⟩ := ho
  cases op <;> step_cases h <;>
    (refine ⟨?_, ?_⟩ <;> frame_goal <;> (try (intro q a y hq; frame_simp at hq)) <;> grind [owns, holds, SubP.load])

end Jade.Sys
