import JadeModel.Proofs.SystemRows
import JadeModel.Proofs.Reference
import JadeModel.Proofs.SystemOutcomeDefs
import JadeModel.Proofs.SystemOutcomeAA
import JadeModel.Proofs.SystemOutcomeAB
import JadeModel.Proofs.SystemOutcomeAC
import JadeModel.Proofs.SystemOutcomeBA
import JadeModel.Proofs.SystemOutcomeBB
import JadeModel.Proofs.SystemOutcomeBC

set_option linter.unusedSimpArgs false

/-! Outcome invariants (C03/C04/C12): the step lemmas assembled from their parts (compiled in parallel), lifting to runs. -/

namespace Jade.Sys

theorem outcomeA_step {s s' : Sys} {op : Op} (hi : OutcomeA s) (h : step s op = some s') : OutcomeA s' := by
  obtain ⟨c_subDisk, c_subLoc, c_subBatch⟩ := outcomeA_step_a hi h
  obtain ⟨c_subNode, c_passOn, c_seenOn⟩ := outcomeA_step_b hi h
  obtain ⟨c_toCancelOk, c_runningStarted, c_newlyDisj⟩ := outcomeA_step_c hi h
  exact ⟨c_subDisk, c_subLoc, c_subBatch, c_subNode, c_passOn, c_seenOn, c_toCancelOk, c_runningStarted, c_newlyDisj⟩

theorem outcomeB_step {s s' : Sys} {op : Op} (ha : OutcomeA s) (hi : OutcomeB s) (h : step s op = some s') :
    OutcomeB s' := by
  obtain ⟨c_lc1, c_lc2⟩ := outcomeB_step_a ha hi h
  obtain ⟨c_flagDisk, c_flagLoc⟩ := outcomeB_step_b ha hi h
  obtain ⟨c_flagBatch, c_flagNode, c_lc3⟩ := outcomeB_step_c ha hi h
  exact ⟨c_lc1, c_lc2, c_flagDisk, c_flagLoc, c_flagBatch, c_flagNode, c_lc3⟩

theorem outcome_run {s s' : Sys} (ops : List Op) (ha : OutcomeA s) (hb : OutcomeB s) (h : run s ops = some s') :
    OutcomeA s' ∧ OutcomeB s' := by
  induction ops generalizing s with
  | nil => simp [run] at h; subst h; exact ⟨ha, hb⟩
  | cons op ops ih =>
    simp only [run] at h
    split at h
    · next s1 hs => exact ih (outcomeA_step ha hs) (outcomeB_step ha hb hs) h
    · cases h

theorem outcome_reach (sc : Scn) (ops : List Op) (s : Sys) (h : run (init sc) ops = some s) :
    OutcomeA s ∧ OutcomeB s :=
  outcome_run ops (outcomeA_init sc) (outcomeB_init sc) h

end Jade.Sys
