import JadeModel.Proofs.SystemOutcomeDefs

set_option linter.unusedSimpArgs false

namespace Jade.Sys

set_option maxHeartbeats 32000000 in
theorem outcomeA_step_a {s s' : Sys} {op : Op} (hi : OutcomeA s) (h : step s op = some s') :
    (∀ j b, b ∈ s'.disk.blk j → b ∈ s'.sc.blockers j) ∧
    (∀ q a y, s'.procs q = .sub a y → ∀ j b, b ∈ y.loc.blk j → b ∈ s'.sc.blockers j) ∧
    (∀ B ∈ s'.batches, ∀ j b, b ∈ B.handed j → b ∈ s'.sc.blockers j) := by
  have hon := fun r => onDisk_step h r
  have hbad := fun j => badRow_step h j
  have hnew := newOnDisk_step h
  have hsc := sc_step h
  obtain ⟨a1, a2, a3, a4, a5, a6, a7, a8, a9⟩ := hi
  cases op <;> simp only [newOnDisk] at hnew <;> step_cases h <;>
    (refine ⟨?_, ?_, ?_⟩ <;> frame_out)
  all_goals first
    | proc_clause
    | grind [SubP.load, persistStatus, find?_hid, OnDiskF, BadRowF, cancelSetOk_iff, mustCancel_iff]

end Jade.Sys
