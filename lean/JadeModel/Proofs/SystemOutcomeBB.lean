import JadeModel.Proofs.SystemOutcomeDefs

set_option linter.unusedSimpArgs false

namespace Jade.Sys

set_option maxHeartbeats 32000000 in
theorem outcomeB_step_b {s s' : Sys} {op : Op} (ha : OutcomeA s) (hi : OutcomeB s) (h : step s op = some s') :
    (∀ j, j < s'.sc.n → s'.sc.flag j = true → s'.disk.st j = .ns →
    ∀ b ∈ s'.sc.blockers j, b ∈ s'.disk.blk j ∨ GoodRow s' b) ∧
    (∀ q a y, s'.procs q = .sub a y → ∀ j, j < s'.sc.n → s'.sc.flag j = true → y.loc.st j = .ns →
    ∀ b ∈ s'.sc.blockers j, b ∈ y.loc.blk j ∨ GoodRow s' b) := by
  have hon := fun r => onDisk_step h r
  have hbad := fun j => badRow_step h j
  have hgood := fun j => goodRow_step h j
  have hsc := sc_step h
  have hnew := newOnDisk_step h
  obtain ⟨a1, a2, a3, a4, a5, a6, a7, a8, a9⟩ := ha
  obtain ⟨b1, b2, b3, b4, b5, b6, b7⟩ := hi
  cases op <;> simp only [newOnDisk] at hnew <;> step_cases h <;>
    (refine ⟨?_, ?_⟩ <;> frame_out)
  all_goals first
    | proc_clause
    | grind [SubP.load, persistStatus, find?_hid, OnDiskF, BadRowF, GoodRowF, cancelSetOk_iff, mustCancel_iff, Row.bad]

end Jade.Sys
