import JadeModel.Proofs.SystemRowsDefs
import JadeModel.Proofs.Reference

set_option linter.unusedSimpArgs false

/-! Outcome invariants (C03/C04/C12): every row is locally justified. Definitions and cheap lemmas. -/

namespace Jade.Sys

def OnDiskF (pr : List Row) (nf : Bid → List Row) (r : Row) : Prop := r ∈ pr ∨ ∃ b, r ∈ nf b

def GoodRowF (pr : List Row) (nf : Bid → List Row) (j : JobId) : Prop :=
  ∃ r, OnDiskF pr nf r ∧ r.job = j ∧ r.bad = false

def BadRowF (pr : List Row) (nf : Bid → List Row) (j : JobId) : Prop :=
  ∃ r, OnDiskF pr nf r ∧ r.job = j ∧ r.bad = true

def OnDisk (s : Sys) (r : Row) : Prop := OnDiskF s.processed s.nodeFile r

def GoodRow (s : Sys) (j : JobId) : Prop := GoodRowF s.processed s.nodeFile j

def BadRow (s : Sys) (j : JobId) : Prop := BadRowF s.processed s.nodeFile j

theorem onDisk_iff (s : Sys) (r : Row) : OnDisk s r ↔ RowOnDisk s r := Iff.rfl

theorem onDisk_step {s s' : Sys} {op : Op} (h : step s op = some s') (r : Row) (hr : OnDisk s r) : OnDisk s' r :=
  rowOnDisk_step h r hr

theorem goodRow_step {s s' : Sys} {op : Op} (h : step s op = some s') (j : JobId) (hr : GoodRow s j) : GoodRow s' j := by
  obtain ⟨r, h1, h2, h3⟩ := hr
  exact ⟨r, onDisk_step h r h1, h2, h3⟩

theorem badRow_step {s s' : Sys} {op : Op} (h : step s op = some s') (j : JobId) (hr : BadRow s j) : BadRow s' j := by
  obtain ⟨r, h1, h2, h3⟩ := hr
  exact ⟨r, onDisk_step h r h1, h2, h3⟩

/-- the row an event writes is on disk afterwards -/
def newOnDisk (s s' : Sys) : Op → Prop
  | .cancelRow _ j => OnDisk s' ⟨j, 1, true⟩
  | .nodeRow _ j => OnDisk s' ⟨j, s.sc.rc j, false⟩
  | .nodeCancel _ j => OnDisk s' ⟨j, 1, true⟩
  | _ => True

theorem newOnDisk_step {s s' : Sys} {op : Op} (h : step s op = some s') : newOnDisk s s' op := by
  cases op <;> simp only [newOnDisk] <;> (try trivial)
  case cancelRow p j =>
    step_cases h; frame_all
    rename_i hg _
    refine Or.inl ?_
    simp [hg.2]
  case nodeRow p j =>
    step_cases h; frame_all
    rename_i n _ _
    exact Or.inr ⟨n.bid, by simp⟩
  case nodeCancel p j =>
    step_cases h; frame_all
    rename_i n _ _
    exact Or.inr ⟨n.bid, by simp⟩

/-- plain-language forms of the decision predicates used as guards -/
theorem mustCancel_iff (sc : Scn) (x : SubP) (j : JobId) :
    mustCancel sc x j = true ↔
      (x.loc.st j = .ns ∧ x.loc.blk j ≠ [] ∧ sc.flag j = true ∧
        ∃ b ∈ x.loc.blk j, ∃ r ∈ x.pass, r.job = b ∧ r.bad = true) := by
  simp only [mustCancel, badIn, Bool.and_eq_true, beq_iff_eq, Bool.not_eq_true', List.isEmpty_eq_false_iff,
    List.any_eq_true]
  constructor
  · rintro ⟨⟨⟨h1, h2⟩, h3⟩, b, hb, r, hr, hjb⟩
    exact ⟨h1, h2, h3, b, hb, r, hr, by simpa using hjb.1, hjb.2⟩
  · rintro ⟨h1, h2, h3, b, hb, r, hr, hj, hbad⟩
    exact ⟨⟨⟨h1, h2⟩, h3⟩, b, hb, r, hr, by simp [hj], hbad⟩

theorem cancelSetOk_iff (sc : Scn) (x : SubP) (ks : List JobId) (h : cancelSetOk sc x ks = true) :
    (∀ j ∈ ks, j < sc.n ∧ mustCancel sc x j = true) ∧ (∀ j, j < sc.n → mustCancel sc x j = true → j ∈ ks) := by
  simp only [cancelSetOk, Bool.and_eq_true, List.all_eq_true, decide_eq_true_eq, Bool.or_eq_true,
    Bool.not_eq_true', List.mem_range, List.contains_eq_mem] at h
  refine ⟨fun j hj => h.1 j hj, fun j hj hm => ?_⟩
  rcases h.2 j hj with h' | h'
  · rw [hm] at h'; cases h'
  · simpa using h'

theorem nodeCancel_guard_iff (n : NodeP) (j : JobId) :
    ((n.nblk j).any (fun b => badIn n.seen b)) = true ↔ ∃ b ∈ n.nblk j, ∃ r ∈ n.seen, r.job = b ∧ r.bad = true := by
  simp only [badIn, List.any_eq_true, Bool.and_eq_true, beq_iff_eq]

macro "frame_out" : tactic => `(tactic|
  try simp only [OnDisk, GoodRow, BadRow, HasRow, mustCancel_iff, nodeCancel_guard_iff, freshHid_some_iff, holderPend,
    holderBidx, holderSub, Orphan, procs_setSub, procs_setNode, procs_setProc, setSub_fields, setNode_fields,
    setProc_fields, holds_iff] at *)

/-- auxiliary facts: remaining-blocker sets are subsets of the configured ones, what a process has
    seen is on disk, pending cancel decisions are justified -/
structure OutcomeA (s : Sys) : Prop where
  subDisk : ∀ j b, b ∈ s.disk.blk j → b ∈ s.sc.blockers j
  subLoc : ∀ q a y, s.procs q = .sub a y → ∀ j b, b ∈ y.loc.blk j → b ∈ s.sc.blockers j
  subBatch : ∀ B ∈ s.batches, ∀ j b, b ∈ B.handed j → b ∈ s.sc.blockers j
  subNode : ∀ p a n, s.procs p = .node a n → ∀ j b, b ∈ n.nblk j → b ∈ s.sc.blockers j
  passOn : ∀ q a y, s.procs q = .sub a y → ∀ r ∈ y.pass, OnDisk s r
  seenOn : ∀ p a n, s.procs p = .node a n → ∀ r ∈ n.seen, OnDisk s r
  toCancelOk : ∀ q a y, s.procs q = .sub a y → ∀ j ∈ y.toCancel,
    s.sc.flag j = true ∧ ∃ b ∈ s.sc.blockers j, BadRow s b
  runningStarted : ∀ p a n, s.procs p = .node a n → ∀ j ∈ n.running, j ∈ s.starts.map (·.1)
  newlyDisj : ∀ q a y, s.procs q = .sub a y → ∀ j, y.loc.st j = .ns → ∀ b ∈ y.loc.blk j, b ∉ y.newly

theorem outcomeA_init (sc : Scn) : OutcomeA (init sc) := by
  refine ⟨?_, ?_, ?_, ?_, ?_, ?_, ?_, ?_, ?_⟩ <;> simp [init]

/-- every row is locally justified; a flagged job waits (or has been started) only while each of its
    blockers is still listed or has a successful row -/
structure OutcomeB (s : Sys) : Prop where
  lc1 : ∀ r, OnDisk s r → r.canceled = false → r.rc = s.sc.rc r.job ∧ r.job ∈ s.starts.map (·.1)
  lc2 : ∀ r, OnDisk s r → r.canceled = true →
    s.sc.flag r.job = true ∧ r.rc = 1 ∧ ∃ b ∈ s.sc.blockers r.job, BadRow s b
  flagDisk : ∀ j, j < s.sc.n → s.sc.flag j = true → s.disk.st j = .ns →
    ∀ b ∈ s.sc.blockers j, b ∈ s.disk.blk j ∨ GoodRow s b
  flagLoc : ∀ q a y, s.procs q = .sub a y → ∀ j, j < s.sc.n → s.sc.flag j = true → y.loc.st j = .ns →
    ∀ b ∈ s.sc.blockers j, b ∈ y.loc.blk j ∨ GoodRow s b
  flagBatch : ∀ B ∈ s.batches, ∀ j ∈ B.jobs, s.sc.flag j = true →
    ∀ b ∈ s.sc.blockers j, b ∈ B.handed j ∨ GoodRow s b
  flagNode : ∀ p a n, s.procs p = .node a n → ∀ j ∈ n.queued, s.sc.flag j = true →
    ∀ b ∈ s.sc.blockers j, b ∈ n.nblk j ∨ GoodRow s b
  lc3 : ∀ j ∈ s.starts.map (·.1), s.sc.flag j = true → ∀ b ∈ s.sc.blockers j, GoodRow s b

theorem outcomeB_init (sc : Scn) : OutcomeB (init sc) := by
  refine ⟨?_, ?_, ?_, ?_, ?_, ?_, ?_⟩ <;> simp [init, OnDisk, OnDiskF]
  intro j _ _ b hb; exact Or.inl hb

/-- the configuration of a scenario as a dependency graph -/
def Scn.graph (sc : Scn) : Jade.Ref.Graph := { n := sc.n, blockers := sc.blockers, flag := sc.flag, rc := sc.rc }

def Row.outcome (r : Row) : Jade.Ref.Outcome := ⟨r.canceled, r.rc⟩

theorem Row.outcome_bad (r : Row) : r.outcome.bad = r.bad := rfl

/-- "job `j` has a recorded row with outcome `o`" -/
def RowFor (s : Sys) (j : JobId) (o : Jade.Ref.Outcome) : Prop := ∃ r, OnDisk s r ∧ r.job = j ∧ r.outcome = o

def StartedJ (s : Sys) (j : JobId) : Prop := j ∈ s.starts.map (·.1)

/-- the local invariants are exactly the premises of the graph lemma -/
theorem outcome_local {s : Sys} (hb : OutcomeB s) : Jade.Ref.Local s.sc.graph (RowFor s) (StartedJ s) := by
  refine ⟨?_, ?_, ?_⟩
  · rintro j o ⟨r, hr, rfl, rfl⟩ hc
    exact hb.lc1 r hr hc
  · rintro j o ⟨r, hr, rfl, rfl⟩ hc
    obtain ⟨h1, h2, b, hbb, r', hr', hj', hbad⟩ := hb.lc2 r hr hc
    exact ⟨h1, h2, b, hbb, r'.outcome, ⟨r', hr', hj', rfl⟩, hbad⟩
  · intro j hj hf b hbb
    obtain ⟨r', hr', hj', hgood⟩ := hb.lc3 j hj hf b hbb
    exact ⟨r'.outcome, ⟨r', hr', hj', rfl⟩, hgood⟩

#realize_aux Jade

end Jade.Sys
