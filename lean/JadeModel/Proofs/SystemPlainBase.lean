import JadeModel.Model.SystemPlain
import JadeModel.Proofs.SystemBase

/-! Common ancestor of the proof modules about `stepP`/`runP`: generates the on-demand auxiliary
    declarations of `Model/SystemPlain.lean` once (see `Proofs/Realize.lean`). -/

#realize_aux Jade
