import JadeModel.Proofs.SystemGate
import JadeModel.Proofs.SystemRows

set_option linter.unusedSimpArgs false

/-! Progress of submitter rounds (C05): a round that starts when every recorded batch has ended ends with
    the completion decision or with a batch that was handed to the HPC after that moment. -/

namespace Jade.Sys

macro "frame_prog" : tactic => `(tactic|
  try simp only [freshHid_some_iff, holderPend, holderBidx, holderSub, Orphan, procs_setSub, procs_setNode,
    procs_setProc, setSub_fields, setNode_fields, setProc_fields, holds_iff] at *)

/-- bookkeeping facts that hold in every reachable state -/
structure ProgA (s : Sys) : Prop where
  /-- an id on disk / in a holder's queue was returned by sbatch -/
  diskIds : ∀ h ∈ s.disk.ids, s.slurm h ≠ none
  outIds : ∀ q a y, s.procs q = .sub a y → ∀ h ∈ y.out, s.slurm h ≠ none
  /-- a batch is never empty and contains configured jobs only -/
  batchJobs : ∀ B ∈ s.batches, B.jobs ≠ [] ∧ ∀ j ∈ B.jobs, j < s.sc.n
  /-- after `update_job_status` the copy's active ids are the queue's -/
  persistedIds : ∀ q a y, s.procs q = .sub a y → y.pc = .persisted → y.loc.ids = y.out

theorem progA_init (sc : Scn) : ProgA (init sc) := by
  refine ⟨?_, ?_, ?_, ?_⟩ <;> simp [init]

set_option maxHeartbeats 8000000 in
theorem progA_step {s s' : Sys} {op : Op} (hi : ProgA s) (h : step s op = some s') : ProgA s' := by
  have hsc := sc_step h
  obtain ⟨a1, a2, a3, a4⟩ := hi
  cases op <;> step_cases h <;> (refine ⟨?_, ?_, ?_, ?_⟩ <;> frame_prog)
  all_goals first
    | proc_clause
    | grind [SubP.load, persistStatus, find?_hid]

theorem progA_run {s s' : Sys} (ops : List Op) (hi : ProgA s) (h : run s ops = some s') : ProgA s' := by
  induction ops generalizing s with
  | nil => simp [run] at h; subst h; exact hi
  | cons op ops ih =>
    simp only [run] at h
    split at h
    · next s1 hs => exact ih (progA_step hi hs) h
    · cases h

/-- the pcs between the scheduler poll and the removal of the marker -/
def polled : SPc → Bool
  | .collecting => true
  | .ready => true
  | .marked => true
  | .persisted => true
  | _ => false

/-- relative to a reference moment: `D h` = batch `h` had ended then, `N h` = id `h` did not exist then -/
structure ProgQ (D N : Hid → Prop) (s : Sys) : Prop where
  dead : ∀ h, D h → s.slurm h = some .ended
  fresh : ∀ h, s.slurm h = none → N h
  diskOld : ∀ h ∈ s.disk.ids, D h ∨ N h
  outOld : ∀ q a y, s.procs q = .sub a y → holds y.pc = true → ∀ h ∈ y.out, D h ∨ N h
  /-- after its poll a round never believes a batch active that had ended at the reference moment -/
  outLive : ∀ q a y, s.procs q = .sub a y → polled y.pc = true → ∀ h ∈ y.out, ¬ D h

set_option maxHeartbeats 8000000 in
theorem progQ_step {D N : Hid → Prop} {s s' : Sys} {op : Op} (hi : ProgQ D N s) (h : step s op = some s') :
    ProgQ D N s' := by
  obtain ⟨a1, a2, a3, a4, a5⟩ := hi
  cases op <;> step_cases h <;> (refine ⟨?_, ?_, ?_, ?_, ?_⟩ <;> frame_prog)
  all_goals first
    | proc_clause
    | grind [SubP.load, persistStatus, find?_hid, polled, activeB]

theorem progQ_run {D N : Hid → Prop} {s s' : Sys} (ops : List Op) (hi : ProgQ D N s) (h : run s ops = some s') :
    ProgQ D N s' := by
  induction ops generalizing s with
  | nil => simp [run] at h; subst h; exact hi
  | cons op ops ih =>
    simp only [run] at h
    split at h
    · next s1 hs => exact ih (progQ_step hi hs) h
    · cases h

end Jade.Sys
