import JadeModel.Proofs.SystemGate
import JadeModel.Proofs.SystemRows
import JadeModel.Proofs.SystemProgressDefs
import JadeModel.Proofs.SystemProgressAStep
import JadeModel.Proofs.SystemProgressQStep

set_option linter.unusedSimpArgs false

namespace Jade.Sys

theorem progA_run {s s' : Sys} (ops : List Op) (hi : ProgA s) (h : run s ops = some s') : ProgA s' := by
  induction ops generalizing s with
  | nil => simp [run] at h; subst h; exact hi
  | cons op ops ih =>
    simp only [run] at h
    split at h
    · next s1 hs => exact ih (progA_step hi hs) h
    · cases h

theorem progQ_run {D N : Hid → Prop} {s s' : Sys} (ops : List Op) (hi : ProgQ D N s) (h : run s ops = some s') :
    ProgQ D N s' := by
  induction ops generalizing s with
  | nil => simp [run] at h; subst h; exact hi
  | cons op ops ih =>
    simp only [run] at h
    split at h
    · next s1 hs => exact ih (progQ_step hi hs) h
    · cases h

end Jade.Sys
