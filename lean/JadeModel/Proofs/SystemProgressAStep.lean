import JadeModel.Proofs.SystemProgressDefs

set_option linter.unusedSimpArgs false

namespace Jade.Sys

set_option maxHeartbeats 8000000 in
theorem progA_step {s s' : Sys} {op : Op} (hi : ProgA s) (h : step s op = some s') : ProgA s' := by
  have hsc := sc_step h
  obtain ⟨a1, a2, a3, a4⟩ := hi
  cases op <;> step_cases h <;> (refine ⟨?_, ?_, ?_, ?_⟩ <;> frame_prog)
  all_goals first
    | proc_clause
    | grind [SubP.load, persistStatus, find?_hid]

end Jade.Sys
