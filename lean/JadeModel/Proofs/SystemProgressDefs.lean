import JadeModel.Proofs.SystemRowsDefs

set_option linter.unusedSimpArgs false

/-! Progress of submitter rounds (C05): definitions. -/

namespace Jade.Sys

macro "frame_prog" : tactic => `(tactic|
  try simp only [freshHid_some_iff, holderPend, holderBidx, holderSub, Orphan, procs_setSub, procs_setNode,
    procs_setProc, setSub_fields, setNode_fields, setProc_fields, holds_iff] at *)

/-- bookkeeping facts that hold in every reachable state -/
structure ProgA (s : Sys) : Prop where
  /-- an id on disk / in a holder's queue was returned by sbatch -/
  diskIds : ∀ h ∈ s.disk.ids, s.slurm h ≠ none
  outIds : ∀ q a y, s.procs q = .sub a y → ∀ h ∈ y.out, s.slurm h ≠ none
  /-- a batch is never empty and contains configured jobs only -/
  batchJobs : ∀ B ∈ s.batches, B.jobs ≠ [] ∧ ∀ j ∈ B.jobs, j < s.sc.n
  /-- after `update_job_status` the copy's active ids are the queue's -/
  persistedIds : ∀ q a y, s.procs q = .sub a y → y.pc = .persisted → y.loc.ids = y.out

theorem progA_init (sc : Scn) : ProgA (init sc) := by
  refine ⟨?_, ?_, ?_, ?_⟩ <;> simp [init]

/-- the pcs between the scheduler poll and the removal of the marker -/
def polled : SPc → Bool
  | .collecting => true
  | .ready => true
  | .marked => true
  | .persisted => true
  | _ => false

/-- relative to a reference moment: `D h` = batch `h` had ended then, `N h` = id `h` did not exist then -/
structure ProgQ (D N : Hid → Prop) (s : Sys) : Prop where
  dead : ∀ h, D h → s.slurm h = some .ended
  fresh : ∀ h, s.slurm h = none → N h
  diskOld : ∀ h ∈ s.disk.ids, D h ∨ N h
  outOld : ∀ q a y, s.procs q = .sub a y → holds y.pc = true → ∀ h ∈ y.out, D h ∨ N h
  /-- after its poll a round never believes a batch active that had ended at the reference moment -/
  outLive : ∀ q a y, s.procs q = .sub a y → polled y.pc = true → ∀ h ∈ y.out, ¬ D h

#realize_aux Jade

end Jade.Sys
