import JadeModel.Proofs.SystemProgressDefs

set_option linter.unusedSimpArgs false

namespace Jade.Sys

set_option maxHeartbeats 8000000 in
theorem progQ_step {D N : Hid → Prop} {s s' : Sys} {op : Op} (hi : ProgQ D N s) (h : step s op = some s') :
    ProgQ D N s' := by
  obtain ⟨a1, a2, a3, a4, a5⟩ := hi
  cases op <;> step_cases h <;> (refine ⟨?_, ?_, ?_, ?_, ?_⟩ <;> frame_prog)
  all_goals first
    | proc_clause
    | grind [SubP.load, persistStatus, find?_hid, polled, activeB]

end Jade.Sys
