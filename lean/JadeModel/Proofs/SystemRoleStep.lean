import JadeModel.Proofs.SystemBase

set_option linter.unusedSimpArgs false

namespace Jade.Sys

set_option maxHeartbeats 2000000 in
theorem roleInv_step {s s' : Sys} {op : Op} (hi : RoleInv s) (h : step s op = some s') : RoleInv s' := by
  obtain ⟨h1, h2, h3, h4, h5⟩ := hi
  cases op <;> step_cases h <;>
    (constructor <;> intro q a y hq <;> frame_simp at hq <;> grind [holds, SubP.load])

end Jade.Sys
