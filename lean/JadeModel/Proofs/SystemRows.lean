import JadeModel.Proofs.SystemNode
import JadeModel.Proofs.SystemRowsDefs
import JadeModel.Proofs.SystemRowsBlockStepA
import JadeModel.Proofs.SystemRowsBlockStepB

set_option linter.unusedSimpArgs false

namespace Jade.Sys

theorem blockInv_step {s s' : Sys} {op : Op} (hi : BlockInv s) (h : step s op = some s') : BlockInv s' := by
  obtain ⟨c_disk, c_loc, c_seen⟩ := blockInv_step_a hi h
  obtain ⟨c_batches, c_node⟩ := blockInv_step_b hi h
  exact ⟨c_disk, c_loc, c_seen, c_batches, c_node, rfl⟩

theorem blockInv_run {s s' : Sys} (ops : List Op) (hi : BlockInv s) (h : run s ops = some s') : BlockInv s' := by
  induction ops generalizing s with
  | nil => simp [run] at h; subst h; exact hi
  | cons op ops ih =>
    simp only [run] at h
    split at h
    · next s1 hs => exact ih (blockInv_step hi hs) h
    · cases h

end Jade.Sys
