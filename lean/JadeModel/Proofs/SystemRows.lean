import JadeModel.Proofs.SystemNode
import JadeModel.Proofs.SystemRowsDefs
import JadeModel.Proofs.SystemRowsBlockStep

set_option linter.unusedSimpArgs false

namespace Jade.Sys

theorem blockInv_run {s s' : Sys} (ops : List Op) (hi : BlockInv s) (h : run s ops = some s') : BlockInv s' := by
  induction ops generalizing s with
  | nil => simp [run] at h; subst h; exact hi
  | cons op ops ih =>
    simp only [run] at h
    split at h
    · next s1 hs => exact ih (blockInv_step hi hs) h
    · cases h

end Jade.Sys
