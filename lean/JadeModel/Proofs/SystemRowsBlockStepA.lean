import JadeModel.Proofs.SystemRowsDefs

set_option linter.unusedSimpArgs false

namespace Jade.Sys

set_option maxHeartbeats 16000000 in
theorem blockInv_step_a {s s' : Sys} {op : Op} (hi : BlockInv s) (h : step s op = some s') :
    (∀ j, s'.disk.st j = .ns → ∀ b ∈ s'.sc.blockers j, b ∈ s'.disk.blk j ∨ HasRow s' b) ∧
    (∀ q a y, s'.procs q = .sub a y → holds y.pc = true → ∀ j, y.loc.st j = .ns →
    ∀ b ∈ s'.sc.blockers j, b ∈ y.loc.blk j ∨ HasRow s' b) ∧
    (∀ q a y, s'.procs q = .sub a y → holds y.pc = true →
    (∀ r ∈ y.pass, HasRow s' r.job) ∧ (∀ b ∈ y.newly, HasRow s' b)) := by
  have hnew := newRow_step h
  have hmono := fun j => hasRow_step h j
  obtain ⟨k1, k2, k3, k4, k5, -⟩ := hi
  cases op <;> simp only [newRowFact] at hnew <;> step_cases h <;>
    (refine ⟨?_, ?_, ?_⟩ <;> frame_rows <;> simp only [holds_iff] at *)
  all_goals first
    | proc_clause
    | grind [SubP.load, persistStatus, find?_hid]

end Jade.Sys
