import JadeModel.Proofs.SystemRowsDefs

set_option linter.unusedSimpArgs false

namespace Jade.Sys

set_option maxHeartbeats 16000000 in
theorem blockInv_step_b {s s' : Sys} {op : Op} (hi : BlockInv s) (h : step s op = some s') :
    (∀ B ∈ s'.batches, ∀ j ∈ B.jobs, ∀ b ∈ s'.sc.blockers j, b ∈ B.handed j ∨ HasRow s' b) ∧
    (∀ p a n, s'.procs p = .node a n → ∀ j ∈ n.queued, ∀ b ∈ s'.sc.blockers j, b ∈ n.nblk j ∨ HasRow s' b) := by
  have hnew := newRow_step h
  have hmono := fun j => hasRow_step h j
  obtain ⟨k1, k2, k3, k4, k5, -⟩ := hi
  cases op <;> simp only [newRowFact] at hnew <;> step_cases h <;>
    (refine ⟨?_, ?_⟩ <;> frame_rows <;> simp only [holds_iff] at *)
  all_goals first
    | proc_clause
    | grind [SubP.load, persistStatus, find?_hid]

end Jade.Sys
