import JadeModel.Proofs.SystemNodeDefs

set_option linter.unusedSimpArgs false

/-! Result rows: never lost; dependency order (C02); cancellation (C04). Definitions and cheap lemmas. -/

namespace Jade.Sys

/-- job `j` has a recorded outcome: a row in the consolidated file or in a node result file -/
def HasRowF (pr : List Row) (nf : Bid → List Row) (j : JobId) : Prop :=
  (∃ r ∈ pr, r.job = j) ∨ (∃ b, ∃ r ∈ nf b, r.job = j)

/-- job `j` has a recorded outcome in state `s` -/
def HasRow (s : Sys) (j : JobId) : Prop := HasRowF s.processed s.nodeFile j

macro "frame_rows" : tactic => `(tactic|
  try simp only [HasRow, freshHid_some_iff, holderPend, holderBidx, holderSub, Orphan, procs_setSub, procs_setNode,
    procs_setProc, setSub_fields, setNode_fields, setProc_fields] at *)

/-- row `r` is on disk -/
def RowOnDisk (s : Sys) (r : Row) : Prop := r ∈ s.processed ∨ ∃ b, r ∈ s.nodeFile b

theorem hasRow_of_onDisk {s : Sys} {r : Row} (h : RowOnDisk s r) : HasRow s r.job := by
  rcases h with h | ⟨b, h⟩
  · exact Or.inl ⟨r, h, rfl⟩
  · exact Or.inr ⟨b, r, h, rfl⟩

/-- C11 `rows_never_lost`: whatever happens — kills and failures included — a row that is on disk
    stays on disk (possibly twice after a collector died between copy and removal) -/
theorem rowOnDisk_step {s s' : Sys} {op : Op} (h : step s op = some s') (r : Row) (hr : RowOnDisk s r) :
    RowOnDisk s' r := by
  unfold RowOnDisk at *
  cases op <;> step_cases h <;> frame_all <;> grind

theorem hasRow_step {s s' : Sys} {op : Op} (h : step s op = some s') (j : JobId) (hr : HasRow s j) :
    HasRow s' j := by
  rcases hr with ⟨r, hr, rfl⟩ | ⟨b, r, hr, rfl⟩
  · exact hasRow_of_onDisk (rowOnDisk_step h r (Or.inl hr))
  · exact hasRow_of_onDisk (rowOnDisk_step h r (Or.inr ⟨b, hr⟩))

/-- the rows an event puts on disk -/
def newRowFact (s s' : Sys) : Op → Prop
  | .cancelRow _ j => HasRow s' j
  | .nodeRow _ j => HasRow s' j
  | .nodeCancel _ j => HasRow s' j
  | .collectFile _ b => ∀ r ∈ s.nodeFile b, HasRow s' r.job
  | .collectCopy _ b => ∀ r ∈ s.nodeFile b, HasRow s' r.job
  | _ => True

theorem newRow_step {s s' : Sys} {op : Op} (h : step s op = some s') : newRowFact s s' op := by
  cases op <;> simp only [newRowFact] <;> (try trivial)
  case cancelRow p j =>
    step_cases h; frame_all
    rename_i hg _
    refine Or.inl ⟨⟨j, 1, true⟩, ?_, rfl⟩
    simp [hg.2]
  case nodeRow p j =>
    step_cases h; frame_all
    rename_i n _ _
    refine Or.inr ⟨n.bid, ⟨j, s.sc.rc j, false⟩, ?_, rfl⟩
    simp
  case nodeCancel p j =>
    step_cases h; frame_all
    rename_i n _ _
    refine Or.inr ⟨n.bid, ⟨j, 1, true⟩, ?_, rfl⟩
    simp
  case collectFile p b =>
    step_cases h; frame_all
    intro r hr; exact Or.inl ⟨r, by simp [hr], rfl⟩
  case collectCopy p b =>
    step_cases h; frame_all
    intro r hr; exact Or.inl ⟨r, by simp [hr], rfl⟩

/-- C02: wherever a job waits, each configured blocker is still listed as blocking it there, or
    already has a recorded outcome -/
structure BlockInv (s : Sys) : Prop where
  disk : ∀ j, s.disk.st j = .ns → ∀ b ∈ s.sc.blockers j, b ∈ s.disk.blk j ∨ HasRow s b
  loc : ∀ q a y, s.procs q = .sub a y → holds y.pc = true → ∀ j, y.loc.st j = .ns →
    ∀ b ∈ s.sc.blockers j, b ∈ y.loc.blk j ∨ HasRow s b
  seen : ∀ q a y, s.procs q = .sub a y → holds y.pc = true →
    (∀ r ∈ y.pass, HasRow s r.job) ∧ (∀ b ∈ y.newly, HasRow s b)
  batches : ∀ B ∈ s.batches, ∀ j ∈ B.jobs, ∀ b ∈ s.sc.blockers j, b ∈ B.handed j ∨ HasRow s b
  node : ∀ p a n, s.procs p = .node a n → ∀ j ∈ n.queued, ∀ b ∈ s.sc.blockers j, b ∈ n.nblk j ∨ HasRow s b
  scn : s.sc = s.sc

theorem blockInv_init (sc : Scn) : BlockInv (init sc) := by
  refine ⟨?_, ?_, ?_, ?_, ?_, rfl⟩ <;> simp [init]
  intro j b hb; exact Or.inl hb

theorem holds_iff (pc : SPc) : holds pc = true ↔ (pc ≠ .fresh ∧ pc ≠ .gone) := by
  cases pc <;> simp [holds]

/-- finish one ∀-clause over the process table: split on "is it the process that moved?" -/
macro "proc_clause" : tactic => `(tactic|
  (intro q a y hq
   first
   | (split at hq
      · first
        | (cases hq; grind [SubP.load, persistStatus, find?_hid])
        | grind [SubP.load, persistStatus, find?_hid]
      · grind [SubP.load, persistStatus, find?_hid])
   | grind [SubP.load, persistStatus, find?_hid]))

theorem sc_step {s s' : Sys} {op : Op} (h : step s op = some s') : s'.sc = s.sc := by
  cases op <;> step_cases h <;> frame_all <;> rfl

theorem sc_run {s s' : Sys} (ops : List Op) (h : run s ops = some s') : s'.sc = s.sc := by
  induction ops generalizing s with
  | nil => simp [run] at h; subst h; rfl
  | cons op ops ih =>
    simp only [run] at h
    split at h
    · next s1 hs => rw [ih h, sc_step hs]
    · cases h

theorem rowOnDisk_run {s s' : Sys} (ops : List Op) (h : run s ops = some s') (r : Row) (hr : RowOnDisk s r) :
    RowOnDisk s' r := by
  induction ops generalizing s with
  | nil => simp [run] at h; subst h; exact hr
  | cons op ops ih =>
    simp only [run] at h
    split at h
    · next s1 hs => exact ih h (rowOnDisk_step hs r hr)
    · cases h

/-- the moment a job's command is started, every job configured as blocking it has a recorded outcome -/
theorem start_has_rows {s s' : Sys} (hi : BlockInv s) (p : Pid) (j : JobId)
    (h : step s (.nodeStart p j) = some s') : ∀ b ∈ s.sc.blockers j, HasRow s b := by
  obtain ⟨-, -, -, -, k5, -⟩ := hi
  step_cases h
  rename_i n hg hp
  intro b hb
  rcases k5 p true n hp j hg.1 b hb with hk | hk
  · rw [hg.2.1] at hk; cases hk
  · exact hk

#realize_aux Jade

end Jade.Sys
