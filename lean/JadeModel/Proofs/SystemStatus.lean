import JadeModel.Proofs.SystemGate
import JadeModel.Proofs.SystemRows
import JadeModel.Proofs.SystemStatusDefs
import JadeModel.Proofs.SystemStatusFwdStep
import JadeModel.Proofs.SystemStatusTornStep
import JadeModel.Proofs.SystemStatusLocA
import JadeModel.Proofs.SystemStatusLocB
import JadeModel.Proofs.SystemStatusLocC
import JadeModel.Proofs.SystemStatusLocD
import JadeModel.Proofs.SystemStatusDoneStepA
import JadeModel.Proofs.SystemStatusDoneStepB

set_option linter.unusedSimpArgs false

/-! # The persisted status at system level (C09)

`s.disk` is the abstract content of `cluster_config.json` + `job_status.json`.  Three families:

* `LocInv`, `Fwd` — ALL op sequences (every schedule, kill, failure, torn write): the role holder's
  in-memory copy is never behind the disk, hence every accepted event moves the disk only forward
  (`fwd_step`, `fwd_run`) and a submitted/done job has no remaining blockers (`LocInv.blkClear`).
* `DoneRow T` — every job marked done has a recorded result.  `T` says whether the second half of a torn
  `update_job_status` (`persistJobs`) may occur: with `T = False` (no `persistJobs` in the history, all
  other faults allowed) the statement is exact; with `T = True` (all ops) the exception is spelled out.
* (`Proofs/SystemStatusFlow.lean`, `Proofs/SystemStatusRun.lean`) `FlowA`/`FlowB`/`Counters` — fault-free op
  sequences (`Op.isFault = false`, defined here): completion "tokens" are unique (one row per job, collected
  once), hence the two counters are exactly the numbers of done and of submitted-or-done jobs.

Definitions: `SystemStatusDefs`; the step lemmas are in separate files (compiled in parallel).
 -/

namespace Jade.Sys

theorem locInv_step {s s' : Sys} {op : Op} (hr : RoleInv s) (hi : LocInv s) (h : step s op = some s') :
    LocInv s' := by
  obtain ⟨c_cnt, c_locDone⟩ := locInv_step_a hr hi h
  obtain ⟨c_locNs, c_locBlk⟩ := locInv_step_b hr hi h
  obtain ⟨c_pendNs, c_pendPc⟩ := locInv_step_c hr hi h
  have c_blkClear := locInv_step_d hr hi h
  exact ⟨c_cnt, c_locDone, c_locNs, c_locBlk, c_pendNs, c_pendPc, c_blkClear⟩

theorem doneRow_step {T : Prop} {s s' : Sys} {op : Op} (hr : RoleInv s) (hb : BlockInv s) (hi : DoneRow T s)
    (hT : tornOk T op) (h : step s op = some s') : DoneRow T s' := by
  obtain ⟨c_toCancelPc, c_diskRow⟩ := doneRow_step_a hr hb hi hT h
  have c_locRow := doneRow_step_b hr hb hi hT h
  exact ⟨c_toCancelPc, c_locRow, c_diskRow⟩

/-- the all-ops invariants of this file together with the ones they rest on -/
structure StatusAll (T : Prop) (s : Sys) : Prop where
  gate : GateInv s
  block : BlockInv s
  loc : LocInv s
  rows : DoneRow T s

theorem statusAll_init (T : Prop) (sc : Scn) : StatusAll T (init sc) :=
  ⟨gateInv_init sc, blockInv_init sc, locInv_init sc, doneRow_init T sc⟩

theorem statusAll_step {T : Prop} {s s' : Sys} {op : Op} (hi : StatusAll T s) (hT : tornOk T op)
    (h : step s op = some s') : StatusAll T s' :=
  ⟨gateInv_step hi.gate h, blockInv_step hi.block h, locInv_step hi.gate.role hi.loc h,
   doneRow_step hi.gate.role hi.block hi.rows hT h⟩

theorem statusAll_run {T : Prop} {s s' : Sys} (ops : List Op) (hi : StatusAll T s) (hT : ∀ op ∈ ops, tornOk T op)
    (h : run s ops = some s') : StatusAll T s' := by
  induction ops generalizing s with
  | nil => simp [run] at h; subst h; exact hi
  | cons op ops ih =>
    simp only [run] at h
    split at h
    · next s1 hs =>
      exact ih (statusAll_step hi (hT op (List.mem_cons_self ..)) hs) (fun o ho => hT o (List.mem_cons_of_mem _ ho)) h
    · cases h

/-- every continuation of a state satisfying the invariants moves the persisted status only forward -/
theorem fwd_run {s s' : Sys} (ops : List Op) (hi : StatusAll True s) (h : run s ops = some s') :
    Fwd s.disk s'.disk := by
  induction ops generalizing s with
  | nil => simp [run] at h; subst h; exact Fwd.refl _
  | cons op ops ih =>
    simp only [run] at h
    split at h
    · next s1 hs =>
      have hT : tornOk True op := by cases op <;> trivial
      exact Fwd.trans (fwd_step hi.gate hi.loc hs) (ih (statusAll_step hi hT hs) h)
    · cases h

end Jade.Sys
