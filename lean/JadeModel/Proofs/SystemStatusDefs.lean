import JadeModel.Proofs.SystemGateDefs
import JadeModel.Proofs.SystemRowsDefs

set_option linter.unusedSimpArgs false

/-! The persisted status at system level (C09): definitions (see `SystemStatus`). -/

namespace Jade.Sys

/-- the injected faults: a collector dying between copy and removal, a crash between the two files of
    `update_job_status`, SIGKILL, an exception, a lost batch, a failed `sbatch` -/
def Op.isFault : Op → Bool
  | .collectCopy _ _ => true
  | .persistCfg _ => true
  | .persistJobs _ => true
  | .kill _ => true
  | .fail _ => true
  | .batchLost _ => true
  | .sbatch _ _ none => true
  | _ => false

/-- histories without injected faults -/
def plainOps (ops : List Op) : Prop := ∀ op ∈ ops, op.isFault = false

instance (ops : List Op) : Decidable (plainOps ops) := by unfold plainOps; infer_instance

/-- order of job states: not_submitted < submitted < done -/
def rank : JSt → Nat
  | .ns => 0
  | .sub => 1
  | .done => 2

structure LocInv (s : Sys) : Prop where
  /-- the holder's copy of the two counters is the disk's -/
  cnt : ∀ q a y, s.procs q = .sub a y → holds y.pc = true →
    y.loc.subCnt = s.disk.subCnt ∧ y.loc.doneCnt = s.disk.doneCnt
  /-- … its copy of a job's state is the disk's or ahead of it -/
  locDone : ∀ q a y, s.procs q = .sub a y → holds y.pc = true → ∀ j, s.disk.st j = .done → y.loc.st j = .done
  locNs : ∀ q a y, s.procs q = .sub a y → holds y.pc = true → ∀ j, s.disk.st j ≠ .ns → y.loc.st j ≠ .ns
  /-- … its copy of a remaining-blockers set is a subset of the disk's -/
  locBlk : ∀ q a y, s.procs q = .sub a y → holds y.pc = true → ∀ j b, b ∈ y.loc.blk j → b ∈ s.disk.blk j
  /-- what it handed out in this round was NOT_SUBMITTED when the round began -/
  pendNs : ∀ q a y, s.procs q = .sub a y → ∀ j ∈ y.pend, y.loc.st j = .ns
  pendPc : ∀ q a y, s.procs q = .sub a y → y.pend ≠ [] → y.pc = .marked ∨ y.pc = .failing
  /-- on disk a submitted or done job has no remaining blockers -/
  blkClear : ∀ j, s.disk.st j ≠ .ns → s.disk.blk j = []

theorem locInv_init (sc : Scn) : LocInv (init sc) := by
  refine ⟨?_, ?_, ?_, ?_, ?_, ?_, ?_⟩ <;> simp [init]

macro "frame_st" : tactic => `(tactic|
  try simp only [HasRow, freshHid_some_iff, procs_setSub, procs_setNode,
    procs_setProc, setSub_fields, setNode_fields, setProc_fields, holds_iff] at *)

/-- the two-state relation "only moved forward" between two contents of the status files -/
structure Fwd (d d' : Status) : Prop where
  stNs : ∀ j, d.st j ≠ .ns → d'.st j ≠ .ns
  stDone : ∀ j, d.st j = .done → d'.st j = .done
  blk : ∀ j b, b ∈ d'.blk j → b ∈ d.blk j
  sub : d.subCnt ≤ d'.subCnt
  done : d.doneCnt ≤ d'.doneCnt
  complete : d.complete = true → d'.complete = true
  canceled : d.canceled = true → d'.canceled = true

theorem Fwd.refl (d : Status) : Fwd d d :=
  ⟨fun _ h => h, fun _ h => h, fun _ _ h => h, Nat.le_refl _, Nat.le_refl _, fun h => h, fun h => h⟩

theorem Fwd.trans {a b c : Status} (h1 : Fwd a b) (h2 : Fwd b c) : Fwd a c :=
  ⟨fun j h => h2.stNs j (h1.stNs j h), fun j h => h2.stDone j (h1.stDone j h),
   fun j x h => h1.blk j x (h2.blk j x h), Nat.le_trans h1.sub h2.sub, Nat.le_trans h1.done h2.done,
   fun h => h2.complete (h1.complete h), fun h => h2.canceled (h1.canceled h)⟩

/-- a job's state only advances not_submitted → submitted → done -/
theorem Fwd.rank_le {d d' : Status} (h : Fwd d d') (j : JobId) : rank (d.st j) ≤ rank (d'.st j) := by
  have h1 := h.stNs j
  have h2 := h.stDone j
  cases hd : d.st j <;> cases hd' : d'.st j <;> simp_all [rank]

/-- job `j` was canceled in memory by a round that has not (yet) appended its canceled row -/
def TornCancel (s : Sys) (j : JobId) : Prop := ∃ q a y, s.procs q = .sub a y ∧ j ∈ y.toCancel

/-- `T`: may the second half of a torn `update_job_status` occur in the history? -/
def tornOk (T : Prop) : Op → Prop
  | .persistJobs _ => T
  | _ => True

structure DoneRow (T : Prop) (s : Sys) : Prop where
  toCancelPc : ∀ q a y, s.procs q = .sub a y → y.toCancel ≠ [] → y.pc = .collecting ∨ y.pc = .failing ∨ y.pc = .gone
  locRow : ∀ q a y, s.procs q = .sub a y → holds y.pc = true → ∀ j, y.loc.st j = .done →
    HasRow s j ∨ j ∈ y.toCancel ∨ (T ∧ TornCancel s j)
  diskRow : ∀ j, s.disk.st j = .done → HasRow s j ∨ (T ∧ TornCancel s j)

theorem doneRow_init (T : Prop) (sc : Scn) : DoneRow T (init sc) := by
  refine ⟨?_, ?_, ?_⟩ <;> simp [init]

/-- histories in which no process completes the job-status half of an `update_job_status` it was torn out of -/
def noTornJobs (ops : List Op) : Prop := ∀ op ∈ ops, tornOk False op

instance (op : Op) : Decidable (tornOk False op) := by cases op <;> simp only [tornOk] <;> infer_instance

instance (ops : List Op) : Decidable (noTornJobs ops) := by unfold noTornJobs; infer_instance

theorem tornOk_true (ops : List Op) : ∀ op ∈ ops, tornOk True op := by
  intro op _; cases op <;> trivial

theorem tornOk_of_plain {op : Op} (h : op.isFault = false) : tornOk False op := by
  cases op <;> simp_all [tornOk, Op.isFault]

#realize_aux Jade

end Jade.Sys
