import JadeModel.Proofs.SystemStatusTornStep

set_option linter.unusedSimpArgs false

namespace Jade.Sys

set_option maxHeartbeats 32000000 in
theorem doneRow_step_b {T : Prop} {s s' : Sys} {op : Op} (hr : RoleInv s) (hb : BlockInv s) (hi : DoneRow T s)
    (hT : tornOk T op) (h : step s op = some s') :
    (∀ q a y, s'.procs q = .sub a y → holds y.pc = true → ∀ j, y.loc.st j = .done →
    HasRow s' j ∨ j ∈ y.toCancel ∨ (T ∧ TornCancel s' j)) := by
  have hnew := newRow_step h
  have hmono := fun j => hasRow_step h j
  have htc := tornCancel_step hi.toCancelPc h
  have hself : ∀ q a y, s.procs q = .sub a y → ∀ j ∈ y.toCancel, TornCancel s j := fun q a y hq j hj => ⟨q, a, y, hq, hj⟩
  obtain ⟨h1, h2, h3, h4, h5⟩ := hr
  have k3 := hb.seen
  obtain ⟨d1, d2, d3⟩ := hi
  cases op <;> simp only [newRowFact] at hnew <;> simp only [tornOk] at hT <;> step_cases h <;>
    (skip <;> frame_st)
  all_goals first
    | proc_clause
    | grind [SubP.load, persistStatus]

end Jade.Sys
