import JadeModel.Proofs.SystemStatus
import JadeModel.Proofs.SystemOutcome
import JadeModel.Proofs.SystemStatusFlow0
import JadeModel.Proofs.SystemStatusFlow1
import JadeModel.Proofs.SystemStatusFlow2
import JadeModel.Proofs.SystemStatusFlow3
import JadeModel.Proofs.SystemStatusFlow4
import JadeModel.Proofs.SystemStatusFlow5
import JadeModel.Proofs.SystemStatusFlow6
import JadeModel.Proofs.SystemStatusFlow7
import JadeModel.Proofs.SystemStatusFlow8

/-! Fault-free status flow (C09): split into parts so that the step groups compile in parallel. -/
