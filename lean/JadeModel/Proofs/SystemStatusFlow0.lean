import JadeModel.Proofs.SystemStatusDefs
import JadeModel.Proofs.SystemOutcomeDefs

set_option linter.unusedSimpArgs false

/-!
# Fault-free histories: completion tokens are unique, hence the counters are exact (C09)

For op sequences without injected faults (`Op.isFault`): every job has at most one row, the row is
collected into at most one round's `newly_completed`, and the round that persists it finds the job
`submitted`; a job the submitter cancels is counted once in each counter.  `persist_counts` is the
arithmetic of `_update_job_status` on such arguments; `flow_reach` lifts everything to every
fault-free history of every scenario.
-/

namespace Jade.Sys

/-- number of jobs (of the `n` configured ones) marked done -/
def cntDone (n : Nat) (st : JobId → JSt) : Nat := (List.range n).countP (fun j => st j == .done)
/-- number of jobs marked submitted or done -/
def cntSub (n : Nat) (st : JobId → JSt) : Nat := (List.range n).countP (fun j => st j != .ns)

theorem countP_mem_range (l : List Nat) (n : Nat) (hnd : l.Nodup) (hlt : ∀ k ∈ l, k < n) :
    (List.range n).countP (fun k => decide (k ∈ l)) = l.length := by
  rw [List.countP_eq_length_filter]
  apply List.Perm.length_eq
  rw [List.perm_ext_iff_of_nodup (List.Nodup.sublist List.filter_sublist List.nodup_range) hnd]
  intro k
  simp only [List.mem_filter, List.mem_range, decide_eq_true_eq]
  exact ⟨fun h => h.2, fun h => ⟨hlt k h, h⟩⟩

theorem countP_disj (l : List Nat) (p q r : Nat → Bool) (h : ∀ j ∈ l, r j = (p j || q j))
    (hd : ∀ j ∈ l, ¬ (p j = true ∧ q j = true)) : l.countP r = l.countP p + l.countP q := by
  induction l with
  | nil => simp
  | cons a l ih =>
    have ih' := ih (fun j hj => h j (by simp [hj])) (fun j hj => hd j (by simp [hj]))
    have ha := h a (by simp)
    have hda := hd a (by simp)
    simp only [List.countP_cons, ih', ha]
    cases hp : p a <;> cases hq : q a <;> simp_all <;> omega

theorem cntDone_le_cntSub (n : Nat) (st : JobId → JSt) : cntDone n st ≤ cntSub n st := by
  unfold cntDone cntSub
  apply List.countP_mono_left
  intro j _ hj
  simp only [beq_iff_eq] at hj
  simp [hj]

theorem cntSub_le (n : Nat) (st : JobId → JSt) : cntSub n st ≤ n := by
  unfold cntSub
  have := List.countP_le_length (p := fun j => st j != .ns) (l := List.range n)
  simpa using this

/-- the arithmetic of `_update_job_status` on a round's arguments: counters stay exact -/
theorem persist_counts (n : Nat) (d : Status) (x : SubP)
    (hD : d.doneCnt = cntDone n d.st) (hS : d.subCnt = cntSub n d.st)
    (hc : x.loc.subCnt = d.subCnt ∧ x.loc.doneCnt = d.doneCnt)
    (hf : ∀ j, x.loc.st j = d.st j ∨ j ∈ x.cancels)
    (hcan : ∀ j ∈ x.cancels, d.st j = .ns ∧ x.loc.st j = .done ∧ j < n ∧ j ∈ x.newly)
    (hcanNd : x.cancels.Nodup)
    (hnew : ∀ j ∈ x.newly, (x.loc.st j = .sub ∨ j ∈ x.cancels) ∧ j < n)
    (hnewNd : x.newly.Nodup)
    (hpend : ∀ j ∈ x.pend, x.loc.st j = .ns ∧ j < n)
    (hpendNd : x.pend.Nodup) :
    (persistStatus x).doneCnt = cntDone n (persistStatus x).st ∧
    (persistStatus x).subCnt = cntSub n (persistStatus x).st := by
  constructor
  · have h1 : cntDone n (persistStatus x).st =
        (List.range n).countP (fun k => decide (k ∈ x.newly)) + cntDone n d.st := by
      unfold cntDone
      apply countP_disj
      · intro j _
        simp only [persistStatus]
        have := hf j; have := hcan j; have := hnew j; have := hpend j
        grind
      · intro j _
        have := hf j; have := hcan j; have := hnew j
        grind
    rw [h1, countP_mem_range _ _ hnewNd (fun k hk => (hnew k hk).2)]
    simp only [persistStatus]
    omega
  · have h1 : cntSub n (persistStatus x).st =
        (List.range n).countP (fun k => decide (k ∈ x.pend) || decide (k ∈ x.cancels)) + cntSub n d.st := by
      unfold cntSub
      apply countP_disj
      · intro j _
        simp only [persistStatus]
        have := hf j; have := hcan j; have := hnew j; have := hpend j
        grind
      · intro j _
        have := hf j; have := hcan j; have := hpend j
        grind
    have h2 : (List.range n).countP (fun k => decide (k ∈ x.pend) || decide (k ∈ x.cancels)) =
        (List.range n).countP (fun k => decide (k ∈ x.pend)) + (List.range n).countP (fun k => decide (k ∈ x.cancels)) := by
      apply countP_disj
      · intro j _; rfl
      · intro j _
        have := hcan j; have := hpend j
        grind
    rw [h1, h2, countP_mem_range _ _ hpendNd (fun k hk => (hpend k hk).2),
      countP_mem_range _ _ hcanNd (fun k hk => (hcan k hk).2.2.1)]
    simp only [persistStatus]
    omega

end Jade.Sys

namespace Jade.Sys

def holderCancels (s : Sys) : List JobId :=
  match holderSub s with
  | some y => y.cancels
  | none => []

/-- fault-free histories, part A: completion tokens are unique -/
structure FlowA (s : Sys) : Prop where
  fileNd : ∀ B, ((s.nodeFile B).map (·.job)).Nodup
  fileProc : ∀ B, ∀ r ∈ s.nodeFile B, ∀ r' ∈ s.processed, r.job ≠ r'.job
  fileFile : ∀ B B', B ≠ B' → ∀ r ∈ s.nodeFile B, ∀ r' ∈ s.nodeFile B', r.job ≠ r'.job
  nodeFresh : ∀ p a n, s.procs p = .node a n → ∀ j, (j ∈ n.queued ∨ j ∈ n.running) → ¬ HasRow s j
  nodeDisj : ∀ p a n, s.procs p = .node a n → ∀ j ∈ n.running, j ∉ n.queued
  cancelFresh : ∀ q a y, s.procs q = .sub a y → ∀ j ∈ y.toCancel, ¬ HasRow s j
  toCancelNd : ∀ q a y, s.procs q = .sub a y → y.toCancel.Nodup
  pendingFresh : ∀ b ∈ s.batches, ∀ h, b.hid = some h → s.slurm h = some .pending → ∀ j ∈ b.jobs, ¬ HasRow s j
  passProc : ∀ q a y, s.procs q = .sub a y → ∀ r ∈ y.pass, r ∈ s.processed
  passNd : ∀ q a y, s.procs q = .sub a y → (y.pass.map (·.job)).Nodup
  newlyProc : ∀ q a y, s.procs q = .sub a y → ∀ j ∈ y.newly, ∃ r ∈ s.processed, r.job = j
  newlyNd : ∀ q a y, s.procs q = .sub a y → y.newly.Nodup
  doneProc : ∀ j, s.disk.st j = .done → ∃ r ∈ s.processed, r.job = j
  jobsLt : ∀ b ∈ s.batches, ∀ j ∈ b.jobs, j < s.sc.n
  rowLt : ∀ j, HasRow s j → j < s.sc.n

/-- fault-free histories, part B: where a job's token is determines its state -/
structure FlowB (s : Sys) : Prop where
  batchSt : ∀ b ∈ s.batches, ∀ j ∈ b.jobs, s.disk.st j ≠ .ns ∨ j ∈ holderPend s
  rowSt : ∀ j, HasRow s j → s.disk.st j ≠ .ns ∨ j ∈ holderPend s ∨ j ∈ holderCancels s
  toCancelSub : ∀ q a y, s.procs q = .sub a y → ∀ j ∈ y.toCancel, j ∈ y.cancels
  cancelsSt : ∀ q a y, s.procs q = .sub a y → ∀ j ∈ y.cancels, s.disk.st j = .ns ∧ y.loc.st j = .done ∧ j < s.sc.n
  cancelsNd : ∀ q a y, s.procs q = .sub a y → y.cancels.Nodup
  cancelsWhere : ∀ q a y, s.procs q = .sub a y → ∀ j ∈ y.cancels, j ∈ y.newly ∨ j ∈ y.pass.map (·.job) ∨ j ∈ y.toCancel
  passSt : ∀ q a y, s.procs q = .sub a y → ∀ r ∈ y.pass, y.loc.st r.job = .sub ∨ r.job ∈ y.cancels
  newlySt : ∀ q a y, s.procs q = .sub a y → ∀ j ∈ y.newly, y.loc.st j = .sub ∨ j ∈ y.cancels
  locEq : ∀ q a y, s.procs q = .sub a y → holds y.pc = true → ∀ j, y.loc.st j = s.disk.st j ∨ j ∈ y.cancels
  pendNd : ∀ q a y, s.procs q = .sub a y → y.pend.Nodup
  pendLt : ∀ q a y, s.procs q = .sub a y → ∀ j ∈ y.pend, j < s.sc.n
  pcPend : ∀ q a y, s.procs q = .sub a y → ∀ j ∈ y.pend, y.pc = .marked
  pcCancels : ∀ q a y, s.procs q = .sub a y → ∀ j ∈ y.cancels, y.pc = .collecting ∨ y.pc = .ready ∨ y.pc = .marked
  pcNewly : ∀ q a y, s.procs q = .sub a y → ∀ j ∈ y.newly, y.pc = .collecting ∨ y.pc = .ready ∨ y.pc = .marked
  pcPass : ∀ q a y, s.procs q = .sub a y → ∀ r ∈ y.pass, y.pc = .collecting
  pcToCancel : ∀ q a y, s.procs q = .sub a y → ∀ j ∈ y.toCancel, y.pc = .collecting

theorem flowA_init (sc : Scn) : FlowA (init sc) := by
  refine ⟨?_, ?_, ?_, ?_, ?_, ?_, ?_, ?_, ?_, ?_, ?_, ?_, ?_, ?_, ?_⟩ <;> simp [init, HasRow, HasRowF]

theorem flowB_init (sc : Scn) : FlowB (init sc) := by
  refine ⟨?_, ?_, ?_, ?_, ?_, ?_, ?_, ?_, ?_, ?_, ?_, ?_, ?_, ?_, ?_, ?_⟩ <;> simp [init, HasRow, HasRowF]

/-! facts about node runners derived from `NodeInv` -/

theorem node_batch {s : Sys} (hi : NodeInv s) {p : Pid} {a : Bool} {n : NodeP} {j : JobId}
    (hp : s.procs p = .node a n) (hj : j ∈ n.queued ∨ j ∈ n.running) :
    ∃ b ∈ s.batches, b.hid = some n.hid ∧ b.bid = n.bid ∧ j ∈ b.jobs := by
  obtain ⟨b, hb, hh, hbid, hq, hr⟩ := hi.ofBatch p a n hp
  exact ⟨b, hb, hh, hbid, hj.elim (hq j) (hr j)⟩

theorem node_of_batch {s : Sys} (hi : NodeInv s) {p : Pid} {a : Bool} {n : NodeP} {j : JobId} {b : Batch}
    (hp : s.procs p = .node a n) (hj : j ∈ n.queued ∨ j ∈ n.running) (hb : b ∈ s.batches) (hjb : j ∈ b.jobs) :
    b.hid = some n.hid ∧ b.bid = n.bid := by
  obtain ⟨b', hb', hh, hbid, hj'⟩ := node_batch hi hp hj
  have := mem_unique_batch hi.batch.jobsNodup hb hb' hjb hj'
  subst this
  exact ⟨hh, hbid⟩

theorem node_unique {s : Sys} (hi : NodeInv s) {p p' : Pid} {a a' : Bool} {n n' : NodeP} {j : JobId}
    (hp : s.procs p = .node a n) (hp' : s.procs p' = .node a' n')
    (hj : j ∈ n.queued ∨ j ∈ n.running) (hj' : j ∈ n'.queued ∨ j ∈ n'.running) : p = p' := by
  obtain ⟨b, hb, hh, -, hjb⟩ := node_batch hi hp hj
  have := (node_of_batch hi hp' hj' hb hjb).1
  rw [hh] at this
  exact hi.oneRunner p p' a a' n n' hp hp' (Option.some.inj this)

theorem batch_jobs_nodup {bs : List Batch} (hn : (bs.flatMap (·.jobs)).Nodup) {b : Batch} (hb : b ∈ bs) : b.jobs.Nodup := by
  induction bs with
  | nil => cases hb
  | cons c cs ih =>
    simp only [List.flatMap_cons, List.nodup_append] at hn
    rcases List.mem_cons.1 hb with h | h
    · subst h; exact hn.1
    · exact ih hn.2.1 h

theorem nodup_map_append {l1 l2 : List Row} (h1 : (l1.map (·.job)).Nodup) (h2 : (l2.map (·.job)).Nodup)
    (hd : ∀ r ∈ l1, ∀ r' ∈ l2, r.job ≠ r'.job) : ((l1 ++ l2).map (·.job)).Nodup := by
  rw [List.map_append, List.nodup_append]
  refine ⟨h1, h2, ?_⟩
  intro a ha b hb
  obtain ⟨r, hr, rfl⟩ := List.mem_map.1 ha
  obtain ⟨r', hr', rfl⟩ := List.mem_map.1 hb
  exact hd r hr r' hr'

theorem nodup_append_filter (l1 l2 : List JobId) (h1 : l1.Nodup) (h2 : l2.Nodup) :
    (l1 ++ l2.filter (fun j => !l1.contains j)).Nodup := by
  rw [List.nodup_append]
  refine ⟨h1, List.Nodup.sublist List.filter_sublist h2, ?_⟩
  intro a ha b hb hab
  subst hab
  simp only [List.mem_filter, List.contains_eq_mem, Bool.not_eq_true', decide_eq_false_iff_not] at hb
  exact hb.2 ha


theorem nodup_map_snoc {l : List Row} {r : Row} (h1 : (l.map (·.job)).Nodup) (hd : ∀ r' ∈ l, r'.job ≠ r.job) :
    ((l ++ [r]).map (·.job)).Nodup :=
  nodup_map_append h1 (by simp) (fun r' hr' r'' hr'' => by simp only [List.mem_singleton] at hr''; subst hr''; exact hd r' hr')

theorem nodup_append_filter' (l1 l2 : List JobId) (h1 : l1.Nodup) (h2 : l2.Nodup) :
    (l1 ++ l2.filter (fun j => !List.elem j l1)).Nodup := nodup_append_filter l1 l2 h1 h2

/-- the job whose row an event appends -/
def rowOf : Op → Option JobId
  | .cancelRow _ j => some j
  | .nodeRow _ j => some j
  | .nodeCancel _ j => some j
  | _ => none

/-- the only new rows are the one the event appends -/
theorem hasRow_inv {s s' : Sys} {op : Op} (h : step s op = some s') (j : JobId) (hr : HasRow s' j) :
    HasRow s j ∨ rowOf op = some j := by
  unfold HasRow HasRowF at *
  cases op <;> simp only [rowOf] <;> step_cases h <;> frame_all <;> grind

theorem noRow_iff (s : Sys) (j : JobId) :
    ¬ HasRow s j ↔ ((∀ r ∈ s.processed, r.job ≠ j) ∧ (∀ B, ∀ r ∈ s.nodeFile B, r.job ≠ j)) := by
  unfold HasRow HasRowF
  grind

theorem cancelSetOk_ns (sc : Scn) (x : SubP) (ks : List JobId) (h : cancelSetOk sc x ks = true) :
    ∀ j ∈ ks, j < sc.n ∧ x.loc.st j = .ns := by
  intro j hj
  have := (cancelSetOk_iff sc x ks h).1 j hj
  exact ⟨this.1, ((mustCancel_iff sc x j).1 this.2).1⟩

macro "frame_flow" : tactic => `(tactic|
  try simp only [mustCancel_iff, nodeCancel_guard_iff, freshHid_some_iff, holderPend, holderCancels,
    holderSub, procs_setSub, procs_setNode, procs_setProc, setSub_fields, setNode_fields,
    setProc_fields, holds_iff] at *)

/-- split off the fault cases of a fault-free step -/
macro "plain_cases" op:ident hop:ident : tactic => `(tactic|
  (cases $op:ident <;> (try (cases ‹Option Hid›)) <;> (try (simp [Op.isFault] at $hop:ident; done))))

/-- what `NodeInv` + `FlowB.batchSt` say about the jobs of a node runner, in first-order form -/
structure NodeFacts (s : Sys) : Prop where
  qHid : ∀ p a n, s.procs p = .node a n → ∀ j ∈ n.queued, ∀ b ∈ s.batches, j ∈ b.jobs → b.hid = some n.hid
  rHid : ∀ p a n, s.procs p = .node a n → ∀ j ∈ n.running, ∀ b ∈ s.batches, j ∈ b.jobs → b.hid = some n.hid
  qSt : ∀ p a n, s.procs p = .node a n → ∀ j ∈ n.queued, (s.disk.st j ≠ .ns ∨ j ∈ holderPend s) ∧ j < s.sc.n
  rSt : ∀ p a n, s.procs p = .node a n → ∀ j ∈ n.running, (s.disk.st j ≠ .ns ∨ j ∈ holderPend s) ∧ j < s.sc.n
  qq : ∀ p p' a a' n n', s.procs p = .node a n → s.procs p' = .node a' n' → ∀ j ∈ n.queued, j ∈ n'.queued → p = p'
  qr : ∀ p p' a a' n n', s.procs p = .node a n → s.procs p' = .node a' n' → ∀ j ∈ n.queued, j ∈ n'.running → p = p'
  rr : ∀ p p' a a' n n', s.procs p = .node a n → s.procs p' = .node a' n' → ∀ j ∈ n.running, j ∈ n'.running → p = p'
  started : ∀ p a n, s.procs p = .node a n → s.slurm n.hid = some .running ∨ s.slurm n.hid = some .ended
  hidKnown : ∀ b ∈ s.batches, ∀ h, b.hid = some h → (s.slurm h).isSome = true
  jobsNd : ∀ b ∈ s.batches, b.jobs.Nodup

theorem nodeFacts {s : Sys} (hn : NodeInv s) (ha : FlowA s) (hb : FlowB s) : NodeFacts s := by
  refine ⟨?_, ?_, ?_, ?_, ?_, ?_, ?_, hn.started, hn.hidKnown, fun b hb' => batch_jobs_nodup hn.batch.jobsNodup hb'⟩
  · intro p a n hp j hj b hb' hjb; exact (node_of_batch hn hp (Or.inl hj) hb' hjb).1
  · intro p a n hp j hj b hb' hjb; exact (node_of_batch hn hp (Or.inr hj) hb' hjb).1
  · intro p a n hp j hj
    obtain ⟨b, hb', -, -, hjb⟩ := node_batch hn hp (Or.inl hj)
    exact ⟨hb.batchSt b hb' j hjb, ha.jobsLt b hb' j hjb⟩
  · intro p a n hp j hj
    obtain ⟨b, hb', -, -, hjb⟩ := node_batch hn hp (Or.inr hj)
    exact ⟨hb.batchSt b hb' j hjb, ha.jobsLt b hb' j hjb⟩
  · intro p p' a a' n n' hp hp' j hj hj'; exact node_unique hn hp hp' (Or.inl hj) (Or.inl hj')
  · intro p p' a a' n n' hp hp' j hj hj'; exact node_unique hn hp hp' (Or.inl hj) (Or.inr hj')
  · intro p p' a a' n n' hp hp' j hj hj'; exact node_unique hn hp hp' (Or.inr hj) (Or.inr hj')

end Jade.Sys

#realize_aux Jade
