import JadeModel.Proofs.SystemStatusFlow0

set_option linter.unusedSimpArgs false

namespace Jade.Sys

set_option maxHeartbeats 32000000 in
theorem flowA_files_step {s s' : Sys} {op : Op} (ha : FlowA s) (hop : op.isFault = false)
    (h : step s op = some s') :
    (∀ B, ((s'.nodeFile B).map (·.job)).Nodup) ∧
    (∀ B, ∀ r ∈ s'.nodeFile B, ∀ r' ∈ s'.processed, r.job ≠ r'.job) ∧
    (∀ B B', B ≠ B' → ∀ r ∈ s'.nodeFile B, ∀ r' ∈ s'.nodeFile B', r.job ≠ r'.job) := by
  have hno := fun j => (noRow_iff s j).1
  obtain ⟨a1, a2, a3, a4, a5, a6, a7, a8, a9, a10, a11, a12, a13, a14, a15⟩ := ha
  plain_cases op hop <;> step_cases h <;> (refine ⟨?_, ?_, ?_⟩ <;> frame_flow) <;>
    first
    | assumption
    | grind [nodup_map_snoc]

end Jade.Sys
