import JadeModel.Proofs.SystemStatusFlow2a
import JadeModel.Proofs.SystemStatusFlow2b
import JadeModel.Proofs.SystemStatusFlow2c
import JadeModel.Proofs.SystemStatusFlow2d

set_option linter.unusedSimpArgs false

namespace Jade.Sys

theorem flowA_fresh_step {s s' : Sys} {op : Op} (hn : NodeInv s) (hl : LocInv s) (ha : FlowA s) (hb : FlowB s)
    (hop : op.isFault = false) (h : step s op = some s') :
    (∀ p a n, s'.procs p = .node a n → ∀ j, (j ∈ n.queued ∨ j ∈ n.running) → ¬ HasRow s' j) ∧
    (∀ p a n, s'.procs p = .node a n → ∀ j ∈ n.running, j ∉ n.queued) ∧
    (∀ q a y, s'.procs q = .sub a y → ∀ j ∈ y.toCancel, ¬ HasRow s' j) ∧
    (∀ q a y, s'.procs q = .sub a y → y.toCancel.Nodup) ∧
    (∀ b ∈ s'.batches, ∀ h, b.hid = some h → s'.slurm h = some .pending → ∀ j ∈ b.jobs, ¬ HasRow s' j) := by
  have c0 := flowA_fresh_step_1 hn hl ha hb hop h
  obtain ⟨c1, c4⟩ := flowA_fresh_step_2 hn hl ha hb hop h
  have c2 := flowA_fresh_step_3 hn hl ha hb hop h
  have c3 := flowA_fresh_step_4 hn hl ha hb hop h
  exact ⟨c0, c1, c2, c3, c4⟩

end Jade.Sys
