import JadeModel.Proofs.SystemStatusFlow0

set_option linter.unusedSimpArgs false

namespace Jade.Sys

set_option maxHeartbeats 64000000 in
theorem flowA_fresh_step_4 {s s' : Sys} {op : Op} (hn : NodeInv s) (hl : LocInv s) (ha : FlowA s) (hb : FlowB s)
    (hop : op.isFault = false) (h : step s op = some s') :
    (∀ q a y, s'.procs q = .sub a y → y.toCancel.Nodup) := by
  have hinv := hasRow_inv h
  obtain ⟨f1, f2, f3, f4, f5, f6, f7, f8, f9, f10⟩ := nodeFacts hn ha hb
  obtain ⟨h1, h2, h3, h4, h5⟩ := hn.batch.role
  have l3 := hl.locNs
  obtain ⟨a1, a2, a3, a4, a5, a6, a7, a8, a9, a10, a11, a12, a13, a14, a15⟩ := ha
  obtain ⟨b1, b2, b3, b4, b5, b6, b7, b8, b9, b10, b11, b12, b13, b14, b15, b16⟩ := hb
  plain_cases op hop <;> simp only [rowOf] at hinv <;> step_cases h <;>
    (skip <;> frame_flow)
  all_goals first
    | assumption
    | grind [SubP.load, find?_hid, cancelSetOk_ns]

end Jade.Sys
