import JadeModel.Proofs.SystemStatusFlow3a
import JadeModel.Proofs.SystemStatusFlow3b
import JadeModel.Proofs.SystemStatusFlow3c
import JadeModel.Proofs.SystemStatusFlow3d

set_option linter.unusedSimpArgs false

namespace Jade.Sys

theorem flowA_pass_step {s s' : Sys} {op : Op} (hn : NodeInv s) (ha : FlowA s) (hb : FlowB s)
    (hop : op.isFault = false) (h : step s op = some s') :
    (∀ q a y, s'.procs q = .sub a y → ∀ r ∈ y.pass, r ∈ s'.processed) ∧
    (∀ q a y, s'.procs q = .sub a y → (y.pass.map (·.job)).Nodup) ∧
    (∀ q a y, s'.procs q = .sub a y → ∀ j ∈ y.newly, ∃ r ∈ s'.processed, r.job = j) ∧
    (∀ q a y, s'.procs q = .sub a y → y.newly.Nodup) ∧
    (∀ j, s'.disk.st j = .done → ∃ r ∈ s'.processed, r.job = j) := by
  have c0 := flowA_pass_step_1 hn ha hb hop h
  obtain ⟨c1, c4⟩ := flowA_pass_step_2 hn ha hb hop h
  have c2 := flowA_pass_step_3 hn ha hb hop h
  have c3 := flowA_pass_step_4 hn ha hb hop h
  exact ⟨c0, c1, c2, c3, c4⟩

end Jade.Sys
