import JadeModel.Proofs.SystemStatusFlow0

set_option linter.unusedSimpArgs false

namespace Jade.Sys

set_option maxHeartbeats 64000000 in
theorem flowA_pass_step_2 {s s' : Sys} {op : Op} (hn : NodeInv s) (ha : FlowA s) (hb : FlowB s)
    (hop : op.isFault = false) (h : step s op = some s') :
    (∀ q a y, s'.procs q = .sub a y → (y.pass.map (·.job)).Nodup) ∧
    (∀ j, s'.disk.st j = .done → ∃ r ∈ s'.processed, r.job = j) := by
  have hno := fun j => (noRow_iff s j).1
  obtain ⟨h1, h2, h3, h4, h5⟩ := hn.batch.role
  obtain ⟨a1, a2, a3, a4, a5, a6, a7, a8, a9, a10, a11, a12, a13, a14, a15⟩ := ha
  obtain ⟨b1, b2, b3, b4, b5, b6, b7, b8, b9, b10, b11, b12, b13, b14, b15, b16⟩ := hb
  plain_cases op hop <;> step_cases h <;>
    (refine ⟨?_, ?_⟩ <;> frame_flow)
  all_goals first
    | assumption
    | grind [SubP.load, persistStatus, nodup_map_append, nodup_map_snoc, nodup_append_filter, nodup_append_filter']

end Jade.Sys
