import JadeModel.Proofs.SystemStatusFlow5a
import JadeModel.Proofs.SystemStatusFlow5b

set_option linter.unusedSimpArgs false

namespace Jade.Sys

theorem flowB_st_step {s s' : Sys} {op : Op} (hn : NodeInv s) (hl : LocInv s) (ha : FlowA s) (hb : FlowB s)
    (hop : op.isFault = false) (h : step s op = some s') :
    (∀ b ∈ s'.batches, ∀ j ∈ b.jobs, s'.disk.st j ≠ .ns ∨ j ∈ holderPend s') ∧
    (∀ j, HasRow s' j → s'.disk.st j ≠ .ns ∨ j ∈ holderPend s' ∨ j ∈ holderCancels s') := by
  have c0 := flowB_st_step_1 hn hl ha hb hop h
  have c1 := flowB_st_step_2 hn hl ha hb hop h
  exact ⟨c0, c1⟩

end Jade.Sys
