import JadeModel.Proofs.SystemStatusFlow0

set_option linter.unusedSimpArgs false

namespace Jade.Sys

set_option maxHeartbeats 64000000 in
theorem flowB_cancels_step {s s' : Sys} {op : Op} (hr : RoleInv s) (hb : FlowB s)
    (hop : op.isFault = false) (h : step s op = some s') :
    (∀ q a y, s'.procs q = .sub a y → ∀ j ∈ y.toCancel, j ∈ y.cancels) ∧
    (∀ q a y, s'.procs q = .sub a y → ∀ j ∈ y.cancels, s'.disk.st j = .ns ∧ y.loc.st j = .done ∧ j < s'.sc.n) ∧
    (∀ q a y, s'.procs q = .sub a y → y.cancels.Nodup) ∧
    (∀ q a y, s'.procs q = .sub a y → ∀ j ∈ y.cancels, j ∈ y.newly ∨ j ∈ y.pass.map (·.job) ∨ j ∈ y.toCancel) := by
  have hsc := sc_step h
  have h1 := hr.holder
  obtain ⟨-, -, b3, b4, b5, b6, -, -, b9, -, -, -, b13, -, b15, b16⟩ := hb
  plain_cases op hop <;> step_cases h <;>
    (refine ⟨?_, ?_, ?_, ?_⟩ <;> frame_flow)
  all_goals first
    | assumption
    | grind [SubP.load, persistStatus, cancelSetOk_ns, List.nodup_append]

end Jade.Sys
