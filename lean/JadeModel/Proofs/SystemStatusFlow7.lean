import JadeModel.Proofs.SystemStatusFlow0

set_option linter.unusedSimpArgs false

namespace Jade.Sys

/-- a row waiting in a node file belongs to a job the collecting holder sees as submitted (or canceled itself) -/
theorem file_row_sub {s : Sys} (hr : RoleInv s) (ha : FlowA s) (hb : FlowB s) {p : Pid} {a : Bool} {x : SubP}
    (hp : s.procs p = .sub a x) (hh : holds x.pc = true) (hpc : x.pc ≠ .marked) {B : Bid} {r : Row}
    (hrB : r ∈ s.nodeFile B) : x.loc.st r.job = .sub ∨ r.job ∈ x.cancels := by
  have hsub := hr.holder p a x hp hh
  have hhs : holderSub s = some x := by simp [holderSub, hsub, hp]
  have hrow : HasRow s r.job := Or.inr ⟨B, r, hrB, rfl⟩
  rcases hb.rowSt _ hrow with h | h | h
  · rcases hb.locEq p a x hp hh r.job with e | e
    · cases hst : s.disk.st r.job with
      | ns => exact absurd hst h
      | sub => left; rw [e, hst]
      | done =>
        obtain ⟨r', hr', hj⟩ := ha.doneProc _ hst
        exact absurd hj.symm (ha.fileProc B r hrB r' hr')
    · exact Or.inr e
  · simp only [holderPend, hhs] at h
    exact absurd (hb.pcPend p a x hp _ h) hpc
  · simp only [holderCancels, hhs] at h
    exact Or.inr h

macro "flow_clause" : tactic => `(tactic|
  (intro q a y hq
   first
   | (split at hq
      · first
        | (cases hq; grind [SubP.load, persistStatus, cancelSetOk_ns])
        | grind [SubP.load, persistStatus, cancelSetOk_ns]
      · grind [SubP.load, persistStatus, cancelSetOk_ns])
   | grind [SubP.load, persistStatus, cancelSetOk_ns]))

set_option maxHeartbeats 64000000 in
theorem flowB_loc_step {s s' : Sys} {op : Op} (hr : RoleInv s) (ha : FlowA s) (hb : FlowB s)
    (hop : op.isFault = false) (h : step s op = some s') :
    (∀ q a y, s'.procs q = .sub a y → ∀ r ∈ y.pass, y.loc.st r.job = .sub ∨ r.job ∈ y.cancels) ∧
    (∀ q a y, s'.procs q = .sub a y → ∀ j ∈ y.newly, y.loc.st j = .sub ∨ j ∈ y.cancels) ∧
    (∀ q a y, s'.procs q = .sub a y → holds y.pc = true → ∀ j, y.loc.st j = s'.disk.st j ∨ j ∈ y.cancels) := by
  have hfile : ∀ p a x, s.procs p = .sub a x → (x.pc = .collecting ∨ x.pc = .loaded) → ∀ B, ∀ r ∈ s.nodeFile B,
      x.loc.st r.job = .sub ∨ r.job ∈ x.cancels := fun p a x hp hpc B r hrB =>
    file_row_sub hr ha hb hp (by rcases hpc with e | e <;> rw [e] <;> rfl) (by rcases hpc with e | e <;> rw [e] <;> simp) hrB
  have h1 := hr.holder
  obtain ⟨-, -, b3, b4, -, -, b7, b8, b9, -, -, b12, b13, b14, b15, b16⟩ := hb
  plain_cases op hop <;> step_cases h <;>
    (refine ⟨?_, ?_, ?_⟩ <;> frame_flow)
  all_goals first
    | assumption
    | flow_clause
    | grind [SubP.load, persistStatus, cancelSetOk_ns]

end Jade.Sys
