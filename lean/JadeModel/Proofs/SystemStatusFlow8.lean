import JadeModel.Proofs.SystemStatusFlow8a
import JadeModel.Proofs.SystemStatusFlow8b
import JadeModel.Proofs.SystemStatusFlow8c

namespace Jade.Sys

theorem flowB_pc_step {s s' : Sys} {op : Op} (hn : NodeInv s) (hl : LocInv s) (ha : FlowA s) (hb : FlowB s)
    (hop : op.isFault = false) (h : step s op = some s') :
    (∀ q a y, s'.procs q = .sub a y → y.pend.Nodup) ∧
    (∀ q a y, s'.procs q = .sub a y → ∀ j ∈ y.pend, j < s'.sc.n) ∧
    (∀ q a y, s'.procs q = .sub a y → ∀ j ∈ y.pend, y.pc = .marked) ∧
    (∀ q a y, s'.procs q = .sub a y → ∀ j ∈ y.cancels, y.pc = .collecting ∨ y.pc = .ready ∨ y.pc = .marked) ∧
    (∀ q a y, s'.procs q = .sub a y → ∀ j ∈ y.newly, y.pc = .collecting ∨ y.pc = .ready ∨ y.pc = .marked) ∧
    (∀ q a y, s'.procs q = .sub a y → ∀ r ∈ y.pass, y.pc = .collecting) ∧
    (∀ q a y, s'.procs q = .sub a y → ∀ j ∈ y.toCancel, y.pc = .collecting) := by
  obtain ⟨c1, c2, c3⟩ := flowB_pc_step_a hn hl ha hb hop h
  obtain ⟨c4, c5⟩ := flowB_pc_step_b hn hl ha hb hop h
  obtain ⟨c6, c7⟩ := flowB_pc_step_c hn hl ha hb hop h
  exact ⟨c1, c2, c3, c4, c5, c6, c7⟩

end Jade.Sys
