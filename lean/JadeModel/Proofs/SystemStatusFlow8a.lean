import JadeModel.Proofs.SystemStatusFlow8a1
import JadeModel.Proofs.SystemStatusFlow8a2
import JadeModel.Proofs.SystemStatusFlow8a3

set_option linter.unusedSimpArgs false

namespace Jade.Sys

theorem flowB_pc_step_a {s s' : Sys} {op : Op} (hn : NodeInv s) (hl : LocInv s) (ha : FlowA s) (hb : FlowB s)
    (hop : op.isFault = false) (h : step s op = some s') :
    (∀ q a y, s'.procs q = .sub a y → y.pend.Nodup) ∧
    (∀ q a y, s'.procs q = .sub a y → ∀ j ∈ y.pend, j < s'.sc.n) ∧
    (∀ q a y, s'.procs q = .sub a y → ∀ j ∈ y.pend, y.pc = .marked) := by
  have c0 := flowB_pc_step_a_1 hn hl ha hb hop h
  have c1 := flowB_pc_step_a_2 hn hl ha hb hop h
  have c2 := flowB_pc_step_a_3 hn hl ha hb hop h
  exact ⟨c0, c1, c2⟩

end Jade.Sys
