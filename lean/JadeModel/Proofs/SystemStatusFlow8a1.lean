import JadeModel.Proofs.SystemStatusFlow0

set_option linter.unusedSimpArgs false

namespace Jade.Sys

set_option maxHeartbeats 64000000 in
theorem flowB_pc_step_a_1 {s s' : Sys} {op : Op} (hn : NodeInv s) (hl : LocInv s) (ha : FlowA s) (hb : FlowB s)
    (hop : op.isFault = false) (h : step s op = some s') :
    (∀ q a y, s'.procs q = .sub a y → y.pend.Nodup) := by
  have hinv := hasRow_inv h
  have hmono := fun j => hasRow_step h j
  have hnew := newRow_step h
  have hno := fun j => (noRow_iff s j).1
  have hsc := sc_step h
  obtain ⟨f1, f2, f3, f4, f5, f6, f7, f8, f9, f10⟩ := nodeFacts hn ha hb
  obtain ⟨h1, h2, h3, h4, h5⟩ := hn.batch.role
  obtain ⟨l1, l2, l3, l4, l5, l6, l7⟩ := hl
  obtain ⟨a1, a2, a3, a4, a5, a6, a7, a8, a9, a10, a11, a12, a13, a14, a15⟩ := ha
  obtain ⟨b1, b2, b3, b4, b5, b6, b7, b8, b9, b10, b11, b12, b13, b14, b15, b16⟩ := hb
  plain_cases op hop <;> simp only [rowOf] at hinv <;> simp only [newRowFact] at hnew <;> step_cases h <;>
    (skip <;> frame_flow)
  all_goals first
    | assumption
    | grind [SubP.load, persistStatus, cancelSetOk_ns, List.nodup_append]

end Jade.Sys
