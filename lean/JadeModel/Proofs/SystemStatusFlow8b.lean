import JadeModel.Proofs.SystemStatusFlow8b1
import JadeModel.Proofs.SystemStatusFlow8b2

set_option linter.unusedSimpArgs false

namespace Jade.Sys

theorem flowB_pc_step_b {s s' : Sys} {op : Op} (hn : NodeInv s) (hl : LocInv s) (ha : FlowA s) (hb : FlowB s)
    (hop : op.isFault = false) (h : step s op = some s') :
    (∀ q a y, s'.procs q = .sub a y → ∀ j ∈ y.cancels, y.pc = .collecting ∨ y.pc = .ready ∨ y.pc = .marked) ∧
    (∀ q a y, s'.procs q = .sub a y → ∀ j ∈ y.newly, y.pc = .collecting ∨ y.pc = .ready ∨ y.pc = .marked) := by
  have c0 := flowB_pc_step_b_1 hn hl ha hb hop h
  have c1 := flowB_pc_step_b_2 hn hl ha hb hop h
  exact ⟨c0, c1⟩

end Jade.Sys
