import JadeModel.Proofs.SystemStatusFlow8c1
import JadeModel.Proofs.SystemStatusFlow8c2

set_option linter.unusedSimpArgs false

namespace Jade.Sys

theorem flowB_pc_step_c {s s' : Sys} {op : Op} (hn : NodeInv s) (hl : LocInv s) (ha : FlowA s) (hb : FlowB s)
    (hop : op.isFault = false) (h : step s op = some s') :
    (∀ q a y, s'.procs q = .sub a y → ∀ r ∈ y.pass, y.pc = .collecting) ∧
    (∀ q a y, s'.procs q = .sub a y → ∀ j ∈ y.toCancel, y.pc = .collecting) := by
  have c0 := flowB_pc_step_c_1 hn hl ha hb hop h
  have c1 := flowB_pc_step_c_2 hn hl ha hb hop h
  exact ⟨c0, c1⟩

end Jade.Sys
