import JadeModel.Proofs.SystemStatusDefs

set_option linter.unusedSimpArgs false

namespace Jade.Sys

set_option maxHeartbeats 32000000 in
/-- every accepted event — faults included — moves the persisted status only forward -/
theorem fwd_step {s s' : Sys} {op : Op} (hg : GateInv s) (hi : LocInv s) (h : step s op = some s') :
    Fwd s.disk s'.disk := by
  obtain ⟨⟨h1, h2, h3, h4, h5⟩, g1, -, -, -, -⟩ := hg
  obtain ⟨l1, l2, l3, l4, l5, l6, l7⟩ := hi
  cases op <;> step_cases h <;> frame_st <;>
    first
    | exact Fwd.refl _
    | (refine ⟨?_, ?_, ?_, ?_, ?_, ?_, ?_⟩ <;> grind [SubP.load, persistStatus])

end Jade.Sys
