import JadeModel.Proofs.SystemStatusDefs

set_option linter.unusedSimpArgs false

namespace Jade.Sys

set_option maxHeartbeats 32000000 in
theorem locInv_step_d {s s' : Sys} {op : Op} (hr : RoleInv s) (hi : LocInv s) (h : step s op = some s') :
    (∀ j, s'.disk.st j ≠ .ns → s'.disk.blk j = []) := by
  obtain ⟨h1, h2, h3, h4, h5⟩ := hr
  obtain ⟨l1, l2, l3, l4, l5, l6, l7⟩ := hi
  cases op <;> step_cases h <;>
    (skip <;> frame_st)
  all_goals first
    | proc_clause
    | grind [SubP.load, persistStatus]

end Jade.Sys
