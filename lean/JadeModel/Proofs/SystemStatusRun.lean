import JadeModel.Proofs.SystemStatusFlow

set_option linter.unusedSimpArgs false

/-! Fault-free histories (C09): the step lemmas assembled, the counters, lifting to runs. -/

namespace Jade.Sys

/-! ## assembling the steps; the counters -/

theorem flowA_step {s s' : Sys} {op : Op} (hn : NodeInv s) (hl : LocInv s) (ha : FlowA s) (hb : FlowB s)
    (hop : op.isFault = false) (h : step s op = some s') : FlowA s' := by
  obtain ⟨x1, x2, x3⟩ := flowA_files_step ha hop h
  obtain ⟨y1, y2, y3, y4, y5⟩ := flowA_fresh_step hn hl ha hb hop h
  obtain ⟨z1, z2, z3, z4, z5⟩ := flowA_pass_step hn ha hb hop h
  obtain ⟨w1, w2⟩ := flowA_lt_step hn ha hb hop h
  exact ⟨x1, x2, x3, y1, y2, y3, y4, y5, z1, z2, z3, z4, z5, w1, w2⟩

theorem flowB_step {s s' : Sys} {op : Op} (hn : NodeInv s) (hl : LocInv s) (ha : FlowA s) (hb : FlowB s)
    (hop : op.isFault = false) (h : step s op = some s') : FlowB s' := by
  obtain ⟨x1, x2⟩ := flowB_st_step hn hl ha hb hop h
  obtain ⟨y1, y2, y3, y4⟩ := flowB_cancels_step hn.batch.role hb hop h
  obtain ⟨z1, z2, z3⟩ := flowB_loc_step hn.batch.role ha hb hop h
  obtain ⟨w1, w2, w3, w4, w5, w6, w7⟩ := flowB_pc_step hn hl ha hb hop h
  exact ⟨x1, x2, y1, y2, y3, y4, z1, z2, z3, w1, w2, w3, w4, w5, w6, w7⟩

/-- the two counters of `cluster_config.json` are the numbers of done / submitted-or-done jobs of `job_status.json` -/
structure Counters (s : Sys) : Prop where
  done : s.disk.doneCnt = cntDone s.sc.n s.disk.st
  sub : s.disk.subCnt = cntSub s.sc.n s.disk.st

theorem counters_init (sc : Scn) : Counters (init sc) := by
  constructor
  · show 0 = (List.range sc.n).countP (fun _ => JSt.ns == JSt.done)
    rw [eq_comm, List.countP_eq_zero]; intro j _; decide
  · show 0 = (List.range sc.n).countP (fun _ => JSt.ns != JSt.ns)
    rw [eq_comm, List.countP_eq_zero]; intro j _; decide

/-- `update_job_status` at the end of a fault-free round keeps the counters exact -/
theorem counters_persist {s : Sys} (hl : LocInv s) (ha : FlowA s) (hb : FlowB s) (hc : Counters s)
    {p : Pid} {x : SubP} (hp : s.procs p = .sub true x) (hpc : x.pc = .marked) :
    (persistStatus x).doneCnt = cntDone s.sc.n (persistStatus x).st ∧
    (persistStatus x).subCnt = cntSub s.sc.n (persistStatus x).st := by
  have hh : holds x.pc = true := by rw [hpc]; rfl
  refine persist_counts s.sc.n s.disk x hc.done hc.sub (hl.cnt p true x hp hh) (hb.locEq p true x hp hh) ?_
    (hb.cancelsNd p true x hp) ?_ (ha.newlyNd p true x hp) ?_ (hb.pendNd p true x hp)
  · intro j hj
    obtain ⟨c1, c2, c3⟩ := hb.cancelsSt p true x hp j hj
    refine ⟨c1, c2, c3, ?_⟩
    rcases hb.cancelsWhere p true x hp j hj with w | w | w
    · exact w
    · obtain ⟨r, hr', -⟩ := List.mem_map.1 w
      have := hb.pcPass p true x hp r hr'
      rw [hpc] at this; cases this
    · have := hb.pcToCancel p true x hp j w
      rw [hpc] at this; cases this
  · intro j hj
    refine ⟨hb.newlySt p true x hp j hj, ?_⟩
    obtain ⟨r, hr', hjr⟩ := ha.newlyProc p true x hp j hj
    exact ha.rowLt j (Or.inl ⟨r, hr', hjr⟩)
  · intro j hj
    exact ⟨hl.pendNs p true x hp j hj, hb.pendLt p true x hp j hj⟩

theorem counters_step {s s' : Sys} {op : Op} (hl : LocInv s) (ha : FlowA s) (hb : FlowB s)
    (hc : Counters s) (hop : op.isFault = false) (h : step s op = some s') : Counters s' := by
  have hper := @counters_persist s hl ha hb hc
  plain_cases op hop <;> step_cases h <;>
    first
    | exact hc
    | exact ⟨hc.done, hc.sub⟩
    | (rename_i hpc hp
       exact ⟨(hper hp hpc).1, (hper hp hpc).2⟩)

/-- everything that holds in fault-free histories -/
structure Flow (s : Sys) : Prop where
  node : NodeInv s
  loc : LocInv s
  a : FlowA s
  b : FlowB s
  counters : Counters s

theorem flow_init (sc : Scn) : Flow (init sc) :=
  ⟨nodeInv_init sc, locInv_init sc, flowA_init sc, flowB_init sc, counters_init sc⟩

theorem flow_step {s s' : Sys} {op : Op} (hi : Flow s) (hop : op.isFault = false) (h : step s op = some s') :
    Flow s' :=
  ⟨nodeInv_step hi.node h, locInv_step hi.node.batch.role hi.loc h, flowA_step hi.node hi.loc hi.a hi.b hop h,
   flowB_step hi.node hi.loc hi.a hi.b hop h, counters_step hi.loc hi.a hi.b hi.counters hop h⟩

theorem flow_run {s s' : Sys} (ops : List Op) (hi : Flow s) (hp : plainOps ops) (h : run s ops = some s') :
    Flow s' := by
  induction ops generalizing s with
  | nil => simp [run] at h; subst h; exact hi
  | cons op ops ih =>
    simp only [run] at h
    split at h
    · next s1 hs =>
      exact ih (flow_step hi (hp op (List.mem_cons_self ..)) hs) (fun o ho => hp o (List.mem_cons_of_mem _ ho)) h
    · cases h

/-- every fault-free history of every scenario, under every schedule -/
theorem flow_reach (sc : Scn) (ops : List Op) (s : Sys) (hp : plainOps ops) (h : run (init sc) ops = some s) :
    Flow s :=
  flow_run ops (flow_init sc) hp h

/-- a crash between the two file writes of `update_job_status`, completed later by the second write,
    leaves exactly the status an uninterrupted `update_job_status` writes -/
theorem torn_pair_eq_persist {s s1 s2 : Sys} {p : Pid} (h1 : step s (.persistCfg p) = some s1)
    (h2 : step s1 (.persistJobs p) = some s2) : ∃ s3, step s (.persist p) = some s3 ∧ s2.disk = s3.disk := by
  step_cases h1
  rename_i x hpc hp
  have hs3 : step s (.persist p) = some (setSub { s with disk := persistStatus x } p
      { x with pc := .persisted, loc := persistStatus x, pend := [], newly := [], cancels := [] }) := by
    simp [step, (getSub_iff s p x).2 hp, hpc]
  refine ⟨_, hs3, ?_⟩
  simp only [step, getSub, procs_setSub, if_pos rfl, if_true] at h2
  cases h2
  simp [setSub, setProc, persistStatus]

end Jade.Sys
