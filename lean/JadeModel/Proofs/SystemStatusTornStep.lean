import JadeModel.Proofs.SystemStatusDefs

set_option linter.unusedSimpArgs false

namespace Jade.Sys

theorem tornCancel_step {s s' : Sys} {op : Op} (hd : ∀ q a y, s.procs q = .sub a y → y.toCancel ≠ [] → y.pc = .collecting ∨ y.pc = .failing ∨ y.pc = .gone)
    (h : step s op = some s') (j : JobId) (ht : TornCancel s j) :
    TornCancel s' j ∨ HasRow s' j := by
  have hnew := newRow_step h
  obtain ⟨q, a, y, hq, hj⟩ := ht
  unfold TornCancel
  cases op <;> simp only [newRowFact] at hnew <;> step_cases h <;> frame_st <;>
    grind [SubP.load]

end Jade.Sys
