import JadeModel.Proofs.SystemUniqueC

set_option linter.unusedSimpArgs false

/-! One row per job (C03): the invariants `PlainA/B/C` along executions without an exception inside a
    submitter round, and along fault-free executions (`runP`). -/

namespace Jade.Sys

/-- no event of the history is an exception inside a submitter round (`fail`, torn `persist`, torn
    `_move_results`); kills, lost batches, failed `sbatch`, cancel-jobs are allowed -/
def Calm (ops : List Op) : Prop := ∀ op ∈ ops, op.risky = false

theorem plain_run {s s' : Sys} (ops : List Op) (hn : NodeInv s) (ha : PlainA s) (hb : PlainB s) (hc : PlainC s)
    (h : run s ops = some s') (hf : Calm ops) : NodeInv s' ∧ PlainA s' ∧ PlainB s' ∧ PlainC s' := by
  induction ops generalizing s with
  | nil => simp [run] at h; subst h; exact ⟨hn, ha, hb, hc⟩
  | cons op ops ih =>
    simp only [run] at h
    split at h
    · next s1 hs =>
      have h1 : op.risky = false := hf op (by simp)
      exact ih (nodeInv_step hn hs) (plainA_step hn.batch ha hs h1) (plainB_step hn ha hb hs h1)
        (plainC_step hn ha hb hc hs h1) h (fun o ho => hf o (by simp [ho]))
    · cases h

theorem plain_reach (sc : Scn) (ops : List Op) (s : Sys) (h : run (init sc) ops = some s) (hf : Calm ops) :
    NodeInv s ∧ PlainA s ∧ PlainB s ∧ PlainC s :=
  plain_run ops (nodeInv_init sc) (plainA_init sc) (plainB_init sc) (plainC_init sc) h hf

/-- every event of a fault-free execution is fault-free -/
theorem runP_not_faulty {s s' : Sys} (ops : List Op) (h : runP s ops = some s') : ∀ op ∈ ops, op.faulty = false := by
  induction ops generalizing s with
  | nil => intro op hop; cases hop
  | cons o ops ih =>
    simp only [runP] at h
    split at h
    · next s1 hs =>
      intro op hop
      rcases List.mem_cons.1 hop with rfl | hop
      · have hg := stepP_guard hs
        simp only [extraGuard, Bool.and_eq_true, Bool.not_eq_true'] at hg
        exact hg.1
      · exact ih h op hop
    · cases h

theorem runP_calm {s s' : Sys} (ops : List Op) (h : runP s ops = some s') : Calm ops :=
  fun op hop => risky_of_faulty (runP_not_faulty ops h op hop)

/-- the rows on disk of state `s` are for pairwise distinct jobs -/
def RowsUnique (s : Sys) : Prop := UniqF s.processed s.nodeFile

/-- **no exception in a submitter round ⇒ one row per job** -/
theorem rowsUnique_calm (sc : Scn) (ops : List Op) (s : Sys) (h : run (init sc) ops = some s) (hf : Calm ops) :
    RowsUnique s :=
  (plain_reach sc ops s h hf).2.2.2.uniq

theorem rowsUnique_runP (sc : Scn) (ops : List Op) (s : Sys) (h : runP (init sc) ops = some s) : RowsUnique s :=
  rowsUnique_calm sc ops s (runP_run ops h) (runP_calm ops h)

/-- two rows on disk for the same job are the same row of the same file -/
theorem row_unique_calm (sc : Scn) (ops : List Op) (s : Sys) (h : run (init sc) ops = some s) (hf : Calm ops)
    (r r' : Row) (hr : OnDisk s r) (hr' : OnDisk s r') (hj : r.job = r'.job) : r = r' :=
  (rowsUnique_calm sc ops s h hf).row_unique hr hr' hj

end Jade.Sys

namespace Jade.Sys

theorem flatMap_files_nodup {nf : Bid → List Row} (hu : UniqN nf) (bs : List Batch)
    (hb : (bs.map (·.bid)).Nodup) : ((bs.flatMap fun b => nf b.bid).map (·.job)).Nodup := by
  induction bs with
  | nil => simp
  | cons B bs ih =>
    simp only [List.map_cons, List.nodup_cons, List.mem_map, not_exists, not_and] at hb
    simp only [List.flatMap_cons, List.map_append]
    rw [List.nodup_append]
    refine ⟨hu.node B.bid, ih hb.2, ?_⟩
    intro a ha c hc
    obtain ⟨r, hr, rfl⟩ := List.mem_map.1 ha
    obtain ⟨r', hr', rfl⟩ := List.mem_map.1 hc
    obtain ⟨B', hB', hr''⟩ := List.mem_flatMap.1 hr'
    exact hu.nodeNode B.bid B'.bid (fun e => hb.1 B' hB' e.symm) r hr r' hr''

/-- the counting form: the model's list of all rows (`allRows`: consolidated file, then the node file of
    every batch) names no job twice -/
theorem allRows_nodup {s : Sys} (hu : RowsUnique s) (hb : (s.batches.map (·.bid)).Nodup) :
    ((allRows s).map (·.job)).Nodup := by
  unfold allRows
  rw [List.map_append, List.nodup_append]
  refine ⟨hu.proc, flatMap_files_nodup hu.nodes s.batches hb, ?_⟩
  intro a ha c hc
  obtain ⟨r, hr, rfl⟩ := List.mem_map.1 ha
  obtain ⟨r', hr', rfl⟩ := List.mem_map.1 hc
  obtain ⟨B', -, hr''⟩ := List.mem_flatMap.1 hr'
  exact hu.procNode B'.bid r hr r' hr''

end Jade.Sys
