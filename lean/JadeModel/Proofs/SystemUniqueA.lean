import JadeModel.Proofs.SystemUniqueRows
import JadeModel.Proofs.SystemUniqueDefs
import JadeModel.Proofs.SystemUniqueAStepA
import JadeModel.Proofs.SystemUniqueAStepB
import JadeModel.Proofs.SystemUniqueAStepC

set_option linter.unusedSimpArgs false

/-! One row per job (C03): in executions without an exception inside a submitter round the rows on disk
    are for pairwise distinct jobs. -/

namespace Jade.Sys

theorem plainA_step {s s' : Sys} {op : Op} (hb : BatchInv s) (hi : PlainA s) (h : step s op = some s')
    (hf : op.risky = false) : PlainA s' := by
  obtain ⟨c_noFail, c_pendMarked⟩ := plainA_step_a hb hi h hf
  obtain ⟨c_quiet, c_quietNewly⟩ := plainA_step_b hb hi h hf
  have c_batchJobs := plainA_step_c hb hi h hf
  exact ⟨c_noFail, c_pendMarked, c_quiet, c_quietNewly, c_batchJobs⟩

end Jade.Sys
