import JadeModel.Proofs.SystemUniqueRowsDefs

set_option linter.unusedSimpArgs false

/-! One row per job (C03), part A: definitions (see `SystemUniqueA`). -/

namespace Jade.Sys

/-- the events after which a second row for a job becomes possible: an exception inside a submitter
    round (`fail`, the torn `persist`, the torn `_move_results`) -/
def Op.risky : Op → Bool
  | .collectCopy _ _ => true
  | .persistCfg _ => true
  | .persistJobs _ => true
  | .fail _ => true
  | _ => false

theorem risky_of_faulty {op : Op} (h : op.faulty = false) : op.risky = false := by
  cases op <;> first | rfl | cases h

macro "frame_uq" : tactic => `(tactic|
  try simp only [HasRow, hasRowF_move, hasRowF_snocProc, hasRowF_snocNode, mustCancel_iff, nodeCancel_guard_iff,
    freshHid_some_iff, holderPend, holderBidx, holderSub, Orphan, procs_setSub, procs_setNode, procs_setProc,
    setSub_fields, setNode_fields, setProc_fields, holds_iff] at *)

/-- program-counter discipline of rounds that never see an exception -/
structure PlainA (s : Sys) : Prop where
  noFail : ∀ q a y, s.procs q = .sub a y → y.pc ≠ .failing
  pendMarked : ∀ q a y, s.procs q = .sub a y → y.pend ≠ [] → y.pc = .marked
  /-- outside the collection loop nothing is waiting to be canceled or to be folded into `newly` -/
  quiet : ∀ q a y, s.procs q = .sub a y → y.pc ≠ .collecting → y.toCancel = [] ∧ y.pass = []
  /-- before the first pass and after `update_job_status` nothing is newly completed -/
  quietNewly : ∀ q a y, s.procs q = .sub a y →
    (y.pc = .fresh ∨ y.pc = .loaded ∨ y.pc = .persisted ∨ y.pc = .unmarked ∨ y.pc = .summarized ∨ y.pc = .flagged) →
    y.newly = []
  /-- every batch is on disk or pending in the role holder's memory (no orphaned round) -/
  batchJobs : ∀ b ∈ s.batches, ∀ j ∈ b.jobs, s.disk.st j ≠ .ns ∨ j ∈ holderPend s

theorem plainA_init (sc : Scn) : PlainA (init sc) := by
  refine ⟨?_, ?_, ?_, ?_, ?_⟩ <;> simp [init]

theorem mem_newly_passEnd (newly : List JobId) (pass : List Row) (j : JobId) :
    j ∈ newly ++ (pass.map (·.job)).filter (fun j => !newly.contains j) ↔ (j ∈ newly ∨ ∃ r ∈ pass, r.job = j) := by
  simp only [List.mem_append, List.mem_filter, List.mem_map, List.contains_eq_mem, Bool.not_eq_true',
    decide_eq_false_iff_not]
  constructor
  · rintro (h | ⟨⟨r, hr, hj⟩, -⟩)
    · exact Or.inl h
    · exact Or.inr ⟨r, hr, hj⟩
  · rintro (h | ⟨r, hr, hj⟩)
    · exact Or.inl h
    · by_cases hn : j ∈ newly
      · exact Or.inl hn
      · exact Or.inr ⟨⟨r, hr, hj⟩, hn⟩

#realize_aux Jade

end Jade.Sys
