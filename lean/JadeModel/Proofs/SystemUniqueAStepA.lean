import JadeModel.Proofs.SystemUniqueDefs

set_option linter.unusedSimpArgs false

namespace Jade.Sys

set_option maxHeartbeats 16000000 in
theorem plainA_step_a {s s' : Sys} {op : Op} (hb : BatchInv s) (hi : PlainA s) (h : step s op = some s')
    (hf : op.risky = false) :
    (∀ q a y, s'.procs q = .sub a y → y.pc ≠ .failing) ∧
    (∀ q a y, s'.procs q = .sub a y → y.pend ≠ [] → y.pc = .marked) := by
  obtain ⟨⟨r1, r2, r3, r4, r5⟩, l1, l2, l3, -, -, -, -⟩ := hb
  obtain ⟨a1, a2, a3, a4, a5⟩ := hi
  cases op <;> (first | (cases hf; done) | skip) <;> step_cases h <;>
    (refine ⟨?_, ?_⟩ <;> frame_uq)
  all_goals first
    | proc_clause
    | grind [SubP.load, persistStatus, find?_hid]

end Jade.Sys
