import JadeModel.Proofs.SystemUniqueA
import JadeModel.Proofs.SystemUniqueBStepA
import JadeModel.Proofs.SystemUniqueBStepB
import JadeModel.Proofs.SystemUniqueBStepC
import JadeModel.Proofs.SystemUniqueBStepD
import JadeModel.Proofs.SystemUniqueBStepE

set_option linter.unusedSimpArgs false

/-! One row per job (C03), part B: what the status file and the role holder know about a job with a row. -/

namespace Jade.Sys

theorem plainB_step {s s' : Sys} {op : Op} (hn : NodeInv s) (ha : PlainA s) (hi : PlainB s)
    (h : step s op = some s') (hf : op.risky = false) : PlainB s' := by
  have c_locAhead := plainB_step_a hn ha hi h hf
  have c_cancelDone := plainB_step_b hn ha hi h hf
  have c_cancelNoBatch := plainB_step_c hn ha hi h hf
  have c_cancelNodup := plainB_step_d hn ha hi h hf
  have c_rowKnown := plainB_step_e hn ha hi h hf
  exact ⟨c_locAhead, c_cancelDone, c_cancelNoBatch, c_cancelNodup, c_rowKnown⟩

end Jade.Sys
