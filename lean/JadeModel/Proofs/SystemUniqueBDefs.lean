import JadeModel.Proofs.SystemUniqueADefs

set_option linter.unusedSimpArgs false

/-! One row per job (C03), part B: definitions (see `SystemUniqueB`). -/

namespace Jade.Sys

/-- the role holder's copy no longer lists `j` as NOT_SUBMITTED, or `j` was handed out in this round -/
def holderKnows (s : Sys) (j : JobId) : Prop :=
  match holderSub s with
  | some y => y.loc.st j ≠ .ns ∨ j ∈ y.pend
  | none => False

macro "frame_uqb" : tactic => `(tactic|
  try simp only [HasRow, holderKnows, mem_newly_passEnd, hasRowF_move, hasRowF_snocProc, hasRowF_snocNode,
    mustCancel_iff, nodeCancel_guard_iff,
    freshHid_some_iff, holderPend, holderBidx, holderSub, Orphan, procs_setSub, procs_setNode, procs_setProc,
    setSub_fields, setNode_fields, setProc_fields, holds_iff] at *)

structure PlainB (s : Sys) : Prop where
  /-- where the holder's copy is ahead of the status file, the difference is a cancellation of this round -/
  locAhead : ∀ q a y, s.procs q = .sub a y → holds y.pc = true → ∀ j, y.loc.st j ≠ .ns →
    s.disk.st j ≠ .ns ∨ j ∈ y.newly ∨ j ∈ y.toCancel ∨ j ∈ y.pass.map (·.job)
  cancelDone : ∀ q a y, s.procs q = .sub a y → holds y.pc = true → ∀ j ∈ y.toCancel, y.loc.st j ≠ .ns
  cancelNoBatch : ∀ q a y, s.procs q = .sub a y → holds y.pc = true → ∀ j ∈ y.toCancel,
    ∀ B ∈ s.batches, j ∉ B.jobs
  cancelNodup : ∀ q a y, s.procs q = .sub a y → holds y.pc = true → y.toCancel.Nodup
  /-- a job with a row is no longer NOT_SUBMITTED on disk, or the role holder will write that -/
  rowKnown : ∀ j, HasRow s j → s.disk.st j ≠ .ns ∨ holderKnows s j

theorem plainB_init (sc : Scn) : PlainB (init sc) := by
  refine ⟨?_, ?_, ?_, ?_, ?_⟩ <;> simp [init, HasRow, HasRowF]

#realize_aux Jade

end Jade.Sys
