import JadeModel.Proofs.SystemUniqueDefs

set_option linter.unusedSimpArgs false

namespace Jade.Sys

set_option maxHeartbeats 32000000 in
theorem plainB_step_b {s s' : Sys} {op : Op} (hn : NodeInv s) (ha : PlainA s) (hi : PlainB s)
    (h : step s op = some s') (hf : op.risky = false) :
    (∀ q a y, s'.procs q = .sub a y → holds y.pc = true → ∀ j ∈ y.toCancel, y.loc.st j ≠ .ns) := by
  obtain ⟨⟨⟨r1, r2, r3, r4, r5⟩, l1, l2, l3, -, -, -, -⟩, n1, -, -, -, -, -, -, -⟩ := hn
  obtain ⟨a1, a2, a3, a4, a5⟩ := ha
  obtain ⟨b1, b2, b3, b4, b5⟩ := hi
  cases op <;> (first | (cases hf; done) | skip) <;> step_cases h <;>
    (skip <;> frame_uqb)
  all_goals first
    | proc_clause
    | grind [SubP.load, persistStatus, find?_hid, cancelSetOk_iff, mustCancel_iff, List.nodup_cons]

end Jade.Sys
