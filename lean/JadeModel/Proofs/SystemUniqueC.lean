import JadeModel.Proofs.SystemUniqueB
import JadeModel.Proofs.SystemUniqueCStepA
import JadeModel.Proofs.SystemUniqueCStepB
import JadeModel.Proofs.SystemUniqueCStepC
import JadeModel.Proofs.SystemUniqueCStepD

set_option linter.unusedSimpArgs false

/-! One row per job (C03), part C: whoever is about to write a row for a job finds no row for it. -/

namespace Jade.Sys

theorem plainC_step {s s' : Sys} {op : Op} (hn : NodeInv s) (ha : PlainA s) (hb : PlainB s) (hi : PlainC s)
    (h : step s op = some s') (hf : op.risky = false) : PlainC s' := by
  obtain ⟨c_queuedNoRow, c_uniq⟩ := plainC_step_a hn ha hb hi h hf
  obtain ⟨c_runningNoRow, c_pendingNoRow⟩ := plainC_step_b hn ha hb hi h hf
  have c_queuedRunning := plainC_step_c hn ha hb hi h hf
  have c_cancelNoRow := plainC_step_d hn ha hb hi h hf
  exact ⟨c_queuedNoRow, c_runningNoRow, c_queuedRunning, c_cancelNoRow, c_pendingNoRow, c_uniq⟩

end Jade.Sys
