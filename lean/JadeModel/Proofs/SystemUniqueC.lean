import JadeModel.Proofs.SystemUniqueB

set_option linter.unusedSimpArgs false

/-! One row per job (C03), part C: whoever is about to write a row for a job finds no row for it. -/

namespace Jade.Sys

/-- a job waiting or running on a node is on no other node -/
theorem node_job_unique {s : Sys} (hi : NodeInv s) {p p' : Pid} {a a' : Bool} {n n' : NodeP} {j : JobId}
    (hp : s.procs p = .node a n) (hp' : s.procs p' = .node a' n')
    (hj : j ∈ n.queued ∨ j ∈ n.running) (hj' : j ∈ n'.queued ∨ j ∈ n'.running) : p = p' := by
  obtain ⟨b, hb, hh, -, hq, hr⟩ := hi.ofBatch p a n hp
  obtain ⟨b', hb', hh', -, hq', hr'⟩ := hi.ofBatch p' a' n' hp'
  have h1 : j ∈ b.jobs := hj.elim (hq j) (hr j)
  have h2 : j ∈ b'.jobs := hj'.elim (hq' j) (hr' j)
  have hbb : b = b' := mem_unique_batch hi.batch.jobsNodup hb hb' h1 h2
  subst hbb
  have : n.hid = n'.hid := by rw [hh] at hh'; exact Option.some.inj hh'
  exact hi.oneRunner p p' a a' n n' hp hp' this

structure PlainC (s : Sys) : Prop where
  queuedNoRow : ∀ p a n, s.procs p = .node a n → ∀ j ∈ n.queued, ¬ HasRow s j
  runningNoRow : ∀ p a n, s.procs p = .node a n → ∀ j ∈ n.running, ¬ HasRow s j
  queuedRunning : ∀ p a n, s.procs p = .node a n → ∀ j ∈ n.queued, j ∉ n.running
  cancelNoRow : ∀ q a y, s.procs q = .sub a y → holds y.pc = true → ∀ j ∈ y.toCancel, ¬ HasRow s j
  /-- the jobs of a batch that has not started have no row -/
  pendingNoRow : ∀ B ∈ s.batches, ∀ h, B.hid = some h → s.slurm h = some .pending → ∀ j ∈ B.jobs, ¬ HasRow s j
  uniq : UniqF s.processed s.nodeFile

theorem plainC_init (sc : Scn) : PlainC (init sc) := by
  refine ⟨?_, ?_, ?_, ?_, ?_, ?_⟩ <;> simp [init]
  exact uniqF_nil

set_option maxHeartbeats 64000000 in
theorem plainC_step {s s' : Sys} {op : Op} (hn : NodeInv s) (ha : PlainA s) (hb : PlainB s) (hi : PlainC s)
    (h : step s op = some s') (hf : op.risky = false) : PlainC s' := by
  have hu := @node_job_unique s hn
  have hm := @mem_unique_batch s.batches hn.batch.jobsNodup
  obtain ⟨⟨⟨r1, r2, r3, r4, r5⟩, l1, l2, l3, -, -, -, -⟩, n1, n2, n3, n4, n5, n6, n7, n8⟩ := hn
  obtain ⟨a1, a2, a3, a4, a5⟩ := ha
  obtain ⟨b1, b2, b3, b4, b5⟩ := hb
  obtain ⟨c1, c2, c3, c4, c5, c6⟩ := hi
  cases op <;> (first | (cases hf; done) | skip) <;> step_cases h <;>
    (refine ⟨?_, ?_, ?_, ?_, ?_, ?_⟩ <;> frame_uqb)
  all_goals first
    | proc_clause
    | exact c6
    | exact uniqF_move c6 _
    | (refine uniqF_snocProc c6 _ ?_; grind)
    | (refine uniqF_snocNode c6 _ _ ?_; grind)
    | grind [SubP.load, persistStatus, find?_hid, cancelSetOk_iff, mustCancel_iff, List.nodup_cons]

end Jade.Sys
