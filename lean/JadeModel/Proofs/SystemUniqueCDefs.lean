import JadeModel.Proofs.SystemUniqueBDefs

set_option linter.unusedSimpArgs false

/-! One row per job (C03), part C: definitions (see `SystemUniqueC`). -/

namespace Jade.Sys

structure PlainC (s : Sys) : Prop where
  queuedNoRow : ∀ p a n, s.procs p = .node a n → ∀ j ∈ n.queued, ¬ HasRow s j
  runningNoRow : ∀ p a n, s.procs p = .node a n → ∀ j ∈ n.running, ¬ HasRow s j
  queuedRunning : ∀ p a n, s.procs p = .node a n → ∀ j ∈ n.queued, j ∉ n.running
  cancelNoRow : ∀ q a y, s.procs q = .sub a y → holds y.pc = true → ∀ j ∈ y.toCancel, ¬ HasRow s j
  /-- the jobs of a batch that has not started have no row -/
  pendingNoRow : ∀ B ∈ s.batches, ∀ h, B.hid = some h → s.slurm h = some .pending → ∀ j ∈ B.jobs, ¬ HasRow s j
  uniq : UniqF s.processed s.nodeFile

theorem plainC_init (sc : Scn) : PlainC (init sc) := by
  refine ⟨?_, ?_, ?_, ?_, ?_, ?_⟩ <;> simp [init]
  exact uniqF_nil

#realize_aux Jade

end Jade.Sys
