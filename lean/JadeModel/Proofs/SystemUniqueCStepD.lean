import JadeModel.Proofs.SystemUniqueDefs

set_option linter.unusedSimpArgs false

namespace Jade.Sys

set_option maxHeartbeats 64000000 in
theorem plainC_step_d {s s' : Sys} {op : Op} (hn : NodeInv s) (ha : PlainA s) (hb : PlainB s) (hi : PlainC s)
    (h : step s op = some s') (hf : op.risky = false) :
    (∀ q a y, s'.procs q = .sub a y → holds y.pc = true → ∀ j ∈ y.toCancel, ¬ HasRow s' j) := by
  have hu := @node_job_unique s hn
  have hm := @mem_unique_batch s.batches hn.batch.jobsNodup
  obtain ⟨⟨⟨r1, r2, r3, r4, r5⟩, l1, l2, l3, -, -, -, -⟩, n1, n2, n3, n4, n5, n6, n7, n8⟩ := hn
  obtain ⟨a1, a2, a3, a4, a5⟩ := ha
  obtain ⟨b1, b2, b3, b4, b5⟩ := hb
  obtain ⟨c1, c2, c3, c4, c5, c6⟩ := hi
  cases op <;> (first | (cases hf; done) | skip) <;> step_cases h <;>
    (skip <;> frame_uqb)
  all_goals first
    | proc_clause
    | exact c6
    | exact uniqF_move c6 _
    | (refine uniqF_snocProc c6 _ ?_; grind)
    | (refine uniqF_snocNode c6 _ _ ?_; grind)
    | grind [SubP.load, persistStatus, find?_hid, cancelSetOk_iff, mustCancel_iff, List.nodup_cons]

end Jade.Sys
