import JadeModel.Proofs.SystemUniqueRowsDefs

set_option linter.unusedSimpArgs false

/-! One row per job (C03): the definitions of `SystemUniqueA/B/C` (the step lemmas are in the `SystemUnique?Step*` modules
    and compile in parallel). -/

namespace Jade.Sys

/-- the events after which a second row for a job becomes possible: an exception inside a submitter
    round (`fail`, the torn `persist`, the torn `_move_results`) -/
def Op.risky : Op → Bool
  | .collectCopy _ _ => true
  | .persistCfg _ => true
  | .persistJobs _ => true
  | .fail _ => true
  | _ => false

theorem risky_of_faulty {op : Op} (h : op.faulty = false) : op.risky = false := by
  cases op <;> first | rfl | cases h

macro "frame_uq" : tactic => `(tactic|
  try simp only [HasRow, hasRowF_move, hasRowF_snocProc, hasRowF_snocNode, mustCancel_iff, nodeCancel_guard_iff,
    freshHid_some_iff, holderPend, holderBidx, holderSub, Orphan, procs_setSub, procs_setNode, procs_setProc,
    setSub_fields, setNode_fields, setProc_fields, holds_iff] at *)

/-- program-counter discipline of rounds that never see an exception -/
structure PlainA (s : Sys) : Prop where
  noFail : ∀ q a y, s.procs q = .sub a y → y.pc ≠ .failing
  pendMarked : ∀ q a y, s.procs q = .sub a y → y.pend ≠ [] → y.pc = .marked
  /-- outside the collection loop nothing is waiting to be canceled or to be folded into `newly` -/
  quiet : ∀ q a y, s.procs q = .sub a y → y.pc ≠ .collecting → y.toCancel = [] ∧ y.pass = []
  /-- before the first pass and after `update_job_status` nothing is newly completed -/
  quietNewly : ∀ q a y, s.procs q = .sub a y →
    (y.pc = .fresh ∨ y.pc = .loaded ∨ y.pc = .persisted ∨ y.pc = .unmarked ∨ y.pc = .summarized ∨ y.pc = .flagged) →
    y.newly = []
  /-- every batch is on disk or pending in the role holder's memory (no orphaned round) -/
  batchJobs : ∀ b ∈ s.batches, ∀ j ∈ b.jobs, s.disk.st j ≠ .ns ∨ j ∈ holderPend s

theorem plainA_init (sc : Scn) : PlainA (init sc) := by
  refine ⟨?_, ?_, ?_, ?_, ?_⟩ <;> simp [init]

theorem mem_newly_passEnd (newly : List JobId) (pass : List Row) (j : JobId) :
    j ∈ newly ++ (pass.map (·.job)).filter (fun j => !newly.contains j) ↔ (j ∈ newly ∨ ∃ r ∈ pass, r.job = j) := by
  simp only [List.mem_append, List.mem_filter, List.mem_map, List.contains_eq_mem, Bool.not_eq_true',
    decide_eq_false_iff_not]
  constructor
  · rintro (h | ⟨⟨r, hr, hj⟩, -⟩)
    · exact Or.inl h
    · exact Or.inr ⟨r, hr, hj⟩
  · rintro (h | ⟨r, hr, hj⟩)
    · exact Or.inl h
    · by_cases hn : j ∈ newly
      · exact Or.inl hn
      · exact Or.inr ⟨⟨r, hr, hj⟩, hn⟩

/-- the role holder's copy no longer lists `j` as NOT_SUBMITTED, or `j` was handed out in this round -/
def holderKnows (s : Sys) (j : JobId) : Prop :=
  match holderSub s with
  | some y => y.loc.st j ≠ .ns ∨ j ∈ y.pend
  | none => False

macro "frame_uqb" : tactic => `(tactic|
  try simp only [HasRow, holderKnows, mem_newly_passEnd, hasRowF_move, hasRowF_snocProc, hasRowF_snocNode,
    mustCancel_iff, nodeCancel_guard_iff,
    freshHid_some_iff, holderPend, holderBidx, holderSub, Orphan, procs_setSub, procs_setNode, procs_setProc,
    setSub_fields, setNode_fields, setProc_fields, holds_iff] at *)

structure PlainB (s : Sys) : Prop where
  /-- where the holder's copy is ahead of the status file, the difference is a cancellation of this round -/
  locAhead : ∀ q a y, s.procs q = .sub a y → holds y.pc = true → ∀ j, y.loc.st j ≠ .ns →
    s.disk.st j ≠ .ns ∨ j ∈ y.newly ∨ j ∈ y.toCancel ∨ j ∈ y.pass.map (·.job)
  cancelDone : ∀ q a y, s.procs q = .sub a y → holds y.pc = true → ∀ j ∈ y.toCancel, y.loc.st j ≠ .ns
  cancelNoBatch : ∀ q a y, s.procs q = .sub a y → holds y.pc = true → ∀ j ∈ y.toCancel,
    ∀ B ∈ s.batches, j ∉ B.jobs
  cancelNodup : ∀ q a y, s.procs q = .sub a y → holds y.pc = true → y.toCancel.Nodup
  /-- a job with a row is no longer NOT_SUBMITTED on disk, or the role holder will write that -/
  rowKnown : ∀ j, HasRow s j → s.disk.st j ≠ .ns ∨ holderKnows s j

theorem plainB_init (sc : Scn) : PlainB (init sc) := by
  refine ⟨?_, ?_, ?_, ?_, ?_⟩ <;> simp [init, HasRow, HasRowF]

structure PlainC (s : Sys) : Prop where
  queuedNoRow : ∀ p a n, s.procs p = .node a n → ∀ j ∈ n.queued, ¬ HasRow s j
  runningNoRow : ∀ p a n, s.procs p = .node a n → ∀ j ∈ n.running, ¬ HasRow s j
  queuedRunning : ∀ p a n, s.procs p = .node a n → ∀ j ∈ n.queued, j ∉ n.running
  cancelNoRow : ∀ q a y, s.procs q = .sub a y → holds y.pc = true → ∀ j ∈ y.toCancel, ¬ HasRow s j
  /-- the jobs of a batch that has not started have no row -/
  pendingNoRow : ∀ B ∈ s.batches, ∀ h, B.hid = some h → s.slurm h = some .pending → ∀ j ∈ B.jobs, ¬ HasRow s j
  uniq : UniqF s.processed s.nodeFile

theorem plainC_init (sc : Scn) : PlainC (init sc) := by
  refine ⟨?_, ?_, ?_, ?_, ?_, ?_⟩ <;> simp [init]
  exact uniqF_nil

#realize_aux Jade

end Jade.Sys
