import JadeModel.Proofs.SystemUniqueRows

set_option linter.unusedSimpArgs false

/-! Rows written by nodes, in EVERY execution (kills, failures, torn writes included): a node never writes
    a second row for a job, no other node writes one, and the node result files are for pairwise
    distinct jobs. -/

namespace Jade.Sys

/-- a job the role holder still lists as NOT_SUBMITTED and has not handed out is in no batch -/
theorem ns_not_batched {s : Sys} (hi : BatchInv s) {p : Pid} {x : SubP} {j : JobId}
    (hp : s.procs p = .sub true x) (hpc : x.pc = .marked) (h1 : x.loc.st j = .ns) (h2 : j ∉ x.pend) :
    ∀ B ∈ s.batches, j ∉ B.jobs := by
  have := (sbatch_fresh (jobs := [j]) hi hp hpc (by simpa using ⟨h1, h2⟩)).1 j (by simp)
  intro B hB hj
  exact this (List.mem_flatMap.2 ⟨B, hB, hj⟩)

macro "frame_nw" : tactic => `(tactic|
  try simp only [freshHid_some_iff, procs_setSub, procs_setNode, procs_setProc,
    setSub_fields, setNode_fields, setProc_fields] at *)

/-- node result files -/
structure NodeW (s : Sys) : Prop where
  queuedRunning : ∀ p a n, s.procs p = .node a n → ∀ j ∈ n.queued, j ∉ n.running
  /-- what waits or runs on a node has no row in any node file -/
  fileQueued : ∀ p a n, s.procs p = .node a n → ∀ j ∈ n.queued, ∀ c : Bid, ∀ r ∈ s.nodeFile c, r.job ≠ j
  fileRunning : ∀ p a n, s.procs p = .node a n → ∀ j ∈ n.running, ∀ c : Bid, ∀ r ∈ s.nodeFile c, r.job ≠ j
  filePending : ∀ B ∈ s.batches, ∀ h, B.hid = some h → s.slurm h = some .pending →
    ∀ j ∈ B.jobs, ∀ c : Bid, ∀ r ∈ s.nodeFile c, r.job ≠ j
  /-- a row in a node file is for a job of some batch -/
  fileBatch : ∀ c : Bid, ∀ r ∈ s.nodeFile c, ∃ B ∈ s.batches, r.job ∈ B.jobs
  uniqN : UniqN s.nodeFile

theorem nodeW_init (sc : Scn) : NodeW (init sc) := by
  refine ⟨?_, ?_, ?_, ?_, ?_, ⟨?_, ?_⟩⟩ <;> simp [init]

set_option maxHeartbeats 64000000 in
theorem nodeW_step {s s' : Sys} {op : Op} (hn : NodeInv s) (hi : NodeW s) (h : step s op = some s') :
    NodeW s' := by
  have hu := @node_job_unique s hn
  have hm := @mem_unique_batch s.batches hn.batch.jobsNodup
  have hfr := @ns_not_batched s hn.batch
  obtain ⟨-, n1, n2, n3, n4, n5, n6, n7, n8⟩ := hn
  obtain ⟨c1, c2, c3, c4, c5, c6⟩ := hi
  cases op <;> step_cases h <;> (refine ⟨?_, ?_, ?_, ?_, ?_, ?_⟩ <;> frame_nw)
  all_goals first
    | proc_clause
    | exact c6
    | exact uniqN_clear c6 _
    | (refine uniqN_snocNode c6 _ _ ?_; grind)
    | grind [find?_hid]

end Jade.Sys
