import JadeModel.Proofs.SystemUniqueRows
import JadeModel.Proofs.SystemUniqueNodeDefs
import JadeModel.Proofs.SystemUniqueNodeStepA
import JadeModel.Proofs.SystemUniqueNodeStepB
import JadeModel.Proofs.SystemUniqueNodeStepC

set_option linter.unusedSimpArgs false

/-! Rows written by nodes, in EVERY execution (kills, failures, torn writes included): a node never writes
    a second row for a job, no other node writes one, and the node result files are for pairwise
    distinct jobs. -/

namespace Jade.Sys

theorem nodeW_step {s s' : Sys} {op : Op} (hn : NodeInv s) (hi : NodeW s) (h : step s op = some s') :
    NodeW s' := by
  obtain ⟨c_queuedRunning, c_filePending⟩ := nodeW_step_a hn hi h
  obtain ⟨c_fileQueued, c_fileBatch⟩ := nodeW_step_b hn hi h
  obtain ⟨c_fileRunning, c_uniqN⟩ := nodeW_step_c hn hi h
  exact ⟨c_queuedRunning, c_fileQueued, c_fileRunning, c_filePending, c_fileBatch, c_uniqN⟩

end Jade.Sys
