import JadeModel.Proofs.SystemUniqueRowsDefs

set_option linter.unusedSimpArgs false

/-! Rows written by nodes, in EVERY execution: the definitions of `SystemUniqueNode` and `SystemUniqueTrace`. -/

namespace Jade.Sys

/-- a job the role holder still lists as NOT_SUBMITTED and has not handed out is in no batch -/
theorem ns_not_batched {s : Sys} (hi : BatchInv s) {p : Pid} {x : SubP} {j : JobId}
    (hp : s.procs p = .sub true x) (hpc : x.pc = .marked) (h1 : x.loc.st j = .ns) (h2 : j ∉ x.pend) :
    ∀ B ∈ s.batches, j ∉ B.jobs := by
  have := (sbatch_fresh (jobs := [j]) hi hp hpc (by simpa using ⟨h1, h2⟩)).1 j (by simp)
  intro B hB hj
  exact this (List.mem_flatMap.2 ⟨B, hB, hj⟩)

macro "frame_nw" : tactic => `(tactic|
  try simp only [freshHid_some_iff, procs_setSub, procs_setNode, procs_setProc,
    setSub_fields, setNode_fields, setProc_fields] at *)

/-- node result files -/
structure NodeW (s : Sys) : Prop where
  queuedRunning : ∀ p a n, s.procs p = .node a n → ∀ j ∈ n.queued, j ∉ n.running
  /-- what waits or runs on a node has no row in any node file -/
  fileQueued : ∀ p a n, s.procs p = .node a n → ∀ j ∈ n.queued, ∀ c : Bid, ∀ r ∈ s.nodeFile c, r.job ≠ j
  fileRunning : ∀ p a n, s.procs p = .node a n → ∀ j ∈ n.running, ∀ c : Bid, ∀ r ∈ s.nodeFile c, r.job ≠ j
  filePending : ∀ B ∈ s.batches, ∀ h, B.hid = some h → s.slurm h = some .pending →
    ∀ j ∈ B.jobs, ∀ c : Bid, ∀ r ∈ s.nodeFile c, r.job ≠ j
  /-- a row in a node file is for a job of some batch -/
  fileBatch : ∀ c : Bid, ∀ r ∈ s.nodeFile c, ∃ B ∈ s.batches, r.job ∈ B.jobs
  uniqN : UniqN s.nodeFile

theorem nodeW_init (sc : Scn) : NodeW (init sc) := by
  refine ⟨?_, ?_, ?_, ?_, ?_, ⟨?_, ?_⟩⟩ <;> simp [init]

/-- the node runners' own records (`seen` = the rows a runner wrote) -/
structure NodeS (s : Sys) : Prop where
  queuedSeen : ∀ p a n, s.procs p = .node a n → ∀ j ∈ n.queued, ∀ r ∈ n.seen, r.job ≠ j
  runningSeen : ∀ p a n, s.procs p = .node a n → ∀ j ∈ n.running, ∀ r ∈ n.seen, r.job ≠ j
  /-- a runner writes rows for jobs of its own batch only -/
  seenBatch : ∀ p a n, s.procs p = .node a n → ∃ B ∈ s.batches, B.hid = some n.hid ∧ ∀ r ∈ n.seen, r.job ∈ B.jobs
  seenNodup : ∀ p a n, s.procs p = .node a n → (n.seen.map (·.job)).Nodup

theorem nodeS_init (sc : Scn) : NodeS (init sc) := by
  refine ⟨?_, ?_, ?_, ?_⟩ <;> simp [init]

/-- some node runner has written a row for `j` -/
def NodeWrote (s : Sys) (j : JobId) : Prop := ∃ p a n, s.procs p = .node a n ∧ ∃ r ∈ n.seen, r.job = j

/-- the event is a node writing a row for job `j` (`_complete` or the node-level `cancel()`) -/
def Op.nodeWrites (j : JobId) : Op → Bool
  | .nodeRow _ k => k == j
  | .nodeCancel _ k => k == j
  | _ => false

#realize_aux Jade

end Jade.Sys
