import JadeModel.Proofs.SystemUniqueNodeDefs

set_option linter.unusedSimpArgs false

namespace Jade.Sys

set_option maxHeartbeats 64000000 in
theorem nodeW_step_a {s s' : Sys} {op : Op} (hn : NodeInv s) (hi : NodeW s) (h : step s op = some s') :
    (∀ p a n, s'.procs p = .node a n → ∀ j ∈ n.queued, j ∉ n.running) ∧
    (∀ B ∈ s'.batches, ∀ h, B.hid = some h → s'.slurm h = some .pending →
    ∀ j ∈ B.jobs, ∀ c : Bid, ∀ r ∈ s'.nodeFile c, r.job ≠ j) := by
  have hu := @node_job_unique s hn
  have hm := @mem_unique_batch s.batches hn.batch.jobsNodup
  have hfr := @ns_not_batched s hn.batch
  obtain ⟨-, n1, n2, n3, n4, n5, n6, n7, n8⟩ := hn
  obtain ⟨c1, c2, c3, c4, c5, c6⟩ := hi
  cases op <;> step_cases h <;> (refine ⟨?_, ?_⟩ <;> frame_nw)
  all_goals first
    | proc_clause
    | exact c6
    | exact uniqN_clear c6 _
    | (refine uniqN_snocNode c6 _ _ ?_; grind)
    | grind [find?_hid]

end Jade.Sys
