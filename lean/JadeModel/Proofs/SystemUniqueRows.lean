import JadeModel.Proofs.SystemOutcome
import JadeModel.Model.SystemPlain
import JadeModel.Proofs.SystemUniqueRowsDefs

/-! The list lemmas about row files are in `SystemUniqueRowsDefs` (which does not depend on the step proofs). -/
