import JadeModel.Proofs.SystemOutcomeDefs
import JadeModel.Proofs.SystemPlainBase

set_option linter.unusedSimpArgs false

/-! Row files with pairwise distinct jobs: list lemmas for the three ways the files change
    (a node appends a row, a submitter appends a cancel row, `_move_results` moves a node file). -/

namespace Jade.Sys

/-- the rows on disk (consolidated file `pr`, node files `nf`) are for pairwise distinct jobs -/
structure UniqF (pr : List Row) (nf : Bid → List Row) : Prop where
  proc : (pr.map (·.job)).Nodup
  node : ∀ b : Bid, ((nf b).map (·.job)).Nodup
  procNode : ∀ b : Bid, ∀ r ∈ pr, ∀ r' ∈ nf b, r.job ≠ r'.job
  nodeNode : ∀ b c : Bid, b ≠ c → ∀ r ∈ nf b, ∀ r' ∈ nf c, r.job ≠ r'.job

/-- the node files alone -/
structure UniqN (nf : Bid → List Row) : Prop where
  node : ∀ b : Bid, ((nf b).map (·.job)).Nodup
  nodeNode : ∀ b c : Bid, b ≠ c → ∀ r ∈ nf b, ∀ r' ∈ nf c, r.job ≠ r'.job

theorem UniqF.nodes {pr : List Row} {nf : Bid → List Row} (h : UniqF pr nf) : UniqN nf := ⟨h.node, h.nodeNode⟩

theorem hasRowF_move (pr : List Row) (nf : Bid → List Row) (b : Bid) (j : JobId) :
    HasRowF (pr ++ nf b) (fun c => if c = b then [] else nf c) j ↔ HasRowF pr nf j := by
  unfold HasRowF
  constructor
  · rintro (⟨r, hr, hj⟩ | ⟨c, r, hr, hj⟩)
    · rcases List.mem_append.1 hr with h | h
      · exact Or.inl ⟨r, h, hj⟩
      · exact Or.inr ⟨b, r, h, hj⟩
    · by_cases hc : c = b
      · simp [hc] at hr
      · simp only [hc, if_false] at hr
        exact Or.inr ⟨c, r, hr, hj⟩
  · rintro (⟨r, hr, hj⟩ | ⟨c, r, hr, hj⟩)
    · exact Or.inl ⟨r, List.mem_append.2 (Or.inl hr), hj⟩
    · by_cases hc : c = b
      · subst hc
        exact Or.inl ⟨r, List.mem_append.2 (Or.inr hr), hj⟩
      · refine Or.inr ⟨c, r, ?_, hj⟩
        simp only [hc, if_false]; exact hr

theorem hasRowF_copy (pr : List Row) (nf : Bid → List Row) (b : Bid) (j : JobId) :
    HasRowF (pr ++ nf b) nf j ↔ HasRowF pr nf j := by
  unfold HasRowF
  constructor
  · rintro (⟨r, hr, hj⟩ | h)
    · rcases List.mem_append.1 hr with h | h
      · exact Or.inl ⟨r, h, hj⟩
      · exact Or.inr ⟨b, r, h, hj⟩
    · exact Or.inr h
  · rintro (⟨r, hr, hj⟩ | h)
    · exact Or.inl ⟨r, List.mem_append.2 (Or.inl hr), hj⟩
    · exact Or.inr h

theorem hasRowF_snocProc (pr : List Row) (nf : Bid → List Row) (r0 : Row) (j : JobId) :
    HasRowF (pr ++ [r0]) nf j ↔ (HasRowF pr nf j ∨ r0.job = j) := by
  unfold HasRowF
  constructor
  · rintro (⟨r, hr, hj⟩ | h)
    · rcases List.mem_append.1 hr with h | h
      · exact Or.inl (Or.inl ⟨r, h, hj⟩)
      · simp only [List.mem_singleton] at h; subst h; exact Or.inr hj
    · exact Or.inl (Or.inr h)
  · rintro ((⟨r, hr, hj⟩ | h) | h)
    · exact Or.inl ⟨r, List.mem_append.2 (Or.inl hr), hj⟩
    · exact Or.inr h
    · exact Or.inl ⟨r0, by simp, h⟩

theorem hasRowF_snocNode (pr : List Row) (nf : Bid → List Row) (b : Bid) (r0 : Row) (j : JobId) :
    HasRowF pr (fun c => if c = b then nf c ++ [r0] else nf c) j ↔ (HasRowF pr nf j ∨ r0.job = j) := by
  unfold HasRowF
  constructor
  · rintro (h | ⟨c, r, hr, hj⟩)
    · exact Or.inl (Or.inl h)
    · by_cases hc : c = b
      · simp only [hc, if_true] at hr
        rcases List.mem_append.1 hr with h | h
        · exact Or.inl (Or.inr ⟨b, r, h, hj⟩)
        · simp only [List.mem_singleton] at h; subst h; exact Or.inr hj
      · simp only [hc, if_false] at hr
        exact Or.inl (Or.inr ⟨c, r, hr, hj⟩)
  · rintro ((h | ⟨c, r, hr, hj⟩) | h)
    · exact Or.inl h
    · refine Or.inr ⟨c, r, ?_, hj⟩
      by_cases hc : c = b
      · simp only [hc, if_true]; subst hc; exact List.mem_append.2 (Or.inl hr)
      · simp only [hc, if_false]; exact hr
    · exact Or.inr ⟨b, r0, by simp, h⟩

theorem not_hasRowF {pr : List Row} {nf : Bid → List Row} {j : JobId} (h : ¬ HasRowF pr nf j) :
    (∀ r ∈ pr, r.job ≠ j) ∧ (∀ b : Bid, ∀ r ∈ nf b, r.job ≠ j) :=
  ⟨fun r hr hj => h (Or.inl ⟨r, hr, hj⟩), fun b r hr hj => h (Or.inr ⟨b, r, hr, hj⟩)⟩

theorem uniqF_move {pr : List Row} {nf : Bid → List Row} (h : UniqF pr nf) (b : Bid) :
    UniqF (pr ++ nf b) (fun c => if c = b then [] else nf c) := by
  obtain ⟨h1, h2, h3, h4⟩ := h
  refine ⟨?_, ?_, ?_, ?_⟩
  · rw [List.map_append, List.nodup_append]
    refine ⟨h1, h2 b, ?_⟩
    intro a ha c hc
    obtain ⟨r, hr, rfl⟩ := List.mem_map.1 ha
    obtain ⟨r', hr', rfl⟩ := List.mem_map.1 hc
    exact h3 b r hr r' hr'
  · intro c
    by_cases hc : c = b
    · simp [hc]
    · simp only [hc, if_false]; exact h2 c
  · intro c r hr r' hr'
    by_cases hc : c = b
    · simp [hc] at hr'
    · simp only [hc, if_false] at hr'
      rcases List.mem_append.1 hr with h | h
      · exact h3 c r h r' hr'
      · exact h4 b c (fun e => hc e.symm) r h r' hr'
  · intro c d hcd r hr r' hr'
    by_cases hc : c = b
    · simp [hc] at hr
    · by_cases hd : d = b
      · simp [hd] at hr'
      · simp only [hc, hd, if_false] at hr hr'
        exact h4 c d hcd r hr r' hr'

theorem uniqF_snocProc {pr : List Row} {nf : Bid → List Row} (h : UniqF pr nf) (r0 : Row)
    (hn : ¬ HasRowF pr nf r0.job) : UniqF (pr ++ [r0]) nf := by
  obtain ⟨h1, h2, h3, h4⟩ := h
  obtain ⟨n1, n2⟩ := not_hasRowF hn
  refine ⟨?_, h2, ?_, h4⟩
  · rw [List.map_append, List.nodup_append]
    refine ⟨h1, by simp, ?_⟩
    intro a ha c hc
    obtain ⟨r, hr, rfl⟩ := List.mem_map.1 ha
    simp only [List.map_cons, List.map_nil, List.mem_singleton] at hc
    subst hc
    exact n1 r hr
  · intro c r hr r' hr'
    rcases List.mem_append.1 hr with h | h
    · exact h3 c r h r' hr'
    · simp only [List.mem_singleton] at h; subst h
      exact fun e => n2 c r' hr' e.symm

theorem uniqN_snocNode {nf : Bid → List Row} (h : UniqN nf) (b : Bid) (r0 : Row)
    (hn : ∀ c : Bid, ∀ r ∈ nf c, r.job ≠ r0.job) : UniqN (fun c => if c = b then nf c ++ [r0] else nf c) := by
  obtain ⟨h2, h4⟩ := h
  refine ⟨?_, ?_⟩
  · intro c
    by_cases hc : c = b
    · simp only [hc, if_true]
      rw [List.map_append, List.nodup_append]
      refine ⟨h2 b, by simp, ?_⟩
      intro a ha d hd
      obtain ⟨r, hr, rfl⟩ := List.mem_map.1 ha
      simp only [List.map_cons, List.map_nil, List.mem_singleton] at hd
      subst hd
      exact hn b r hr
    · simp only [hc, if_false]; exact h2 c
  · intro c d hcd r hr r' hr'
    by_cases hc : c = b
    · by_cases hd : d = b
      · exact absurd (hc.trans hd.symm) hcd
      · simp only [hc, hd, if_true, if_false] at hr hr'
        rcases List.mem_append.1 hr with h | h
        · exact h4 b d (fun e => hd e.symm) r h r' hr'
        · simp only [List.mem_singleton] at h; subst h
          exact fun e => hn d r' hr' e.symm
    · by_cases hd : d = b
      · simp only [hc, hd, if_true, if_false] at hr hr'
        rcases List.mem_append.1 hr' with h | h
        · exact h4 c b hc r hr r' h
        · simp only [List.mem_singleton] at h; subst h
          exact hn c r hr
      · simp only [hc, hd, if_false] at hr hr'
        exact h4 c d hcd r hr r' hr'

theorem uniqF_snocNode {pr : List Row} {nf : Bid → List Row} (h : UniqF pr nf) (b : Bid) (r0 : Row)
    (hn : ¬ HasRowF pr nf r0.job) : UniqF pr (fun c => if c = b then nf c ++ [r0] else nf c) := by
  obtain ⟨n1, n2⟩ := not_hasRowF hn
  obtain ⟨k2, k4⟩ := uniqN_snocNode h.nodes b r0 n2
  refine ⟨h.proc, k2, ?_, k4⟩
  intro c r hr r' hr'
  by_cases hc : c = b
  · simp only [hc, if_true] at hr'
    rcases List.mem_append.1 hr' with h' | h'
    · exact h.procNode b r hr r' h'
    · simp only [List.mem_singleton] at h'; subst h'
      exact n1 r hr
  · simp only [hc, if_false] at hr'
    exact h.procNode c r hr r' hr'

/-- a job waiting or running on a node is on no other node -/
theorem node_job_unique {s : Sys} (hi : NodeInv s) {p p' : Pid} {a a' : Bool} {n n' : NodeP} {j : JobId}
    (hp : s.procs p = .node a n) (hp' : s.procs p' = .node a' n')
    (hj : j ∈ n.queued ∨ j ∈ n.running) (hj' : j ∈ n'.queued ∨ j ∈ n'.running) : p = p' := by
  obtain ⟨b, hb, hh, -, hq, hr⟩ := hi.ofBatch p a n hp
  obtain ⟨b', hb', hh', -, hq', hr'⟩ := hi.ofBatch p' a' n' hp'
  have h1 : j ∈ b.jobs := hj.elim (hq j) (hr j)
  have h2 : j ∈ b'.jobs := hj'.elim (hq' j) (hr' j)
  have hbb : b = b' := mem_unique_batch hi.batch.jobsNodup hb hb' h1 h2
  subst hbb
  have : n.hid = n'.hid := by rw [hh] at hh'; exact Option.some.inj hh'
  exact hi.oneRunner p p' a a' n n' hp hp' this

theorem uniqN_clear {nf : Bid → List Row} (h : UniqN nf) (b : Bid) :
    UniqN (fun c => if c = b then [] else nf c) := by
  obtain ⟨h2, h4⟩ := h
  refine ⟨?_, ?_⟩
  · intro c
    by_cases hc : c = b
    · simp [hc]
    · simp only [hc, if_false]; exact h2 c
  · intro c d hcd r hr r' hr'
    by_cases hc : c = b
    · simp [hc] at hr
    · by_cases hd : d = b
      · simp [hd] at hr'
      · simp only [hc, hd, if_false] at hr hr'
        exact h4 c d hcd r hr r' hr'

/-- the files of the initial state -/
theorem uniqF_nil : UniqF [] (fun _ => []) := by
  refine ⟨by simp, by simp, ?_, ?_⟩ <;> simp

/-- at most one row of job `j` anywhere on disk: equal jobs means the same position in the same file -/
theorem UniqF.row_unique {pr : List Row} {nf : Bid → List Row} (h : UniqF pr nf) {r r' : Row}
    (hr : OnDiskF pr nf r) (hr' : OnDiskF pr nf r') (hj : r.job = r'.job) : r = r' := by
  have inj : ∀ (l : List Row), (l.map (·.job)).Nodup → ∀ a ∈ l, ∀ c ∈ l, a.job = c.job → a = c := by
    intro l
    induction l with
    | nil => intro _ a ha; cases ha
    | cons x l ih =>
      intro hn a ha c hc hac
      simp only [List.map_cons, List.nodup_cons, List.mem_map, not_exists, not_and] at hn
      rcases List.mem_cons.1 ha with rfl | ha' <;> rcases List.mem_cons.1 hc with rfl | hc'
      · rfl
      · exact absurd hac.symm (hn.1 c hc')
      · exact absurd hac (hn.1 a ha')
      · exact ih hn.2 a ha' c hc' hac
  rcases hr with hr | ⟨b, hr⟩ <;> rcases hr' with hr' | ⟨c, hr'⟩
  · exact inj pr h.proc r hr r' hr' hj
  · exact absurd hj (h.procNode c r hr r' hr')
  · exact absurd hj.symm (h.procNode b r' hr' r hr)
  · by_cases hbc : b = c
    · subst hbc; exact inj (nf b) (h.node b) r hr r' hr' hj
    · exact absurd hj (h.nodeNode b c hbc r hr r' hr')

#realize_aux Jade

end Jade.Sys
