import JadeModel.Proofs.SystemUniqueNode
import JadeModel.Proofs.SystemUniqueTraceW
import JadeModel.Proofs.SystemUniqueTraceSA
import JadeModel.Proofs.SystemUniqueTraceSB

set_option linter.unusedSimpArgs false

/-! In EVERY execution the nodes write at most one row per job (trace property). -/

namespace Jade.Sys

theorem nodeS_step {s s' : Sys} {op : Op} (hn : NodeInv s) (hw : NodeW s) (hi : NodeS s)
    (h : step s op = some s') : NodeS s' := by
  obtain ⟨c_queuedSeen, c_runningSeen⟩ := nodeS_step_a hn hw hi h
  obtain ⟨c_seenBatch, c_seenNodup⟩ := nodeS_step_b hn hw hi h
  exact ⟨c_queuedSeen, c_runningSeen, c_seenBatch, c_seenNodup⟩

theorem node_writes_once_run (j : JobId) (ops : List Op) : ∀ (s s' : Sys), NodeInv s → NodeW s → NodeS s →
    run s ops = some s' →
    ops.countP (·.nodeWrites j) ≤ 1 ∧ (NodeWrote s j → ops.countP (·.nodeWrites j) = 0) := by
  induction ops with
  | nil => intro s s' _ _ _ _; simp
  | cons op ops ih =>
    intro s s' hn hw hs h
    simp only [run] at h
    split at h
    · next s1 hs1 =>
      obtain ⟨i1, i2⟩ := ih s1 s' (nodeInv_step hn hs1) (nodeW_step hn hw hs1) (nodeS_step hn hw hs hs1) h
      rw [List.countP_cons]
      cases hop : op.nodeWrites j with
      | true =>
        obtain ⟨f1, f2⟩ := nodeWrites_fresh hn hs hs1 hop
        have := i2 f2
        simp only [this]
        exact ⟨by simp, fun hc => absurd hc f1⟩
      | false =>
        simp only [Bool.false_eq_true, if_false, Nat.add_zero]
        exact ⟨i1, fun hc => i2 (nodeWrote_step hs1 j hc)⟩
    · cases h

theorem node_run {s s' : Sys} (ops : List Op) (hn : NodeInv s) (hw : NodeW s) (hs : NodeS s)
    (h : run s ops = some s') : NodeW s' ∧ NodeS s' := by
  induction ops generalizing s with
  | nil => simp [run] at h; subst h; exact ⟨hw, hs⟩
  | cons op ops ih =>
    simp only [run] at h
    split at h
    · next s1 hs1 => exact ih (nodeInv_step hn hs1) (nodeW_step hn hw hs1) (nodeS_step hn hw hs hs1) h
    · cases h

/-- every reachable state of every scenario, under every schedule, crash and failure -/
theorem node_reach (sc : Scn) (ops : List Op) (s : Sys) (h : run (init sc) ops = some s) : NodeW s ∧ NodeS s :=
  node_run ops (nodeInv_init sc) (nodeW_init sc) (nodeS_init sc) h

/-- in every execution at most one event is a node writing a row for job `j` -/
theorem node_writes_once (sc : Scn) (ops : List Op) (s : Sys) (h : run (init sc) ops = some s) (j : JobId) :
    ops.countP (·.nodeWrites j) ≤ 1 :=
  (node_writes_once_run j ops (init sc) s (nodeInv_init sc) (nodeW_init sc) (nodeS_init sc) h).1

end Jade.Sys
