import JadeModel.Proofs.SystemUniqueNode

set_option linter.unusedSimpArgs false

/-! In EVERY execution the nodes write at most one row per job (trace property). -/

namespace Jade.Sys

/-- the node runners' own records (`seen` = the rows a runner wrote) -/
structure NodeS (s : Sys) : Prop where
  queuedSeen : ∀ p a n, s.procs p = .node a n → ∀ j ∈ n.queued, ∀ r ∈ n.seen, r.job ≠ j
  runningSeen : ∀ p a n, s.procs p = .node a n → ∀ j ∈ n.running, ∀ r ∈ n.seen, r.job ≠ j
  /-- a runner writes rows for jobs of its own batch only -/
  seenBatch : ∀ p a n, s.procs p = .node a n → ∃ B ∈ s.batches, B.hid = some n.hid ∧ ∀ r ∈ n.seen, r.job ∈ B.jobs
  seenNodup : ∀ p a n, s.procs p = .node a n → (n.seen.map (·.job)).Nodup

theorem nodeS_init (sc : Scn) : NodeS (init sc) := by
  refine ⟨?_, ?_, ?_, ?_⟩ <;> simp [init]

set_option maxHeartbeats 64000000 in
theorem nodeS_step {s s' : Sys} {op : Op} (hn : NodeInv s) (hw : NodeW s) (hi : NodeS s)
    (h : step s op = some s') : NodeS s' := by
  have c1 := hw.queuedRunning
  obtain ⟨-, n1, n2, n3, n4, n5, n6, n7, n8⟩ := hn
  obtain ⟨d1, d2, d3, d4⟩ := hi
  cases op <;> step_cases h <;> (refine ⟨?_, ?_, ?_, ?_⟩ <;> frame_nw)
  all_goals first
    | proc_clause
    | grind [find?_hid, List.nodup_append]

end Jade.Sys

namespace Jade.Sys

/-- some node runner has written a row for `j` -/
def NodeWrote (s : Sys) (j : JobId) : Prop := ∃ p a n, s.procs p = .node a n ∧ ∃ r ∈ n.seen, r.job = j

/-- the event is a node writing a row for job `j` (`_complete` or the node-level `cancel()`) -/
def Op.nodeWrites (j : JobId) : Op → Bool
  | .nodeRow _ k => k == j
  | .nodeCancel _ k => k == j
  | _ => false

set_option maxHeartbeats 8000000 in
theorem nodeWrote_step {s s' : Sys} {op : Op} (h : step s op = some s') (j : JobId) (hw : NodeWrote s j) :
    NodeWrote s' j := by
  obtain ⟨p, a, n, hp, r, hr, hj⟩ := hw
  have key : ∃ a' n', s'.procs p = .node a' n' ∧ r ∈ n'.seen := by
    cases op <;> step_cases h <;> frame_nw <;> grind
  obtain ⟨a', n', hp', hr'⟩ := key
  exact ⟨p, a', n', hp', r, hr', hj⟩

set_option maxHeartbeats 8000000 in
theorem nodeWrites_fresh {s s' : Sys} {op : Op} {j : JobId} (hn : NodeInv s) (hs : NodeS s)
    (h : step s op = some s') (hw : op.nodeWrites j = true) : ¬ NodeWrote s j ∧ NodeWrote s' j := by
  have hm := @mem_unique_batch s.batches hn.batch.jobsNodup
  obtain ⟨-, n1, n2, n3, n4, n5, n6, n7, n8⟩ := hn
  obtain ⟨d1, d2, d3, d4⟩ := hs
  cases op <;> simp only [Op.nodeWrites, beq_iff_eq] at hw <;> (first | cases hw | skip) <;>
    step_cases h <;> frame_nw
  all_goals
    refine ⟨?_, ?_⟩
    · rintro ⟨p', a', n', hp', r, hr, hj⟩
      grind
    · unfold NodeWrote
      frame_nw
      exact ⟨_, true, _, if_pos rfl, _, List.mem_append.2 (Or.inr (List.mem_singleton.2 rfl)), rfl⟩

end Jade.Sys

namespace Jade.Sys

theorem node_writes_once_run (j : JobId) (ops : List Op) : ∀ (s s' : Sys), NodeInv s → NodeW s → NodeS s →
    run s ops = some s' →
    ops.countP (·.nodeWrites j) ≤ 1 ∧ (NodeWrote s j → ops.countP (·.nodeWrites j) = 0) := by
  induction ops with
  | nil => intro s s' _ _ _ _; simp
  | cons op ops ih =>
    intro s s' hn hw hs h
    simp only [run] at h
    split at h
    · next s1 hs1 =>
      obtain ⟨i1, i2⟩ := ih s1 s' (nodeInv_step hn hs1) (nodeW_step hn hw hs1) (nodeS_step hn hw hs hs1) h
      rw [List.countP_cons]
      cases hop : op.nodeWrites j with
      | true =>
        obtain ⟨f1, f2⟩ := nodeWrites_fresh hn hs hs1 hop
        have := i2 f2
        simp only [this]
        exact ⟨by simp, fun hc => absurd hc f1⟩
      | false =>
        simp only [Bool.false_eq_true, if_false, Nat.add_zero]
        exact ⟨i1, fun hc => i2 (nodeWrote_step hs1 j hc)⟩
    · cases h

end Jade.Sys

namespace Jade.Sys

theorem node_run {s s' : Sys} (ops : List Op) (hn : NodeInv s) (hw : NodeW s) (hs : NodeS s)
    (h : run s ops = some s') : NodeW s' ∧ NodeS s' := by
  induction ops generalizing s with
  | nil => simp [run] at h; subst h; exact ⟨hw, hs⟩
  | cons op ops ih =>
    simp only [run] at h
    split at h
    · next s1 hs1 => exact ih (nodeInv_step hn hs1) (nodeW_step hn hw hs1) (nodeS_step hn hw hs hs1) h
    · cases h

/-- every reachable state of every scenario, under every schedule, crash and failure -/
theorem node_reach (sc : Scn) (ops : List Op) (s : Sys) (h : run (init sc) ops = some s) : NodeW s ∧ NodeS s :=
  node_run ops (nodeInv_init sc) (nodeW_init sc) (nodeS_init sc) h

/-- in every execution at most one event is a node writing a row for job `j` -/
theorem node_writes_once (sc : Scn) (ops : List Op) (s : Sys) (h : run (init sc) ops = some s) (j : JobId) :
    ops.countP (·.nodeWrites j) ≤ 1 :=
  (node_writes_once_run j ops (init sc) s (nodeInv_init sc) (nodeW_init sc) (nodeS_init sc) h).1

end Jade.Sys
