import JadeModel.Proofs.SystemUniqueNodeDefs

set_option linter.unusedSimpArgs false

/-! In EVERY execution the nodes write at most one row per job: definitions (see `SystemUniqueTrace`). -/

namespace Jade.Sys

/-- the node runners' own records (`seen` = the rows a runner wrote) -/
structure NodeS (s : Sys) : Prop where
  queuedSeen : ∀ p a n, s.procs p = .node a n → ∀ j ∈ n.queued, ∀ r ∈ n.seen, r.job ≠ j
  runningSeen : ∀ p a n, s.procs p = .node a n → ∀ j ∈ n.running, ∀ r ∈ n.seen, r.job ≠ j
  /-- a runner writes rows for jobs of its own batch only -/
  seenBatch : ∀ p a n, s.procs p = .node a n → ∃ B ∈ s.batches, B.hid = some n.hid ∧ ∀ r ∈ n.seen, r.job ∈ B.jobs
  seenNodup : ∀ p a n, s.procs p = .node a n → (n.seen.map (·.job)).Nodup

theorem nodeS_init (sc : Scn) : NodeS (init sc) := by
  refine ⟨?_, ?_, ?_, ?_⟩ <;> simp [init]

/-- some node runner has written a row for `j` -/
def NodeWrote (s : Sys) (j : JobId) : Prop := ∃ p a n, s.procs p = .node a n ∧ ∃ r ∈ n.seen, r.job = j

/-- the event is a node writing a row for job `j` (`_complete` or the node-level `cancel()`) -/
def Op.nodeWrites (j : JobId) : Op → Bool
  | .nodeRow _ k => k == j
  | .nodeCancel _ k => k == j
  | _ => false

#realize_aux Jade

end Jade.Sys
