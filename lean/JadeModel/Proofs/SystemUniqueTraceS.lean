import JadeModel.Proofs.SystemUniqueTraceDefs

set_option linter.unusedSimpArgs false

namespace Jade.Sys

set_option maxHeartbeats 64000000 in
theorem nodeS_step {s s' : Sys} {op : Op} (hn : NodeInv s) (hw : NodeW s) (hi : NodeS s)
    (h : step s op = some s') : NodeS s' := by
  have c1 := hw.queuedRunning
  obtain ⟨-, n1, n2, n3, n4, n5, n6, n7, n8⟩ := hn
  obtain ⟨d1, d2, d3, d4⟩ := hi
  cases op <;> step_cases h <;> (refine ⟨?_, ?_, ?_, ?_⟩ <;> frame_nw)
  all_goals first
    | proc_clause
    | grind [find?_hid, List.nodup_append]

end Jade.Sys
