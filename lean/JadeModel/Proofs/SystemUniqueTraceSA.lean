import JadeModel.Proofs.SystemUniqueNodeDefs

set_option linter.unusedSimpArgs false

namespace Jade.Sys

set_option maxHeartbeats 64000000 in
theorem nodeS_step_a {s s' : Sys} {op : Op} (hn : NodeInv s) (hw : NodeW s) (hi : NodeS s)
    (h : step s op = some s') :
    (∀ p a n, s'.procs p = .node a n → ∀ j ∈ n.queued, ∀ r ∈ n.seen, r.job ≠ j) ∧
    (∀ p a n, s'.procs p = .node a n → ∀ j ∈ n.running, ∀ r ∈ n.seen, r.job ≠ j) := by
  have c1 := hw.queuedRunning
  obtain ⟨-, n1, n2, n3, n4, n5, n6, n7, n8⟩ := hn
  obtain ⟨d1, d2, d3, d4⟩ := hi
  cases op <;> step_cases h <;> (refine ⟨?_, ?_⟩ <;> frame_nw)
  all_goals first
    | proc_clause
    | grind [find?_hid, List.nodup_append]

end Jade.Sys
