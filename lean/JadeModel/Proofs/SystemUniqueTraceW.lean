import JadeModel.Proofs.SystemUniqueNodeDefs

set_option linter.unusedSimpArgs false

namespace Jade.Sys

set_option maxHeartbeats 8000000 in
theorem nodeWrote_step {s s' : Sys} {op : Op} (h : step s op = some s') (j : JobId) (hw : NodeWrote s j) :
    NodeWrote s' j := by
  obtain ⟨p, a, n, hp, r, hr, hj⟩ := hw
  have key : ∃ a' n', s'.procs p = .node a' n' ∧ r ∈ n'.seen := by
    cases op <;> step_cases h <;> frame_nw <;> grind
  obtain ⟨a', n', hp', hr'⟩ := key
  exact ⟨p, a', n', hp', r, hr', hj⟩

set_option maxHeartbeats 8000000 in
theorem nodeWrites_fresh {s s' : Sys} {op : Op} {j : JobId} (hn : NodeInv s) (hs : NodeS s)
    (h : step s op = some s') (hw : op.nodeWrites j = true) : ¬ NodeWrote s j ∧ NodeWrote s' j := by
  have hm := @mem_unique_batch s.batches hn.batch.jobsNodup
  obtain ⟨-, n1, n2, n3, n4, n5, n6, n7, n8⟩ := hn
  obtain ⟨d1, d2, d3, d4⟩ := hs
  cases op <;> simp only [Op.nodeWrites, beq_iff_eq] at hw <;> (first | cases hw | skip) <;>
    step_cases h <;> frame_nw
  all_goals
    refine ⟨?_, ?_⟩
    · rintro ⟨p', a', n', hp', r, hr, hj⟩
      grind
    · unfold NodeWrote
      frame_nw
      exact ⟨_, true, _, if_pos rfl, _, List.mem_append.2 (Or.inr (List.mem_singleton.2 rfl)), rfl⟩

end Jade.Sys
