import JadeModel.Proofs.SystemGen
import JadeModel.Proofs.SystemNode
import JadeModel.Props.C07

/-!
# C01 — each job is handed to the HPC in at most one batch and started at most once

System theorems over `Jade.Sys` (Model/System.lean): for **every** scenario and **every** sequence of
boundary events the model accepts — all interleavings of login-node and compute-node submitter
rounds, of batch starts and job completions, with any number of processes; kills and injected
failures included (so these are also the core of C11).  `Jade.Sys.step` is tied to the code by the
history replay of the `system` suite: every event of thousands of real executions must be accepted
by `step` with identical data; the guards of `sbatch` that these proofs use are what
`C07_batches_wellformed` proves of the deterministic batching algorithm.
-/

namespace Jade.C01
open Jade.Sys

variable (sc : Scn) (ops : List Op) (s : Sys)

/-- batch identifiers are never reused -/
theorem C01_batch_ids_nodup (h : run (init sc) ops = some s) : (s.batches.map (·.bid)).Nodup :=
  (nodeInv_reach sc ops s h).batch.idsNodup

/-- no job is placed into two batches (within one submission, without resubmit) -/
theorem C01_job_in_at_most_one_batch (h : run (init sc) ops = some s) :
    (s.batches.flatMap (·.jobs)).Nodup :=
  (nodeInv_reach sc ops s h).batch.jobsNodup

/-- …in the counting form of the property: at most one batch contains job `j`, and it lists it once -/
theorem C01_batches_containing_le_one (h : run (init sc) ops = some s) (j : JobId) :
    (s.batches.flatMap (·.jobs)).count j ≤ 1 :=
  List.nodup_iff_count.1 (C01_job_in_at_most_one_batch sc ops s h) j

/-- two batches that share a job are the same batch -/
theorem C01_shared_job_same_batch (h : run (init sc) ops = some s) (b b' : Batch) (j : JobId)
    (hb : b ∈ s.batches) (hb' : b' ∈ s.batches) (hj : j ∈ b.jobs) (hj' : j ∈ b'.jobs) : b = b' :=
  mem_unique_batch (C01_job_in_at_most_one_batch sc ops s h) hb hb' hj hj'

/-- no job's command is started more than once -/
theorem C01_started_at_most_once (h : run (init sc) ops = some s) : (s.starts.map (·.1)).Nodup :=
  (nodeInv_reach sc ops s h).startsNodup

/-- a job is only ever started by the node of the batch it was placed in, after that batch began -/
theorem C01_started_in_its_batch (h : run (init sc) ops = some s) :
    ∀ jh ∈ s.starts, ∃ b ∈ s.batches, b.hid = some jh.2 ∧ jh.1 ∈ b.jobs :=
  fun jh hjh => ((nodeInv_reach sc ops s h).startsIn jh hjh).1

/-- at most one process at a time holds the submitter role (alive or dead holders included): the
    mechanism behind the three facts above -/
theorem C01_single_holder (h : run (init sc) ops = some s) (p q : Pid) (a a' : Bool) (x y : SubP)
    (hp : s.procs p = .sub a x) (hq : s.procs q = .sub a' y) (hx : holds x.pc = true) (hy : holds y.pc = true) :
    p = q := by
  have r := (nodeInv_reach sc ops s h).batch.role
  have h1 := r.holder p a x hp hx
  have h2 := r.holder q a' y hq hy
  rw [h1] at h2
  exact Option.some.inj h2

/-! ## Non-vacuity: a two-batch run with two submitter processes, a refused promotion and a kill -/

def demoScn : Scn := { n := 3, blockers := fun j => if j = 2 then [0] else [], flag := fun _ => false,
                       rc := fun _ => 0, maxNodes := 1 }

def demoOps : List Op :=
  [.spawnSub 1 false, .promote 1, .passEnd 1 [], .collectDone 1, .mark 1, .sbatch 1 [0, 1] (some 100),
   .persist 1, .unmark 1, .demote 1, .exit 1,
   .startBatch 100 2 2, .nodeStart 2 0, .nodeStart 2 1, .nodeRow 2 0, .nodeRow 2 1,
   .spawnSub 3 false, .spawnSub 4 false, .promote 3, .promote 4, .poll 3 [], .collectFile 3 1,
   .passEnd 3 [], .collectDone 3, .nodeEnd 2, .mark 3, .persist 3, .unmark 3, .demote 3,
   .spawnSub 5 false, .promote 5, .poll 5 [100], .passEnd 5 [], .collectDone 5, .mark 5,
   .sbatch 5 [2] (some 101), .kill 5, .spawnSub 6 false, .promote 6]

example : ((run (init demoScn) demoOps).map fun s =>
    (s.batches.map (·.bid), s.batches.map (·.jobs), s.starts.map (·.1), s.submitter, s.marker))
    = some ([1, 2], [[0, 1], [2]], [0, 1], some 5, true) := by decide

end Jade.C01
