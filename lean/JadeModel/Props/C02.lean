import JadeModel.Proofs.SystemRows
import JadeModel.Props.Queue
import JadeModel.Props.C07
import JadeModel.Props.C01

/-!
# C02 — no job starts before every job blocking it has a recorded outcome

* System level (`Jade.Sys`, all scenarios, all op sequences — kills and failures included): the three
  hand-overs of the remaining-blockers set (status file → batch file → node queue) never drop a
  blocker that has no row yet, so at every accepted `nodeStart` all configured blockers have rows.
* Node level (`Jade.QueueProps`, the real `JobQueue` algorithm, also the whole of local mode where one
  queue runs the entire configuration): re-exported below.
* The batching rule that makes the hand-over sound (a blocked job is batched only with all its
  remaining blockers) is `C07_batches_wellformed`.
-/

namespace Jade.C02
open Jade.Sys

/-- **System theorem.** In every reachable state, whenever the start of job `j` is accepted, every
    job named in `j`'s configured `blocked_by` list has a result row on disk at that instant. -/
theorem C02_start_after_blockers (sc : Scn) (ops : List Op) (s s' : Sys) (p : Pid) (j : JobId)
    (h : run (init sc) ops = some s) (hs : step s (.nodeStart p j) = some s') :
    ∀ b ∈ sc.blockers j, HasRow s b := by
  have hi := blockInv_run ops (blockInv_init sc) h
  have hsc : s.sc = sc := by rw [sc_run ops h]; rfl
  rw [← hsc]
  exact start_has_rows hi p j hs

/-- …and that outcome stays on disk whatever happens afterwards (so "has an outcome" is stable) -/
theorem C02_outcome_stays (s s' : Sys) (ops : List Op) (h : run s ops = some s') (r : Row)
    (hr : RowOnDisk s r) : RowOnDisk s' r :=
  rowOnDisk_run ops h r hr

/-- the invariant behind it, for every reachable state: wherever a job waits (status file, role
    holder's memory, batch file, node queue) each configured blocker is still listed or has a row -/
theorem C02_blockers_tracked (sc : Scn) (ops : List Op) (s : Sys) (h : run (init sc) ops = some s) :
    BlockInv s :=
  blockInv_run ops (blockInv_init sc) h

/-! ## Node level / local mode (the real `JobQueue` algorithm) -/

/-- a step of the queue launches only jobs whose remaining blocker list is empty -/
theorem C02_queue_started_only_unblocked : type_of% @Jade.QueueProps.started_only_unblocked := @Jade.QueueProps.started_only_unblocked

/-- for any interleaving of submit / process_queue: when `j` is launched every blocker handed to the
    queue with `j` has a row written earlier -/
theorem C02_queue_start_after_blockers : type_of% @Jade.QueueProps.start_after_blockers := @Jade.QueueProps.start_after_blockers

/-- a blocker leaves a queued job's list only once it has a row -/
theorem C02_queue_blocker_removed_only_on_completion : type_of% @Jade.QueueProps.blocker_removed_only_on_completion := @Jade.QueueProps.blocker_removed_only_on_completion

/-- the batching rule: a job with unfinished blockers is in a batch only together with all of them -/
theorem C02_blocked_only_with_blockers : type_of% @Jade.C07.C07_batches_wellformed := @Jade.C07.C07_batches_wellformed

/-! ## Non-vacuity: the demo run of C01 extended by a dependent job starting after its blocker -/

example : ((run (init Jade.C01.demoScn)
    [.spawnSub 1 false, .promote 1, .passEnd 1 [], .collectDone 1, .mark 1, .sbatch 1 [0, 2] (some 100),
     .persist 1, .unmark 1, .demote 1, .exit 1, .startBatch 100 2 2, .nodeStart 2 0, .nodeRow 2 0,
     .nodeStart 2 2]).map fun s => s.starts.map (·.1)) = some [0, 2] := by decide

/-- …and the dependent job cannot start first -/
example : (run (init Jade.C01.demoScn)
    [.spawnSub 1 false, .promote 1, .passEnd 1 [], .collectDone 1, .mark 1, .sbatch 1 [0, 2] (some 100),
     .persist 1, .unmark 1, .demote 1, .exit 1, .startBatch 100 2 2, .nodeStart 2 2]).isNone = true := by decide

end Jade.C02
