import JadeModel.Proofs.SystemOutcome
import JadeModel.Proofs.RefBridge
import JadeModel.Proofs.SystemGate
import JadeModel.Props.Queue
import JadeModel.Props.C01
import JadeModel.Props.C20

/-!
# C03 — results are the reference evaluation of the dependency graph, whatever the schedule

* `Jade.Ref.ref` is the reference: evaluate the graph in dependency order with the jobs' exit codes
  (`evalJob`: canceled iff flagged and some blocker failed / was canceled, otherwise the exit code).
* System level (`Jade.Sys`): **for every scenario and every op sequence** — every batching the submit
  loop may choose (`sbatch` takes any job set passing the C07 guard), every node limit, every
  interleaving of submitters and nodes, and also every kill / write failure — each row that is ever on
  disk (node file or consolidated file) equals the reference outcome of its job.  Two executions of the
  same configuration therefore agree on every job both have a row for (`C03_schedule_independent`).
* Node level and local mode (`Jade.QueueProps`, the real JobQueue algorithm): a drained queue has
  exactly one row per job, equal to the reference (`rows_eq_ref`, `run_complete`, `run_drains`).
* Completeness ("no missing job at completion") is a liveness statement about fault-free runs.  Proved
  here: the summary lists exactly the consolidated rows plus the jobs without a row (C20 tally), the
  non-forced completion decision is taken only when every job is done, and a quiescent round with an empty
  active set always completes (C05).  The remaining step — in a fault-free run the forced branch is never
  taken with an unfinished job — is decided by the direct oracle on real executions (partial).
-/

namespace Jade.C03
open Jade.Sys Jade.Ref

/-- **System theorem.** In every reachable state every row on disk carries the reference outcome
    of its job (classification *and* return code). -/
theorem C03_rows_equal_reference (sc : Scn) (rank : JobId → Nat) (hac : Acyclic sc.graph rank)
    (ops : List Op) (s : Sys) (h : run (init sc) ops = some s) (r : Row) (hr : OnDisk s r) (hj : r.job < sc.n) :
    r.outcome = ref sc.graph r.job := by
  have hb := (outcome_reach sc ops s h).2
  have hsc : s.sc = sc := by rw [sc_run ops h]; rfl
  have hl := outcome_local hb
  rw [hsc] at hl
  exact local_gives_ref sc.graph rank hac _ _ hl r.job hj r.outcome ⟨r, hr, rfl, rfl⟩

/-- successful / failed / canceled, as `Result.is_successful/is_failed/is_canceled` classify -/
inductive Class where | successful | failed | canceled
  deriving DecidableEq, Repr

def classify (o : Outcome) : Class :=
  if o.canceled then .canceled else if o.rc = 0 then .successful else .failed

theorem C03_classification (sc : Scn) (rank : JobId → Nat) (hac : Acyclic sc.graph rank)
    (ops : List Op) (s : Sys) (h : run (init sc) ops = some s) (r : Row) (hr : OnDisk s r) (hj : r.job < sc.n) :
    classify r.outcome = classify (ref sc.graph r.job) := by
  rw [C03_rows_equal_reference sc rank hac ops s h r hr hj]

/-- **Independence.** Two scenarios with the same jobs (same graph, flags, exit codes) but any node
    limits, run under any two op sequences (any batching, interleaving, faults): a job that has a row in
    both has the same outcome in both. -/
theorem C03_schedule_independent (sc sc' : Scn) (hg : sc.graph = sc'.graph)
    (rank : JobId → Nat) (hac : Acyclic sc.graph rank)
    (ops ops' : List Op) (s s' : Sys) (h : run (init sc) ops = some s) (h' : run (init sc') ops' = some s')
    (r r' : Row) (hr : OnDisk s r) (hr' : OnDisk s' r') (hjob : r.job = r'.job) (hj : r.job < sc.n) :
    r.outcome = r'.outcome := by
  have hn : sc.n = sc'.n := congrArg Graph.n hg
  rw [C03_rows_equal_reference sc rank hac ops s h r hr hj,
      C03_rows_equal_reference sc' rank (hg ▸ hac) ops' s' h' r' hr' (by rw [← hjob, ← hn]; exact hj), hg, hjob]

/-- within one execution a job never has two different rows (duplicates after a crash are identical
    in classification and return code) -/
theorem C03_rows_agree (sc : Scn) (rank : JobId → Nat) (hac : Acyclic sc.graph rank)
    (ops : List Op) (s : Sys) (h : run (init sc) ops = some s) (r r' : Row) (hr : OnDisk s r) (hr' : OnDisk s r')
    (hjob : r.job = r'.job) (hj : r.job < sc.n) : r.outcome = r'.outcome :=
  C03_schedule_independent sc sc rfl rank hac ops ops s s h h r r' hr hr' hjob hj

/-- a finished row is real: the job was started and the row carries its exit code -/
theorem C03_finished_row_real (sc : Scn) (ops : List Op) (s : Sys) (h : run (init sc) ops = some s)
    (r : Row) (hr : OnDisk s r) (hc : r.canceled = false) : r.rc = sc.rc r.job ∧ StartedJ s r.job := by
  have hb := (outcome_reach sc ops s h).2
  have hsc : s.sc = sc := by rw [sc_run ops h]; rfl
  rw [← hsc]
  exact hb.lc1 r hr hc

/-- rows are never lost nor rewritten afterwards -/
theorem C03_rows_stay : type_of% @Jade.Sys.rowOnDisk_run := @Jade.Sys.rowOnDisk_run

/-- the completion flag is set at most once per submission (no second summary) -/
theorem C03_complete_once (sc : Scn) (ops : List Op) (s : Sys) (h : run (init sc) ops = some s) : GateInv s :=
  gateInv_run ops (gateInv_init sc) h

/-! ## Node level / local mode: complete and equal to the reference -/

theorem C03_queue_rows_eq_ref : type_of% @Jade.QueueProps.rows_eq_ref := @Jade.QueueProps.rows_eq_ref
theorem C03_queue_independent_of_schedule : type_of% @Jade.QueueProps.run_independent_of_schedule := @Jade.QueueProps.run_independent_of_schedule
theorem C03_queue_one_row_per_job : type_of% @Jade.QueueProps.run_complete := @Jade.QueueProps.run_complete
theorem C03_queue_row_at_most_once : type_of% @Jade.QueueProps.row_at_most_once := @Jade.QueueProps.row_at_most_once
theorem C03_queue_drains : type_of% @Jade.QueueProps.run_drains := @Jade.QueueProps.run_drains

/-- **Local mode = HPC mode.** Run the whole configuration through one `JobQueue` (what local mode
    does), with any worker count and poll schedule, to the end; run it on the HPC under any op sequence.
    Every row the HPC run ever has on disk is a row of the local run (same job, same return code, same
    finished/canceled status). -/
theorem C03_local_equals_hpc (sc : Scn) (rank : JobId → Nat) (hac : Acyclic sc.graph rank)
    (d : Nat) (sched : List (List Jade.Queue.Poll)) (hs : Jade.QueueProps.SchedOk sc.rc sched)
    (r : Jade.Queue.RunOut) (hr : Jade.Queue.runAll d (Jade.RefBridge.jobsOf sc) sched = .ok r) (hdr : r.drained = true)
    (ops : List Op) (s : Sys) (h : run (init sc) ops = some s) (R : Row) (hR : OnDisk s R) (hj : R.job < sc.n) :
    (R.job, (Jade.RefBridge.toPair R.outcome).1, (Jade.RefBridge.toPair R.outcome).2) ∈ r.final.rows := by
  have hn : ((Jade.RefBridge.jobsOf sc).map (·.id)).Nodup := by
    have : (Jade.RefBridge.jobsOf sc).map (·.id) = List.range sc.n := by
      simp [Jade.RefBridge.jobsOf, List.map_map, Function.comp_def]
    rw [this]; exact List.nodup_range
  have hlen : (Jade.RefBridge.jobsOf sc).length = sc.n := by simp [Jade.RefBridge.jobsOf]
  have hmem : ∀ x ∈ Jade.RefBridge.jobsOf sc, x.id < sc.n ∧ x.blockers = sc.blockers x.id := by
    intro x hx
    simp only [Jade.RefBridge.jobsOf, List.mem_map, List.mem_range] at hx
    obtain ⟨j, hj, rfl⟩ := hx
    exact ⟨hj, rfl⟩
  have hca : Jade.Queue.ClosedAcyclic (Jade.RefBridge.jobsOf sc) := by
    refine ⟨?_, rank, ?_⟩
    · intro x hx b hb
      obtain ⟨hxn, hxb⟩ := hmem x hx
      rw [hxb] at hb
      have hbn := hac.inside x.id hxn b hb
      exact ⟨{ id := b, blockers := sc.blockers b, cancelFlag := sc.flag b },
        by simp only [Jade.RefBridge.jobsOf, List.mem_map, List.mem_range]; exact ⟨b, hbn, rfl⟩, rfl⟩
    · intro x hx
      obtain ⟨hxn, hxb⟩ := hmem x hx
      refine ⟨by rw [hlen]; exact hac.bound x.id hxn, ?_⟩
      intro b hb
      rw [hxb] at hb
      exact hac.lt x.id hxn b hb
  rw [Jade.QueueProps.rows_eq_ref d _ sched sc.rc hn hca hs r hr hdr]
  refine ⟨{ id := R.job, blockers := sc.blockers R.job, cancelFlag := sc.flag R.job },
    by simp only [Jade.RefBridge.jobsOf, List.mem_map, List.mem_range]; exact ⟨R.job, hj, rfl⟩, rfl, ?_⟩
  rw [Jade.RefBridge.ref_eq sc hac.inside R.job hj, ← C03_rows_equal_reference sc rank hac ops s h R hR hj]

/-- results.json: successful + failed + canceled + missing = configured jobs -/
theorem C03_summary_tally : type_of% @Jade.C20.tally_sum := @Jade.C20.tally_sum

/-! ## Non-vacuity -/

def demoScn : Scn := { n := 4, blockers := fun j => if j = 1 then [0] else if j = 2 then [1] else if j = 3 then [1] else [],
                       flag := fun j => j = 1 || j = 2, rc := fun j => if j = 0 then 3 else 0, maxNodes := 2 }

example : Acyclic demoScn.graph (fun j => j) := by
  refine ⟨?_, ?_, fun j hj => hj⟩ <;> intro j hj b hb <;> simp only [demoScn, Scn.graph] at * <;>
    (repeat' split at hb) <;> simp_all <;> omega

/-- job 0 fails on a node; job 1 (flagged) is canceled by the node, job 2 (flagged, next batch) by the
    submitter, job 3 (unflagged) runs: the rows are the reference outcomes -/
def demoOps : List Op :=
  [.spawnSub 1 false, .promote 1, .passEnd 1 [], .collectDone 1, .mark 1, .sbatch 1 [0, 1] (some 100),
   .persist 1, .unmark 1, .demote 1, .exit 1,
   .startBatch 100 2 2, .nodeStart 2 0, .nodeRow 2 0, .nodeCancel 2 1,
   .spawnSub 3 false, .promote 3, .poll 3 [], .collectFile 3 1, .passEnd 3 [2], .cancelRow 3 2, .passEnd 3 [],
   .collectDone 3, .mark 3, .sbatch 3 [3] (some 101), .persist 3]

example : ((run (init demoScn) demoOps).map fun s => (s.processed.map fun r => (r.job, r.outcome)))
    = some [(0, ⟨false, 3⟩), (1, ⟨true, 1⟩), (2, ⟨true, 1⟩)] := by decide

example : (List.range 4).map (ref demoScn.graph) = [⟨false, 3⟩, ⟨true, 1⟩, ⟨true, 1⟩, ⟨false, 0⟩] := by decide

end Jade.C03
