import JadeModel.Props.C03
import JadeModel.Props.C03Live
import JadeModel.Props.C03Unique
import JadeModel.Props.C04
import JadeModel.Proofs.SystemBound
import JadeModel.Props.Replica

/-!
# C03, complete statement

`Props/C03.lean` proves that every row ever on disk is the reference outcome (all runs). This file adds
the two fault-free facts — no missing job at completion (`Props/C03Live.lean`) and one row per job
(`Props/C03Unique.lean`) — and combines the three into the property as stated:

  when a fault-free submission is complete, the consolidated results contain **exactly one entry per
  configured job, nothing else, no missing job**, and each entry is the reference evaluation.

`runP` = executions without crashes, write failures, lost batches, failed sbatch and cancel-jobs, in which
every round collects all finished result files and submits every unblocked job unless the node limit is
reached — two facts replayed on every fault-free real execution (`Model/SystemPlain.lean`).
-/

namespace Jade.C03
open Jade.Sys Jade.Ref

theorem C03_complete_no_missing : type_of% @Jade.C03Live.C03_complete_no_missing := @Jade.C03Live.C03_complete_no_missing
theorem C03_decided_no_missing : type_of% @Jade.C03Live.C03_decided_no_missing := @Jade.C03Live.C03_decided_no_missing
theorem C03_complete_results_are_reference : type_of% @Jade.C03Live.C03_complete_results_are_reference := @Jade.C03Live.C03_complete_results_are_reference
theorem C03_one_row_per_job : type_of% @Jade.C03Unique.C03_one_row_per_job := @Jade.C03Unique.C03_one_row_per_job
theorem C03_one_row_per_job_calm : type_of% @Jade.C03Unique.C03_one_row_per_job_calm := @Jade.C03Unique.C03_one_row_per_job_calm
theorem C03_duplicate_needs_exception : type_of% @Jade.C03Unique.C03_duplicate_needs_exception := @Jade.C03Unique.C03_duplicate_needs_exception
theorem C03_node_writes_once_always : type_of% @Jade.C03Unique.C03_node_writes_once_always := @Jade.C03Unique.C03_node_writes_once_always

/-- every row on disk is for a configured job (all runs) -/
theorem C03_rows_only_for_configured_jobs : type_of% @Jade.Sys.row_job_lt := @Jade.Sys.row_job_lt

/-- **The property as stated.** At completion of a fault-free run the job column of the consolidated
    results is a duplicate-free list containing exactly the configured jobs `0 … n-1` (so it has `n`
    entries and nothing is missing), and every entry is the reference outcome of its job. -/
theorem C03_exactly_one_entry_per_job (sc : Scn) (rank : JobId → Nat) (hac : Acyclic sc.graph rank)
    (hmax : 1 ≤ sc.maxNodes) (ops : List Op) (s : Sys) (h : runP (init sc) ops = some s)
    (hc : s.disk.complete = true) :
    (s.processed.map (·.job)).Nodup ∧
    (∀ j : JobId, j ∈ s.processed.map (·.job) ↔ j < sc.n) ∧
    s.processed.length = sc.n ∧
    (∀ r ∈ s.processed, r.outcome = ref sc.graph r.job) := by
  have hrun := runP_run ops h
  have hnd := (Jade.C03Unique.C03_one_row_per_job sc ops s h).1
  have hmem : ∀ j : JobId, j ∈ s.processed.map (·.job) ↔ j < sc.n := by
    intro j
    constructor
    · intro hj
      obtain ⟨r, hr, rfl⟩ := List.mem_map.1 hj
      exact row_job_lt sc ops s hrun r (Or.inl hr)
    · intro hj
      obtain ⟨r, hr, rfl⟩ := Jade.C03Live.C03_complete_no_missing sc rank hac hmax ops s h hc j hj
      exact List.mem_map.2 ⟨r, hr, rfl⟩
  refine ⟨hnd, hmem, ?_, ?_⟩
  · have h1 : (s.processed.map (·.job)).length ≤ (List.range sc.n).length :=
      nodup_subset_length hnd (fun j hj => List.mem_range.2 ((hmem j).1 hj))
    have h2 : (List.range sc.n).length ≤ (s.processed.map (·.job)).length :=
      nodup_subset_length List.nodup_range (fun j hj => (hmem j).2 (List.mem_range.1 hj))
    simp only [List.length_map, List.length_range] at h1 h2
    omega
  · intro r hr
    exact C03_rows_equal_reference sc rank hac ops s hrun r (Or.inl hr) (row_job_lt sc ops s hrun r (Or.inl hr))

/-- hence two complete fault-free runs of the same jobs — any batching, node limits, schedules —
    have the same results up to order -/
theorem C03_complete_runs_agree (sc sc' : Scn) (hg : sc.graph = sc'.graph) (rank : JobId → Nat)
    (hac : Acyclic sc.graph rank) (hmax : 1 ≤ sc.maxNodes) (hmax' : 1 ≤ sc'.maxNodes)
    (ops ops' : List Op) (s s' : Sys) (h : runP (init sc) ops = some s) (h' : runP (init sc') ops' = some s')
    (hc : s.disk.complete = true) (hc' : s'.disk.complete = true) (j : JobId) (o : Outcome) :
    (∃ r ∈ s.processed, r.job = j ∧ r.outcome = o) ↔ (∃ r ∈ s'.processed, r.job = j ∧ r.outcome = o) := by
  have hn : sc.n = sc'.n := congrArg Graph.n hg
  have hac' : Acyclic sc'.graph rank := hg ▸ hac
  have A := C03_exactly_one_entry_per_job sc rank hac hmax ops s h hc
  have B := C03_exactly_one_entry_per_job sc' rank hac' hmax' ops' s' h' hc'
  constructor
  · rintro ⟨r, hr, rfl, rfl⟩
    have hj : r.job < sc'.n := by rw [← hn]; exact (A.2.1 r.job).1 (List.mem_map.2 ⟨r, hr, rfl⟩)
    obtain ⟨r', hr', hjob⟩ := List.mem_map.1 ((B.2.1 r.job).2 hj)
    exact ⟨r', hr', hjob, by rw [B.2.2.2 r' hr', A.2.2.2 r hr, hjob, hg]⟩
  · rintro ⟨r, hr, rfl, rfl⟩
    have hj : r.job < sc.n := by rw [hn]; exact (B.2.1 r.job).1 (List.mem_map.2 ⟨r, hr, rfl⟩)
    obtain ⟨r', hr', hjob⟩ := List.mem_map.1 ((A.2.1 r.job).2 hj)
    exact ⟨r', hr', hjob, by rw [A.2.2.2 r' hr', B.2.2.2 r hr, hjob, hg]⟩

/-! ### multi-node allocations (`hpc.nodes ≥ 2`, `Model/Replica.lean`): every node of the allocation runs the batch, the
results file receives exactly what the manager node's queue logged — so the node-level statements above hold for an
allocation of any size -/
theorem C03_multinode_rows_eq_manager : type_of% @Jade.Replica.allocation_rows_eq_manager := @Jade.Replica.allocation_rows_eq_manager
theorem C03_multinode_row_at_most_once : type_of% @Jade.Replica.allocation_row_at_most_once := @Jade.Replica.allocation_row_at_most_once
theorem C03_multinode_one_row_per_job : type_of% @Jade.Replica.allocation_run_complete := @Jade.Replica.allocation_run_complete
theorem C03_multinode_worker_records_nothing : type_of% @Jade.Replica.worker_records_nothing := @Jade.Replica.worker_records_nothing

end Jade.C03

/-! ## C01's closing sentence -/

namespace Jade.C01
open Jade.Sys Jade.Ref

/-- "When the submission completes without faults, every job was either placed in exactly one batch or
    canceled without running": every job has one row; if it is a finished row the job was started once by
    the node of the one batch containing it; if it is a canceled row the job was never started. -/
theorem C01_complete_accounting (sc : Scn) (rank : JobId → Nat) (hac : Acyclic sc.graph rank)
    (hmax : 1 ≤ sc.maxNodes) (ops : List Op) (s : Sys) (h : runP (init sc) ops = some s)
    (hc : s.disk.complete = true) (j : JobId) (hj : j < sc.n) :
    ∃ r ∈ s.processed, r.job = j ∧
      ((r.canceled = false ∧ (∃ b ∈ s.batches, j ∈ b.jobs) ∧ (s.batches.flatMap (·.jobs)).count j = 1 ∧
          (s.starts.map (·.1)).count j = 1) ∨
       (r.canceled = true ∧ j ∉ s.starts.map (·.1))) := by
  have hrun := runP_run ops h
  obtain ⟨r, hr, rfl⟩ := Jade.C03Live.C03_complete_no_missing sc rank hac hmax ops s h hc j hj
  refine ⟨r, hr, rfl, ?_⟩
  cases hcan : r.canceled with
  | true =>
    right
    exact ⟨rfl, Jade.C04.C04_canceled_never_started sc rank hac ops s hrun r (Or.inl hr) hcan hj⟩
  | false =>
    left
    have hst : r.job ∈ s.starts.map (·.1) := (Jade.C03.C03_finished_row_real sc ops s hrun r (Or.inl hr) hcan).2
    obtain ⟨jh, hjh, hjeq⟩ := List.mem_map.1 hst
    obtain ⟨b, hb, -, hjb⟩ := C01_started_in_its_batch sc ops s hrun jh hjh
    rw [hjeq] at hjb
    have hmemb : r.job ∈ s.batches.flatMap (·.jobs) := List.mem_flatMap.2 ⟨b, hb, hjb⟩
    refine ⟨rfl, ⟨b, hb, hjb⟩, ?_, ?_⟩
    · have hle := C01_batches_containing_le_one sc ops s hrun r.job
      have hpos := List.count_pos_iff.2 hmemb
      omega
    · have hle := List.nodup_iff_count.1 (C01_started_at_most_once sc ops s hrun) r.job
      have hpos := List.count_pos_iff.2 hst
      omega

/-- multi-node allocations: every node launches its own copy of each job of the batch, each node at most once -/
theorem C01_multinode_node_launches_at_most_once : type_of% @Jade.Replica.node_launches_at_most_once := @Jade.Replica.node_launches_at_most_once

end Jade.C01
