import JadeModel.Proofs.SystemLive5
import JadeModel.Props.C03
import JadeModel.Props.C05

/-!
# C03 / C05 — a fault-free submission that is marked complete has no missing job

`Jade.Sys.runP` = the executions of the system model (`Jade.Sys.step`: every schedule of submitter rounds,
node runners and the scheduler, every batching the submit loop may choose, every node limit) **without
faults** (`Op.faulty`: kills, exceptions, half-written status, lost batches, failed sbatch, cancel-jobs) in
which every round does what `HpcSubmitter.run` does in every round and what the history replay checks on
the fault-free real executions: each pass of `_update_completed_jobs` — and the end of its loop — has moved
the result file of every batch the round no longer believes active (`collectedAll`), and the submit loop
leaves an unblocked NOT_SUBMITTED job behind only when the node limit is reached (`roundDone`, C07).

* `C03_complete_no_missing`: for every scenario with an acyclic configuration and `max_nodes ≥ 1`, in every
  such execution, once the completion flag is on disk **every configured job has a row** in the
  consolidated results file.
* `C03_decided_no_missing`: already when a round has decided "complete" (`_is_complete` True — including the
  *forced* branch "no active HPC job ids").
* `C05_flag_only_when_all_rows`: `mark_complete` — and the `results.json` summary written before it — happen
  only on a full consolidated file: the summary lists no missing job.
* `C03_complete_results_are_reference`: so the completed submission has, for every job, a row carrying the
  reference outcome of the dependency graph (with `C03_rows_equal_reference`).

The proof (Proofs/SystemLive*.lean) is an invariant of `stepP`: a SUBMITTED job is in a batch the role
holder believes active or its row is on its way through the holder's collection; a batch ends only with a
row for each of its jobs; a remaining blocker is never DONE; hence with an empty HPC queue after a round
nothing is SUBMITTED, and — by induction along the acyclic graph — nothing NOT_SUBMITTED.
-/

namespace Jade.C03Live
open Jade.Sys Jade.Ref

/-- **No missing jobs at completion.** -/
theorem C03_complete_no_missing (sc : Scn) (rank : JobId → Nat) (hac : Acyclic sc.graph rank)
    (hmax : 1 ≤ sc.maxNodes) (ops : List Op) (s : Sys) (h : runP (init sc) ops = some s)
    (hc : s.disk.complete = true) : ∀ j : JobId, j < sc.n → ∃ r ∈ s.processed, r.job = j :=
  complete_no_missing sc rank hac hmax ops s h hc

/-- the intermediate form: the decision "complete" of a (non-cancel) round is taken on a full file -/
theorem C03_decided_no_missing (sc : Scn) (rank : JobId → Nat) (hac : Acyclic sc.graph rank)
    (hmax : 1 ≤ sc.maxNodes) (ops : List Op) (s : Sys) (h : runP (init sc) ops = some s)
    (p : Pid) (x : SubP) (hx : getSub s p = some x) (hpc : x.pc = .unmarked) (hd : x.decided = true) :
    ∀ j : JobId, j < sc.n → ∃ r ∈ s.processed, r.job = j :=
  decided_no_missing sc rank hac hmax ops s h p x hx hpc hd

/-- **The flag is set only when every job has a row** (and so is the summary written before it) -/
theorem C05_flag_only_when_all_rows (sc : Scn) (rank : JobId → Nat) (hac : Acyclic sc.graph rank)
    (hmax : 1 ≤ sc.maxNodes) (ops : List Op) (s s' : Sys) (h : runP (init sc) ops = some s) (p : Pid)
    (hf : stepP s (.flag p) = some s' ∨ stepP s (.summary p) = some s') :
    ∀ j : JobId, j < sc.n → ∃ r ∈ s.processed, r.job = j :=
  flag_all_rows sc rank hac hmax ops s s' h p hf

/-- a completed fault-free submission has, for every job, a row with the reference outcome -/
theorem C03_complete_results_are_reference (sc : Scn) (rank : JobId → Nat) (hac : Acyclic sc.graph rank)
    (hmax : 1 ≤ sc.maxNodes) (ops : List Op) (s : Sys) (h : runP (init sc) ops = some s)
    (hc : s.disk.complete = true) :
    ∀ j : JobId, j < sc.n → ∃ r ∈ s.processed, r.job = j ∧ r.outcome = ref sc.graph j := by
  intro j hj
  obtain ⟨r, hr, rfl⟩ := complete_no_missing sc rank hac hmax ops s h hc j hj
  exact ⟨r, hr, rfl, Jade.C03.C03_rows_equal_reference sc rank hac ops s (runP_run ops h) r (Or.inl hr) hj⟩

/-- a fault-free execution is an execution: everything proved for `run` applies -/
theorem C03_plain_is_run : type_of% @Jade.Sys.runP_run := @Jade.Sys.runP_run

/-! ## Non-vacuity: complete fault-free runs accepted by `runP` -/

/-- three rounds, two batches (C05's demo): flag set, rows for all three jobs -/
example : ((runP (init Jade.C01.demoScn) (Jade.C05.demoOps ++ Jade.C05.round2 ++ Jade.C05.round3)).map fun s =>
    (s.disk.complete, s.completions, s.processed.map (·.job))) = some (true, 1, [0, 1, 2]) := by decide

/-- C03's demo continued to completion: job 0 fails, job 1 is canceled on the node, job 2 by the submitter,
    job 3 runs in a second batch; the last round collects, decides, summarizes and sets the flag -/
def demoOps : List Op :=
  Jade.C03.demoOps ++
  [.unmark 3, .demote 3, .exit 3, .nodeEnd 2, .startBatch 101 4 1, .nodeStart 4 3, .nodeRow 4 3, .nodeEnd 4,
   .spawnSub 5 false, .promote 5, .poll 5 [100, 101], .collectFile 5 2, .passEnd 5 [], .collectDone 5, .mark 5,
   .persist 5, .unmark 5, .summary 5, .flag 5, .demote 5]

example : ((runP (init Jade.C03.demoScn) demoOps).map fun s =>
    (s.disk.complete, s.processed.map fun r => (r.job, r.outcome)))
    = some (true, [(0, ⟨false, 3⟩), (1, ⟨true, 1⟩), (2, ⟨true, 1⟩), (3, ⟨false, 0⟩)]) := by decide

/-- the extra guards bite: a round that skips the collection of an ended batch is not a fault-free round
    (`run` accepts it — and then forces completion with job rows missing — `runP` does not) -/
def skipOps : List Op :=
  Jade.C05.demoOps ++ [.spawnSub 3 false, .promote 3, .poll 3 [100], .collectDone 3]

example : (run (init Jade.C01.demoScn) skipOps).isSome = true ∧ (runP (init Jade.C01.demoScn) skipOps).isSome = false := by
  decide

end Jade.C03Live
