import JadeModel.Proofs.SystemUnique
import JadeModel.Proofs.SystemUniqueTrace

/-!
# C03 (uniqueness) — at most one result row per job

The rows of a submission live in the consolidated file (`s.processed`) and in the per-batch node files
(`s.nodeFile b`).  System level (`Jade.Sys`, Model/System.lean), for every scenario:

* **`C03_one_row_per_job`** — in every *fault-free* execution (`runP`, Model/SystemPlain.lean) the rows
  on disk are for pairwise distinct jobs: no job twice in the consolidated file, none twice in a node
  file, none in the consolidated file and a node file, none in two node files.  Equivalent forms:
  `C03_row_unique` (two rows on disk with the same job are the same row), `C03_row_count_le_one`
  (`RowCountLe1`: the model's list of all rows names each job at most once).
* **`C03_one_row_per_job_calm`** — the same for every execution of `run` in which no *exception inside a
  submitter round* occurs (`Op.risky`: `fail`, the torn `_move_results` = `collectCopy`, the torn
  `update_job_status` = `persistCfg`/`persistJobs`).  Kills of submitters and nodes, lost batches, failed
  `sbatch`, `cancel-jobs` are all allowed.  Contrapositive `C03_duplicate_needs_exception`: a duplicate row
  in any reachable state means one of these four events is in the history.
* In **every** execution (all faults): `C03_node_files_unique_always` (the node files are for pairwise
  distinct jobs, within a file and across files), `C03_node_writes_once_always` (at most one event of the
  whole history is a node writing a row for job `j` — `_complete` or the node-level `cancel()`),
  `C03_node_record_unique_always` (a runner's own record lists each job once, only jobs of its batch).
  By `C03.C03_rows_agree` duplicates that a crash does produce are identical in outcome.
* The hypothesis is needed: `dup_by_collectCopy` (a collector that dies between copy and removal —
  the next round moves the file again) and `dup_by_fail` (a round fails after `sbatch` and before
  `update_job_status`; the node cancels job 1, the next round — the status file still says
  NOT_SUBMITTED — cancels it again) reach states with two rows for a job.

Together with completeness (every configured job has a row at completion, C03/C05 partial) this is
"exactly one entry per configured job".
-/

namespace Jade.C03Unique
open Jade.Sys

/-- the rows on disk are for pairwise distinct jobs -/
def OneRowPerJob (s : Sys) : Prop :=
  (s.processed.map (·.job)).Nodup ∧ (∀ b : Bid, ((s.nodeFile b).map (·.job)).Nodup) ∧
  (∀ b : Bid, ∀ r ∈ s.processed, ∀ r' ∈ s.nodeFile b, r.job ≠ r'.job) ∧
  (∀ b c : Bid, b ≠ c → ∀ r ∈ s.nodeFile b, ∀ r' ∈ s.nodeFile c, r.job ≠ r'.job)

theorem oneRowPerJob_iff (s : Sys) : OneRowPerJob s ↔ RowsUnique s :=
  ⟨fun ⟨h1, h2, h3, h4⟩ => ⟨h1, h2, h3, h4⟩, fun ⟨h1, h2, h3, h4⟩ => ⟨h1, h2, h3, h4⟩⟩

/-- each job is named at most once by the list of all rows (consolidated file + node file of every batch) -/
def RowCountLe1 (s : Sys) : Prop := ∀ j : JobId, ((allRows s).map (·.job)).count j ≤ 1

/-- **Fault-free executions: one row per job.** -/
theorem C03_one_row_per_job (sc : Scn) (ops : List Op) (s : Sys) (h : runP (init sc) ops = some s) :
    (s.processed.map (·.job)).Nodup ∧ (∀ b : Bid, ((s.nodeFile b).map (·.job)).Nodup) ∧
    (∀ b : Bid, ∀ r ∈ s.processed, ∀ r' ∈ s.nodeFile b, r.job ≠ r'.job) ∧
    (∀ b c : Bid, b ≠ c → ∀ r ∈ s.nodeFile b, ∀ r' ∈ s.nodeFile c, r.job ≠ r'.job) :=
  (oneRowPerJob_iff s).2 (rowsUnique_runP sc ops s h)

/-- **Executions without an exception inside a submitter round** (kills, lost batches, failed sbatch,
    cancel-jobs allowed): one row per job. -/
theorem C03_one_row_per_job_calm (sc : Scn) (ops : List Op) (s : Sys) (h : run (init sc) ops = some s)
    (hc : ∀ op ∈ ops, op.risky = false) : OneRowPerJob s :=
  (oneRowPerJob_iff s).2 (rowsUnique_calm sc ops s h hc)

/-- the only sources of a duplicate row: `fail`, `collectCopy`, `persistCfg`, `persistJobs` -/
theorem C03_duplicate_needs_exception (sc : Scn) (ops : List Op) (s : Sys) (h : run (init sc) ops = some s)
    (hd : ¬ OneRowPerJob s) : ∃ op ∈ ops, op.risky = true := by
  apply Classical.byContradiction
  intro hne
  refine hd (C03_one_row_per_job_calm sc ops s h fun op hop => ?_)
  cases hr : op.risky with
  | false => rfl
  | true => exact absurd ⟨op, hop, hr⟩ hne

/-- two rows on disk with the same job are one and the same row -/
theorem C03_row_unique (sc : Scn) (ops : List Op) (s : Sys) (h : runP (init sc) ops = some s)
    (r r' : Row) (hr : OnDisk s r) (hr' : OnDisk s r') (hj : r.job = r'.job) : r = r' :=
  (rowsUnique_runP sc ops s h).row_unique hr hr' hj

/-- counting form -/
theorem C03_row_count_le_one (sc : Scn) (ops : List Op) (s : Sys) (h : runP (init sc) ops = some s) :
    RowCountLe1 s := by
  have hb := (nodeInv_reach sc ops s (runP_run ops h)).batch.idsNodup
  exact fun j => List.nodup_iff_count.1 (allRows_nodup (rowsUnique_runP sc ops s h) hb) j

/-- fault-free executions are executions of the model: all `run` theorems (C01…C12) apply to them -/
theorem C03_fault_free_is_run : type_of% @Jade.Sys.runP_run := @Jade.Sys.runP_run

/-! ## What holds in every execution, faults included -/

/-- the node result files are for pairwise distinct jobs -/
theorem C03_node_files_unique_always (sc : Scn) (ops : List Op) (s : Sys) (h : run (init sc) ops = some s) :
    (∀ b : Bid, ((s.nodeFile b).map (·.job)).Nodup) ∧
    (∀ b c : Bid, b ≠ c → ∀ r ∈ s.nodeFile b, ∀ r' ∈ s.nodeFile c, r.job ≠ r'.job) :=
  ⟨(node_reach sc ops s h).1.uniqN.node, (node_reach sc ops s h).1.uniqN.nodeNode⟩

/-- what waits or runs on a node — what a node may still write a row for — has no row in any node file -/
theorem C03_node_writes_fresh_always (sc : Scn) (ops : List Op) (s : Sys) (h : run (init sc) ops = some s)
    (p : Pid) (a : Bool) (n : NodeP) (hp : s.procs p = .node a n) (j : JobId) (hj : j ∈ n.queued ∨ j ∈ n.running) :
    ∀ c : Bid, ∀ r ∈ s.nodeFile c, r.job ≠ j :=
  hj.elim ((node_reach sc ops s h).1.fileQueued p a n hp j) ((node_reach sc ops s h).1.fileRunning p a n hp j)

/-- at most one event of the history is a node writing a row for job `j` -/
theorem C03_node_writes_once_always (sc : Scn) (ops : List Op) (s : Sys) (h : run (init sc) ops = some s)
    (j : JobId) : ops.countP (·.nodeWrites j) ≤ 1 :=
  node_writes_once sc ops s h j

/-- a runner's record of the rows it wrote: one per job, jobs of its own batch only, none of them still
    queued or running -/
theorem C03_node_record_unique_always (sc : Scn) (ops : List Op) (s : Sys) (h : run (init sc) ops = some s)
    (p : Pid) (a : Bool) (n : NodeP) (hp : s.procs p = .node a n) :
    (n.seen.map (·.job)).Nodup ∧ (∃ B ∈ s.batches, B.hid = some n.hid ∧ ∀ r ∈ n.seen, r.job ∈ B.jobs) ∧
    (∀ j ∈ n.queued, ∀ r ∈ n.seen, r.job ≠ j) ∧ (∀ j ∈ n.running, ∀ r ∈ n.seen, r.job ≠ j) :=
  have hs := (node_reach sc ops s h).2
  ⟨hs.seenNodup p a n hp, hs.seenBatch p a n hp, hs.queuedSeen p a n hp, hs.runningSeen p a n hp⟩

/-! ## Non-vacuity, and the hypothesis is needed -/

/-- 0 fails; 1 (flagged, after 0), 2 (flagged, after 1), 3 (unflagged, after 1) -/
def demoScn : Scn := { n := 4, blockers := fun j => if j = 1 then [0] else if j = 2 then [1] else if j = 3 then [1] else [],
                       flag := fun j => j = 1 || j = 2, rc := fun j => if j = 0 then 3 else 0, maxNodes := 2 }

/-- a fault-free submission in three rounds: batch 1 = [0, 1] (0 fails, the node cancels 1), the second
    round collects, cancels 2 and submits batch 2 = [3]; 3 runs; the third round collects and completes -/
def demoOps : List Op :=
  [.spawnSub 1 false, .promote 1, .passEnd 1 [], .collectDone 1, .mark 1, .sbatch 1 [0, 1] (some 100),
   .persist 1, .unmark 1, .demote 1, .exit 1,
   .startBatch 100 2 2, .nodeStart 2 0, .nodeRow 2 0, .nodeCancel 2 1, .nodeEnd 2,
   .spawnSub 3 false, .promote 3, .poll 3 [100], .collectFile 3 1, .passEnd 3 [2], .cancelRow 3 2, .passEnd 3 [],
   .collectDone 3, .mark 3, .sbatch 3 [3] (some 101), .persist 3, .unmark 3, .demote 3, .exit 3,
   .startBatch 101 4 1, .nodeStart 4 3, .nodeRow 4 3]

/-- …accepted by `runP`; four rows, four jobs: three in the consolidated file, one still in node file 2 -/
example : ((runP (init demoScn) demoOps).map fun s => (s.processed.map (·.job), (s.nodeFile 2).map (·.job)))
    = some ([0, 1, 2], [3]) := by decide

def demoOps2 : List Op :=
  demoOps ++ [.nodeEnd 4, .spawnSub 5 false, .promote 5, .poll 5 [101], .collectFile 5 2, .passEnd 5 [],
    .collectDone 5, .mark 5, .persist 5, .unmark 5, .summary 5, .flag 5]

/-- …and run to completion: exactly one row per configured job -/
example : ((runP (init demoScn) demoOps2).map fun s => (s.disk.complete, s.processed.map (·.job)))
    = some (true, [0, 1, 2, 3]) := by decide

/-- **the hypothesis is needed (1)**: the second round's collector dies between the copy and the removal of
    node file 1 (`collectCopy`); the next round moves the file again -/
def dupByCollectCopy : List Op :=
  [.spawnSub 1 false, .promote 1, .passEnd 1 [], .collectDone 1, .mark 1, .sbatch 1 [0, 1] (some 100),
   .persist 1, .unmark 1, .demote 1, .exit 1,
   .startBatch 100 2 2, .nodeStart 2 0, .nodeRow 2 0, .nodeCancel 2 1, .nodeEnd 2,
   .spawnSub 3 false, .promote 3, .poll 3 [100], .collectCopy 3 1, .demote 3, .exit 3,
   .spawnSub 4 false, .promote 4, .poll 4 [100], .collectFile 4 1]

theorem dup_by_collectCopy :
    ((run (init demoScn) dupByCollectCopy).map fun s => s.processed.map (·.job)) = some [0, 1, 0, 1] := by decide

/-- **the hypothesis is needed (2)**: round 1 fails after `sbatch` and before `update_job_status` (the status
    file keeps NOT_SUBMITTED for 0 and 1, the marker stays); the node runs 0 (fails) and cancels 1; the
    next round collects the node file and — 1 is NOT_SUBMITTED with the failed blocker 0 — cancels 1 again (and 2 for the first time) -/
def dupByFail : List Op :=
  [.spawnSub 1 false, .promote 1, .passEnd 1 [], .collectDone 1, .mark 1, .sbatch 1 [0, 1] (some 100),
   .fail 1, .demote 1, .exit 1,
   .startBatch 100 2 2, .nodeStart 2 0, .nodeRow 2 0, .nodeCancel 2 1, .nodeEnd 2,
   .spawnSub 3 false, .promote 3, .collectFile 3 1, .passEnd 3 [1, 2], .cancelRow 3 1]

theorem dup_by_fail :
    ((run (init demoScn) dupByFail).map fun s => s.processed.map (·.job)) = some [0, 1, 1] := by decide

/-- both faulty histories are rejected by `runP` -/
example : runP (init demoScn) dupByCollectCopy = none ∧ runP (init demoScn) dupByFail = none := by decide

/-- in the faulty histories the node files stay duplicate-free and each job is written once by a node -/
example : dupByFail.countP (·.nodeWrites 1) = 1 ∧ dupByCollectCopy.countP (·.nodeWrites 1) = 1 := by decide

end Jade.C03Unique
