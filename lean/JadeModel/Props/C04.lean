import JadeModel.Props.C03

/-!
# C04 — failure cancellation is exact

A job with `cancel_on_blocking_job_failure` gets a *canceled* row (non-zero return code, command never
started) exactly when one of its blockers failed or was canceled; the rule is the same whether a node
(`JobQueue._check_completions`) or a submitter (`HpcSubmitter._update_completed_jobs`) detects it.
An unflagged job is never canceled.

* System level (`Jade.Sys`): for every scenario and **every** op sequence (all schedules, all
  placements of the failing job and its dependents in batches/rounds, crashes included).
* Node level (`Jade.QueueProps`): the fixpoint loop cancels exactly the doomed set, every flagged job
  of a drained queue is canceled iff …, unflagged jobs of a drained queue all ran.
-/

namespace Jade.C04
open Jade.Sys Jade.Ref

/-- every canceled row — written by a node or by a submitter — is justified: the job is flagged, the
    return code is 1 (non-zero), and some configured blocker has a failed or canceled row on disk -/
theorem C04_canceled_row_justified (sc : Scn) (ops : List Op) (s : Sys) (h : run (init sc) ops = some s)
    (r : Row) (hr : OnDisk s r) (hc : r.canceled = true) :
    sc.flag r.job = true ∧ r.rc = 1 ∧ r.rc ≠ 0 ∧ ∃ b ∈ sc.blockers r.job, BadRow s b := by
  have hb := (outcome_reach sc ops s h).2
  have hsc : s.sc = sc := by rw [sc_run ops h]; rfl
  obtain ⟨h1, h2, h3⟩ := hb.lc2 r hr hc
  rw [hsc] at h1 h3
  exact ⟨h1, h2, by rw [h2]; decide, h3⟩

/-- an unflagged job is never canceled -/
theorem C04_unflagged_never_canceled (sc : Scn) (ops : List Op) (s : Sys) (h : run (init sc) ops = some s)
    (r : Row) (hr : OnDisk s r) (hf : sc.flag r.job = false) : r.canceled = false := by
  cases hc : r.canceled with
  | false => rfl
  | true => have := (C04_canceled_row_justified sc ops s h r hr hc).1; rw [hf] at this; cases this

/-- the command of a job with a canceled row was never started — and is never started later, since
    the row stays on disk in every continuation -/
theorem C04_canceled_never_started (sc : Scn) (rank : JobId → Nat) (hac : Acyclic sc.graph rank)
    (ops : List Op) (s : Sys) (h : run (init sc) ops = some s)
    (r : Row) (hr : OnDisk s r) (hc : r.canceled = true) (hj : r.job < sc.n) : ¬ StartedJ s r.job := by
  have hb := (outcome_reach sc ops s h).2
  have hsc : s.sc = sc := by rw [sc_run ops h]; rfl
  have hl := outcome_local hb
  rw [hsc] at hl
  exact local_canceled_never_started sc.graph rank hac _ _ hl r.job hj r.outcome ⟨r, hr, rfl, rfl⟩ hc

/-- a flagged job is started only when every configured blocker has a *successful* row -/
theorem C04_flagged_start_needs_success (sc : Scn) (ops : List Op) (s : Sys) (h : run (init sc) ops = some s)
    (j : JobId) (hst : StartedJ s j) (hf : sc.flag j = true) : ∀ b ∈ sc.blockers j, GoodRow s b := by
  have hb := (outcome_reach sc ops s h).2
  have hsc : s.sc = sc := by rw [sc_run ops h]; rfl
  rw [← hsc] at hf ⊢
  exact hb.lc3 j hst hf

/-- **exactness**: the row of job `j` is canceled iff `j` is flagged and the reference outcome of one of
    its blockers is bad (failed or canceled) — chains propagate through `ref` -/
theorem C04_canceled_iff (sc : Scn) (rank : JobId → Nat) (hac : Acyclic sc.graph rank)
    (ops : List Op) (s : Sys) (h : run (init sc) ops = some s) (r : Row) (hr : OnDisk s r) (hj : r.job < sc.n) :
    r.canceled = true ↔ (sc.flag r.job = true ∧ ∃ b ∈ sc.blockers r.job, (ref sc.graph b).bad = true) := by
  have heq := Jade.C03.C03_rows_equal_reference sc rank hac ops s h r hr hj
  have hc : r.canceled = (ref sc.graph r.job).canceled := congrArg Outcome.canceled heq
  rw [hc, ref_eq sc.graph rank hac r.job hj]
  unfold evalJob
  split
  · next hcond =>
    simp only [Bool.and_eq_true, List.any_eq_true] at hcond
    simp only [true_iff]
    exact ⟨hcond.1, hcond.2⟩
  · next hcond =>
    simp only [Bool.and_eq_true, List.any_eq_true, not_and] at hcond
    constructor
    · intro hh; cases hh
    · rintro ⟨hf, hex⟩; exact absurd hex (hcond hf)

/-- and the blockers' recorded rows tell the same story: if blocker `b` of a flagged job has a bad row
    on disk, no finished (non-canceled) row of the job can exist -/
theorem C04_bad_blocker_excludes_run (sc : Scn) (rank : JobId → Nat) (hac : Acyclic sc.graph rank)
    (ops : List Op) (s : Sys) (h : run (init sc) ops = some s) (r rb : Row) (hr : OnDisk s r) (hrb : OnDisk s rb)
    (hj : r.job < sc.n) (hbl : rb.job ∈ sc.blockers r.job) (hf : sc.flag r.job = true) (hbad : rb.bad = true) :
    r.canceled = true := by
  rw [C04_canceled_iff sc rank hac ops s h r hr hj]
  refine ⟨hf, rb.job, hbl, ?_⟩
  have := Jade.C03.C03_rows_equal_reference sc rank hac ops s h rb hrb (hac.inside r.job hj rb.job hbl)
  rw [← this]; exact hbad

/-- node-detected and submitter-detected cancellations agree (same classification, same return code) -/
theorem C04_node_and_submitter_agree : type_of% @Jade.C03.C03_rows_agree := @Jade.C03.C03_rows_agree

/-! ## Node level (the real `JobQueue` algorithm) -/

theorem C04_queue_cancel_fixpoint : type_of% @Jade.QueueProps.checkCompletions_spec := @Jade.QueueProps.checkCompletions_spec
theorem C04_queue_canceled_iff : type_of% @Jade.QueueProps.canceled_iff := @Jade.QueueProps.canceled_iff
theorem C04_queue_run_canceled_iff : type_of% @Jade.QueueProps.run_canceled_iff := @Jade.QueueProps.run_canceled_iff
theorem C04_queue_cancel_never_runs : type_of% @Jade.QueueProps.cancel_never_runs := @Jade.QueueProps.cancel_never_runs
theorem C04_queue_unflagged_runs : type_of% @Jade.QueueProps.unflagged_runs := @Jade.QueueProps.unflagged_runs
theorem C04_queue_doomed_least : type_of% @Jade.QueueProps.doomed_least := @Jade.QueueProps.doomed_least

/-! ## Non-vacuity: the C03 demo has a node-level and a submitter-level cancellation -/

example : ((run (init Jade.C03.demoScn) Jade.C03.demoOps).map fun s =>
    ((s.processed.filter (·.canceled)).map (·.job), s.starts.map (·.1))) = some ([1, 2], [0]) := by decide

/-- the submitter may not cancel an unflagged job, nor a flagged job whose blocker succeeded -/
example : (run (init Jade.C03.demoScn) (Jade.C03.demoOps.take 18 ++ [.passEnd 3 [2, 3]])).isNone = true := by decide
example : (run (init Jade.C03.demoScn) (Jade.C03.demoOps.take 18 ++ [.passEnd 3 []])).isNone = true := by decide

end Jade.C04
