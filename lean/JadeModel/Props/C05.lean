import JadeModel.Proofs.SystemProgress
import JadeModel.Proofs.SystemOutcome
import JadeModel.Props.C07
import JadeModel.Props.C01

/-!
# C05 — a submission makes progress and completes exactly once

System level (`Jade.Sys`, every scenario, every op sequence):

* `C05_quiescent_round_progress`: take any reachable moment `s0` at which nobody holds the submitter role
  and every batch recorded in the status file has ended (the situation the documented recovery
  `try-submit-jobs` is for).  Whatever happens afterwards, a submitter round that reaches the end of its
  submit phase either decides "complete" or leaves the HPC with a batch id that did not exist at `s0`
  — i.e. at least one new batch was handed over.  A refused promotion changes nothing
  (`C05_refused_promotion_is_noop`), so the race "last node refused because another node was still
  submitter" only postpones the round.
* `C05_batches_bounded`: at most `n` batches are ever created (each is non-empty and no job is ever in two
  batches, C01) — so only finitely many rounds can end without completing.
* completion happens once (`C05_complete_once`), the summary is written before the flag by the same
  process (`C05_summary_before_flag`), no batch is handed over afterwards (`C05_no_sbatch_after_complete`).
* the decision (`C05_decision`): complete iff every job is done, or no batch is believed active.

Component level: the submit loop leaves a candidate without blockers unbatched only when the node limit
is reached (`C05_round_leaves_unblocked_only_when_full` = C07's `submitLoop_unblocked`).

PARTIAL: "the completion flag is set only when every job has a result" is proved for the all-done
branch of the decision; that a fault-free run never takes the forced branch (`ids = []`) with an unfinished
job, and that each round terminates, are decided by the direct oracle on real executions and by C07's
termination theorem for the submit loop.
-/

namespace Jade.C05
open Jade.Sys

/-- **Round progress.** -/
theorem C05_quiescent_round_progress (sc : Scn) (ops0 : List Op) (s0 : Sys) (h0 : run (init sc) ops0 = some s0)
    (hrole : s0.submitter = none) (hq : ∀ h ∈ s0.disk.ids, s0.slurm h = some .ended)
    (ops : List Op) (t t' : Sys) (ht : run s0 ops = some t) (p : Pid) (hu : step t (.unmark p) = some t') :
    (∃ x', getSub t' p = some x' ∧ x'.pc = .unmarked ∧ x'.decided = true) ∨
    (∃ h, s0.slurm h = none ∧ t.slurm h ≠ none) := by
  have hr0 : RoleInv s0 := (batchInv_run ops0 (batchInv_init sc) h0).role
  have hq0 : ProgQ (fun h => s0.slurm h = some .ended) (fun h => s0.slurm h = none) s0 := by
    refine ⟨fun h hd => hd, fun h hn => hn, fun h hh => Or.inl (hq h hh), ?_, ?_⟩
    · intro q a y hp hh
      have := hr0.holder q a y hp hh
      rw [hrole] at this; cases this
    · intro q a y hp hh
      have hh' : holds y.pc = true := by revert hh; cases y.pc <;> simp [polled, holds]
      have := hr0.holder q a y hp hh'
      rw [hrole] at this; cases this
  have hqt := progQ_run ops hq0 ht
  have hat := progA_run ops (progA_run ops0 (progA_init sc) h0) ht
  simp only [step] at hu
  split at hu
  · next x hx =>
    split at hu
    · next hg =>
      have hp := getSub_eq hx
      cases hu
      by_cases hout : x.out = []
      · left
        refine ⟨{ x with pc := .unmarked, hasMarker := false, decided := isCompleteDecision t.sc.n x.loc },
          by simp [getSub, setSub, setProc], rfl, ?_⟩
        have : x.loc.ids = [] := by rw [hat.persistedIds p true x hp hg.1]; exact hout
        simp [isCompleteDecision, this]
      · right
        obtain ⟨h, hh⟩ := List.exists_mem_of_ne_nil _ hout
        have hholds : holds x.pc = true := by rw [hg.1]; rfl
        have hpolled : polled x.pc = true := by rw [hg.1]; rfl
        refine ⟨h, ?_, hat.outIds p true x hp h hh⟩
        rcases hqt.outOld p true x hp hholds h hh with hd | hn
        · exact absurd hd (hqt.outLive p true x hp hpolled h hh)
        · exact hn
    · cases hu
  · cases hu

/-- a refused promotion (somebody else is submitter) leaves all shared state untouched -/
theorem C05_refused_promotion_is_noop (s s' : Sys) (p q : Pid) (hs : s.submitter = some q)
    (h : step s (.promote p) = some s') :
    s'.disk = s.disk ∧ s'.submitter = s.submitter ∧ s'.marker = s.marker ∧ s'.batches = s.batches ∧
    s'.processed = s.processed ∧ s'.nodeFile = s.nodeFile ∧ s'.slurm = s.slurm := by
  step_cases h <;> simp_all [setSub, setProc]

/-- the number of batches ever created is bounded by the number of jobs -/
theorem C05_batches_bounded (sc : Scn) (ops : List Op) (s : Sys) (h : run (init sc) ops = some s) :
    s.batches.length ≤ sc.n := by
  have hb := batchInv_run ops (batchInv_init sc) h
  have ha := progA_run ops (progA_init sc) h
  have hsc : s.sc = sc := by rw [sc_run ops h]; rfl
  have h1 : s.batches.length ≤ (s.batches.flatMap (·.jobs)).length := by
    have : ∀ (l : List Batch), (∀ B ∈ l, B.jobs ≠ []) → l.length ≤ (l.flatMap (·.jobs)).length := by
      intro l
      induction l with
      | nil => intro _; simp
      | cons B l ih =>
        intro hne
        have hB : B.jobs ≠ [] := hne B (by simp)
        have hpos : 0 < B.jobs.length := List.length_pos_iff.mpr hB
        have := ih (fun B' hB' => hne B' (by simp [hB']))
        simp only [List.flatMap_cons, List.length_append, List.length_cons]
        omega
    exact this _ (fun B hB => (ha.batchJobs B hB).1)
  have h2 : (s.batches.flatMap (·.jobs)).length ≤ sc.n := by
    have hsub : ∀ j ∈ s.batches.flatMap (·.jobs), j ∈ List.range sc.n := by
      intro j hj
      simp only [List.mem_flatMap] at hj
      obtain ⟨B, hB, hjB⟩ := hj
      have := (ha.batchJobs B hB).2 j hjB
      rw [hsc] at this
      simpa using this
    have := nodup_subset_length hb.jobsNodup hsub
    simpa using this
  omega

/-- the flag is set at most once: `completions` is 0 or 1, and 1 exactly when the flag is on disk -/
theorem C05_complete_once (sc : Scn) (ops : List Op) (s : Sys) (h : run (init sc) ops = some s) :
    s.completions = (if s.disk.complete then 1 else 0) :=
  (gateInv_run ops (gateInv_init sc) h).once

/-- once complete, `mark_complete` is refused -/
theorem C05_no_second_completion (s : Sys) (p : Pid) (hc : s.disk.complete = true) : step s (.flag p) = none := by
  simp only [step]
  split
  · split
    · next hg => simp [hc] at hg
    · rfl
  · rfl

/-- no batch is ever handed to the HPC after the completion flag (or the cancel flag) is on disk -/
theorem C05_no_sbatch_after_complete (sc : Scn) (ops : List Op) (s : Sys) (h : run (init sc) ops = some s) :
    s.lateSbatch = false :=
  (gateInv_run ops (gateInv_init sc) h).late

/-- who is about to set the flag has written the summary: in every history the `flag p` event is
    preceded by `summary p` -/
theorem C05_summary_before_flag (sc : Scn) (ops : List Op) (s s' : Sys) (p : Pid)
    (h : run (init sc) ops = some s) (hf : step s (.flag p) = some s') : Op.summary p ∈ ops := by
  have key : ∀ (ops : List Op) (pre : List Op) (s0 s : Sys),
      (∀ q a y, s0.procs q = .sub a y → y.pc = .summarized → Op.summary q ∈ pre) →
      run s0 ops = some s → (∀ q a y, s.procs q = .sub a y → y.pc = .summarized → Op.summary q ∈ pre ++ ops) := by
    intro ops
    induction ops with
    | nil => intro pre s0 s h0 hr; simp [run] at hr; subst hr; simpa using h0
    | cons op ops ih =>
      intro pre s0 s h0 hr
      simp only [run] at hr
      split at hr
      · next s1 hs =>
        have := ih (pre ++ [op]) s1 s ?_ hr
        · simpa using this
        · intro q a y hq hpc
          have hstep : (∃ a' y', s0.procs q = .sub a' y' ∧ y'.pc = .summarized) ∨ op = .summary q := by
            cases op <;> step_cases hs <;> frame_all <;> grind [SubP.load, persistStatus]
          rcases hstep with ⟨a', y', hq', hpc'⟩ | rfl
          · simp [h0 q a' y' hq' hpc']
          · simp
      · cases hr
  have hx : ∃ x, s.procs p = .sub true x ∧ x.pc = .summarized := by
    simp only [step] at hf
    split at hf
    · next x hx =>
      split at hf
      · next hg => exact ⟨x, getSub_eq hx, hg.1⟩
      · cases hf
    · cases hf
  obtain ⟨x, hp, hpc⟩ := hx
  have := key ops [] (init sc) s (by intro q a y hq; simp [init] at hq) h p true x hp hpc
  simpa using this

/-- the decision taken when the marker is removed -/
theorem C05_decision (s s' : Sys) (p : Pid) (x : SubP) (hx : getSub s p = some x) (h : step s (.unmark p) = some s') :
    ∃ x', getSub s' p = some x' ∧
      (x'.decided = true ↔ ((∀ j, j < s.sc.n → x.loc.st j = .done) ∨ x.loc.ids = [])) := by
  simp only [step, hx] at h
  split at h
  · cases h
    refine ⟨{ x with pc := .unmarked, hasMarker := false, decided := isCompleteDecision s.sc.n x.loc },
      by simp [getSub, setSub, setProc], ?_⟩
    simp [isCompleteDecision]
  · cases h

/-- component: the submit loop leaves an unblocked candidate unbatched only when the node limit is reached -/
theorem C05_round_leaves_unblocked_only_when_full : type_of% @Jade.Batch.submitLoop_unblocked := @Jade.Batch.submitLoop_unblocked

/-- component: the submit loop terminates -/
theorem C05_submit_loop_terminates : type_of% @Jade.Batch.submitLoop_terminates := @Jade.Batch.submitLoop_terminates

/-! ## Non-vacuity: quiescent moment after batch 1 ended; the next round hands over batch 2; the round
    after that completes, writes the summary and sets the flag -/

def demoOps : List Op :=
  Jade.C01.demoOps.take 10 ++
  [.startBatch 100 2 2, .nodeStart 2 0, .nodeStart 2 1, .nodeRow 2 0, .nodeRow 2 1, .nodeEnd 2]

example : ((run (init Jade.C01.demoScn) demoOps).map fun s => (s.submitter, s.disk.ids, s.slurm 100, s.disk.complete))
    = some (none, [100], some .ended, false) := by decide

def round2 : List Op :=
  [.spawnSub 3 false, .promote 3, .poll 3 [100], .collectFile 3 1, .passEnd 3 [], .collectDone 3, .mark 3,
   .sbatch 3 [2] (some 101), .persist 3, .unmark 3]

example : ((run (init Jade.C01.demoScn) (demoOps ++ round2)).map fun s =>
    ((getSub s 3).map (·.decided), s.slurm 101, s.batches.length)) = some (some false, some .pending, 2) := by decide

def round3 : List Op :=
  [.demote 3, .exit 3, .startBatch 101 4 1, .nodeStart 4 2, .nodeRow 4 2, .nodeEnd 4,
   .spawnSub 5 false, .promote 5, .poll 5 [101], .collectFile 5 2, .passEnd 5 [], .collectDone 5, .mark 5,
   .persist 5, .unmark 5, .summary 5, .flag 5, .demote 5]

example : ((run (init Jade.C01.demoScn) (demoOps ++ round2 ++ round3)).map fun s =>
    (s.disk.complete, s.completions, s.processed.map (·.job), s.lateSbatch)) = some (true, 1, [0, 1, 2], false) := by decide

end Jade.C05
