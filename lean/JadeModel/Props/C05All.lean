import JadeModel.Props.C05
import JadeModel.Props.C03Live

/-! C05 with the fault-free completion facts of `Props/C03Live.lean` -/

namespace Jade.C05
open Jade.Sys

/-- in a fault-free run the summary is written and the completion flag set only when every configured
    job has a row in the consolidated results -/
theorem C05_flag_only_when_all_rows : type_of% @Jade.C03Live.C05_flag_only_when_all_rows := @Jade.C03Live.C05_flag_only_when_all_rows

/-- a round's decision "complete" in a fault-free run is taken on a full results file -/
theorem C05_decided_no_missing : type_of% @Jade.C03Live.C03_decided_no_missing := @Jade.C03Live.C03_decided_no_missing

end Jade.C05
