import JadeModel.Proofs.SystemGen
import JadeModel.Proofs.SystemCap
import JadeModel.Proofs.SystemRows
import JadeModel.Props.Queue
import JadeModel.Props.C07
import JadeModel.Props.C01

/-!
# C06 — node and process concurrency limits are never exceeded

* HPC level: an invariant of the system model over **all** op sequences (all interleavings of batch
  start/finish with submitter rounds on any nodes; kills and failures included): the number of this
  submission's batches that are queued or running never exceeds `max_nodes`.  The only assumption
  about SLURM is the truthful-squeue rule built into `Op.poll`: a batch the scheduler still has is
  always listed (the *word* it prints is arbitrary — `C18_status_conservative`).
* Node level: the real `JobQueue` algorithm keeps at most `depth` live processes at every point of
  every op sequence (`Jade.QueueProps`), with `depth = min(#jobs, processes-per-node or CPU count)`.
-/

namespace Jade.C06
open Jade.Sys

/-- at every instant at most `max_nodes` batches of the submission are queued or running -/
theorem C06_hpc_cap (sc : Scn) (ops : List Op) (s : Sys) (h : run (init sc) ops = some s) :
    activeCount s ≤ sc.maxNodes := by
  have hi := capInv_run ops (capInv_init sc) h
  have hsc : s.sc = sc := by rw [sc_run ops h]; rfl
  rw [← hsc]
  exact hi.cap

/-- every active batch is known to whoever can submit next (the role holder's queue, or the
    persisted ids when nobody holds the role) — unless a crashed round wedged the submission -/
theorem C06_active_tracked (sc : Scn) (ops : List Op) (s : Sys) (h : run (init sc) ops = some s) (k : Hid)
    (hk : activeB s k = true) : k ∈ trackedIds s ∨ Orphan s :=
  (capInv_run ops (capInv_init sc) h).tracked k hk

/-- one round's submit phase never pushes the HPC-level queue beyond its depth (component level,
    the real `_submit_batches` loop) -/
theorem C06_submit_phase_respects_depth :
    type_of% @Jade.Batch.submitLoop_outstanding := @Jade.Batch.submitLoop_outstanding

/-! ## Node level -/

theorem C06_node_running_le_depth : type_of% @Jade.QueueProps.running_le_depth :=
  @Jade.QueueProps.running_le_depth

theorem C06_node_running_le_depth_during_check : type_of% @Jade.QueueProps.running_le_depth_during_check :=
  @Jade.QueueProps.running_le_depth_during_check

theorem C06_workers_eq_min : type_of% @Jade.QueueProps.workers_eq_min := @Jade.QueueProps.workers_eq_min

theorem C06_node_run_le_configured : type_of% @Jade.QueueProps.runNode_running_le_configured :=
  @Jade.QueueProps.runNode_running_le_configured

/-- in the abstract system model a node start is accepted only below the worker limit -/
theorem C06_node_start_guard (s s' : Sys) (p : Pid) (j : JobId) (h : step s (.nodeStart p j) = some s') :
    ∃ n, getNode s p = some n ∧ n.running.length < n.workers := by
  simp only [step] at h
  split at h
  · next n hn =>
    split at h
    · next hg => exact ⟨n, hn, hg.2.2⟩
    · cases h
  · cases h

/-! ## Non-vacuity: with max_nodes = 1 the second batch is refused while the first is active -/

example : (run (init Jade.C01.demoScn)
    [.spawnSub 1 false, .promote 1, .passEnd 1 [], .collectDone 1, .mark 1, .sbatch 1 [0] (some 100),
     .sbatch 1 [1] (some 101)]).isNone = true := by decide

example : ((run (init Jade.C01.demoScn)
    [.spawnSub 1 false, .promote 1, .passEnd 1 [], .collectDone 1, .mark 1, .sbatch 1 [0] (some 100)]).map
      activeCount) = some 1 := by decide

end Jade.C06
