import JadeModel.Proofs.Batch
import JadeModel.Proofs.BatchBlocked
import JadeModel.Proofs.BatchBlockedFull
import JadeModel.Proofs.BatchBlockedAll
import JadeModel.Model.Cluster

/-!
# C07 — every batch respects its group's size/time limit and holds only its group's jobs

Component theorems about `Model/Batch.lean` (`_submit_batches` / `_make_batch` / `_BatchJobs`), for
**all** candidate lists (order, estimates, remaining blockers), all group parameter sets, all queue
depths, all `sbatch` outcome sequences.  `cands` is the list of NOT_SUBMITTED jobs *of the group the
call is made for* (the group filter of `_get_available_jobs[_by_time]`), so "holds only its group's
jobs" is `∀ c ∈ b.jobs, c ∈ cands`.  The group's HPC parameters / run options on the scripts are
C18's script theorems plus the `batch` correspondence suite (which compares the real files).
-/

namespace Jade.C07
open Jade.Batch Jade.Gen.Batch

variable (p : Params) (depth : Nat) (dryRun : Bool) (out : Nat) (cands : List Cand) (env : List Bool)

/-- Every batch handed to the HPC: non-empty, distinct jobs, all from the group's candidates,
    within the size or time limit, blocked jobs only together with all their unfinished blockers. -/
theorem C07_batches_wellformed (hnd : (cands.map (·.id)).Nodup) :
    ∀ b ∈ (submitBatches p depth dryRun out cands env).batches,
      b.jobs ≠ [] ∧
      (∀ c ∈ b.jobs, c ∈ cands) ∧
      (p.timeBased = false → b.jobs.length ≤ max 1 p.batchSize) ∧
      (p.timeBased = true → (b.jobs.map (fun c => 60 * c.est)).sum ≤ p.maxTime) ∧
      (∀ c ∈ b.jobs, c.blockedBy ≠ [] →
        p.tryAdd = true ∧ ∀ x ∈ c.blockedBy, x ∈ b.jobs.map (·.id)) := by
  intro b hb
  obtain ⟨⟨hne, -, hsz, htm, hblk⟩, hsub⟩ := (submitBatches_spec p depth dryRun out cands env hnd).1 b hb
  refine ⟨hne, hsub, hsz, htm, ?_⟩
  intro c hc hnb
  rcases hblk c hc with h | h
  · exact absurd h hnb
  · exact h

/-- at most per-node-batch-size jobs (size ≥ 1; the degenerate size 0 yields single-job batches) -/
theorem C07_batch_size_le (hnd : (cands.map (·.id)).Nodup) (htb : p.timeBased = false)
    (hbs : 1 ≤ p.batchSize) :
    ∀ b ∈ (submitBatches p depth dryRun out cands env).batches, b.jobs.length ≤ p.batchSize := by
  intro b hb
  have := (C07_batches_wellformed p depth dryRun out cands env hnd b hb).2.2.1 htb
  omega

/-- time-based: estimated minutes sum to at most walltime × processes-per-node -/
theorem C07_batch_time_le (hnd : (cands.map (·.id)).Nodup) (htb : p.timeBased = true)
    (wallSec procs : Nat) (hmax : p.maxTime = maxBatchTime wallSec procs) :
    ∀ b ∈ (submitBatches p depth dryRun out cands env).batches,
      (b.jobs.map (fun c => 60 * c.est)).sum ≤ wallSec * procs := by
  intro b hb
  have := (C07_batches_wellformed p depth dryRun out cands env hnd b hb).2.2.2.1 htb
  rw [hmax] at this
  simpa [maxBatchTime] using this

/-- a job with unfinished blockers is never batched when try-add-blocked is off -/
theorem C07_no_blocked_without_tryadd (hnd : (cands.map (·.id)).Nodup) (ht : p.tryAdd = false) :
    ∀ b ∈ (submitBatches p depth dryRun out cands env).batches, ∀ c ∈ b.jobs, c.blockedBy = [] := by
  intro b hb c hc
  by_cases h : c.blockedBy = []
  · exact h
  · have := ((C07_batches_wellformed p depth dryRun out cands env hnd b hb).2.2.2.2 c hc h).1
    rw [ht] at this; cases this

/-- no job is placed into two batches of one call (also the component core of C01) -/
theorem C07_batches_disjoint (hnd : (cands.map (·.id)).Nodup) :
    ((allJobs (submitBatches p depth dryRun out cands env).batches).map (·.id)).Nodup :=
  (submitBatches_spec p depth dryRun out cands env hnd).2

/-- dry-run: the same batches as a run in which every `sbatch` succeeds, and no `sbatch`
    outcome is consumed (nothing is handed to the HPC) -/
theorem C07_dryRun_same_batches (env' : List Bool) (htrue : ∀ e ∈ env', e = true)
    (hlen : cands.length + 1 ≤ env'.length) :
    (submitBatches p depth true out cands env).batches.map (·.jobs) =
      (submitBatches p depth false out cands env').batches.map (·.jobs) ∧
    (submitBatches p depth true out cands env).env = env := by
  unfold submitBatches
  have hl : (if sortByTime p.timeBased then sortByEst cands else cands).length = cands.length := by
    split
    · exact (sortByEst_perm cands).length_eq
    · rfl
  exact submitLoop_dryRun p depth _ out _ env env' [] [] [] htrue (by rw [hl]; exact hlen) rfl

/-- with validated estimates (`check_job_runtimes`: every estimate ≤ walltime ≤ walltime × procs)
    the `while` loop of `_submit_batches` terminates -/
theorem C07_fuel_suffices (hfit : ∀ c ∈ cands, p.timeBased = true → 60 * c.est ≤ p.maxTime) :
    (submitBatches p depth dryRun out cands env).diverged = false := by
  unfold submitBatches
  apply submitLoop_terminates
  · intro c hc
    split at hc
    · exact hfit c ((sortByEst_perm cands).mem_iff.1 hc)
    · exact hfit c hc
  · omega

/-- …and without that validation it need not: a candidate that does not fit an empty batch is
    handed back as "not checked" forever (DESIGN 9.9; excluded by `run_checks`). -/
theorem C07_unvalidated_estimate_diverges :
    (submitBatches { batchSize := 1, timeBased := true, tryAdd := false, maxTime := 60 } 5 false 0
      [{ id := 0, blockedBy := [], est := 2 }] [true, true]).diverged = true := by decide

/-- **The round's two hand-overs never share a job** (size-based batching, the default): a job `_submit_batches` reports
    as blocked is in none of the batches of that call — `Cluster._update_job_status`, which marks the batched jobs
    SUBMITTED and then asserts that every blocked job is still NOT_SUBMITTED, therefore accepts the round's output.
    Full statement (any batching) not proved: with time-based batching the cursor can roll back over a job in the blocked
    dictionary (`C07_rollback_hands_blocked_job_on`); there the job stays out of the later batches because its blockers
    sit in the earlier one — decided by the `batch` correspondence suite, which persists every round's output through the
    real `update_job_status`. -/
theorem C07_blocked_not_submitted_partial (hnd : (cands.map (·.id)).Nodup) (htb : p.timeBased = false) :
    ∀ c ∈ (submitBatches p depth dryRun out cands env).blocked,
      c.id ∉ (allJobs (submitBatches p depth dryRun out cands env).batches).map (·.id) := by
  intro c hc hmem
  obtain ⟨d, hd, hid⟩ := List.mem_map.1 hmem
  exact submitBatches_blocked_disjoint p depth dryRun out cands env hnd htb c hc d hd hid.symm

/-- **Two cooperating sites.** Whatever arguments `HpcSubmitter.run` builds for `Cluster.update_job_status` from one
    `_submit_batches` call — `submitted` = the batched jobs, `blocked` = the reported blocked jobs with whatever blocker
    sets — satisfy the two hypotheses of the status update's acceptance theorem that concern the submit phase
    (`UpdateArgsOK.subNodup` and the first clause of `UpdateArgsOK.blk`, `Proofs/ClusterStatus.lean`: under them and the
    state hypotheses `update_job_status` raises nothing, C09's `update_preserves`).  Size-based batching. -/
theorem C07_round_feeds_status_update_partial (hnd : (cands.map (·.id)).Nodup) (htb : p.timeBased = false)
    (a : Jade.Cluster.UpdateArgs)
    (hsub : a.submitted = (allJobs (submitBatches p depth dryRun out cands env).batches).map (·.id))
    (hblk : a.blocked.map (·.1) = (submitBatches p depth dryRun out cands env).blocked.map (·.id)) :
    a.submitted.Nodup ∧ ∀ b ∈ a.blocked, b.1 ∉ a.submitted := by
  refine ⟨hsub ▸ C07_batches_disjoint p depth dryRun out cands env hnd, ?_⟩
  intro b hb
  have hmem : b.1 ∈ (submitBatches p depth dryRun out cands env).blocked.map (·.id) := by
    rw [← hblk]; exact List.mem_map.2 ⟨b, hb, rfl⟩
  obtain ⟨c, hc, hid⟩ := List.mem_map.1 hmem
  rw [hsub, ← hid]
  exact C07_blocked_not_submitted_partial p depth dryRun out cands env hnd htb c hc

/-- `_make_batch` under ANY batching mode: a job reported as blocked has blockers, and either was looked at for good (index
    at or below the cursor) or has all its blockers in the batch just made (the roll-back case) — first step of the full
    statement, see DESIGN 0.9 -/
theorem C07_blocked_looked_at_or_doomed : type_of% @Jade.Batch.makeBatch_blocked_looked_at_or_doomed :=
  @Jade.Batch.makeBatch_blocked_looked_at_or_doomed

/-- **The round's two hand-overs never share a job — any batching mode** (size-based or time-based): a job
    `_submit_batches` reports as blocked is in none of the batches of that call.  (`Proofs/BatchBlockedAll.lean`: a job above
    the cursor in the blocked dictionary has all its blockers in the batch just made, and a candidate with a blocker in an
    earlier batch of the round is never placed.) -/
theorem C07_blocked_not_submitted (hnd : (cands.map (·.id)).Nodup) :
    ∀ c ∈ (submitBatches p depth dryRun out cands env).blocked,
      c.id ∉ (allJobs (submitBatches p depth dryRun out cands env).batches).map (·.id) := by
  intro c hc hmem
  obtain ⟨d, hd, hid⟩ := List.mem_map.1 hmem
  exact submitBatches_blocked_disjoint_all p depth dryRun out cands env hnd c hc d hd hid.symm

/-- …and therefore any `UpdateArgs` built from a round satisfy the submit-phase hypotheses of the status update's acceptance
    theorem (`UpdateArgsOK.subNodup`, first clause of `UpdateArgsOK.blk`), whatever the batching mode -/
theorem C07_round_feeds_status_update (hnd : (cands.map (·.id)).Nodup) (a : Jade.Cluster.UpdateArgs)
    (hsub : a.submitted = (allJobs (submitBatches p depth dryRun out cands env).batches).map (·.id))
    (hblk : a.blocked.map (·.1) = (submitBatches p depth dryRun out cands env).blocked.map (·.id)) :
    a.submitted.Nodup ∧ ∀ b ∈ a.blocked, b.1 ∉ a.submitted := by
  refine ⟨hsub ▸ C07_batches_disjoint p depth dryRun out cands env hnd, ?_⟩
  intro b hb
  have hmem : b.1 ∈ (submitBatches p depth dryRun out cands env).blocked.map (·.id) := by
    rw [← hblk]; exact List.mem_map.2 ⟨b, hb, rfl⟩
  obtain ⟨c, hc, hid⟩ := List.mem_map.1 hmem
  rw [hsub, ← hid]
  exact C07_blocked_not_submitted p depth dryRun out cands env hnd c hc

theorem C07_rollback_hands_blocked_job_on : type_of% @Jade.Batch.rollback_hands_blocked_job_on :=
  @Jade.Batch.rollback_hands_blocked_job_on

/-- the time-based round of that witness: job 2 is reported blocked (twice) and is in no batch -/
example : let r := (submitBatches { batchSize := 500, timeBased := true, tryAdd := true, maxTime := 1500 } 9 false 0
      [⟨0, [1], 10⟩, ⟨1, [], 10⟩, ⟨2, [0], 90⟩] [true, true, true])
    r.batches.map (·.jobs.map (·.id)) = [[1, 0]] ∧ r.blocked.map (·.id) = [2, 2] := by decide

/-- non-vacuity of `C07_blocked_not_submitted_partial`: a size-based round with a non-empty blocked list -/
example : let r := (submitBatches { batchSize := 2, timeBased := false, tryAdd := true, maxTime := 0 } 3 false 0
      [⟨0, [3], 5⟩, ⟨1, [], 5⟩, ⟨2, [], 5⟩, ⟨3, [], 5⟩] [true, true, true])
    r.batches.map (·.jobs.map (·.id)) = [[1, 2], [3]] ∧ r.blocked.map (·.id) = [0] := by decide

/-! ## Non-vacuity -/

example : (submitBatches { batchSize := 2, timeBased := false, tryAdd := true, maxTime := 0 } 3 false 0
    [⟨0, [], 5⟩, ⟨1, [], 5⟩, ⟨2, [0], 5⟩, ⟨3, [], 5⟩] [true, false, true]).batches.map (·.jobs.map (·.id))
    = [[0, 1], [3]] := by decide

example : (submitBatches { batchSize := 3, timeBased := false, tryAdd := true, maxTime := 0 } 3 false 0
    [⟨0, [1], 5⟩, ⟨1, [], 5⟩, ⟨2, [], 5⟩, ⟨3, [9], 5⟩] [true, true]).batches.map (·.jobs.map (·.id))
    = [[1, 2, 0]] := by decide

example : (submitBatches { batchSize := 500, timeBased := true, tryAdd := true, maxTime := 6000 } 9 false 0
    [⟨0, [1], 10⟩, ⟨1, [], 10⟩, ⟨2, [], 90⟩] [true, true, true]).batches.map (·.jobs.map (·.id))
    = [[1, 2]] := by decide

end Jade.C07
