import JadeModel.Proofs.Results

/-!
# C08 — results are collected exactly once under concurrent writers

Property theorems only.  `reach ops` is the state of `Model/Results.lean` after an *arbitrary*
list of operations (any number of appending runners, batches, rows, collecting / cancelling
submitter rounds, every interleaving at lock-operation and file-mutation granularity; a step
whose lock is taken is a stutter).  All statements are invariants proved by induction over `ops`.

`Jade.Gen.Results` (statement order of `_move_results`, `+=` in `_process_results`, which entry
points take the lock, header test, open modes, glob pattern, field list) is regenerated from the
working tree on every run; `C08_code_shape` lists what the proofs use of it.
-/

namespace Jade.C08
open Jade.Results Jade.Gen.Results

variable {ρ : Type}

/-- the state reached by `ops` from the initial one: no node file; the consolidated file created
    with its header (`created = true`, the normal flow) or not existing yet (`created = false`:
    the first submitter failed before `ResultsAggregator.create`) -/
abbrev reach (ops : List (Op ρ)) (created : Bool := true) : State ρ (List ρ) :=
  run (absOps ρ) (init (absOps ρ) created) ops

/-- the byte-level state reached by the same operations -/
abbrev reachBytes (ops : List (Op Row)) (created : Bool := true) : State Row (List Char) :=
  run byteOps (init byteOps created) ops

theorem reach_good (ops : List (Op ρ)) (created : Bool) : Good (reach ops created) :=
  good_run _ (good_init created) ops

/-! ## 0. What the proofs use of the source (regenerated on every run) -/

theorem C08_code_shape :
    moveOrder = [.read, .append, .remove] ∧ processAccumulates = true ∧
    processUnderLock = true ∧ moveUnderLock = true ∧ appendUnderLock = true ∧
    getResultsUnderLock = true ∧ createUnderLock = true ∧ releaseInFinally = true ∧
    appendTruncates = false ∧ processedTruncates = false ∧
    (∀ pos, headerCond pos = (pos == 0)) ∧
    headerWrites = [.header, .nl] ∧ rowWrites = [.text, .nl] ∧ createWrites = [.header, .nl] ∧
    (∀ pos, processedHeaderCond pos = (pos == 0)) ∧ processedHeaderWrites = [.header, .nl] ∧
    resultFields = [.name, .returnCode, .status, .execTime, .completionTime, .hpcJobId] ∧
    delimiter = ',' ∧ globVisible = true ∧
    runnerAppendsToNodeFile = true ∧ cancelToConsolidated = true ∧
    consIsNode = false ∧ nodeIsNode = true ∧ parseShapeOk = true := by
  refine ⟨rfl, rfl, rfl, rfl, rfl, rfl, rfl, rfl, rfl, rfl, fun _ => rfl, rfl, rfl, rfl, fun _ => rfl, rfl, rfl, rfl,
    ?_, rfl, rfl, rfl, rfl, rfl⟩
  decide

/-- a lock marker (`<file>.lock`) is never taken for a node result file by the glob, and the
    consolidated file's name is not a node file name -/
theorem C08_lock_files_not_collected :
    globSuffix.isSuffixOf (nodeSuffix ++ lockSuffix) = false ∧
    globPrefix.isPrefixOf consName = false ∧ lockSuffix ≠ [] := by decide

/-! ## 1. Lock discipline is an invariant of the model -/

/-- At most one process is inside a section of the consolidated lock, it is the recorded holder;
    a node-file lock is held exactly by the collector that is inside `_move_results` of that file
    (so by at most one), and only while it also holds the consolidated lock. -/
theorem C08_lock_discipline (ops : List (Op ρ)) (created : Bool) :
    let s := reach ops created
    (∀ p q : Pid, s.coll p ≠ .idle → s.coll q ≠ .idle → p = q) ∧
    (∀ p : Pid, s.consLock = some p ↔ s.coll p ≠ .idle) ∧
    (∀ (b : BatchId) (p : Pid), s.nodeLock b = some p ↔
        ∃ rest acc buf pc, s.coll p = .moving b rest acc buf pc) ∧
    (∀ (b c : BatchId) (p : Pid), s.nodeLock b = some p → s.nodeLock c = some p → b = c) ∧
    (∀ (b : BatchId) (p : Pid), s.nodeLock b = some p → s.consLock = some p) := by
  intro s
  have h : Good s := reach_good ops created
  refine ⟨?_, h.cons_lock, h.node_lock, ?_, ?_⟩
  · intro p q hp hq
    apply Classical.byContradiction
    intro hne
    have := h.others_idle hp (fun e : q = p => hne e.symm)
    exact hq this
  · intro b c p hb hc
    obtain ⟨r1, a1, f1, p1, e1⟩ := (h.node_lock b p).1 hb
    obtain ⟨r2, a2, f2, p2, e2⟩ := (h.node_lock c p).1 hc
    rw [e1] at e2
    cases e2
    rfl
  · intro b p hb
    obtain ⟨r1, a1, f1, p1, e1⟩ := (h.node_lock b p).1 hb
    exact (h.cons_lock p).2 (by simp [e1])

/-- An operation that needs a lock which is taken is a stutter: a runner cannot append to a node
    file while a collector is inside `_move_results` of it, and no second collection or cancellation
    starts while one collection is in progress. -/
theorem C08_blocked_is_stutter (s : State ρ (List ρ)) :
    (∀ (w : Wid) (b : BatchId) (r : ρ), (s.nodeLock b).isSome →
        step (absOps ρ) s (.append w b r) = s) ∧
    (∀ (p : Pid) (snap : List BatchId), s.consLock.isSome → step (absOps ρ) s (.beginCollect p snap) = s) ∧
    (∀ (p : Pid) (r : ρ), s.consLock.isSome → step (absOps ρ) s (.cancelAppend p r) = s) := by
  refine ⟨?_, ?_, ?_⟩
  · intro w b r hl
    simp only [step, doAppend_eq]
    cases hn : s.nodeLock b <;> simp_all
  · intro p snap hl
    simp only [step, doBegin_eq]
    cases hn : s.consLock <;> simp_all
    split <;> rfl
  · intro p r hl
    simp only [step, doCancel_eq]
    cases hn : s.consLock <;> simp_all
    split <;> rfl

/-- A collector is never kept waiting by a node-file lock: whenever it is between files with a file
    left in its snapshot, that file's lock is free and the file exists (so `lockFile` is not a
    stutter and cannot hit `FileNotFoundError`). -/
theorem C08_collector_never_blocked (ops : List (Op ρ)) (created : Bool) (p : Pid) (b : BatchId)
    (rest : List BatchId) (acc : List ρ) :
    let s := reach ops created
    s.coll p = .collecting (b :: rest) acc → s.nodeLock b = none ∧ (s.node b).isSome := by
  intro s hc
  have h : Good s := reach_good ops created
  have hp : s.coll p ≠ .idle := by simp [hc]
  refine ⟨?_, ?_⟩
  · cases hn : s.nodeLock b with
    | none => rfl
    | some q =>
      exfalso
      obtain ⟨r1, a1, f1, p1, e1⟩ := (h.node_lock b q).1 hn
      by_cases hq : q = p
      · subst hq; rw [hc] at e1; cases e1
      · have := h.others_idle hp hq
        rw [this] at e1; cases e1
  · have := (h.dir_iff b).1 ((h.snap_ok p _ _ hc).2 b (by simp))
    cases hn : s.node b with
    | none => exact absurd hn this
    | some f => rfl

/-! ## 2. Conservation: no row is lost or duplicated -/

/-- At every reachable state the rows ever written (by runners or by cancellation) are, as a
    multiset, exactly the rows in the consolidated file plus the rows in the node files — except
    for the rows of the one file a collector has just copied and not yet removed (`dup`), which
    are in both places while that file's lock is held. -/
theorem C08_conservation (ops : List (Op ρ)) (created : Bool) :
    let s := reach ops created
    (writtenRows s ++ canceledRows s ++ (active s).dup).Perm (consRows s ++ nodeRows s) ∧
    ((∀ b : BatchId, s.nodeLock b = none) →
      (writtenRows s ++ canceledRows s).Perm (consRows s ++ nodeRows s)) ∧
    (active s).inFlight = [] := by
  intro s
  have h : Good s := reach_good ops created
  refine ⟨h.conserve, ?_, ?_⟩
  · intro hfree
    have hd : (active s).dup = [] := by
      cases ha : active s with
      | idle => rfl
      | collecting _ _ => rfl
      | moving b rest acc buf pc =>
        exfalso
        simp only [active] at ha
        split at ha
        · next p hp =>
          have := (h.node_lock b p).2 ⟨rest, acc, buf, pc, ha⟩
          rw [hfree b] at this
          cases this
        · cases ha
    have := h.conserve
    rwa [hd, List.append_nil] at this
  · cases ha : active s with
    | idle => rfl
    | collecting _ _ => rfl
    | moving b rest acc buf pc =>
      simp only [active] at ha
      split at ha
      · next p hp =>
        obtain ⟨-, -, -, hpc⟩ := h.moving_ok p b rest acc buf pc ha
        rcases hpc with rfl | rfl <;> rfl
      · cases ha

/-- No row is ever in no file: the source is removed only after the copy. -/
theorem C08_no_loss (ops : List (Op ρ)) (created : Bool) (r : ρ) :
    let s := reach ops created
    r ∈ writtenRows s ++ canceledRows s → r ∈ consRows s ++ nodeRows s := by
  intro s hr
  have h : Good s := reach_good ops created
  exact h.conserve.mem_iff.1 (List.mem_append_left _ hr)

/-! ## 3. Every row is reported to exactly one submitter round -/

/-- rows in node files that no collection has copied yet -/
def pending (s : State ρ (List ρ)) : List ρ :=
  match active s with
  | .moving b _ _ _ pc =>
    if copied pc && !removed pc then (s.dir.erase b).flatMap (fun c => (s.node c).getD [])
    else nodeRows s
  | _ => nodeRows s

/-- (i) The consolidated file is exactly the cancel-appended rows plus the rows moved in by
    collections.  (ii) The rows moved in by collections are exactly the concatenation of the return
    values of the finished `process_results()` calls plus the rows the collection in progress will
    return.  (iii) Hence every row written by a runner is, exactly once, in the return value of one
    finished collection, or held by the collection in progress, or still pending in a node file. -/
theorem C08_reported_once (ops : List (Op ρ)) (created : Bool) :
    let s := reach ops created
    (consRows s).Perm (canceledRows s ++ movedRows s) ∧
    (movedRows s).Perm (returnedRows s ++ (active s).held) ∧
    (writtenRows s).Perm (returnedRows s ++ (active s).held ++ pending s) := by
  intro s
  have h : Good s := reach_good ops created
  refine ⟨h.consolidated, h.reported, ?_⟩
  have h1 := h.conserve
  have h2 := h.consolidated
  have h3 := h.reported
  have h4 : (nodeRows s).Perm ((active s).dup ++ pending s) := by
    unfold pending
    cases ha : active s with
    | idle => simp [Coll.dup]
    | collecting _ _ => simp [Coll.dup]
    | moving b rest acc buf pc =>
      simp only [Coll.dup]
      split
      · simp only [active] at ha
        split at ha
        · next p hp =>
          obtain ⟨-, -, hnode, -⟩ := h.moving_ok p b rest acc buf pc ha
          have hb : b ∈ s.dir := (h.dir_iff b).2 (by simp [hnode])
          have := flatMap_erase_perm s.dir (fun c => (s.node c).getD []) (fun c => (s.node c).getD []) b
            h.dir_nodup hb (fun _ _ => rfl)
          simpa [nodeRows, hnode] using this
        · cases ha
      · simp
  classical
  rw [List.perm_iff_count] at h1 h2 h3 h4 ⊢
  intro a
  have := h1 a; have := h2 a; have := h3 a; have := h4 a
  simp only [List.count_append] at *
  omega

/-- The collection of a node file never fails: the file cannot vanish between the glob and the
    move (`FileNotFoundError` is unreachable), so no `process_results()` call raises and loses the
    rows it has already moved. -/
theorem C08_no_collector_raises (ops : List (Op ρ)) (created : Bool) :
    ∀ x ∈ (reach ops created).returned, x.2 ≠ .raised :=
  (reach_good ops created).no_raise

/-! ## 4. Rows are moved verbatim and stay with their batch -/

theorem C08_no_misattribution (ops : List (Op ρ)) (created : Bool) :
    let s := reach ops created
    (∀ (b : BatchId) (f : List ρ) (r : ρ), s.node b = some f → r ∈ f → ∃ w, (w, b, r) ∈ s.written) ∧
    (∀ x ∈ s.moved, ∀ r ∈ x.2.2, ∃ w, (w, x.2.1, r) ∈ s.written) ∧
    (∀ r ∈ consRows s, r ∈ canceledRows s ∨ ∃ w b, (w, b, r) ∈ s.written) ∧
    (∀ r ∈ returnedRows s, ∃ w b, (w, b, r) ∈ s.written) := by
  intro s
  have h : Good s := reach_good ops created
  have hmoved : ∀ r ∈ movedRows s, ∃ w b, (w, b, r) ∈ s.written := by
    intro r hr
    simp only [movedRows, List.mem_flatMap] at hr
    obtain ⟨x, hx, hrx⟩ := hr
    obtain ⟨w, hw⟩ := h.moved_attr x hx r hrx
    exact ⟨w, x.2.1, hw⟩
  refine ⟨h.attributed, h.moved_attr, ?_, ?_⟩
  · intro r hr
    rcases List.mem_append.1 (h.consolidated.mem_iff.1 hr) with hc | hm
    · exact Or.inl hc
    · exact Or.inr (hmoved r hm)
  · intro r hr
    exact hmoved r (h.reported.mem_iff.2 (List.mem_append_left _ hr))

/-! ## 5. Byte level: the files always parse, header exactly once -/

theorem C08_parse_render (rows : List Row) (h : ∀ r ∈ rows, r.Legal) :
    parseFile (renderFile rows) = .ok rows :=
  parse_render rows h

/-- The header is emitted iff the file is absent (or empty), for BOTH kinds of file:
    `_append_result` on a node file (also when it is re-created after a collection removed it) or on
    the consolidated file (cancellation), and `_append_processed_results` on the consolidated file
    (when the first submitter failed before creating it). -/
theorem C08_header_iff_absent (rows more : List Row) (r : Row) :
    byteOps.appendRow none r = renderFile [r] ∧
    byteOps.appendRow (some []) r = renderFile [r] ∧
    byteOps.appendRow (some (renderFile rows)) r = renderFile (rows ++ [r]) ∧
    byteOps.appendRows none more = renderFile more ∧
    byteOps.appendRows (some []) more = renderFile more ∧
    byteOps.appendRows (some (renderFile rows)) more = renderFile (rows ++ more) ∧
    byteOps.create = renderFile [] := by
  refine ⟨?_, ?_, ?_, ?_, ?_, ?_, ?_⟩
  · simpa [absOps, flags_eq] using byte_appendRow none r
  · have := byte_appendRow none r
    simpa [absOps, flags_eq, byteOps, openedBytes] using this
  · simpa [absOps, flags_eq] using byte_appendRow (some rows) r
  · simpa [absOps, flags_eq] using byte_appendRows none more
  · have := byte_appendRows none more
    simpa [absOps, flags_eq, byteOps, openedBytes] using this
  · simpa [absOps, flags_eq] using byte_appendRows (some rows) more
  · simpa [absOps] using byte_create

/-- For every interleaving of operations with legal rows, from either initial state, the bytes of
    every file are `renderFile` of the rows the row-level model holds for it (and a file is absent
    at the byte level iff it is absent at the row level). -/
theorem C08_bytes_refine (ops : List (Op Row)) (created : Bool) (hops : ∀ op ∈ ops, op.Legal) :
    reachBytes ops created = renderState (reach ops created) := by
  have := render_run (init (absOps Row) created) ops hops (legalFiles_init created)
  rwa [render_init] at this

/-- … so the consolidated file and every node file parse at every instant, to exactly those rows. -/
theorem C08_files_parse (ops : List (Op Row)) (created : Bool) (hops : ∀ op ∈ ops, op.Legal) :
    (reachBytes ops created).cons = ((reach ops created).cons).map renderFile ∧
    (∀ t, (reachBytes ops created).cons = some t → parseFile t = .ok (consRows (reach ops created))) ∧
    ∀ b : BatchId, (reachBytes ops created).node b = ((reach ops created).node b).map renderFile ∧
      ∀ f, (reach ops created).node b = some f → parseFile (renderFile f) = .ok f := by
  rw [C08_bytes_refine ops created hops]
  have hl := legal_run (init (absOps Row) created) ops hops (legalFiles_init created) (legalHist_init created)
  have hm := C08_no_misattribution ops created
  refine ⟨rfl, ?_, fun b => ⟨rfl, fun f hf => parse_render f (hl.1 b f hf)⟩⟩
  intro t ht
  have hc : ((reach ops created).cons).map renderFile = some t := ht
  cases hcons : (reach ops created).cons with
  | none => rw [hcons] at hc; cases hc
  | some rows =>
    rw [hcons] at hc
    simp only [Option.map_some, Option.some.injEq] at hc
    subst hc
    have hrows : consRows (reach ops created) = rows := by simp [consRows, hcons]
    rw [hrows]
    apply parse_render
    intro r hr
    rcases hm.2.2.1 r (hrows ▸ hr) with hc | ⟨w, b, hw⟩
    · simp only [canceledRows, List.mem_map] at hc
      obtain ⟨x, hx, rfl⟩ := hc
      exact hl.2.2 x hx
    · exact hl.2.1 _ hw

/-! ## 6. Final state -/

/-- When no node file exists and no collection is in progress, the consolidated file holds every
    row ever written, each once, and every runner-written row has been returned by exactly one
    finished `process_results()` call. -/
theorem C08_final (ops : List (Op ρ)) (created : Bool) :
    let s := reach ops created
    (∀ b : BatchId, s.node b = none) → s.consLock = none →
      (consRows s).Perm (writtenRows s ++ canceledRows s) ∧ (writtenRows s).Perm (returnedRows s) := by
  intro s hnone hl
  have h : Good s := reach_good ops created
  have hdir : s.dir = [] := by
    apply List.eq_nil_iff_forall_not_mem.2
    intro b hb
    exact (h.dir_iff b).1 hb (hnone b)
  have ha : active s = .idle := by simp [active, hl]
  have h1 := h.conserve
  have h2 := h.consolidated
  have h3 := h.reported
  simp only [ha, Coll.dup, Coll.held, nodeRows, hdir, List.flatMap_nil, List.append_nil] at h1 h3
  refine ⟨h1.symm, ?_⟩
  classical
  rw [List.perm_iff_count] at h1 h2 h3 ⊢
  intro a
  have := h1 a; have := h2 a; have := h3 a
  simp only [List.count_append] at *
  omega

/-! ## 7. Non-vacuity: concrete interleavings (rows are numbers) -/

/-- two runners (0 on batch 1, 1 on batch 2), two collectors (0, 1); runner 0 races collector 0 on
    batch 1 (one append lands before the lock, one is blocked by it, one re-creates the file after
    its removal); collector 1 is blocked until collector 0 ends, then picks up the re-created file. -/
def demo : List (Op Nat) :=
  [.append 0 1 10, .beginCollect 0 [1], .append 0 1 11, .lockFile 0, .append 0 1 12, .moveStep 0,
   .append 1 2 20, .beginCollect 1 [1, 2], .moveStep 0, .append 0 1 13, .cancelAppend 1 99, .endCollect 0,
   .beginCollect 1 [2, 1], .cancelAppend 0 77, .lockFile 1, .moveStep 1, .moveStep 1, .lockFile 1, .moveStep 1,
   .moveStep 1, .endCollect 1, .cancelAppend 0 77]

example : (reach demo).cons = some [10, 11, 20, 13, 77] := by decide
/-- the same when the consolidated file did not exist at the start: the first move creates it -/
example : (reach demo false).cons = some [10, 11, 20, 13, 77] ∧ (reach (demo.take 5) false).cons = none := by decide
example : (reach demo).returned = [(0, .rows [10, 11]), (1, .rows [20, 13])] := by decide
example : (reach demo).dir = [] ∧ (reach demo).consLock = none := by decide
example : writtenRows (reach demo) = [10, 11, 20, 13] := by decide
/-- mid-way: the copied-but-not-yet-removed file is in both places -/
example : (active (reach (demo.take 7))).dup = [10, 11] ∧ (reach (demo.take 7)).cons = some [10, 11] ∧
    (reach (demo.take 7)).node 1 = some [10, 11] := by decide
/-- the file re-created after its removal starts afresh -/
example : (reach (demo.take 10)).node 1 = some [13] ∧ (reach (demo.take 10)).dir = [2, 1] := by decide
/-- byte level: the re-created node file carries its own header, the consolidated file has one -/
def row (n : Nat) : Row :=
  ⟨['j', Char.ofNat (48 + n)], ['0'], ['f'], ['1', '.', '5'], ['2', '.', '5'], ['N', 'o', 'n', 'e']⟩
def demoBytes : List (Op Row) :=
  [.append 0 1 (row 1), .beginCollect 0 [1], .lockFile 0, .moveStep 0, .moveStep 0, .append 0 1 (row 2),
   .endCollect 0]
example : (reachBytes demoBytes).node 1 = some (renderFile [row 2]) ∧
    (reachBytes demoBytes).cons = some (renderFile [row 1]) := by decide
/-- … also when the consolidated file is created by the move itself (header, then the row) -/
example : (reachBytes demoBytes false).cons = some (renderFile [row 1]) ∧
    (reachBytes (demoBytes.take 3) false).cons = none := by decide


/-- What the code does when a node file vanishes between the glob and the move (unreachable in
    the model — `C08_no_collector_raises`, `C08_collector_never_blocked` — it needs an actor outside
    it): `FileNotFoundError` leaves `process_results`, both locks are released by the `finally`s, and
    the rows this call had already moved (here `7`) are in the consolidated file but returned to
    no round. -/
def vanished : State Nat (List Nat) :=
  { init (absOps Nat) with
    cons := some [7], consLock := some 0, written := [(0, 4, 7)], moved := [(0, 4, [7])],
    coll := fun p => if p = 0 then .collecting [5] [7] else .idle }

example : (step (absOps Nat) vanished (.lockFile 0)).returned = [(0, .raised)] ∧
    (step (absOps Nat) vanished (.lockFile 0)).consLock = none ∧
    (step (absOps Nat) vanished (.lockFile 0)).cons = some [7] ∧
    returnedRows (step (absOps Nat) vanished (.lockFile 0)) = [] := by decide

end Jade.C08
