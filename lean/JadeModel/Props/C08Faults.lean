import JadeModel.Proofs.SystemGen
import JadeModel.Props.C08
import JadeModel.Proofs.ResultsFaultOnce
import JadeModel.Proofs.ResultsFaultBytes

/-!
# C08 under injected I/O errors and kills (the part of C11 that concerns result files)

`reachX ops` is the state of `Model/ResultsFault.lean` after an *arbitrary* list of operations of
the base model (`Props/C08.lean`) interleaved with: arming ONE `OSError` for a collector's next read
of a node file / append-open or write of the consolidated file / `os.remove` of a node file (the real
propagation follows: both locks released by the `finally`s, `process_results` raises, the round
returns nothing); killing a collector at any yield point or inside a step (after the append-open,
right after the removal: no `finally` runs, the markers stay); breaking the stale markers of dead
processes.  All statements are invariants proved by induction over `ops`, about the model whose
statement order inside `_move_results` (`Gen.moveOrder`: copy before removal) is regenerated from the
source on every run: with the removal before the copy `C08_fault_shape` and the lemmas below it do
not build.

What survives (at-least-once): no row is ever lost, whatever failed or died, no row is ever in
flight (removed from its node file but not yet in the consolidated file), and no row is ever reported
twice (an aborted or killed round returns nothing).  What does not survive, on the
unchanged code: a death between copy and removal, or a failed `os.remove`, leaves the rows of that
one node file in both files, and a later round collects them again; an aborted round returns
nothing, so the rows it had already moved are reported to no round (`demoAbort`).
-/

namespace Jade.C08
open Jade.Results Jade.Gen.Results

variable {ρ : Type}

abbrev reachX (ops : List (OpX ρ)) (created : Bool := true) : XState ρ (List ρ) :=
  runX (absOpsX ρ) (initX (absOpsX ρ) created) ops

abbrev reachBytesX (ops : List (OpX Row)) (created : Bool := true) : XState Row (List Char) :=
  runX byteOpsX (initX byteOpsX created) ops

theorem reachX_safe (ops : List (OpX ρ)) (created : Bool) : Safe (reachX ops created).base :=
  safe_runX _ (safe_init created) ops

/-- what the fault proofs use of the source (regenerated on every run): the copy precedes the removal,
    the consolidated file is opened for append, both sections release their lock in `finally` -/
theorem C08_fault_shape :
    moveOrder = [.read, .append, .remove] ∧ processedTruncates = false ∧ appendTruncates = false ∧
    moveUnderLock = true ∧ processUnderLock = true ∧ appendUnderLock = true ∧ releaseInFinally = true :=
  ⟨rfl, rfl, rfl, rfl, rfl, rfl, rfl⟩

/-- **No row is ever lost, whatever failed or died**: at every reachable state of every history with
    injected errors, kills and broken markers, every row ever appended by a runner or by a cancellation
    is in the consolidated file or in the node file of some batch. -/
theorem C08_no_loss_under_faults (ops : List (OpX ρ)) (created : Bool) (r : ρ) :
    let s := (reachX ops created).base
    r ∈ writtenRows s ++ canceledRows s → r ∈ consRows s ++ nodeRows s := by
  intro s hr
  have h : Safe s := reachX_safe ops created
  rcases h.kept r hr with hc | ⟨b, f, hf, hrf⟩
  · exact List.mem_append_left _ hc
  · refine List.mem_append_right _ ?_
    simp only [nodeRows, List.mem_flatMap]
    exact ⟨b, (h.dir_iff b).2 (by simp [hf]), by simp [hf, hrf]⟩

/-- … the same, naming the file -/
theorem C08_no_loss_under_faults_file (ops : List (OpX ρ)) (created : Bool) (r : ρ) :
    let s := (reachX ops created).base
    r ∈ writtenRows s ++ canceledRows s →
      r ∈ consRows s ∨ ∃ (b : BatchId) (f : List ρ), s.node b = some f ∧ r ∈ f :=
  fun hr => (reachX_safe ops created).kept r hr

/-- A node file is removed only after its rows are in the consolidated file, also on every error path
    and at every point a process can die: a collector (alive or dead) inside `_move_results` of batch `b`
    holds that file's lock; until the copy the file is exactly what it read; once the removal has
    happened the rows are in the consolidated file; no rows are ever in flight. -/
theorem C08_removed_only_after_copied (ops : List (OpX ρ)) (created : Bool) (p : Pid) (b : BatchId)
    (rest : List BatchId) (acc buf : List ρ) (pc : List MoveAct) :
    let s := (reachX ops created).base
    s.coll p = .moving b rest acc buf pc →
      s.nodeLock b = some p ∧
      (removed pc = false → s.node b = some buf) ∧
      (copied pc = true → ∀ r ∈ buf, r ∈ consRows s) ∧
      (Coll.moving b rest acc buf pc).inFlight = [] := by
  intro s hc
  obtain ⟨hl, hpc⟩ := (reachX_safe ops created).moving p b rest acc buf pc hc
  refine ⟨hl, ?_⟩
  rcases hpc with ⟨rfl, hn⟩ | ⟨rfl, hn, hsub⟩ | ⟨rfl, hsub⟩
  · exact ⟨fun _ => hn, fun hcp => by simp [copied] at hcp, rfl⟩
  · exact ⟨fun _ => hn, fun _ => hsub, rfl⟩
  · exact ⟨fun hrm => by simp [removed] at hrm, fun _ => hsub, rfl⟩

/-- An injected error leaves through the real `finally`s: after a failed read / append-open / write /
    removal the collector is out of its call (`process_results` raised: one more `raised` entry), both
    its locks are free again, every node file is as before and the consolidated file holds the same
    rows (a failed write left at most an empty new file). -/
theorem C08_injected_error_propagates (x : XState ρ (List ρ)) (p : Pid) (f : FaultAt) (y : XState ρ (List ρ))
    (b : BatchId) (rest : List BatchId) (acc buf : List ρ) (pc : List MoveAct)
    (hc : x.base.coll p = .moving b rest acc buf pc)
    (hy : moveArmed (absOpsX ρ) x p (.fail f) = some y) :
    y.base.coll p = .idle ∧ y.base.consLock = none ∧ y.base.nodeLock b = none ∧
    y.base.returned = x.base.returned ++ [(p, .raised)] ∧
    y.base.node = x.base.node ∧ consRows y.base = consRows x.base ∧ y.armed p = none := by
  unfold moveArmed at hy
  dsimp only at hy
  rw [hc] at hy
  cases pc with
  | nil => cases f <;> simp at hy
  | cons a pc =>
    cases a <;> cases f <;> simp at hy <;> subst hy <;>
      simp [raiseOut_eq, State.setColl, State.setNodeLock, XState.disarm, consRows, opened_rows]

/-- … and a failed read of the node file (`_get_results`): the lock just taken is released again, nothing
    on disk has changed, the round raises. -/
theorem C08_failed_read_propagates (x : XState ρ (List ρ)) (p : Pid) (b : BatchId) (rest : List BatchId)
    (acc : List ρ) (hc : x.base.coll p = .collecting (b :: rest) acc) (hl : x.base.nodeLock b = none) :
    (lockFailRead x p).base.coll p = .idle ∧ (lockFailRead x p).base.consLock = none ∧
    (lockFailRead x p).base.nodeLock b = none ∧
    (lockFailRead x p).base.returned = x.base.returned ++ [(p, .raised)] ∧
    (lockFailRead x p).base.node = x.base.node ∧ (lockFailRead x p).base.cons = x.base.cons ∧
    (lockFailRead x p).armed p = none := by
  rw [lockFailRead_eq]
  simp [hc, hl, raiseOut_eq, State.setColl, State.setNodeLock, XState.disarm]

/-- **No row is ever reported twice, whatever failed or died**: the rows returned by all finished
    `process_results()` calls, the rows the round in progress (alive or dead) has taken out of node files and
    not yet returned, and the rows still in node files are distinct occurrences of rows written by runners.
    (An aborted or killed round drops its claim: those rows are then reported to no round.) -/
theorem C08_reported_at_most_once_under_faults [DecidableEq ρ] (ops : List (OpX ρ)) (created : Bool) (a : ρ) :
    let s := (reachX ops created).base
    (returnedRows s).count a + (active s).claimed.count a + (nodeRows s).count a ≤ (writtenRows s).count a ∧
    (returnedRows s).count a ≤ (writtenRows s).count a := by
  intro s
  have h : Once s := once_runX _ (once_init created) ops
  have := h.atMost a
  exact ⟨this, by omega⟩

/-- Also with dead processes and stale markers around, at most one collection is in progress at any time
    (alive or dead), and it is the holder of the consolidated lock: a dead collector blocks every other
    round until its marker is broken, and breaking it ends its round for good. -/
theorem C08_one_collection_under_faults [DecidableEq ρ] (ops : List (OpX ρ)) (created : Bool) :
    let s := (reachX ops created).base
    (∀ p : Pid, s.consLock = some p ↔ s.coll p ≠ .idle) ∧
    (∀ p q : Pid, s.coll p ≠ .idle → s.coll q ≠ .idle → p = q) := by
  intro s
  have h : Once s := once_runX _ (once_init created) ops
  refine ⟨h.cons_lock, ?_⟩
  intro p q hp hq
  apply Classical.byContradiction
  intro hne
  exact hq (h.others_idle hp (fun e : q = p => hne e.symm))

/-- A dead process does nothing: every operation of a killed collector is a stutter. -/
theorem C08_dead_does_nothing (x : XState ρ (List ρ)) (op : Op ρ) (p : Pid) (hp : op.pid = some p)
    (hd : p ∈ x.dead) : stepX (absOpsX ρ) x (.base op) = x :=
  stepBase_dead _ x op p hp hd

/-- A history without fault operations runs exactly the base model: everything `Props/C08.lean` proves
    about `reach` / `reachBytes` holds for what the driver executes on such histories. -/
theorem C08_faultfree_is_base (ops : List (Op ρ)) (created : Bool) :
    (reachX (ops.map .base) created).base = reach ops created ∧
    (reachX (ops.map .base) created).dead = [] := by
  have := runX_base (absOpsX ρ) (initX (absOpsX ρ) created) ops rfl (fun _ => rfl)
  simp only [reachX, this]
  exact ⟨rfl, rfl⟩

theorem C08_faultfree_is_base_bytes (ops : List (Op Row)) (created : Bool) :
    (reachBytesX (ops.map .base) created).base = reachBytes ops created := by
  have := runX_base byteOpsX (initX byteOpsX created) ops rfl (fun _ => rfl)
  simp only [reachBytesX, this]
  rfl

/-! ## Byte level under faults (consolidated file created at the start: the normal flow) -/

/-- For every history with injected errors, kills and broken markers over legal rows, starting with the
    consolidated file created, the bytes of every file are `renderFile` of the rows the row-level model
    holds for it: what the driver executes (`byteOpsX`) is what the theorems above speak about.
    (Without the consolidated file a failed write / a death after the append-open leaves a 0-byte file,
    which has no row-level counterpart: that case is tied by the correspondence suite only.) -/
theorem C08_bytes_refine_under_faults (ops : List (OpX Row)) (hops : ∀ op ∈ ops, op.Legal) :
    reachBytesX ops true = renderX (reachX ops true) := by
  have := (render_runX (initX (absOpsX Row) true) bytesOk_initX ops hops).1
  rwa [render_initX] at this

/-- … so the consolidated file and every node file parse at every instant, to exactly those rows, whatever
    failed or died. -/
theorem C08_files_parse_under_faults (ops : List (OpX Row)) (hops : ∀ op ∈ ops, op.Legal) :
    (∃ rows : List Row, (reachX ops true).base.cons = some rows ∧
      (reachBytesX ops true).base.cons = some (renderFile rows) ∧ parseFile (renderFile rows) = .ok rows) ∧
    ∀ b : BatchId, (reachBytesX ops true).base.node b = ((reachX ops true).base.node b).map renderFile ∧
      ∀ f, (reachX ops true).base.node b = some f → parseFile (renderFile f) = .ok f := by
  rw [C08_bytes_refine_under_faults ops hops]
  obtain ⟨hb, hr⟩ := all_runX (initX (absOpsX Row) true) (safe_init true) bytesOk_initX (rowsLegal_init true) ops hops
  refine ⟨?_, fun b => ⟨rfl, fun f hf => parse_render f (hb.legal b f hf)⟩⟩
  obtain ⟨rows, hrows⟩ := Option.isSome_iff_exists.1 hb.cons
  refine ⟨rows, hrows, ?_, ?_⟩
  · show ((reachX ops true).base.cons).map renderFile = _
    rw [hrows]; rfl
  · apply parse_render
    intro r hr'
    exact hr.cons r (by simpa [consRows, hrows] using hr')

/-! ## Non-vacuity: concrete faulty histories (rows are numbers) -/

section Demo
open OpX

/-- collector 0 copies batch 1 and is killed before the removal; its steps do nothing any more; collector 1
    is blocked by the stale marker until it is broken, then collects the file again -/
def demoKill : List (OpX Nat) :=
  [base (.append 0 1 10), base (.beginCollect 0 [1]), base (.lockFile 0), base (.moveStep 0), kill 0,
   base (.moveStep 0), base (.beginCollect 1 [1]), breakLocks, base (.beginCollect 1 [1]), base (.lockFile 1),
   base (.moveStep 1), base (.moveStep 1), base (.endCollect 1)]

example : (reachX (demoKill.take 7)).base.consLock = some 0 ∧ (reachX (demoKill.take 7)).base.nodeLock 1 = some 0 ∧
    (reachX (demoKill.take 7)).base.node 1 = some [10] ∧ (reachX (demoKill.take 7)).base.cons = some [10] := by decide
/-- … j1 is in the consolidated file twice, but reported once -/
example : returnedRows (reachX demoKill).base = [10] ∧ writtenRows (reachX demoKill).base = [10] := by decide
example : (reachX demoKill).base.cons = some [10, 10] ∧ (reachX demoKill).base.dir = [] ∧
    (reachX demoKill).base.returned = [(1, .rows [10])] ∧ (reachX demoKill).dead = [0] ∧
    (reachX demoKill).base.consLock = none := by decide

/-- two files in one round; the append-open for the second one fails: the round raises, both locks are
    free, the second file is untouched, the rows of the first one are in the consolidated file and were
    returned to no round -/
def demoAbort : List (OpX Nat) :=
  [base (.append 0 1 10), base (.append 1 2 20), base (.beginCollect 0 [1, 2]), base (.lockFile 0), base (.moveStep 0),
   base (.moveStep 0), arm 0 (.fail .open), base (.lockFile 0), base (.moveStep 0)]

example : (reachX demoAbort).base.cons = some [10] ∧ (reachX demoAbort).base.node 2 = some [20] ∧
    (reachX demoAbort).base.returned = [(0, .raised)] ∧ (reachX demoAbort).base.consLock = none ∧
    (reachX demoAbort).base.nodeLock 2 = none ∧ returnedRows (reachX demoAbort).base = [] := by decide

/-- a failed write / a death after the append-open creates the consolidated file (empty) when it did not exist -/
example : (reachX [base (.append 0 1 10), base (.beginCollect 0 [1]), base (.lockFile 0), arm 0 (.fail .write),
      base (.moveStep 0)] false).base.cons = some [] ∧
    (reachX [base (.append 0 1 10), base (.beginCollect 0 [1]), base (.lockFile 0), arm 0 (.die .opened),
      base (.moveStep 0)] false).dead = [0] := by decide

/-- a failed `os.remove`: the rows stay in both files, the round raises -/
example : (reachX [base (.append 0 1 10), base (.beginCollect 0 [1]), base (.lockFile 0), base (.moveStep 0),
      arm 0 (.fail .remove), base (.moveStep 0)]).base.cons = some [10] ∧
    (reachX [base (.append 0 1 10), base (.beginCollect 0 [1]), base (.lockFile 0), base (.moveStep 0),
      arm 0 (.fail .remove), base (.moveStep 0)]).base.node 1 = some [10] := by decide

/-- a death right after the removal: the node lock stays, the rows are in the consolidated file only -/
example : (reachX [base (.append 0 1 10), base (.beginCollect 0 [1]), base (.lockFile 0), base (.moveStep 0),
      arm 0 (.die .removed), base (.moveStep 0)]).base.nodeLock 1 = some 0 ∧
    (reachX [base (.append 0 1 10), base (.beginCollect 0 [1]), base (.lockFile 0), base (.moveStep 0),
      arm 0 (.die .removed), base (.moveStep 0)]).base.node 1 = none ∧
    (reachX [base (.append 0 1 10), base (.beginCollect 0 [1]), base (.lockFile 0), base (.moveStep 0),
      arm 0 (.die .removed), base (.moveStep 0)]).base.cons = some [10] := by decide

/-- byte level: an empty consolidated file left by a failed write gets its header with the next rows -/
example : (reachBytesX [base (.append 0 1 (row 1)), base (.beginCollect 0 [1]), base (.lockFile 0),
      arm 0 (.fail .write), base (.moveStep 0)] false).base.cons = some [] ∧
    (reachBytesX [base (.append 0 1 (row 1)), base (.beginCollect 0 [1]), base (.lockFile 0),
      arm 0 (.fail .write), base (.moveStep 0), base (.beginCollect 1 [1]), base (.lockFile 1), base (.moveStep 1)]
      false).base.cons = some (renderFile [row 1]) := by decide

end Demo

end Jade.C08
