import JadeModel.Proofs.SystemStatusRun
import JadeModel.Props.ClusterStatus
import JadeModel.Props.C10

/-!
# C09 — the persisted status is consistent and only moves forward

Two levels.

**System level** (`Jade.Sys`, the model validated by history replay of real multi-process executions).
`s.disk` is the abstract content of `cluster_config.json` + `job_status.json`; every op of the model is one
lock section (or one external command), so every state of a run is an instant at which the cluster lock is
free and the status can be read.  The model has no resubmission op: all its histories lie "between
resubmissions".

* ALL op sequences (every schedule of submitter rounds, cancel-jobs, node runners; kills, exceptions, lost
  batches, failed sbatch, a collector dying mid-move, a crash between the two file writes):
  `C09_forward_step` / `C09_forward` (per job: state rank never decreases, remaining blockers only shrink;
  both counters never decrease; complete and canceled are sticky), `C09_blockers_cleared` (a submitted or
  done job lists no blockers), `C09_holder_copy_current` (the auxiliary invariant: the role holder's in-memory
  copy is never behind the disk; only the holder writes).
* Histories without the op `persistJobs` (all other faults allowed): `C09_done_has_result` — every job
  marked done has a recorded result.  Over all ops the statement is FALSE in the model (`persistJobs` is
  accepted from any failed round, also one that failed between deciding a cancellation and appending its row:
  `done_without_result_witness`); `C09_done_has_result_partial` is the all-ops statement with that exception
  spelled out.
* Fault-free op sequences (`plainOps`: no `Op.isFault`): `C09_counters_exact` (completed = #done,
  submitted = #(submitted ∨ done)), `C09_counter_order` (completed ≤ submitted ≤ total).  With a crash between
  the two file writes the counters are ahead of the job states until the second write happens
  (`torn_update_witness`); `C09_torn_update_completed` / `C09_counters_after_completed_torn_update`: once it
  has happened the files are exactly what an uninterrupted `update_job_status` writes.  For the other faults
  (kill, exception, lost batch, failed sbatch, collector dying mid-move) exactness of the counters is not
  proved here (the direct oracle does not run in fault modes either).

**Cluster API level** (`Jade.Cluster`, the real arithmetic of `Cluster._update_job_status` and friends on the
four files, version numbers included): re-exported from `Jade.ClusterStatus` / `Jade.C10`.  Version numbers
are not part of the system model; "versions increase with every change" is proved there
(`C09_update_preserves`: `Mono` has `cfgChanged`/`jsChanged`, and the job-status version strictly increases;
`C09_versions_monotone`).  Resubmission: `C09_prepareResubmit_statusInv` and the proved counterexample
`C09_prepareResubmit_unselected_breaks_statusInv` (known finding, DESIGN 9.7).
-/

namespace Jade.C09
open Jade.Sys

/-! ## System level, all op sequences -/

/-- **Forward only, one event.**  In every reachable state, every accepted event — faults included —
    leaves each job's state at least as advanced, each remaining-blockers set a subset, both counters at
    least as large, and `is_complete` / `is_canceled` set if they were. -/
theorem C09_forward_step (sc : Scn) (ops : List Op) (s s' : Sys) (op : Op)
    (h : run (init sc) ops = some s) (hs : step s op = some s') : Fwd s.disk s'.disk := by
  have hi := statusAll_run ops (statusAll_init True sc) (tornOk_true ops) h
  exact fwd_step hi.gate hi.loc hs

/-- **Forward only, any continuation.** -/
theorem C09_forward (sc : Scn) (ops more : List Op) (s s' : Sys)
    (h : run (init sc) ops = some s) (hm : run s more = some s') : Fwd s.disk s'.disk :=
  fwd_run more (statusAll_run ops (statusAll_init True sc) (tornOk_true ops) h) hm

/-- a job's state only advances not_submitted → submitted → done -/
theorem C09_state_only_advances (sc : Scn) (ops more : List Op) (s s' : Sys)
    (h : run (init sc) ops = some s) (hm : run s more = some s') (j : JobId) :
    rank (s.disk.st j) ≤ rank (s'.disk.st j) :=
  (C09_forward sc ops more s s' h hm).rank_le j

/-- its remaining-blockers set only shrinks -/
theorem C09_blockers_only_shrink (sc : Scn) (ops more : List Op) (s s' : Sys)
    (h : run (init sc) ops = some s) (hm : run s more = some s') (j b : JobId) (hb : b ∈ s'.disk.blk j) :
    b ∈ s.disk.blk j :=
  (C09_forward sc ops more s s' h hm).blk j b hb

/-- counters never decrease -/
theorem C09_counters_never_decrease (sc : Scn) (ops more : List Op) (s s' : Sys)
    (h : run (init sc) ops = some s) (hm : run s more = some s') :
    s.disk.subCnt ≤ s'.disk.subCnt ∧ s.disk.doneCnt ≤ s'.disk.doneCnt :=
  ⟨(C09_forward sc ops more s s' h hm).sub, (C09_forward sc ops more s s' h hm).done⟩

/-- a complete submission stays complete (and a canceled one canceled) -/
theorem C09_complete_stays_complete (sc : Scn) (ops more : List Op) (s s' : Sys)
    (h : run (init sc) ops = some s) (hm : run s more = some s') :
    (s.disk.complete = true → s'.disk.complete = true) ∧ (s.disk.canceled = true → s'.disk.canceled = true) :=
  ⟨(C09_forward sc ops more s s' h hm).complete, (C09_forward sc ops more s s' h hm).canceled⟩

/-- the remaining-blockers set is empty once the job is submitted -/
theorem C09_blockers_cleared (sc : Scn) (ops : List Op) (s : Sys) (h : run (init sc) ops = some s)
    (j : JobId) (hj : s.disk.st j ≠ .ns) : s.disk.blk j = [] :=
  (statusAll_run ops (statusAll_init True sc) (tornOk_true ops) h).loc.blkClear j hj

/-- the auxiliary invariant: whoever holds the submitter role (alive or dead) has a copy whose counters
    are the disk's, whose job states are the disk's or ahead, whose blocker sets are subsets of the disk's -/
theorem C09_holder_copy_current (sc : Scn) (ops : List Op) (s : Sys) (h : run (init sc) ops = some s) :
    LocInv s :=
  (statusAll_run ops (statusAll_init True sc) (tornOk_true ops) h).loc

/-! ## System level, every done job has a recorded result -/

/-- Histories in which no `persistJobs` occurs — every other fault allowed: a job marked done has a row
    (in the consolidated file or in a node's result file). -/
theorem C09_done_has_result (sc : Scn) (ops : List Op) (s : Sys) (hn : noTornJobs ops)
    (h : run (init sc) ops = some s) (j : JobId) (hd : s.disk.st j = .done) : HasRow s j := by
  have hi := statusAll_run ops (statusAll_init False sc) hn h
  rcases hi.rows.diskRow j hd with hr | ⟨hf, -⟩
  · exact hr
  · exact hf.elim

/- Full statement (FALSE in the model, see `done_without_result_witness`):
     ∀ sc ops s, run (init sc) ops = some s → ∀ j, s.disk.st j = .done → HasRow s j            -/

/-- ALL op sequences: a job marked done has a row, or it is a job some round canceled in memory without
    (yet) appending the canceled row — possible on disk only through a `persistJobs` of a failed round. -/
theorem C09_done_has_result_partial (sc : Scn) (ops : List Op) (s : Sys)
    (h : run (init sc) ops = some s) (j : JobId) (hd : s.disk.st j = .done) : HasRow s j ∨ TornCancel s j := by
  have hi := statusAll_run ops (statusAll_init True sc) (tornOk_true ops) h
  rcases hi.rows.diskRow j hd with hr | ⟨-, ht⟩
  · exact Or.inl hr
  · exact Or.inr ht

/-! ## System level, fault-free op sequences: the counters -/

/-- `completed_jobs` = number of jobs marked done, `submitted_jobs` = number marked submitted or done -/
theorem C09_counters_exact (sc : Scn) (ops : List Op) (s : Sys) (hp : plainOps ops)
    (h : run (init sc) ops = some s) :
    s.disk.doneCnt = cntDone sc.n s.disk.st ∧ s.disk.subCnt = cntSub sc.n s.disk.st := by
  have hi := (flow_reach sc ops s hp h).counters
  have hsc : s.sc = sc := by rw [sc_run ops h]; rfl
  rw [← hsc]
  exact ⟨hi.done, hi.sub⟩

/-- completed ≤ submitted ≤ total -/
theorem C09_counter_order (sc : Scn) (ops : List Op) (s : Sys) (hp : plainOps ops)
    (h : run (init sc) ops = some s) : s.disk.doneCnt ≤ s.disk.subCnt ∧ s.disk.subCnt ≤ sc.n := by
  obtain ⟨h1, h2⟩ := C09_counters_exact sc ops s hp h
  rw [h1, h2]
  exact ⟨cntDone_le_cntSub _ _, cntSub_le _ _⟩

/-- what the counters rest on: in fault-free histories each job has at most one row per file and across
    files, a row is collected into one round only, and where a job's row is determines its state -/
theorem C09_completions_counted_once (sc : Scn) (ops : List Op) (s : Sys) (hp : plainOps ops)
    (h : run (init sc) ops = some s) : FlowA s ∧ FlowB s :=
  ⟨(flow_reach sc ops s hp h).a, (flow_reach sc ops s hp h).b⟩

/-- a crash between the two file writes of `update_job_status`, later completed by the second write,
    leaves exactly the status an uninterrupted `update_job_status` writes -/
theorem C09_torn_update_completed : type_of% @Jade.Sys.torn_pair_eq_persist := @Jade.Sys.torn_pair_eq_persist

/-- … so after a fault-free history followed by such a completed pair the counters are exact again -/
theorem C09_counters_after_completed_torn_update (sc : Scn) (ops : List Op) (s s1 s2 : Sys) (p : Pid)
    (hp : plainOps ops) (h : run (init sc) ops = some s) (h1 : step s (.persistCfg p) = some s1)
    (h2 : step s1 (.persistJobs p) = some s2) :
    s2.disk.doneCnt = cntDone sc.n s2.disk.st ∧ s2.disk.subCnt = cntSub sc.n s2.disk.st := by
  obtain ⟨s3, hs3, hd⟩ := torn_pair_eq_persist h1 h2
  have hi := (flow_step (flow_reach sc ops s hp h) (op := .persist p) rfl hs3).counters
  have hsc : s3.sc = sc := by rw [sc_step hs3, sc_run ops h]; rfl
  rw [hd, ← hsc]
  exact ⟨hi.done, hi.sub⟩

/-! ## Cluster API level (the real `_update_job_status` arithmetic, versions included) -/

theorem C09_statusInv_order : type_of% @Jade.ClusterStatus.StatusInv.order := @Jade.ClusterStatus.StatusInv.order
theorem C09_create_statusInv : type_of% @Jade.ClusterStatus.create_statusInv := @Jade.ClusterStatus.create_statusInv
/-- `update_job_status` with a round's arguments: consistent afterwards, only forward, version strictly larger -/
theorem C09_update_preserves : type_of% @Jade.ClusterStatus.update_preserves := @Jade.ClusterStatus.update_preserves
theorem C09_update_assertion_double_submit : type_of% @Jade.ClusterStatus.update_assertion_double_submit := @Jade.ClusterStatus.update_assertion_double_submit
theorem C09_update_assertion_iff : type_of% @Jade.ClusterStatus.update_assertion_iff := @Jade.ClusterStatus.update_assertion_iff
theorem C09_promote_demote_preserve : type_of% @Jade.ClusterStatus.promote_demote_preserve := @Jade.ClusterStatus.promote_demote_preserve
theorem C09_markComplete_preserves : type_of% @Jade.ClusterStatus.markComplete_preserves := @Jade.ClusterStatus.markComplete_preserves
theorem C09_completeHpcId_preserves : type_of% @Jade.ClusterStatus.completeHpcId_preserves := @Jade.ClusterStatus.completeHpcId_preserves
/-- every non-resubmit operation by a current handle moves the four files only forward -/
theorem C09_update_monotone : type_of% @Jade.ClusterStatus.update_monotone := @Jade.ClusterStatus.update_monotone
/-- version files never decrease and increase exactly when the file content changes -/
theorem C09_versions_monotone : type_of% @Jade.C10.C10_versions_monotone := @Jade.C10.C10_versions_monotone
/-- resubmission re-establishes the invariant when every never-submitted job is selected (`--missing`) … -/
theorem C09_prepareResubmit_statusInv : type_of% @Jade.ClusterStatus.prepareResubmit_statusInv := @Jade.ClusterStatus.prepareResubmit_statusInv
/-- … and does NOT otherwise (known finding, DESIGN 9.7): proved counterexample -/
theorem C09_prepareResubmit_unselected_breaks_statusInv : type_of% @Jade.ClusterStatus.prepareResubmit_unselected_breaks_statusInv := @Jade.ClusterStatus.prepareResubmit_unselected_breaks_statusInv
theorem C09_prepareResubmit_then_submitted_exceeds_total : type_of% @Jade.ClusterStatus.prepareResubmit_then_submitted_exceeds_total := @Jade.ClusterStatus.prepareResubmit_then_submitted_exceeds_total
theorem C09_serializeJobs_bumps_without_change : type_of% @Jade.ClusterStatus.serializeJobs_bumps_without_change := @Jade.ClusterStatus.serializeJobs_bumps_without_change
theorem C09_update_resubmits_done_silently : type_of% @Jade.ClusterStatus.update_resubmits_done_silently := @Jade.ClusterStatus.update_resubmits_done_silently

/-! ## Non-vacuity and the counterexamples -/

/-- job 0 fails; job 1 (flagged, blocked by 0) is canceled by the submitter; job 2 is independent -/
def demoScn : Scn := { n := 3, blockers := fun j => if j = 1 then [0] else [], flag := fun j => j = 1,
                       rc := fun j => if j = 0 then 3 else 0, maxNodes := 2 }

def round1 : List Op :=
  [.spawnSub 1 false, .promote 1, .passEnd 1 [], .collectDone 1, .mark 1, .sbatch 1 [0] (some 100)]

def node1 : List Op :=
  [.unmark 1, .demote 1, .exit 1, .startBatch 100 2 1, .nodeStart 2 0, .nodeRow 2 0]

def round2 : List Op :=
  [.spawnSub 3 false, .promote 3, .poll 3 [], .collectFile 3 1, .passEnd 3 [1]]

/-- a fault-free history with a submitter-side cancellation: two rounds, one node -/
def demoOps : List Op :=
  round1 ++ [.persist 1] ++ node1 ++ round2 ++
    [.cancelRow 3 1, .passEnd 3 [], .collectDone 3, .mark 3, .sbatch 3 [2] (some 101), .persist 3]

example : plainOps demoOps := by decide

/-- completed = 2 (jobs 0, 1), submitted = 3: the canceled job is counted once in each counter -/
example : ((run (init demoScn) demoOps).map fun s =>
    (s.disk.doneCnt, s.disk.subCnt, (List.range 3).map s.disk.st, (List.range 3).map s.disk.blk))
    = some (2, 3, [.done, .done, .sub], [[], [], []]) := by decide

example : ((run (init demoScn) demoOps).map fun s =>
    (cntDone 3 s.disk.st, cntSub 3 s.disk.st, (allRows s).map (·.job))) = some (2, 3, [0, 1]) := by decide

/-- between the two rounds: job 1 still waits for job 0 -/
example : ((run (init demoScn) (round1 ++ [.persist 1] ++ node1)).map fun s =>
    (s.disk.doneCnt, s.disk.subCnt, (List.range 3).map s.disk.st, (List.range 3).map s.disk.blk))
    = some (0, 1, [.sub, .ns, .ns], [[], [0], []]) := by decide

/-- WITNESS (crash between the two file writes): the config already counts job 0 as submitted while
    job_status.json still says not_submitted — `completed ≤ submitted ≤ total` holds, the equalities do not -/
theorem torn_update_witness : ((run (init demoScn) (round1 ++ [.persistCfg 1])).map fun s =>
    (s.disk.subCnt, cntSub 3 s.disk.st, (List.range 3).map s.disk.st)) = some (1, 0, [.ns, .ns, .ns]) := by decide

/-- … and the second write repairs it -/
example : ((run (init demoScn) (round1 ++ [.persistCfg 1, .persistJobs 1])).map fun s =>
    (s.disk.subCnt, cntSub 3 s.disk.st, (List.range 3).map s.disk.st)) = some (1, 1, [.sub, .ns, .ns]) := by decide

/-- WITNESS (why `C09_done_has_result` excludes `persistJobs`): round 2 decides to cancel job 1, fails before
    appending the canceled row, and the model accepts `persistJobs` from that failed round: job 1 is done on
    disk with no row.  (The real code writes job_status.json only inside `update_job_status`, which a round
    that failed while collecting never reaches; the model's guard `pc = failing` over-approximates.) -/
theorem done_without_result_witness :
    ((run (init demoScn) (round1 ++ [.persist 1] ++ node1 ++ round2 ++ [.fail 3, .persistJobs 3])).map fun s =>
      (s.disk.st 1, (allRows s).map (·.job))) = some (.done, [0]) := by decide

end Jade.C09
