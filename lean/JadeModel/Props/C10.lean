import JadeModel.Proofs.ClusterStale

/-!
# C10 — only one submitter at a time; stale state never overwrites newer state

Theorems about `Model/Cluster.lean` (`jade/jobs/cluster.py`): any number of handles on any hosts, every sequence of
public API calls (`Op`), every history in which a handle was loaded before others changed the state.

* `holders` are tracked as ghost state (`Tracked.holder`): handles that got `True` from a promotion (or created the
  submission) and have not successfully demoted since.
* `Protocol` (decidable, per state and operation): the writing operations are invoked only by a current holder, a
  holder's handle is not discarded by re-loading into its slot, nobody tampers with the files behind the API.  Every JADE
  call site has this shape (promote → work → demote).  The code's own guard is weaker — `am_i_submitter()` compares HOST
  NAMES — and `C10_mutex_needs_protocol` shows that without `Protocol` mutual exclusion is refutable.
* Stale-write rejection (`C10_stale_rejected`) has NO hypothesis on the history at all.
-/

namespace Jade.C10
open Jade.Cluster Jade.Gen.Cluster

/-! ## promotion is refused while the role is held -/

/-- `Cluster.deserialize(try_promote_to_submitter=True)` while the config names a submitter, in ANY state in which the
    config can be read: the promotion is refused (`promoted = False`) and nothing on disk changes. -/
theorem C10_load_promotion_refused_while_held (s : Sys) (h : Hid) (host : Host) (jobs : Bool)
    (hheld : s.disk.cfg.submitter ≠ none) (hpres : s.disk.cfgMissing = false) (hfree : s.disk.marker = false) :
    (step s (.load h host true jobs)).2 = .bool false ∧ (step s (.load h host true jobs)).1.disk = s.disk := by
  simp only [step, loadOp, hfree, Bool.false_eq_true, if_false, doLoad, hpres, if_true]
  rcases doPromote_cases s.disk (newHandle host s.disk) with ⟨_, c2⟩ | ⟨c1, _, _⟩ | ⟨c1, _, _, _⟩ | ⟨c1, _, _, _⟩
  · rw [c2]
    refine ⟨rfl, ?_⟩
    show ({ s.disk with marker := false } : Disk) = s.disk
    rw [← hfree]
  · exact absurd c1 hheld
  · exact absurd c1 hheld
  · exact absurd c1 hheld

/-- `promote_to_submitter()` on an existing handle, after ANY history of API calls (no protocol assumed, only no
    tampering with the files): while the config on disk names a submitter the call never returns `True` and never
    changes a file.  It returns `False` when the handle's copy says "held"; a handle whose (necessarily out-of-date) copy
    says "free" gets a version mismatch. -/
theorem C10_promotion_refused_while_held (host : Host) (spec : List (List JobId × Bool)) (brk : Bool) (ops : List Op)
    (hnt : ∀ op ∈ ops, op.isTamper = false) (h : Hid)
    (hheld : (exec (create host spec brk) ops).disk.cfg.submitter ≠ none) :
    (step (exec (create host spec brk) ops) (.promote h)).2 ≠ .bool true ∧
    (step (exec (create host spec brk) ops) (.promote h)).1.disk.files = (exec (create host spec brk) ops).disk.files ∧
    (∀ x : Handle, (exec (create host spec brk) ops).handles h = some x →
      (exec (create host spec brk) ops).disk.marker = false →
      (x.cfg.submitter ≠ none ∧ (step (exec (create host spec brk) ops) (.promote h)).2 = .bool false) ∨
      (x.cfg.submitter = none ∧ x.cfg.version ≠ (exec (create host spec brk) ops).disk.cfgVer ∧
        (step (exec (create host spec brk) ops) (.promote h)).2 = .err .versionMismatch)) := by
  have hC := Coherent.exec ops _ (Coherent.create host spec brk) hnt
  generalize exec (create host spec brk) ops = s at hC hheld ⊢
  simp only [step]
  rcases locked_cases s h doPromote with ⟨h1, h2⟩ | ⟨x, h1, hm, h2⟩ | ⟨x, hx, hm, h2⟩
  · rw [h2]; refine ⟨by simp, rfl, ?_⟩
    intro x hx; rw [h1] at hx; cases hx
  · rw [h2]; refine ⟨by simp, rfl, ?_⟩
    intro _ _ hm'; rw [hm] at hm'; cases hm'
  · rw [h2]
    have key : (doPromote s.disk x).1 = s.disk ∧
        ((x.cfg.submitter ≠ none ∧ (doPromote s.disk x).2.2 = .bool false) ∨
         (x.cfg.submitter = none ∧ x.cfg.version ≠ s.disk.cfgVer ∧ (doPromote s.disk x).2.2 = .err .versionMismatch)) := by
      by_cases hv : x.cfg.version = s.disk.cfgVer
      · have hsub : x.cfg.submitter ≠ none := by rw [hC.cur h x hx hv]; exact hheld
        rcases doPromote_cases s.disk x with ⟨_, c2⟩ | ⟨c1, _, _⟩ | ⟨c1, _, _, _⟩ | ⟨c1, _, _, _⟩
        · rw [c2]; exact ⟨rfl, Or.inl ⟨hsub, rfl⟩⟩
        · exact absurd c1 hsub
        · exact absurd c1 hsub
        · exact absurd c1 hsub
      · obtain ⟨a1, a2⟩ := doPromote_stale s.disk x hv
        refine ⟨a1, ?_⟩
        rcases a2 with a2 | a2
        · exact Or.inl a2
        · exact Or.inr ⟨a2.1, hv, a2.2⟩
    obtain ⟨k1, k2⟩ := key
    refine ⟨?_, ?_, ?_⟩
    · rcases k2 with ⟨_, k⟩ | ⟨_, _, k⟩ <;> rw [k] <;> simp
    · show Disk.files { (doPromote s.disk x).1 with marker := _ } = _
      rw [k1]; rfl
    · intro y hy _
      rw [hx] at hy; cases hy
      exact k2

/-! ## mutual exclusion under the role protocol -/

/-- For every operation sequence that respects `Protocol`, at EVERY prefix: at most one handle holds the role; the
    submitter field on disk is set iff somebody holds it; and the holder's copies are current and name its own host. -/
theorem C10_mutex (host : Host) (spec : List (List JobId × Bool)) (brk : Bool) (ops pre post : List Op)
    (hsplit : ops = pre ++ post) (hp : ProtocolRun (Tracked.create host spec brk) ops = true) :
    (∀ a b : Hid, ((Tracked.create host spec brk).exec pre).holder a = true →
        ((Tracked.create host spec brk).exec pre).holder b = true → a = b) ∧
    (((Tracked.create host spec brk).exec pre).s.disk.cfg.submitter.isSome = true ↔
        ∃ h : Hid, ((Tracked.create host spec brk).exec pre).holder h = true) ∧
    (∀ h : Hid, ((Tracked.create host spec brk).exec pre).holder h = true →
        ∃ x : Handle, ((Tracked.create host spec brk).exec pre).s.handles h = some x ∧
          ((Tracked.create host spec brk).exec pre).s.disk.cfg.submitter = some x.host) := by
  subst hsplit
  have hI := RoleInv.exec pre _ (RoleInv.create host spec brk) (ProtocolRun_append _ pre post hp)
  refine ⟨hI.one, hI.someIff, ?_⟩
  intro h hh
  obtain ⟨x, b1, b2, b3, _⟩ := hI.hold h hh
  exact ⟨x, b1, by rw [← hI.cur h x b1 b2]; exact b3⟩

/-- What the code's own guard (`assert self.am_i_submitter()`, a HOST NAME comparison) does guarantee, after ANY
    tamper-free history and without the protocol: a demotion succeeds only for a handle on the very host the config names
    as submitter — a handle on another host can never take the role away. -/
theorem C10_demote_only_from_submitter_host (host : Host) (spec : List (List JobId × Bool)) (brk : Bool) (ops : List Op)
    (hnt : ∀ op ∈ ops, op.isTamper = false) (h : Hid)
    (hok : (step (exec (create host spec brk) ops) (.demote h)).2 = .ok) :
    ∃ x : Handle, (exec (create host spec brk) ops).handles h = some x ∧
      (exec (create host spec brk) ops).disk.cfg.submitter = some x.host := by
  have hC := Coherent.exec ops _ (Coherent.create host spec brk) hnt
  generalize exec (create host spec brk) ops = s at hC hok ⊢
  simp only [step] at hok
  rcases locked_cases s h doDemote with ⟨_, h2⟩ | ⟨_, _, _, h2⟩ | ⟨x, hx, _, h2⟩
  · rw [h2] at hok; cases hok
  · rw [h2] at hok; cases hok
  · rw [h2] at hok
    simp only at hok
    refine ⟨x, hx, ?_⟩
    rcases doDemote_cases s.disk x with ⟨_, c2⟩ | ⟨_, _, c3⟩ | ⟨c1, c2, _, _⟩ | ⟨c1, c2, _, _⟩
    · rw [c2] at hok; cases hok
    · rw [c3] at hok; cases hok
    · rw [← hC.cur h x hx c2]; exact c1
    · rw [← hC.cur h x hx c2]; exact c1

/-- the ghost state follows the model: `exec` of the tracked system is `exec` of the system -/
theorem tracked_exec_s (t : Tracked) (ops : List Op) : (t.exec ops).s = exec t.s ops := by
  induction ops generalizing t with
  | nil => rfl
  | cons op ops ih => exact ih (t.step op)

/-- WITNESS: without `Protocol`, mutual exclusion fails through the hostname comparison.  Handle 1 on the creator's host
    merely loads the state, yet may demote (`am_i_submitter()` compares host names); handle 2 on another host is then
    promoted while handle 0 — which never demoted — still believes it holds the role: two holders. -/
theorem C10_mutex_needs_protocol :
    let ops : List Op := [.load 1 0 false false, .demote 1, .load 2 1 true true]
    let t := (Tracked.create 0 [([], false), ([], false)] true).exec ops
    ProtocolRun (Tracked.create 0 [([], false), ([], false)] true) ops = false ∧
    (run (create 0 [([], false), ([], false)] true) ops).2 = [.bool false, .ok, .bool true] ∧
    t.holder 0 = true ∧ t.holder 2 = true ∧ t.s.disk.cfg.submitter = some 1 ∧
    -- … and the first one's next write is (only) caught by the version check
    (step t.s (.update 0 { submitted := [0], blocked := [], canceled := [], completed := [], hpcIds := [7], batchIdx := 2 })).2
      = .err .versionMismatch := by
  decide

/-! ## a stale handle cannot write -/

/-- A handle whose CONFIG copy is out of date (its `config.version` differs from `config_version.txt`) — in ANY state,
    reached by ANY history: every config-writing call is rejected and the four files are unchanged; what does change
    is stated exactly: the deadlock marker is created when the call raised under the lock.
    `update_job_status` and `mark_canceled` raise the version mismatch unconditionally; `promote`/`demote`/`mark_complete`
    raise it whenever their own precondition holds (otherwise they return `False` / raise the assertion first);
    `prepare_for_resubmission` takes no lock, hence leaves no marker. -/
theorem C10_stale_rejected (s : Sys) (h : Hid) (x : Handle) (hx : s.handles h = some x) (hfree : s.disk.marker = false)
    (hstale : x.cfg.version ≠ s.disk.cfgVer) :
    (∀ a : UpdateArgs, (step s (.update h a)).2 = .err .versionMismatch ∧
        (step s (.update h a)).1.disk = { s.disk with marker := true }) ∧
    ((step s (.markCanceled h)).2 = .err .versionMismatch ∧
        (step s (.markCanceled h)).1.disk = { s.disk with marker := true }) ∧
    ((x.cfg.submitter ≠ none ∧ (step s (.promote h)).2 = .bool false ∧ (step s (.promote h)).1.disk = s.disk) ∨
     (x.cfg.submitter = none ∧ (step s (.promote h)).2 = .err .versionMismatch ∧
        (step s (.promote h)).1.disk = { s.disk with marker := true })) ∧
    ((x.cfg.submitter ≠ some x.host ∧ (step s (.demote h)).2 = .err .assertion) ∨
     (x.cfg.submitter = some x.host ∧ (step s (.demote h)).2 = .err .versionMismatch)) ∧
    (step s (.demote h)).1.disk = { s.disk with marker := true } ∧
    ((x.cfg.isComplete = true ∧ (step s (.markComplete h)).2 = .err .assertion) ∨
     (x.cfg.isComplete = false ∧ (step s (.markComplete h)).2 = .err .versionMismatch)) ∧
    (step s (.markComplete h)).1.disk = { s.disk with marker := true } ∧
    (∀ (sel : List JobId) (bl : List (JobId × List JobId)),
      ((step s (.prepareResubmit h sel bl)).2 = .err .assertion ∨
        (step s (.prepareResubmit h sel bl)).2 = .err .versionMismatch) ∧
      (step s (.prepareResubmit h sel bl)).1.disk = s.disk) := by
  have hd : ({ s.disk with marker := false } : Disk) = s.disk := by rw [← hfree]
  refine ⟨?_, ?_, ?_, ?_, ?_, ?_, ?_, ?_⟩
  · intro a
    simp only [step]
    rw [locked_run s h _ x hx hfree, doUpdate_stale a s.disk x hstale]
    exact ⟨rfl, rfl⟩
  · simp only [step]
    rw [locked_run s h _ x hx hfree]
    obtain ⟨a1, a2⟩ := doMarkCanceled_stale s.disk x hstale
    simp only [a1, a2]
    exact ⟨trivial, rfl⟩
  · simp only [step]
    rw [locked_run s h _ x hx hfree]
    obtain ⟨a1, a2⟩ := doPromote_stale s.disk x hstale
    rcases a2 with ⟨b1, b2⟩ | ⟨b1, b2⟩
    · left; simp only [a1, b2]; exact ⟨b1, trivial, hd⟩
    · right; simp only [a1, b2]; exact ⟨b1, trivial, rfl⟩
  · simp only [step]
    rw [locked_run s h _ x hx hfree]
    obtain ⟨_, a2⟩ := doDemote_stale s.disk x hstale
    rcases a2 with ⟨b1, b2⟩ | ⟨b1, b2⟩
    · left; exact ⟨b1, b2⟩
    · right; exact ⟨b1, b2⟩
  · simp only [step]
    rw [locked_run s h _ x hx hfree]
    obtain ⟨a1, a2⟩ := doDemote_stale s.disk x hstale
    rcases a2 with ⟨_, b2⟩ | ⟨_, b2⟩ <;> simp only [a1, b2] <;> rfl
  · simp only [step]
    rw [locked_run s h _ x hx hfree]
    obtain ⟨_, a2⟩ := doMarkComplete_stale s.disk x hstale
    rcases a2 with ⟨b1, b2⟩ | ⟨b1, b2⟩
    · left; exact ⟨b1, b2⟩
    · right; exact ⟨b1, b2⟩
  · simp only [step]
    rw [locked_run s h _ x hx hfree]
    obtain ⟨a1, a2⟩ := doMarkComplete_stale s.disk x hstale
    rcases a2 with ⟨_, b2⟩ | ⟨_, b2⟩ <;> simp only [a1, b2] <;> rfl
  · intro sel bl
    simp only [step, resubmitLocked_eq, Bool.false_eq_true, if_false]
    rw [unlocked_run s h _ x hx]
    obtain ⟨a1, a2⟩ := doPrepareResubmit_stale sel bl s.disk x hstale
    exact ⟨a2, a1⟩

/-- A handle whose JOB-STATUS copy is out of date (whatever its config copy): `update_job_status` is rejected BEFORE
    anything is written (the `_check_versions` call; without it `cluster_config.json` was rewritten first —
    findings/f98), and so is `complete_hpc_job_id` (after `list.remove`, which raises ValueError for an unknown id). -/
theorem C10_stale_jobstatus_rejected (s : Sys) (h : Hid) (x : Handle) (j : JsView) (hx : s.handles h = some x)
    (hj : x.js = some j) (hfree : s.disk.marker = false) (hstale : j.version ≠ s.disk.jsVer) :
    (∀ a : UpdateArgs, (step s (.update h a)).2 = .err .versionMismatch ∧
        (step s (.update h a)).1.disk = { s.disk with marker := true }) ∧
    (∀ id : Nat,
      ((j.hpcIds.contains id = false ∧ (step s (.completeHpcId h id)).2 = .err .valueError) ∨
       (j.hpcIds.contains id = true ∧ (step s (.completeHpcId h id)).2 = .err .versionMismatch)) ∧
      (step s (.completeHpcId h id)).1.disk = { s.disk with marker := true }) := by
  constructor
  · intro a
    simp only [step]
    rw [locked_run s h _ x hx hfree, doUpdate_jsStale a s.disk x j hj hstale]
    exact ⟨rfl, rfl⟩
  · intro id
    simp only [step]
    rw [locked_run s h _ x hx hfree]
    obtain ⟨a1, a2⟩ := doCompleteHpcId_jsStale id s.disk x j hj hstale
    refine ⟨a2, ?_⟩
    rcases a2 with ⟨_, b2⟩ | ⟨_, b2⟩ <;> simp only [a1, b2] <;> rfl

/-- the full-strength statement for `prepare_for_resubmission`: ANY out-of-date copy ⇒ no file changes -/
def PrepareResubmitRejectsStale : Prop :=
  ∀ (s : Sys) (h : Hid) (x : Handle) (j : JsView) (sel : List JobId) (bl : List (JobId × List JobId)),
    s.handles h = some x → x.js = some j → (x.cfg.version ≠ s.disk.cfgVer ∨ j.version ≠ s.disk.jsVer) →
    (step s (.prepareResubmit h sel bl)).1.disk.files = s.disk.files

/-- what IS proved (config copy out of date): part of `C10_stale_rejected` -/
theorem C10_prepareResubmit_stale_partial (s : Sys) (h : Hid) (x : Handle) (sel : List JobId)
    (bl : List (JobId × List JobId)) (hx : s.handles h = some x) (hstale : x.cfg.version ≠ s.disk.cfgVer) :
    (step s (.prepareResubmit h sel bl)).1.disk = s.disk := by
  simp only [step, resubmitLocked_eq, Bool.false_eq_true, if_false]
  rw [unlocked_run s h _ x hx]
  exact (doPrepareResubmit_stale sel bl s.disk x hstale).1

/-- WITNESS (API level only; `resubmit-jobs` loads both copies under the lock right before): with a current config copy
    but an out-of-date job-status copy, `prepare_for_resubmission` rewrites `cluster_config.json` and
    `config_version.txt` and only then raises `JobStatusVersionMismatch` — it has no `_check_versions` up front and
    takes no lock.  History: both jobs run and finish, handle 0 marks the submission complete, handle 1 (loaded
    meanwhile) completes an HPC job id, handle 0 prepares the resubmission of job 0. -/
theorem C10_prepareResubmit_jsStale_writes_config : ¬ PrepareResubmitRejectsStale := by
  intro hall
  let u1 : UpdateArgs := { submitted := [0, 1], blocked := [], canceled := [], completed := [], hpcIds := [1], batchIdx := 2 }
  let u2 : UpdateArgs := { submitted := [], blocked := [], canceled := [], completed := [0, 1], hpcIds := [1], batchIdx := 2 }
  let s := exec (create 0 [([], false), ([], false)] false)
    [.update 0 u1, .update 0 u2, .markComplete 0, .load 1 1 false true, .completeHpcId 1 1]
  have h1 : (s.handles 0).isSome = true := by decide
  have h2 : ((s.handles 0).bind (·.js)).isSome = true := by decide
  have h3 : ((s.handles 0).bind (·.js)).map (·.version) ≠ some s.disk.jsVer := by decide
  have h4 : (step s (.prepareResubmit 0 [0] [])).2 = .err .versionMismatch ∧
      (step s (.prepareResubmit 0 [0] [])).1.disk.files ≠ s.disk.files := by decide
  cases hx : s.handles 0 with
  | none => rw [hx] at h1; cases h1
  | some x =>
    rw [hx] at h2 h3
    cases hj : x.js with
    | none => simp [hj] at h2
    | some j =>
      have hv : j.version ≠ s.disk.jsVer := by
        intro e; apply h3; simp [hj, e]
      exact h4.2 (hall s 0 x j [0] [] hx hj (Or.inr hv))

/-! ## under the protocol a holder is never stale -/

/-- Under `Protocol`, at every prefix, the holder's config copy and (if loaded) job-status copy are current, so none of
    its writes is ever rejected with a version mismatch. -/
theorem C10_protocol_never_stale (host : Host) (spec : List (List JobId × Bool)) (brk : Bool) (ops pre post : List Op)
    (hsplit : ops = pre ++ post) (hp : ProtocolRun (Tracked.create host spec brk) ops = true) (h : Hid)
    (hh : ((Tracked.create host spec brk).exec pre).holder h = true) :
    (∃ x : Handle, ((Tracked.create host spec brk).exec pre).s.handles h = some x ∧
      x.cfg.version = ((Tracked.create host spec brk).exec pre).s.disk.cfgVer ∧
      ∀ j : JsView, x.js = some j → j.version = ((Tracked.create host spec brk).exec pre).s.disk.jsVer) ∧
    (∀ op : Op, (op = .demote h ∨ (∃ a, op = .update h a) ∨ op = .markComplete h ∨ op = .markCanceled h ∨
          (∃ id, op = .completeHpcId h id) ∨ (∃ sel bl, op = .prepareResubmit h sel bl)) →
      (step ((Tracked.create host spec brk).exec pre).s op).2 ≠ .err .versionMismatch) := by
  subst hsplit
  have hI := RoleInv.exec pre _ (RoleInv.create host spec brk) (ProtocolRun_append _ pre post hp)
  generalize (Tracked.create host spec brk).exec pre = t at hI hh ⊢
  obtain ⟨x, b1, b2, _, b4⟩ := hI.hold h hh
  refine ⟨⟨x, b1, b2, b4⟩, ?_⟩
  have hl : ∀ f : Disk → Handle → Out, (f t.s.disk x).2.2 ≠ .err .versionMismatch →
      (locked t.s h f).2 ≠ .err .versionMismatch := by
    intro f hf
    rcases locked_cases t.s h f with ⟨_, h2⟩ | ⟨_, _, _, h2⟩ | ⟨y, hy, _, h2⟩
    · rw [h2]; simp
    · rw [h2]; simp
    · rw [h2]; rw [b1] at hy; cases hy; exact hf
  intro op hop
  rcases hop with rfl | ⟨a, rfl⟩ | rfl | rfl | ⟨id, rfl⟩ | ⟨sel, bl, rfl⟩
  · exact hl _ (doDemote_notStale _ _ b2)
  · exact hl _ (doUpdate_notStale a _ _ b2 b4)
  · exact hl _ (doMarkComplete_notStale _ _ b2)
  · exact hl _ (doMarkCanceled_notStale _ _ b2)
  · exact hl _ (doCompleteHpcId_notStale id _ _ b4)
  · simp only [step]
    split
    · exact hl _ (doPrepareResubmit_notStale sel bl _ _ b2 b4)
    · rw [unlocked_run t.s h _ x b1]
      exact doPrepareResubmit_notStale sel bl _ _ b2 b4

/-! ## versions -/

/-- One API call (any state, any handle): neither version file decreases (each moves by one or not at all) — and, when the version inside each data file agrees with its
    version file (true after every tamper-free history, see below), a version file moves EXACTLY when the data file's
    content changes. -/
theorem C10_versions_monotone (s : Sys) (op : Op) (hnt : op.isTamper = false) :
    s.disk.cfgVer ≤ (step s op).1.disk.cfgVer ∧ s.disk.jsVer ≤ (step s op).1.disk.jsVer ∧
    (s.disk.cfg.version = s.disk.cfgVer →
      (s.disk.cfgVer < (step s op).1.disk.cfgVer ↔ (step s op).1.disk.cfg ≠ s.disk.cfg) ∧
      (step s op).1.disk.cfg.version = (step s op).1.disk.cfgVer) ∧
    (s.disk.js.version = s.disk.jsVer →
      (s.disk.jsVer < (step s op).1.disk.jsVer ↔ (step s op).1.disk.js ≠ s.disk.js) ∧
      (step s op).1.disk.js.version = (step s op).1.disk.jsVer) := by
  obtain ⟨hc, hj⟩ := step_diskStep s op hnt
  generalize (step s op).1.disk = d' at hc hj
  refine ⟨?_, ?_, ?_, ?_⟩
  · rcases hc with ⟨_, a, _⟩ | ⟨a, _, _⟩ <;> omega
  · rcases hj with ⟨_, a⟩ | ⟨a, _⟩ <;> omega
  · intro hag
    rcases hc with ⟨a, b, _⟩ | ⟨a, b, _⟩
    · refine ⟨⟨fun h => by omega, fun h => absurd a h⟩, by rw [a, b]; exact hag⟩
    · refine ⟨⟨fun _ he => ?_, fun _ => by omega⟩, by rw [a, b]⟩
      rw [he] at b; omega
  · intro hag
    rcases hj with ⟨a, b⟩ | ⟨a, b⟩
    · refine ⟨⟨fun h => by omega, fun h => absurd a h⟩, by rw [a, b]; exact hag⟩
    · refine ⟨⟨fun _ he => ?_, fun _ => by omega⟩, by rw [a, b]⟩
      rw [he] at b; omega

/-- After EVERY tamper-free history of API calls (no protocol assumed) the version inside each data file equals its
    version file — so the "moves exactly when the content changes" clauses of `C10_versions_monotone` apply at every
    reachable state — and the version files are at least what `create` wrote. -/
theorem C10_versions_agree_after_any_history (host : Host) (spec : List (List JobId × Bool)) (brk : Bool)
    (ops : List Op) (hnt : ∀ op ∈ ops, op.isTamper = false) :
    (exec (create host spec brk) ops).disk.cfg.version = (exec (create host spec brk) ops).disk.cfgVer ∧
    (exec (create host spec brk) ops).disk.js.version = (exec (create host spec brk) ops).disk.jsVer ∧
    1 ≤ (exec (create host spec brk) ops).disk.cfgVer ∧ 1 ≤ (exec (create host spec brk) ops).disk.jsVer := by
  have hC := Coherent.exec ops _ (Coherent.create host spec brk) hnt
  refine ⟨hC.agreeCfg, hC.agreeJs, ?_, ?_⟩
  · have : ∀ (ops : List Op) (s : Sys), (∀ op ∈ ops, op.isTamper = false) → s.disk.cfgVer ≤ (exec s ops).disk.cfgVer := by
      intro ops
      induction ops with
      | nil => intro s _; exact Nat.le_refl _
      | cons op ops ih =>
        intro s h
        exact Nat.le_trans (C10_versions_monotone s op (h op (List.mem_cons_self ..))).1
          (ih _ (fun o ho => h o (List.mem_cons_of_mem _ ho)))
    exact this ops (create host spec brk) hnt
  · have : ∀ (ops : List Op) (s : Sys), (∀ op ∈ ops, op.isTamper = false) → s.disk.jsVer ≤ (exec s ops).disk.jsVer := by
      intro ops
      induction ops with
      | nil => intro s _; exact Nat.le_refl _
      | cons op ops ih =>
        intro s h
        exact Nat.le_trans (C10_versions_monotone s op (h op (List.mem_cons_self ..))).2.1
          (ih _ (fun o ho => h o (List.mem_cons_of_mem _ ho)))
    exact this ops (create host spec brk) hnt

/-! ## non-vacuity -/

/-- a protocol-respecting run with three handles on two hosts: refused promotions, a hand-over, updates -/
example :
    let ops : List Op :=
      [.update 0 { submitted := [0], blocked := [(1, [0])], canceled := [], completed := [], hpcIds := [5], batchIdx := 2 },
       .load 1 1 true true, .demote 0, .load 2 0 true true, .promote 1,
       .update 2 { submitted := [], blocked := [], canceled := [], completed := [0], hpcIds := [], batchIdx := 2 },
       .demote 2, .read]
    ProtocolRun (Tracked.create 0 [([], false), ([0], false)] true) ops = true ∧
    (run (create 0 [([], false), ([0], false)] true) ops).2 =
      [.ok, .bool false, .ok, .bool true, .bool false, .ok, .ok, .ok] := by decide

/-- the hypothesis of `C10_stale_rejected` is satisfiable: handle 0 after the hand-over above is stale, its update is
    rejected, the marker appears and (with a lock library that never breaks stale markers) every later call times out -/
example :
    (run (create 0 [([], false)] false)
      [.demote 0, .load 1 1 true true,
       .update 0 { submitted := [0], blocked := [], canceled := [], completed := [], hpcIds := [5], batchIdx := 2 },
       .breakMarker, .read, .demote 1]).2 =
      [.ok, .bool true, .err .versionMismatch, .disabled, .err .lockTimeout, .err .lockTimeout] := by decide

/-- … and with one that does (filelock 3.32.7) the submission continues -/
example :
    (run (create 0 [([], false)] true)
      [.demote 0, .load 1 1 true true,
       .update 0 { submitted := [0], blocked := [], canceled := [], completed := [], hpcIds := [5], batchIdx := 2 },
       .breakMarker, .read, .demote 1]).2 =
      [.ok, .bool true, .err .versionMismatch, .ok, .ok, .ok] := by decide

end Jade.C10
