import JadeModel.Props.C10
import JadeModel.Proofs.ClusterCrash

/-!
# C10, continued — writers killed BETWEEN the file writes of one lock hold

`Model/ClusterCrash.lean` extends the operation alphabet of the cluster model with `crash op k lockGone`: the process
performing the API call `op` is killed right before its `(k+1)`-th file write; the first `k` writes are on disk, in the
order in which `_serialize` / `_serialize_jobs` perform them — `Gen.Cluster.cfgWriteOrder` / `jsWriteOrder`, regenerated
from the statement order of the source on every run (version file first, data file second).

"Out of date" in the property means: older than what is ON DISK.  `C10_stale_rejected` (history-free) rejects every
handle whose version differs from the VERSION FILE.  The theorems below close the gap a torn write could open between
the two: after every history of API calls and kills, the version file is never behind the contents, so a copy older
than the contents always differs from the version file.  With the opposite write order (data file first) the first
theorem is false: a kill between the two writes leaves new contents under the old version number.
-/

namespace Jade.C10
open Jade.Cluster Jade.Gen.Cluster

/-- After EVERY tamper-free history of API calls and KILLS at arbitrary file-write boundaries (any number of them, any
    lock-marker outcome): no version file is behind the version inside its data file, and no surviving handle's copy is
    ahead of a version file. -/
theorem C10_version_file_never_behind (host : Host) (spec : List (List JobId × Bool)) (brk : Bool)
    (ops : List XOp) (hnt : ∀ op ∈ ops, op.isTamper = false) :
    (execX (create host spec brk) ops).disk.cfg.version ≤ (execX (create host spec brk) ops).disk.cfgVer ∧
    (execX (create host spec brk) ops).disk.js.version ≤ (execX (create host spec brk) ops).disk.jsVer ∧
    (∀ (h : Hid) (x : Handle), (execX (create host spec brk) ops).handles h = some x →
        x.cfg.version ≤ (execX (create host spec brk) ops).disk.cfgVer) ∧
    (∀ (h : Hid) (x : Handle) (j : JsView), (execX (create host spec brk) ops).handles h = some x → x.js = some j →
        j.version ≤ (execX (create host spec brk) ops).disk.jsVer) := by
  have hI := VerAhead.execX ops _ (VerAhead.create host spec brk) hnt
  exact ⟨hI.cfgData, hI.jsData, hI.cfgHandle, hI.jsHandle⟩

/-- A torn write is detectable.  In any state reached by API calls and kills, let a process be killed between the file
    writes of `op`.  If NEW CONTENTS reached `cluster_config.json` (resp. `job_status.json`), then every surviving handle
    — each of them loaded before that write — fails the version compare of that file: it is stale in the sense of
    `C10_stale_rejected` / `C10_stale_jobstatus_rejected`, whatever happened to the dead process's lock marker. -/
theorem C10_torn_write_detectable (host : Host) (spec : List (List JobId × Bool)) (brk : Bool)
    (ops : List XOp) (hnt : ∀ op ∈ ops, op.isTamper = false) (op : Op) (k : Nat) (lockGone : Bool)
    (hop : op.isTamper = false)
    (hkilled : (crashStep (execX (create host spec brk) ops) op k lockGone).2 = none) :
    ((crashStep (execX (create host spec brk) ops) op k lockGone).1.disk.cfg ≠ (execX (create host spec brk) ops).disk.cfg →
      ∀ (h : Hid) (x : Handle), (crashStep (execX (create host spec brk) ops) op k lockGone).1.handles h = some x →
        x.cfg.version ≠ (crashStep (execX (create host spec brk) ops) op k lockGone).1.disk.cfgVer) ∧
    ((crashStep (execX (create host spec brk) ops) op k lockGone).1.disk.js ≠ (execX (create host spec brk) ops).disk.js →
      ∀ (h : Hid) (x : Handle) (j : JsView), (crashStep (execX (create host spec brk) ops) op k lockGone).1.handles h = some x →
        x.js = some j → j.version ≠ (crashStep (execX (create host spec brk) ops) op k lockGone).1.disk.jsVer) := by
  have hI := VerAhead.execX ops _ (VerAhead.create host spec brk) hnt
  generalize execX (create host spec brk) ops = s at hI hkilled ⊢
  have hs := step_diskStep s op hop
  unfold crashStep at hkilled ⊢
  simp only at hkilled ⊢
  split at hkilled
  · rename_i hlt
    simp only [hlt, if_true]
    constructor
    · intro hnew h x hx
      have hv := tornDisk_cfg_new s.disk (step s op).1.disk k hs hnew
      have hle := hI.cfgHandle h x (dropHandle_sub _ _ h x hx)
      show x.cfg.version ≠ (tornDisk s.disk (step s op).1.disk k).cfgVer
      omega
    · intro hnew h x j hx hj
      have hv := tornDisk_js_new s.disk (step s op).1.disk k hs hnew
      have hle := hI.jsHandle h x j (dropHandle_sub _ _ h x hx) hj
      show j.version ≠ (tornDisk s.disk (step s op).1.disk k).jsVer
      omega
  · cases hkilled

/-- Consequently, in every state reached by API calls and kills, a handle whose config copy is OLDER THAN THE CONTENTS on
    disk cannot write it: `update_job_status` and `mark_canceled` raise the version mismatch and leave the four files
    untouched (only the deadlock marker appears), `promote_to_submitter` is refused or raises the mismatch — the first
    conjuncts of `C10_stale_rejected`; the others follow in the same way. -/
theorem C10_older_copy_rejected_after_crashes (host : Host) (spec : List (List JobId × Bool)) (brk : Bool)
    (ops : List XOp) (hnt : ∀ op ∈ ops, op.isTamper = false) (h : Hid) (x : Handle)
    (hx : (execX (create host spec brk) ops).handles h = some x)
    (hfree : (execX (create host spec brk) ops).disk.marker = false)
    (hold : x.cfg.version < (execX (create host spec brk) ops).disk.cfg.version) :
    x.cfg.version ≠ (execX (create host spec brk) ops).disk.cfgVer ∧
    (∀ a : UpdateArgs, (step (execX (create host spec brk) ops) (.update h a)).2 = .err .versionMismatch ∧
        (step (execX (create host spec brk) ops) (.update h a)).1.disk =
          { (execX (create host spec brk) ops).disk with marker := true }) ∧
    ((step (execX (create host spec brk) ops) (.markCanceled h)).2 = .err .versionMismatch ∧
        (step (execX (create host spec brk) ops) (.markCanceled h)).1.disk =
          { (execX (create host spec brk) ops).disk with marker := true }) ∧
    ((x.cfg.submitter ≠ none ∧ (step (execX (create host spec brk) ops) (.promote h)).2 = .bool false ∧
        (step (execX (create host spec brk) ops) (.promote h)).1.disk = (execX (create host spec brk) ops).disk) ∨
     (x.cfg.submitter = none ∧ (step (execX (create host spec brk) ops) (.promote h)).2 = .err .versionMismatch ∧
        (step (execX (create host spec brk) ops) (.promote h)).1.disk =
          { (execX (create host spec brk) ops).disk with marker := true })) := by
  have hI := VerAhead.execX ops _ (VerAhead.create host spec brk) hnt
  have hstale := hI.older_stale h x hx hold
  have hr := C10_stale_rejected _ h x hx hfree hstale
  exact ⟨hstale, hr.1, hr.2.1, hr.2.2.1⟩

/-! ## non-vacuity -/

/-- The scenario of the torn promotion: the creator (host 0) demotes; handle 1 loads; a process on host 2 is killed
    between the two file writes of its promotion (version file written, config not; its lock marker reclaimed); handle 1
    — whose copy is NOT older than the contents, but older than the version file — is refused, and so is everybody else:
    the config can never be written again (nobody is wrongly promoted). -/
example :
    (runX (create 0 [([], false)] true)
      [.api (.demote 0), .api (.load 1 1 false true), .crash (.load 2 2 true true) 1 true,
       .api (.promote 1), .api .breakMarker, .api (.load 3 1 true true)]).2 =
      [some .ok, some (.bool false), none, some (.err .versionMismatch), some .ok, some (.err .versionMismatch)] := by decide

/-- a holder killed in `update_job_status` after three of its four writes (config pair complete, job-status version file
    written, job status not): a handle loaded before is rejected; a fresh handle reads the new config and the OLD job
    status under the NEW job-status version number's file, so its job-status write is rejected as well -/
example :
    (runX (create 0 [([], false)] true)
      [.api (.update 0 { submitted := [0], blocked := [], canceled := [], completed := [], hpcIds := [5], batchIdx := 2 }),
       .api (.load 1 1 false true),
       .crash (.update 0 { submitted := [], blocked := [], canceled := [], completed := [0], hpcIds := [], batchIdx := 2 }) 3 true,
       .api (.markCanceled 1), .api .breakMarker, .api (.load 2 2 false true), .api (.completeHpcId 2 5)]).2 =
      [some .ok, some (.bool false), none, some (.err .versionMismatch), some .ok, some (.bool false),
       some (.err .versionMismatch)] := by decide

/-- a kill point beyond the last write of the operation is no kill: the call completes -/
example :
    (runX (create 0 [([], false)] true) [.crash (.demote 0) 2 true, .api (.load 1 1 true true)]).2 =
      [some .ok, some (.bool true)] := by decide

end Jade.C10
