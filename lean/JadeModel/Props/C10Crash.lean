import JadeModel.Props.C10
import JadeModel.Proofs.ClusterCrash

/-!
# C10, continued — writers killed BETWEEN the file writes of one lock hold

`Model/ClusterCrash.lean` extends the operation alphabet of the cluster model with `crash op k lockGone`: the process
performing the API call `op` is killed right before its `(k+1)`-th file write; the first `k` writes are on disk, in the
order in which `_serialize` / `_serialize_jobs` perform them — `Gen.Cluster.cfgWriteOrder` / `jsWriteOrder`, regenerated
from the statement order of the source on every run (version file first, data file second).

"Out of date" in the property means: older than what is ON DISK.  `C10_stale_rejected` (history-free) rejects every
handle whose version differs from the VERSION FILE.  The theorems below close the gap a torn write could open between
the two: after every history of API calls and kills, the version file is never behind the contents, so a copy older
than the contents always differs from the version file.  With the opposite write order (data file first) the first
theorem is false: a kill between the two writes leaves new contents under the old version number.
-/

namespace Jade.C10
open Jade.Cluster Jade.Gen.Cluster

/-- After EVERY tamper-free history of API calls and KILLS at arbitrary file-write boundaries (any number of them, any
    lock-marker outcome): no version file is behind the version inside its data file, and no surviving handle's copy is
    ahead of a version file. -/
theorem C10_version_file_never_behind (host : Host) (spec : List (List JobId × Bool)) (brk : Bool)
    (ops : List XOp) (hnt : ∀ op ∈ ops, op.isTamper = false) :
    (execX (create host spec brk) ops).disk.cfg.version ≤ (execX (create host spec brk) ops).disk.cfgVer ∧
    (execX (create host spec brk) ops).disk.js.version ≤ (execX (create host spec brk) ops).disk.jsVer ∧
    (∀ (h : Hid) (x : Handle), (execX (create host spec brk) ops).handles h = some x →
        x.cfg.version ≤ (execX (create host spec brk) ops).disk.cfgVer) ∧
    (∀ (h : Hid) (x : Handle) (j : JsView), (execX (create host spec brk) ops).handles h = some x → x.js = some j →
        j.version ≤ (execX (create host spec brk) ops).disk.jsVer) := by
  have hI := VerAhead.execX ops _ (VerAhead.create host spec brk) hnt
  exact ⟨hI.cfgData, hI.jsData, hI.cfgHandle, hI.jsHandle⟩

/-- A torn write is detectable.  In any state reached by API calls and kills, let a process be killed between the file
    writes of `op`.  If NEW CONTENTS reached `cluster_config.json` (resp. `job_status.json`), then every surviving handle
    — each of them loaded before that write — fails the version compare of that file: it is stale in the sense of
    `C10_stale_rejected` / `C10_stale_jobstatus_rejected`, whatever happened to the dead process's lock marker. -/
theorem C10_torn_write_detectable (host : Host) (spec : List (List JobId × Bool)) (brk : Bool)
    (ops : List XOp) (hnt : ∀ op ∈ ops, op.isTamper = false) (op : Op) (k : Nat) (lockGone : Bool)
    (hop : op.isTamper = false)
    (hkilled : (crashStep (execX (create host spec brk) ops) op k lockGone).2 = none) :
    ((crashStep (execX (create host spec brk) ops) op k lockGone).1.disk.cfg ≠ (execX (create host spec brk) ops).disk.cfg →
      ∀ (h : Hid) (x : Handle), (crashStep (execX (create host spec brk) ops) op k lockGone).1.handles h = some x →
        x.cfg.version ≠ (crashStep (execX (create host spec brk) ops) op k lockGone).1.disk.cfgVer) ∧
    ((crashStep (execX (create host spec brk) ops) op k lockGone).1.disk.js ≠ (execX (create host spec brk) ops).disk.js →
      ∀ (h : Hid) (x : Handle) (j : JsView), (crashStep (execX (create host spec brk) ops) op k lockGone).1.handles h = some x →
        x.js = some j → j.version ≠ (crashStep (execX (create host spec brk) ops) op k lockGone).1.disk.jsVer) := by
  have hI := VerAhead.execX ops _ (VerAhead.create host spec brk) hnt
  generalize execX (create host spec brk) ops = s at hI hkilled ⊢
  have hs := step_diskStep s op hop
  unfold crashStep at hkilled ⊢
  simp only at hkilled ⊢
  split at hkilled
  · rename_i hlt
    simp only [hlt, if_true]
    constructor
    · intro hnew h x hx
      have hv := tornDisk_cfg_new s.disk (step s op).1.disk k hs hnew
      have hle := hI.cfgHandle h x (dropHandle_sub _ _ h x hx)
      show x.cfg.version ≠ (tornDisk s.disk (step s op).1.disk k).cfgVer
      omega
    · intro hnew h x j hx hj
      have hv := tornDisk_js_new s.disk (step s op).1.disk k hs hnew
      have hle := hI.jsHandle h x j (dropHandle_sub _ _ h x hx) hj
      show j.version ≠ (tornDisk s.disk (step s op).1.disk k).jsVer
      omega
  · cases hkilled

/-- Consequently, in every state reached by API calls and kills, a handle whose config copy is OLDER THAN THE CONTENTS on
    disk cannot write it: `update_job_status` and `mark_canceled` raise the version mismatch and leave the four files
    untouched (only the deadlock marker appears), `promote_to_submitter` is refused or raises the mismatch — the first
    conjuncts of `C10_stale_rejected`; the others follow in the same way. -/
theorem C10_older_copy_rejected_after_crashes (host : Host) (spec : List (List JobId × Bool)) (brk : Bool)
    (ops : List XOp) (hnt : ∀ op ∈ ops, op.isTamper = false) (h : Hid) (x : Handle)
    (hx : (execX (create host spec brk) ops).handles h = some x)
    (hfree : (execX (create host spec brk) ops).disk.marker = false)
    (hold : x.cfg.version < (execX (create host spec brk) ops).disk.cfg.version) :
    x.cfg.version ≠ (execX (create host spec brk) ops).disk.cfgVer ∧
    (∀ a : UpdateArgs, (step (execX (create host spec brk) ops) (.update h a)).2 = .err .versionMismatch ∧
        (step (execX (create host spec brk) ops) (.update h a)).1.disk =
          { (execX (create host spec brk) ops).disk with marker := true }) ∧
    ((step (execX (create host spec brk) ops) (.markCanceled h)).2 = .err .versionMismatch ∧
        (step (execX (create host spec brk) ops) (.markCanceled h)).1.disk =
          { (execX (create host spec brk) ops).disk with marker := true }) ∧
    ((x.cfg.submitter ≠ none ∧ (step (execX (create host spec brk) ops) (.promote h)).2 = .bool false ∧
        (step (execX (create host spec brk) ops) (.promote h)).1.disk = (execX (create host spec brk) ops).disk) ∨
     (x.cfg.submitter = none ∧ (step (execX (create host spec brk) ops) (.promote h)).2 = .err .versionMismatch ∧
        (step (execX (create host spec brk) ops) (.promote h)).1.disk =
          { (execX (create host spec brk) ops).disk with marker := true })) := by
  have hI := VerAhead.execX ops _ (VerAhead.create host spec brk) hnt
  have hstale := hI.older_stale h x hx hold
  have hr := C10_stale_rejected _ h x hx hfree hstale
  exact ⟨hstale, hr.1, hr.2.1, hr.2.2.1⟩

/-! ## a writer killed INSIDE the write of a version file: the file is EMPTY

`Model/ClusterCrash.lean`, `TSys` / `TOp` / `stepT`: `crash op k lockGone torn` with `torn = true` kills the process inside
its `(k+1)`-th file write.  `_serialize_config_version` / `_serialize_job_status_version` truncate (`open(f, "w")`) and then
write: the kill leaves the version file empty, and `int('')` makes every later read of it raise ValueError at the statement
where an out-of-date handle gets its version mismatch. -/

/-- The extension is conservative: a history of API calls and kills BETWEEN file writes runs in the extended system exactly
    as in the system of the theorems above (same results, same state, no version file empty). -/
theorem C10_torn_extension_conservative (s : Sys) (ops : List XOp) :
    (runT (TSys.ofSys s) (ops.map TOp.ofX)).2 = (runX s ops).2 ∧
    execT (TSys.ofSys s) (ops.map TOp.ofX) = TSys.ofSys (execX s ops) :=
  ⟨runT_ofSys ops s, execT_ofSys ops s⟩

/-- FAIL CLOSED, in ANY state (no hypothesis on the history, on who holds which copy, on the lock marker): while
    `config_version.txt` is empty, no API call and no kill (torn or not) changes `cluster_config.json`, its presence, or the
    number hidden behind the empty file, and the file stays empty; likewise `job_status.json` / `job_status_version.txt`.
    In particular a handle whose copy is older than the contents cannot write it - and neither can anybody else, until the
    file is rewritten behind the API (`forgeCfgVer` / `forgeJsVer`). -/
theorem C10_empty_version_file_fails_closed (t : TSys) (op : TOp) (hnt : op.isTamper = false) :
    (t.cfgVerTorn = true →
      (stepT t op).1.cfgVerTorn = true ∧ (stepT t op).1.s.disk.cfg = t.s.disk.cfg ∧
      (stepT t op).1.s.disk.cfgMissing = t.s.disk.cfgMissing ∧ (stepT t op).1.s.disk.cfgVer = t.s.disk.cfgVer) ∧
    (t.jsVerTorn = true →
      (stepT t op).1.jsVerTorn = true ∧ (stepT t op).1.s.disk.js = t.s.disk.js ∧
      (stepT t op).1.s.disk.jsVer = t.s.disk.jsVer) := by
  have h := stepT_failClosed t op hnt
  constructor
  · intro ht
    obtain ⟨a0, a1, a2, a3⟩ := h.1 ht
    exact ⟨a0, a1, a3, a2⟩
  · intro ht
    obtain ⟨a0, a1, a2⟩ := h.2 ht
    exact ⟨a0, a1, a2⟩

/-- … and therefore after every tamper-free continuation of any length -/
theorem C10_empty_version_file_stays_closed (t : TSys) (ops : List TOp) (hnt : ∀ op ∈ ops, op.isTamper = false) :
    (t.cfgVerTorn = true →
      (execT t ops).cfgVerTorn = true ∧ (execT t ops).s.disk.cfg = t.s.disk.cfg ∧
      (execT t ops).s.disk.cfgMissing = t.s.disk.cfgMissing) ∧
    (t.jsVerTorn = true → (execT t ops).jsVerTorn = true ∧ (execT t ops).s.disk.js = t.s.disk.js) := by
  have h := execT_failClosed ops t hnt
  constructor
  · intro ht
    obtain ⟨a0, a1, _, a3⟩ := h.1 ht
    exact ⟨a0, a1, a3⟩
  · intro ht
    obtain ⟨a0, a1, _⟩ := h.2 ht
    exact ⟨a0, a1⟩

/-- The exception of a read of the empty `config_version.txt` is ValueError, never the version mismatch: an API call that
    reads it (`promote`, `load` with promotion, `demote`, `update`, `mark_complete`, `mark_canceled`, `prepare_for_resubmission`)
    does not return `versionMismatch` while the file is empty. -/
theorem C10_empty_version_file_no_mismatch (t : TSys) (op : Op) (hnt : op.isTamper = false) (ht : t.cfgVerTorn = true)
    (hr : op.readsCfgVer = true) : (apiT t op).2 ≠ .err .versionMismatch := by
  rw [apiT_api t op hnt]
  exact tornRes_not_mismatch t op _ _ ht hr

/-! ## non-vacuity -/

/-- The torn promotion, one step further: the process on host 2 is killed INSIDE the write of `config_version.txt` (kill
    point 0, torn): the file is empty.  Handle 1 (loaded before; submitter `none` in memory) dies in ValueError instead of
    being promoted, a fresh handle likewise; `cluster_config.json` is the one the creator's demotion wrote. -/
example :
    (runT (TSys.ofSys (create 0 [([], false)] true))
      [.api (.demote 0), .api (.load 1 1 false true), .crash (.load 2 2 true true) 0 true true,
       .api (.promote 1), .api .breakMarker, .api (.load 3 1 true true), .api .breakMarker, .api .read]).2 =
      [some .ok, some (.bool false), none, some (.err .valueError), some .ok, some (.err .valueError), some .ok, some .ok] ∧
    (execT (TSys.ofSys (create 0 [([], false)] true))
      [.api (.demote 0), .api (.load 1 1 false true), .crash (.load 2 2 true true) 0 true true]).cfgVerTorn = true ∧
    (execT (TSys.ofSys (create 0 [([], false)] true))
      [.api (.demote 0), .api (.load 1 1 false true), .crash (.load 2 2 true true) 0 true true,
       .api (.promote 1), .api .breakMarker, .api (.load 3 1 true true)]).s.disk.cfg.submitter = none := by decide

/-- a holder killed in `update_job_status` inside the write of `job_status_version.txt` (kill point 2: the config pair is
    complete): the job-status pair is closed (`update_job_status` dies in ValueError even for a handle WITHOUT a job status -
    the read precedes the attribute access -, `complete_hpc_job_id` likewise), the config pair stays writable (`mark_canceled`
    by a fresh handle succeeds); rewriting the version file by hand ends the state.  A torn kill at a data-file write (kill
    point 1) is the plain kill: no version file is empty. -/
example :
    (runT (TSys.ofSys (create 0 [([], false)] true))
      [.api (.update 0 { submitted := [0], blocked := [], canceled := [], completed := [], hpcIds := [5], batchIdx := 2 }),
       .crash (.update 0 { submitted := [], blocked := [], canceled := [], completed := [0], hpcIds := [5], batchIdx := 2 }) 2 true true,
       .api (.load 1 1 false true), .api (.load 2 1 false false),
       .api (.update 2 { submitted := [], blocked := [], canceled := [], completed := [], hpcIds := [], batchIdx := 2 }),
       .api .breakMarker, .api (.completeHpcId 1 5), .api .breakMarker, .api (.markCanceled 1),
       .api (.forgeJsVer 2), .api (.load 3 1 false true), .api (.completeHpcId 3 5)]).2 =
      [some .ok, none, some (.bool false), some (.bool false), some (.err .valueError), some .ok, some (.err .valueError),
       some .ok, some .ok, some .ok, some (.bool false), some .ok] ∧
    (execT (TSys.ofSys (create 0 [([], false)] true))
      [.api (.update 0 { submitted := [0], blocked := [], canceled := [], completed := [], hpcIds := [5], batchIdx := 2 }),
       .crash (.update 0 { submitted := [], blocked := [], canceled := [], completed := [0], hpcIds := [5], batchIdx := 2 }) 2 true true]).jsVerTorn = true ∧
    (execT (TSys.ofSys (create 0 [([], false)] true)) [.crash (.demote 0) 1 true true]).cfgVerTorn = false := by decide

/-- The scenario of the torn promotion: the creator (host 0) demotes; handle 1 loads; a process on host 2 is killed
    between the two file writes of its promotion (version file written, config not; its lock marker reclaimed); handle 1
    — whose copy is NOT older than the contents, but older than the version file — is refused, and so is everybody else:
    the config can never be written again (nobody is wrongly promoted). -/
example :
    (runX (create 0 [([], false)] true)
      [.api (.demote 0), .api (.load 1 1 false true), .crash (.load 2 2 true true) 1 true,
       .api (.promote 1), .api .breakMarker, .api (.load 3 1 true true)]).2 =
      [some .ok, some (.bool false), none, some (.err .versionMismatch), some .ok, some (.err .versionMismatch)] := by decide

/-- a holder killed in `update_job_status` after three of its four writes (config pair complete, job-status version file
    written, job status not): a handle loaded before is rejected; a fresh handle reads the new config and the OLD job
    status under the NEW job-status version number's file, so its job-status write is rejected as well -/
example :
    (runX (create 0 [([], false)] true)
      [.api (.update 0 { submitted := [0], blocked := [], canceled := [], completed := [], hpcIds := [5], batchIdx := 2 }),
       .api (.load 1 1 false true),
       .crash (.update 0 { submitted := [], blocked := [], canceled := [], completed := [0], hpcIds := [], batchIdx := 2 }) 3 true,
       .api (.markCanceled 1), .api .breakMarker, .api (.load 2 2 false true), .api (.completeHpcId 2 5)]).2 =
      [some .ok, some (.bool false), none, some (.err .versionMismatch), some .ok, some (.bool false),
       some (.err .versionMismatch)] := by decide

/-- a kill point beyond the last write of the operation is no kill: the call completes -/
example :
    (runX (create 0 [([], false)] true) [.crash (.demote 0) 2 true, .api (.load 1 1 true true)]).2 =
      [some .ok, some (.bool true)] := by decide

end Jade.C10
