import JadeModel.Props.C10Crash
import JadeModel.Proofs.ClusterLive

/-!
# C10, continued — calls that FAIL and leave the handle alive; a LIVE holder stalled inside its lock section

`Model/ClusterLive.lean` extends the alphabet of API calls and kills by

* `failWrite op k`: the `(k+1)`-th file write of the call raises OSError; the first `k` writes are on disk, the deadlock
  marker is created, and the SAME handle is used afterwards, holding what `_serialize` / `_serialize_jobs` had assigned in
  memory before the failing write (the mutation of the call and the bumped version number; the config hash if the version
  file was written).  Calls that raise without a write failure (unknown job name → KeyError, an assertion) are ordinary
  API operations: `step` keeps the partly updated copy in the handle;
* `stallBegin op k` / `stallEnd`: the call hangs right before its `(k+1)`-th file write, alive and inside its lock
  section, while the other handles act.

The model's handle has NO memory of a version check that passed earlier: every write compares the handle's version with
the version file at the time of the write.  So the history-free rejection theorems apply to a handle that failed an
operation exactly as to any other (`C10_failed_handle_still_refused`).  What a failed write does break is the invariant
"no handle's copy is ahead of a version file" (`VerAhead`, which holds after kills: a killed handle is gone): see
`C10_failed_write_version_reused` — a defect of the unchanged code (findings/f9f).
-/

namespace Jade.C10
open Jade.Cluster Jade.Gen.Cluster

/-- The extension is conservative: a history of API calls and kills runs in the extended system exactly as in the system
    of the theorems of `Props/C10Crash.lean` (same results, same state, no call parked). -/
theorem C10_live_extension_conservative (t : TSys) (ops : List TOp) :
    (runF (FSys.ofT t) (ops.map FOp.ofT)).2 = (runT t ops).2.map FRes.ofT ∧
    execF (FSys.ofT t) (ops.map FOp.ofT) = FSys.ofT (execT t ops) :=
  ⟨runF_base ops t, execF_base ops t⟩

/-- MUTUAL EXCLUSION AGAINST A LIVE HOLDER.  While a call is stalled inside the lock section (the lock file is present -
    however old it is: the model has no notion of its age), every operation of every other process that takes the cluster
    lock - an API call (load / promote / demote / update / mark_* / complete_hpc_job_id / deserialize_jobs /
    are_all_jobs_complete / reading the status), with or without a kill point or a failing write in it, or a call that
    would itself stall - fails with `filelock.Timeout` (or was not invoked: no handle in that slot / the slot is the
    stalled process's own) and leaves files, lock marker, all handles and the parked call exactly as they were. -/
theorem C10_live_holder_excludes (f : FSys) (fop : FOp) (op : Op) (hc : fop.call = some op)
    (hheld : f.t.s.disk.marker = true) (hl : op.takesLock = true) :
    ((stepF f fop).2 = .res (.err .lockTimeout) ∨ (stepF f fop).2 = .res .noHandle ∨ (stepF f fop).2 = .busy) ∧
    (stepF f fop).1 = f := by
  have hnb : (decide (op = .breakMarker) && f.pending.isSome) = false := by
    have : op ≠ .breakMarker := by intro e; subst e; cases hl
    simp [this]
  cases hb : f.busy op
  · cases fop with
    | stallEnd => cases hc
    | failWrite op' k torn =>
      cases hc
      rcases failT_locked_out f.t op k torn hheld hl with h | h <;> simp [stepF, FOp.call, hb, hnb, h]
    | stallBegin op' k =>
      cases hc
      rcases stallBeginF_locked_out f op k hheld hl with h | h <;> simp [stepF, FOp.call, hb, hnb, h]
    | base top =>
      have hs : stepF f (.base top) = ({ f with t := (stepT f.t top).1 }, FRes.ofT (stepT f.t top).2) := by
        simp [stepF, hc, hb, hnb]
      rw [hs]
      cases top with
      | crash op' k g torn =>
        cases hc
        rcases crashT_locked_out f.t op k g torn hheld hl with h | h <;> simp [h, stepT, FRes.ofT]
      | api op' =>
        cases hc
        rcases apiT_locked_out f.t op hheld hl with h | h <;> simp [stepT, h, FRes.ofT]
  · have hs : stepF f fop = (f, .busy) := by simp [stepF, hc, hb]
    rw [hs]
    exact ⟨Or.inr (Or.inr rfl), rfl⟩

/-- … and the hypothesis "the lock file is present" holds as long as the call is parked: after EVERY history of API calls,
    kills, failing writes and stalls from `Cluster.create` on, a parked call's lock file is present (nobody removes it: the
    lock library's removal of stale markers does not apply to the marker of a live holder, and no code path of
    `cluster.py` deletes a lock file it did not create). -/
theorem C10_parked_call_keeps_lock (host : Host) (spec : List (List JobId × Bool)) (brk : Bool) (ops : List FOp) :
    (execF (FSys.ofT (TSys.ofSys (create host spec brk))) ops).pending.isSome = true →
    (execF (FSys.ofT (TSys.ofSys (create host spec brk))) ops).t.s.disk.marker = true :=
  execF_held ops _ (fun h => by cases h)

/-- A parked call really holds the lock: `stallBegin` leaves the lock file present whenever it parks. -/
theorem C10_stalled_call_holds_lock (f : FSys) (op : Op) (k : Nat) (hs : (stallBeginF f op k).2 = .stalled) :
    (stallBeginF f op k).1.t.s.disk.marker = true ∧ (stallBeginF f op k).1.pending.isSome = true := by
  simp only [stallBeginF] at hs ⊢
  by_cases hn : (op.stallable && decide (k < (writesOf f.t.s.disk (apiT f.t op).1.s.disk).length)) = true
  · simp [hn]
  · simp [hn] at hs

/-- A HANDLE THAT FAILED AN OPERATION IS STILL REFUSED WHEN STALE.  Take ANY state `f` of the extended system in which no
    call is parked, no version file is empty and the lock is free - in particular every state reached after calls of handle
    `h` that raised (KeyError / assertion inside the locked update: `step`; OSError at one of the file writes:
    `failWrite`), after the marker was cleared and other handles changed the files.  If the config copy of `h` is out of
    date (its version differs from `config_version.txt`) then `update_job_status` and `mark_canceled` raise the version
    mismatch, promotion and demotion do not succeed, and in every case the four files are unchanged.  (The handle carries no
    memory of an earlier, passed version check: `Handle` has no such field and `step` reads the version file at every
    write.) -/
theorem C10_failed_handle_still_refused (f : FSys) (h : Hid) (x : Handle) (hx : f.t.s.handles h = some x)
    (hidle : f.pending = none) (hc : f.t.cfgVerTorn = false) (hj : f.t.jsVerTorn = false)
    (hfree : f.t.s.disk.marker = false) (hstale : x.cfg.version ≠ f.t.s.disk.cfgVer) :
    (∀ a : UpdateArgs, (stepF f (.base (.api (.update h a)))).2 = .res (.err .versionMismatch) ∧
        (stepF f (.base (.api (.update h a)))).1.t.s.disk = { f.t.s.disk with marker := true }) ∧
    ((stepF f (.base (.api (.markCanceled h)))).2 = .res (.err .versionMismatch) ∧
        (stepF f (.base (.api (.markCanceled h)))).1.t.s.disk = { f.t.s.disk with marker := true }) ∧
    ((stepF f (.base (.api (.promote h)))).2 ≠ .res (.bool true) ∧
        (stepF f (.base (.api (.promote h)))).1.t.s.disk.files = f.t.s.disk.files) ∧
    ((stepF f (.base (.api (.demote h)))).2 ≠ .res .ok ∧
        (stepF f (.base (.api (.demote h)))).1.t.s.disk = { f.t.s.disk with marker := true }) := by
  obtain ⟨hu, hm, hp, hd1, hd2, _⟩ := C10_stale_rejected f.t.s h x hx hfree hstale
  refine ⟨?_, ?_, ?_, ?_⟩
  · intro a
    obtain ⟨r1, r2, _⟩ := stepF_idle_api f (.update h a) hidle hc hj
    rw [r1, r2, (hu a).1, (hu a).2]
    exact ⟨rfl, rfl⟩
  · obtain ⟨r1, r2, _⟩ := stepF_idle_api f (.markCanceled h) hidle hc hj
    rw [r1, r2, hm.1, hm.2]
    exact ⟨rfl, rfl⟩
  · obtain ⟨r1, r2, _⟩ := stepF_idle_api f (.promote h) hidle hc hj
    rw [r1, r2]
    rcases hp with ⟨_, b, c⟩ | ⟨_, b, c⟩
    · rw [b, c]; exact ⟨by simp, rfl⟩
    · rw [b, c]; exact ⟨by simp, rfl⟩
  · obtain ⟨r1, r2, _⟩ := stepF_idle_api f (.demote h) hidle hc hj
    rw [r1, r2, hd2]
    refine ⟨?_, rfl⟩
    rcases hd1 with ⟨_, b⟩ | ⟨_, b⟩ <;> rw [b] <;> simp

/-- … and likewise for its JOB-STATUS copy: `update_job_status` and `complete_hpc_job_id` by a handle whose job-status version
    differs from `job_status_version.txt` do not succeed and leave the four files unchanged. -/
theorem C10_failed_handle_jobstatus_still_refused (f : FSys) (h : Hid) (x : Handle) (j : JsView) (hx : f.t.s.handles h = some x)
    (hjs : x.js = some j) (hidle : f.pending = none) (hc : f.t.cfgVerTorn = false) (hj : f.t.jsVerTorn = false)
    (hfree : f.t.s.disk.marker = false) (hstale : j.version ≠ f.t.s.disk.jsVer) :
    (∀ a : UpdateArgs, (stepF f (.base (.api (.update h a)))).2 = .res (.err .versionMismatch) ∧
        (stepF f (.base (.api (.update h a)))).1.t.s.disk = { f.t.s.disk with marker := true }) ∧
    (∀ id : Nat, (stepF f (.base (.api (.completeHpcId h id)))).2 ≠ .res .ok ∧
        (stepF f (.base (.api (.completeHpcId h id)))).1.t.s.disk = { f.t.s.disk with marker := true }) := by
  obtain ⟨hu, hcid⟩ := C10_stale_jobstatus_rejected f.t.s h x j hx hjs hfree hstale
  constructor
  · intro a
    obtain ⟨r1, r2, _⟩ := stepF_idle_api f (.update h a) hidle hc hj
    rw [r1, r2, (hu a).1, (hu a).2]
    exact ⟨rfl, rfl⟩
  · intro id
    obtain ⟨r1, r2, _⟩ := stepF_idle_api f (.completeHpcId h id) hidle hc hj
    rw [r1, r2, (hcid id).2]
    refine ⟨?_, rfl⟩
    rcases (hcid id).1 with ⟨_, b⟩ | ⟨_, b⟩ <;> rw [b] <;> simp

/-! ## failed writes never put a handle ahead of a version file (findings/f9f, repaired) -/

/-- After EVERY tamper-free history of API calls, kills between file writes and FAILED WRITES at arbitrary file-write
    boundaries (the handle of the failed call lives on): no handle's copy is AHEAD of a version file, and no version file is
    behind the version inside its data file.  A failed write of the VERSION file rolls the in-memory bump back (the `except`
    handler of `_serialize` / `_serialize_jobs`, regenerated as `cfgVersionAfterFailedWrite` / `jsVersionAfterFailedWrite`): the
    handle holds the on-disk version again.  A failed write of the DATA file leaves version file and handle at the same,
    bumped number - with newer data in memory than in the data file; every other process holds a smaller number and is
    refused until that handle writes again.  (Before the repair the first part was false: `Props` history of findings/f9f.) -/
theorem C10_failed_write_not_ahead (host : Host) (spec : List (List JobId × Bool)) (brk : Bool) (ops : List FOp)
    (hp : ∀ op ∈ ops, op.plain = true ∧ op.isTamper = false) :
    (∀ (h : Hid) (x : Handle), (execF (FSys.ofT (TSys.ofSys (create host spec brk))) ops).t.s.handles h = some x →
      x.cfg.version ≤ (execF (FSys.ofT (TSys.ofSys (create host spec brk))) ops).t.s.disk.cfgVer) ∧
    (∀ (h : Hid) (x : Handle) (j : JsView), (execF (FSys.ofT (TSys.ofSys (create host spec brk))) ops).t.s.handles h = some x →
      x.js = some j → j.version ≤ (execF (FSys.ofT (TSys.ofSys (create host spec brk))) ops).t.s.disk.jsVer) ∧
    (execF (FSys.ofT (TSys.ofSys (create host spec brk))) ops).t.s.disk.cfg.version ≤
      (execF (FSys.ofT (TSys.ofSys (create host spec brk))) ops).t.s.disk.cfgVer ∧
    (execF (FSys.ofT (TSys.ofSys (create host spec brk))) ops).t.s.disk.js.version ≤
      (execF (FSys.ofT (TSys.ofSys (create host spec brk))) ops).t.s.disk.jsVer := by
  have hP := execF_plainAhead ops _ (PlainAhead.create host spec brk) hp
  exact ⟨hP.ahead.cfgHandle, hP.ahead.jsHandle, hP.ahead.cfgData, hP.ahead.jsData⟩

/-- Consequently, in every state reached by API calls, kills and failed writes, a handle - in particular one whose own
    earlier write failed - whose copy is OLDER THAN THE CONTENTS on disk cannot write it: its version differs from the version
    file, `update_job_status` / `mark_canceled` raise the version mismatch, promotion and demotion do not succeed, and the four
    files are unchanged; likewise `update_job_status` / `complete_hpc_job_id` for an older job-status copy. -/
theorem C10_older_copy_rejected_after_failed_writes (host : Host) (spec : List (List JobId × Bool)) (brk : Bool) (ops : List FOp)
    (hp : ∀ op ∈ ops, op.plain = true ∧ op.isTamper = false) (f : FSys)
    (hf : f = execF (FSys.ofT (TSys.ofSys (create host spec brk))) ops)
    (h : Hid) (x : Handle) (hx : f.t.s.handles h = some x) (hfree : f.t.s.disk.marker = false) :
    (x.cfg.version < f.t.s.disk.cfg.version →
      x.cfg.version ≠ f.t.s.disk.cfgVer ∧
      (∀ a : UpdateArgs, (stepF f (.base (.api (.update h a)))).2 = .res (.err .versionMismatch) ∧
          (stepF f (.base (.api (.update h a)))).1.t.s.disk = { f.t.s.disk with marker := true }) ∧
      ((stepF f (.base (.api (.markCanceled h)))).2 = .res (.err .versionMismatch) ∧
          (stepF f (.base (.api (.markCanceled h)))).1.t.s.disk = { f.t.s.disk with marker := true }) ∧
      ((stepF f (.base (.api (.promote h)))).2 ≠ .res (.bool true) ∧
          (stepF f (.base (.api (.promote h)))).1.t.s.disk.files = f.t.s.disk.files) ∧
      ((stepF f (.base (.api (.demote h)))).2 ≠ .res .ok ∧
          (stepF f (.base (.api (.demote h)))).1.t.s.disk = { f.t.s.disk with marker := true })) ∧
    (∀ j : JsView, x.js = some j → j.version < f.t.s.disk.js.version →
      j.version ≠ f.t.s.disk.jsVer ∧
      (∀ a : UpdateArgs, (stepF f (.base (.api (.update h a)))).2 = .res (.err .versionMismatch) ∧
          (stepF f (.base (.api (.update h a)))).1.t.s.disk = { f.t.s.disk with marker := true }) ∧
      (∀ id : Nat, (stepF f (.base (.api (.completeHpcId h id)))).2 ≠ .res .ok ∧
          (stepF f (.base (.api (.completeHpcId h id)))).1.t.s.disk = { f.t.s.disk with marker := true })) := by
  have hP := execF_plainAhead ops _ (PlainAhead.create host spec brk) hp
  rw [← hf] at hP
  have hc : f.t.cfgVerTorn = false := by rw [hP.plain]; rfl
  have hj : f.t.jsVerTorn = false := by rw [hP.plain]; rfl
  constructor
  · intro hold
    have hstale := hP.ahead.older_stale h x hx hold
    exact ⟨hstale, C10_failed_handle_still_refused f h x hx hP.idle hc hj hfree hstale⟩
  · intro j hjs hold
    have hstale := hP.ahead.older_stale_js h x j hx hjs hold
    exact ⟨hstale, C10_failed_handle_jobstatus_still_refused f h x j hx hjs hP.idle hc hj hfree hstale⟩

/-! ## non-vacuity -/

private def twoJobs : List (List JobId × Bool) := [([], false), ([], false)]
private def upd0 (sub comp : List JobId) (ids : List Nat) : UpdateArgs :=
  { submitted := sub, blocked := [], canceled := [], completed := comp, hpcIds := ids, batchIdx := 2 }
private def start : FSys := FSys.ofT (TSys.ofSys (create 0 twoJobs true))

/-- The creator's update names a job that does not exist (KeyError inside the locked update, after the version pre-check):
    the marker is cleared, the creator demotes, host 1 is promoted and records a batch; the creator's handle - out of date
    now - is refused promotion, `complete_hpc_job_id` and `mark_canceled` with the version mismatch. -/
example :
    (runF start [.base (.api (.update 0 (upd0 [0, 2] [] [1]))), .base (.api .breakMarker), .base (.api (.demote 0)),
      .base (.api (.load 1 1 true true)), .base (.api (.update 1 (upd0 [1] [] [7]))),
      .base (.api (.promote 0)), .base (.api .breakMarker), .base (.api (.completeHpcId 0 1)), .base (.api .breakMarker),
      .base (.api (.markCanceled 0))]).2 =
    [.res (.err .keyError), .res .ok, .res .ok, .res (.bool true), .res .ok,
     .res (.err .versionMismatch), .res .ok, .res (.err .versionMismatch), .res .ok, .res (.err .versionMismatch)] := by
  decide

/-- Nobody holds the role; the promotion of host 1 hangs right before its first file write (after the version compare).
    Host 2's promotion and the old handle's promotion time out at the lock; the marker of the live holder is not "stale";
    the call finishes: host 1 is the only submitter, and host 2 is refused afterwards. -/
example :
    (runF start [.base (.api (.demote 0)), .stallBegin (.load 1 1 true true) 0, .base (.api (.load 2 2 true true)),
      .base (.api (.promote 0)), .base (.api .breakMarker), .base (.api .read), .stallEnd,
      .base (.api (.load 2 2 true true))]).2 =
    [.res .ok, .stalled, .res (.err .lockTimeout), .res (.err .lockTimeout), .res .disabled, .res (.err .lockTimeout),
     .res (.bool true), .res (.bool false)] := by
  decide

/-- REGRESSION for findings/f9f (repaired): the write of `config_version.txt` in the creator's demotion raises OSError; the
    bump of `config.version` is rolled back, so the handle holds the on-disk version again.  Another process writes the config
    once (step 5); the failed handle's out-of-date copy is REFUSED (step 6) - before the repair it held the number the other
    process wrote and was accepted. -/
example :
    (runF start [.failWrite (.demote 0) 0, .base (.api .breakMarker), .base (.api (.load 1 1 false true)),
      .base (.api (.markCanceled 1)), .base (.api (.markCanceled 0))]).2 =
    [.res (.err .ioError), .res .ok, .res (.bool false), .res .ok, .res (.err .versionMismatch)] := by
  decide

end Jade.C10
