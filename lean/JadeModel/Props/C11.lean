import JadeModel.Proofs.SystemGen
import JadeModel.Props.C01
import JadeModel.Props.C02

/-!
# C11 — a submitter that dies or errors mid-round cannot cause double submission

The system theorems of C01/C02 are proved over the *full* op alphabet of `Jade.Sys`: `kill p`
(SIGKILL / node loss at any boundary event of any process — the replay splits a lock section at the
file mutation where the process died: `persistCfg`/`persistJobs`, `collectCopy`, a promotion whose
file write happened), `fail p` (any exception: failed sbatch/squeue, lock timeout, failed write,
assertion) followed or not by the `finally: demote`.  The statements below are those theorems, named
for C11, plus the facts specific to crashes: results never lost, a crashed round wedges further
submission instead of repeating it.  Both lock-library behaviours are covered: whether a stale lock
marker is ever broken only decides which later events happen; every sequence is quantified over.
-/

namespace Jade.C11
open Jade.Sys

variable (sc : Scn) (ops : List Op) (s : Sys)

/-- no job is handed to the HPC twice — for histories with any kills / failures -/
theorem C11_no_double_submission (h : run (init sc) ops = some s) :
    (s.batches.flatMap (·.jobs)).Nodup ∧ (s.batches.map (·.bid)).Nodup :=
  ⟨Jade.C01.C01_job_in_at_most_one_batch sc ops s h, Jade.C01.C01_batch_ids_nodup sc ops s h⟩

/-- no job is started twice -/
theorem C11_no_double_start (h : run (init sc) ops = some s) : (s.starts.map (·.1)).Nodup :=
  Jade.C01.C01_started_at_most_once sc ops s h

/-- dependency order is still respected -/
theorem C11_order_respected (s' : Sys) (p : Pid) (j : JobId) (h : run (init sc) ops = some s)
    (hs : step s (.nodeStart p j) = some s') : ∀ b ∈ sc.blockers j, HasRow s b :=
  Jade.C02.C02_start_after_blockers sc ops s s' p j h hs

/-- every result produced so far remains on disk in every continuation -/
theorem C11_rows_never_lost (s' : Sys) (more : List Op) (h : run s more = some s') (r : Row)
    (hr : RowOnDisk s r) : RowOnDisk s' r :=
  rowOnDisk_run more h r hr

/-- a round that crashed after handing out batches leaves its marker behind, and behind an orphan
    marker nobody ever submits again: later invocations refuse to act -/
theorem C11_wedged_refuses (h : run (init sc) ops = some s) (ho : Orphan s) (p : Pid) (jobs : List JobId)
    (hid : Option Hid) : step s (.sbatch p jobs hid) = none := by
  have hr := (nodeInv_reach sc ops s h).batch.role
  cases hstep : step s (.sbatch p jobs hid) with
  | none => rfl
  | some s' =>
    exfalso
    simp only [step] at hstep
    split at hstep
    · next x hx =>
      split at hstep
      · next hg =>
        have hp := getSub_eq hx
        have hm := hr.marked p true x hp (Or.inl hg.1)
        have := ho.2 p true x hp
        simp [owns, hm, hg.1] at this
      · cases hstep
    · cases hstep

theorem orphan_run {s s' : Sys} (more : List Op) (hr : RoleInv s) (ho : Orphan s)
    (hm : run s more = some s') : Orphan s' := by
  induction more generalizing s with
  | nil => simp [run] at hm; subst hm; exact ho
  | cons op more ih =>
    simp only [run] at hm
    split at hm
    · next s1 hs => exact ih (roleInv_step hr hs) (orphan_step hr ho hs) hm
    · cases hm

/-- the orphan marker is permanent -/
theorem C11_wedged_forever (s' : Sys) (more : List Op) (h : run (init sc) ops = some s) (ho : Orphan s)
    (hm : run s more = some s') : Orphan s' :=
  orphan_run more (nodeInv_reach sc ops s h).batch.role ho hm

/-- when the process holding the role dies, the role stays taken: nobody else is ever promoted -/
theorem C11_dead_holder_blocks (h : run (init sc) ops = some s) (p : Pid) (x : SubP)
    (hp : s.procs p = .sub false x) (hx : holds x.pc = true) (q : Pid) (y : SubP)
    (hq : getSub s q = some y) (hf : y.pc = .fresh) (s' : Sys) (hs : step s (.promote q) = some s') :
    s'.submitter = some p ∧ s'.disk = s.disk := by
  have hr := (nodeInv_reach sc ops s h).batch.role
  have hsub := hr.holder p false x hp hx
  simp only [step, hq, hf, hsub] at hs
  cases hs
  simp [setSub, setProc, hsub]

/-- a round whose scheduler query fails (the exception is raised before anything is collected or
    submitted, `finally: demote` runs) leaves everything as it was: the next round starts from the
    pre-failure state -/
theorem C11_squeue_transient (p : Pid) (s' : Sys) (h : run s [.promote p, .fail p, .demote p] = some s') :
    s'.disk = s.disk ∧ s'.marker = s.marker ∧ s'.processed = s.processed ∧ s'.nodeFile = s.nodeFile ∧
    s'.batches = s.batches ∧ s'.slurm = s.slurm ∧ s'.starts = s.starts ∧
    (s.submitter = none → s'.submitter = none) := by
  simp only [run] at h
  split at h
  · next s1 h1 =>
    split at h
    · next s2 h2 =>
      split at h
      · next s3 h3 =>
        cases h
        step_cases h1 <;> step_cases h2 <;> step_cases h3 <;> frame_all <;> simp_all
      · cases h
    · cases h
  · cases h

/-! ## Non-vacuity: a submitter killed between `sbatch` and the status update (see `C01.demoOps`) -/

example : ((run (init Jade.C01.demoScn) Jade.C01.demoOps).map fun s =>
    (s.submitter, s.marker, s.disk.st 2, s.batches.map (·.jobs))) = some (some 5, true, .ns, [[0, 1], [2]]) := by
  decide

/-- after the kill a new process is refused and cannot submit job 2 again -/
example : (run (init Jade.C01.demoScn) (Jade.C01.demoOps ++ [.spawnSub 7 false, .promote 7, .poll 7 []])).isNone = true := by
  decide

end Jade.C11
