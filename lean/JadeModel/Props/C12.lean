import JadeModel.Proofs.SystemLoss
import JadeModel.Props.C03
import JadeModel.Props.C04
import JadeModel.Props.C05
import JadeModel.Props.C20

/-!
# C12 — every job is accounted for when batches fail, are killed or time out

Faults are ordinary operations of the system model (`sbatch … none` = sbatch failed, `kill` of a node
process = node killed / walltime, `batchLost` = a pending batch vanishes), so every theorem quantified
over *all* op sequences covers every subset of failing batches and every kill point.

* nothing is fabricated: a finished row exists only for a job that was started and carries its exit code;
  a canceled row only for a flagged job with a failed/canceled blocker (`C12_no_fabricated_*`);
* rows of jobs that did finish are kept (`C12_finished_keep_results`);
* a job that waits for a job without outcome is never started (`C12_waiting_never_started`), whole
  stuck sets — dependency cycles in particular — never run (`C12_stuck_never`, `C12_cycle_never_runs`);
* a failed sbatch creates no active batch (`C12_failed_sbatch_not_active`), a dead node writes nothing
  (`C12_dead_node_silent`);
* once no batch is believed active a round decides "complete" (forced completion, `C12_completes_when_nothing_active`);
* the summary then lists as missing exactly the configured jobs without a row, and every configured job
  is counted in exactly one of successful/failed/canceled/missing (`C12_missing_exact`, component theorem
  about the real `_handle_completion` arithmetic).
-/

namespace Jade.C12
open Jade.Sys

theorem C12_no_fabricated_finished : type_of% @Jade.C03.C03_finished_row_real := @Jade.C03.C03_finished_row_real
theorem C12_no_fabricated_canceled : type_of% @Jade.C04.C04_canceled_row_justified := @Jade.C04.C04_canceled_row_justified
theorem C12_finished_keep_results : type_of% @Jade.Sys.rowOnDisk_run := @Jade.Sys.rowOnDisk_run

/-- a job one of whose configured blockers has no recorded outcome has not been started -/
theorem C12_waiting_never_started (sc : Scn) (ops : List Op) (s : Sys) (h : run (init sc) ops = some s)
    (j b : JobId) (hb : b ∈ sc.blockers j) (hmiss : ¬ HasRow s b) : j ∉ s.starts.map (·.1) := by
  intro hj
  have hsc : s.sc = sc := by rw [sc_run ops h]; rfl
  exact hmiss (startedOK_reach sc ops s h j hj b (by rw [hsc]; exact hb))

/-- no member of a stuck set (every member waits for a member; no member flagged) is ever started or
    given a row — whatever else happens -/
theorem C12_stuck_never (sc : Scn) (S : JobId → Prop) (hS : Stuck sc S) (ops : List Op) (s : Sys)
    (h : run (init sc) ops = some s) (j : JobId) (hj : S j) : j ∉ s.starts.map (·.1) ∧ ¬ HasRow s j :=
  stuck_never sc S hS ops s h j hj

/-- in particular the jobs of a dependency cycle block forever: they end up missing -/
theorem C12_cycle_never_runs (sc : Scn) (cyc : List JobId)
    (hc : ∀ j ∈ cyc, ∃ b ∈ sc.blockers j, b ∈ cyc) (hf : ∀ j ∈ cyc, sc.flag j = false)
    (ops : List Op) (s : Sys) (h : run (init sc) ops = some s) :
    ∀ j ∈ cyc, j ∉ s.starts.map (·.1) ∧ ¬ HasRow s j :=
  fun j hj => stuck_never sc (· ∈ cyc) ⟨hc, hf⟩ ops s h j hj

/-- a failed sbatch leaves the scheduler and the set of ids believed active untouched -/
theorem C12_failed_sbatch_not_active (s s' : Sys) (p : Pid) (jobs : List JobId) (x : SubP)
    (hx : getSub s p = some x) (h : step s (.sbatch p jobs none) = some s') :
    s'.slurm = s.slurm ∧ ∃ x', getSub s' p = some x' ∧ x'.out = x.out ∧ x'.pend = x.pend ++ jobs := by
  simp only [step, hx] at h
  split at h
  · cases h
    refine ⟨by funext k; simp, { x with pend := x.pend ++ jobs, bidx := x.bidx + 1 }, ?_, rfl, rfl⟩
    simp [getSub, setSub, setProc]
  · cases h

/-- a node process that was killed starts nothing and writes nothing afterwards -/
theorem C12_dead_node_silent (s : Sys) (p : Pid) (n : NodeP) (hp : s.procs p = .node false n) (j : JobId) :
    step s (.nodeStart p j) = none ∧ step s (.nodeRow p j) = none ∧ step s (.nodeCancel p j) = none := by
  simp [step, getNode, hp]

/-- forced completion: a round that ends with no batch believed active decides "complete" -/
theorem C12_completes_when_nothing_active : type_of% @Jade.C05.C05_quiescent_round_progress := @Jade.C05.C05_quiescent_round_progress
theorem C12_decision : type_of% @Jade.C05.C05_decision := @Jade.C05.C05_decision

/-- the summary: missing = configured jobs without a row; the four counters partition the configuration -/
theorem C12_missing_exact : type_of% @Jade.C20.tally_sum := @Jade.C20.tally_sum

/-! ## Non-vacuity -/

/-- jobs 1 ⇄ 2 form a cycle, job 3 waits for job 0, all unflagged -/
def demoScn : Scn := { n := 4, blockers := fun j => if j = 1 then [2] else if j = 2 then [1] else if j = 3 then [0] else [],
                       flag := fun _ => false, rc := fun _ => 0, maxNodes := 2 }

example : Stuck demoScn (· ∈ [1, 2]) := by
  refine ⟨?_, fun _ _ => rfl⟩
  intro j hj
  simp only [List.mem_cons, List.mem_nil_iff, or_false] at hj
  rcases hj with rfl | rfl <;> simp [demoScn]

/-- batch 1 = [0] is accepted by sbatch but its node is killed before job 0 ran; the next round finds nothing
    active, decides complete; job 3 was never started and nothing was fabricated -/
def demoOps : List Op :=
  [.spawnSub 1 false, .promote 1, .passEnd 1 [], .collectDone 1, .mark 1, .sbatch 1 [0] (some 100),
   .persist 1, .unmark 1, .demote 1, .exit 1,
   .startBatch 100 2 1, .kill 2,
   .spawnSub 3 false, .promote 3, .poll 3 [100], .passEnd 3 [], .collectDone 3, .mark 3, .persist 3, .unmark 3,
   .summary 3, .flag 3, .demote 3]

example : ((run (init demoScn) demoOps).map fun s => (s.disk.complete, s.processed.length, s.starts.length, s.batches.length))
    = some (true, 0, 0, 1) := by decide

/-- the stuck jobs cannot be put into a batch at all (C07 guard: a blocked job needs its blockers along,
    and blockers must be unsubmitted — the cycle can go in together, but then neither can start) -/
example : ((run (init demoScn) ([.spawnSub 1 false, .promote 1, .passEnd 1 [], .collectDone 1, .mark 1,
    .sbatch 1 [1, 2] (some 100), .persist 1, .unmark 1, .demote 1, .exit 1, .startBatch 100 2 2, .nodeStart 2 1])).isNone)
    = true := by decide

end Jade.C12
