import JadeModel.Proofs.Resubmit

/-!
# C13 — resubmission reruns exactly the selected jobs and their dependents

Theorems about `Model/Resubmit.lean` (`resubmit_jobs`, `_get_jobs_to_resubmit`, `_update_with_blocking_jobs`,
`clear_results_for_resubmission`, `Cluster.prepare_for_resubmission`), for **all** configurations (any number of
jobs, any blocker relation over the listing order: forward, backward, self loops, cycles), all result sets, all
flag combinations, all failure points supplied by the environment.

Scope.  These theorems are about the *command*: which jobs it selects, the closure under "depends on", which
result rows it removes, the state it writes, and what it does when it refuses or fails.  That the reset
submission then runs every job of the rerun set once, in dependency order, and ends with one entry per job is
carried by the system-level theorems (C01/C02/C03), which hold for any initial state satisfying the status
invariants — `prepare_statusInv_iff` says exactly when the state written here is such a state.

Two recorded deviations of the code (proved below as witnesses, replayed on the implementation by
`findings/f97_resubmit_no_missing.py` and the `resubmit` suite):
* with `--no-missing`, a never-submitted job outside the rerun set stays NOT_SUBMITTED while `submitted_jobs`
  counts it as submitted (`noMissing_counters_witness`), and the submitter will run it;
* a `--submission-groups-file` that cannot be read fails after promotion but before the `try/finally`: the role
  stays with the host (nothing is erased on that path: `groups_file_failure_keeps_role`);
* a write failure inside `prepare_for_resubmission` before job_status.json is written leaves results erased,
  the config reset and the job states old: neither try-submit-jobs nor resubmit-jobs can act afterwards
  (`prepare_write_failure_witness`; every other failure point leaves a way forward:
  `failure_leaves_way_forward`).
-/

namespace Jade.C13
open Jade.Resubmit Jade.Gen.Resubmit

/-! ## Selection -/

/-- `--failed` selects exactly the jobs whose (last) entry in results.json has a non-zero return code — run and
    failed, or canceled —, `--successful` those that ran with return code 0, `--missing` the jobs of the
    submission without an entry.  Names only: nothing else of a row matters. -/
theorem select_spec (n : Nat) (sm : List Row) (failed missing successful : Bool) (j : JobId) :
    j ∈ resubmitSelect n sm failed missing successful ↔
      (failed = true ∧ ∃ r, resultOf sm j = some r ∧ r.rc ≠ 0 ∧ (r.status = "finished" ∨ r.status = "canceled")) ∨
      (successful = true ∧ ∃ r, resultOf sm j = some r ∧ r.rc = 0 ∧ r.status = "finished") ∨
      (missing = true ∧ j < n ∧ resultOf sm j = none) := by
  rw [mem_resubmitSelect]
  simp only [isFailed_iff, isCanceled_iff, isSuccessful_iff]
  constructor
  · rintro (⟨r, hr, (⟨hf, h⟩ | ⟨hs, h⟩)⟩ | h)
    · refine Or.inl ⟨hf, r, hr, ?_⟩
      rcases h with h | h
      · exact ⟨h.1, Or.inl h.2⟩
      · exact ⟨h.1, Or.inr h.2⟩
    · exact Or.inr (Or.inl ⟨hs, r, hr, h⟩)
    · exact Or.inr (Or.inr h)
  · rintro (⟨hf, r, hr, h1, h2⟩ | ⟨hs, r, hr, h⟩ | h)
    · refine Or.inl ⟨r, hr, Or.inl ⟨hf, ?_⟩⟩
      rcases h2 with h2 | h2
      · exact Or.inl ⟨h1, h2⟩
      · exact Or.inr ⟨h1, h2⟩
    · exact Or.inl ⟨r, hr, Or.inr ⟨hs, h⟩⟩
    · exact Or.inr h

/-- with one entry per job in results.json (every completed submission) "the entry of `j`" is the row named `j` -/
theorem select_entry_unique (sm : List Row) (hnd : (sm.map (·.name)).Nodup) (j : JobId) (r : Row) :
    resultOf sm j = some r ↔ r ∈ sm ∧ r.name = j :=
  resultOf_eq_some_iff_of_nodup hnd j r

/-- the selection is a set -/
theorem select_nodup (n : Nat) (sm : List Row) (failed missing successful : Bool) :
    (resubmitSelect n sm failed missing successful).Nodup :=
  nodup_resubmitSelect n sm failed missing successful

/-! ## Closure under "depends on" -/

/-- The set the bounded iteration returns is exactly the selection plus every job that transitively depends on
    a selected job — for any listing order, forward and backward edges, self loops and cycles. -/
theorem closure_spec (n : Nat) (blockers : JobId → List JobId) (sel : List JobId) (st : CState)
    (h : resubmitClosure n blockers sel = .ok st) (j : JobId) :
    j ∈ st.cur ↔ ∃ x, x ∈ sel ∧ Reaches n blockers x j :=
  closure_mem_iff sel st h j

/-- When every configured blocker exists (`check_job_dependencies`), `max_iter = num_jobs` passes suffice and the
    in-loop `assert i < max_iter - 1` never fires. -/
theorem closure_assert_never_fires (n : Nat) (blockers : JobId → List JobId)
    (hwf : ∀ j, j < n → ∀ b ∈ blockers j, b < n) (sel : List JobId) :
    ∃ st, resubmitClosure n blockers sel = .ok st :=
  closure_total hwf sel

/-- …and the hypothesis is needed: one job blocked by a name that is no job of the configuration. -/
theorem closure_assert_fires_on_dangling_blocker :
    (resubmitClosure 1 (fun _ => [5]) [5]).toOption.isNone = true := by decide

/-- the selection is part of the rerun set, the rerun set is closed, and it stays a set -/
theorem closure_contains_selection (n : Nat) (blockers : JobId → List JobId) (sel : List JobId) (st : CState)
    (h : resubmitClosure n blockers sel = .ok st) :
    (∀ x ∈ sel, x ∈ st.cur) ∧
    (∀ j, j < n → (∃ b, b ∈ blockers j ∧ b ∈ st.cur) → j ∈ st.cur) ∧
    (sel.Nodup → st.cur.Nodup) ∧
    (∀ x ∈ st.cur, x ∈ sel ∨ x < n) := by
  refine ⟨fun x hx => (closure_spec n blockers sel st h x).2 ⟨x, hx, Reaches.refl x⟩,
    (closure_closed sel st h).1, closure_nodup sel st h, ?_⟩
  intro x hx
  obtain ⟨s, hs, hr⟩ := (closure_spec n blockers sel st h x).1 hx
  cases hr with
  | refl => exact Or.inl hs
  | tail _ hstep => exact Or.inr hstep.1

/-- The dict handed to `prepare_for_resubmission`: a key for exactly the configuration jobs with a blocker in
    the rerun set, holding exactly `blockers j ∩ rerun set`. -/
theorem closure_blockers_spec (n : Nat) (blockers : JobId → List JobId) (sel : List JobId) (st : CState)
    (h : resubmitClosure n blockers sel = .ok st) (j : JobId) :
    st.upd j =
      if j < n ∧ (∃ b, b ∈ blockers j ∧ b ∈ st.cur) then some ((blockers j).filter (fun b => st.cur.contains b))
      else none :=
  (closure_closed sel st h).2 j

/-- hence `updated_blocking_jobs_by_name.get(name, set())` is `blockers j ∩ rerun set` for every job; in
    particular the empty set for a selected job none of whose blockers is rerun -/
theorem closure_blockers_written (n : Nat) (blockers : JobId → List JobId) (sel : List JobId) (st : CState)
    (h : resubmitClosure n blockers sel = .ok st) (j : JobId) (hj : j < n) :
    (st.upd j).getD [] = (blockers j).filter (fun b => st.cur.contains b) ∧
    ((∀ b ∈ blockers j, b ∉ st.cur) → (st.upd j).getD [] = []) := by
  have h1 := upd_getD_of_spec (closure_closed sel st h).2 j hj
  refine ⟨h1, fun hno => ?_⟩
  rw [h1]
  apply List.filter_eq_nil_iff.2
  intro b hb
  simpa using hno b hb

/-- closing a closed set changes nothing: same set (same order), same dict -/
theorem closure_idempotent (n : Nat) (blockers : JobId → List JobId) (sel : List JobId) (st : CState)
    (h : resubmitClosure n blockers sel = .ok st) :
    ∃ st', resubmitClosure n blockers st.cur = .ok st' ∧ st'.cur = st.cur ∧ st'.upd = st.upd := by
  obtain ⟨hc, hu⟩ := closure_closed sel st h
  obtain ⟨st', h', hcur⟩ := closure_of_closed st.cur hc
  refine ⟨st', h', hcur, ?_⟩
  funext k
  rw [(closure_closed st.cur st' h').2 k, hu k, hcur]

/-- a larger selection gives a larger rerun set -/
theorem closure_monotone (n : Nat) (blockers : JobId → List JobId) (sel sel' : List JobId) (st st' : CState)
    (h : resubmitClosure n blockers sel = .ok st) (h' : resubmitClosure n blockers sel' = .ok st')
    (hsub : ∀ x ∈ sel, x ∈ sel') : ∀ j ∈ st.cur, j ∈ st'.cur := by
  intro j hj
  obtain ⟨x, hx, hr⟩ := (closure_spec n blockers sel st h j).1 hj
  exact (closure_spec n blockers sel' st' h' j).2 ⟨x, hsub x hx, hr⟩

/-! ## Result pruning -/

/-- `clear_results_for_resubmission`: the rows that remain are exactly the rows of jobs outside the rerun set,
    every field unchanged, in their original order; no row of a rerun job remains; nothing new appears. -/
theorem clear_preserves (rows : List Row) (sel : List JobId) :
    clearResults rows sel = rows.filter (fun r => decide (r.name ∉ sel)) ∧
    (clearResults rows sel).Sublist rows ∧
    (∀ r, r ∈ clearResults rows sel ↔ r ∈ rows ∧ r.name ∉ sel) ∧
    (∀ j, j ∉ sel → (clearResults rows sel).filter (fun r => r.name == j) = rows.filter (fun r => r.name == j)) ∧
    (∀ j, j ∈ sel → (clearResults rows sel).filter (fun r => r.name == j) = []) ∧
    clearResults (clearResults rows sel) sel = clearResults rows sel := by
  refine ⟨clearResults_eq rows sel, clearResults_sublist rows sel, mem_clearResults rows sel, ?_, ?_,
    clearResults_idem rows sel⟩
  · intro j hj
    apply clearResults_filter_of_not_mem
    intro r _ hr
    have : r.name = j := by simpa using hr
    rw [this]; exact hj
  · intro j hj
    apply List.filter_eq_nil_iff.2
    intro r hr
    have := ((mem_clearResults rows sel r).1 hr).2
    intro he
    have hname : r.name = j := by simpa using he
    exact this (hname ▸ hj)

/-! ## The state `prepare_for_resubmission` writes -/

/-- Jobs of the rerun set become NOT_SUBMITTED with the blockers of the dict (none when absent); every other job
    keeps state and blockers; `is_complete` and `is_canceled` are cleared, the submitter field is kept;
    `submitted_jobs = num_jobs - |rerun set|`, `completed_jobs` = number of DONE jobs outside the set.  It raises
    (assertion) exactly on an incomplete submission. -/
theorem prepare_spec (n : Nat) (mem : Cfg) (state : JobId → JState) (bb : JobId → List JobId)
    (sel : List JobId) (upd : JobId → Option (List JobId)) :
    (mem.isComplete = false → prepareForResubmission n mem state bb sel upd = .error .assertion) ∧
    (mem.isComplete = true → ∃ p, prepareForResubmission n mem state bb sel upd = .ok p ∧
      (∀ j, j ∈ sel → p.state j = .notSubmitted ∧ p.blockedBy j = (upd j).getD []) ∧
      (∀ j, j ∉ sel → p.state j = state j ∧ p.blockedBy j = bb j) ∧
      p.cfg.isComplete = false ∧ p.cfg.isCanceled = false ∧ p.cfg.submitter = mem.submitter ∧
      p.cfg.submitted = (n : Int) - (sel.length : Int) ∧
      p.cfg.completed = (((List.range n).countP (fun j => !sel.contains j && (state j == .done)) : Nat) : Int)) := by
  refine ⟨prepare_error n mem state bb sel upd, fun hc => ⟨_, prepare_eq n mem state bb sel upd hc, ?_⟩⟩
  refine ⟨fun j hj => ?_, fun j hj => ?_, rfl, rfl, rfl, rfl, rfl⟩
  · simp [hj]
  · simp [hj]

/-- The written state satisfies the status invariants (`completed_jobs` = number of DONE jobs, `submitted_jobs` =
    number of SUBMITTED or DONE jobs) **iff** no never-submitted job is left outside the rerun set.
    (`completed_jobs` is always right; `submitted_jobs` is off by the number of such jobs.) -/
theorem prepare_statusInv_iff (n : Nat) (mem : Cfg) (state : JobId → JState) (bb : JobId → List JobId)
    (sel : List JobId) (upd : JobId → Option (List JobId)) (p : Prepared)
    (hp : prepareForResubmission n mem state bb sel upd = .ok p)
    (hnd : sel.Nodup) (hlt : ∀ j ∈ sel, j < n) :
    StatusInv n p.state p.cfg ↔ ∀ j, j < n → state j = .notSubmitted → j ∈ sel :=
  prepare_statusInv_iff' n mem state bb sel upd p hp hnd hlt

/-- The same condition says that the jobs the reset state offers to the submitter (NOT_SUBMITTED) are exactly
    the rerun set. -/
theorem prepare_candidates_iff (n : Nat) (mem : Cfg) (state : JobId → JState) (bb : JobId → List JobId)
    (sel : List JobId) (upd : JobId → Option (List JobId)) (p : Prepared)
    (hp : prepareForResubmission n mem state bb sel upd = .ok p) :
    (∀ j, p.state j = .notSubmitted ↔ (j ∈ sel ∨ state j = .notSubmitted)) ∧
    ((∀ j, j < n → (p.state j = .notSubmitted ↔ j ∈ sel)) ↔ ∀ j, j < n → state j = .notSubmitted → j ∈ sel) := by
  have hc : mem.isComplete = true := by
    cases h : mem.isComplete with
    | true => rfl
    | false => rw [prepare_error _ _ _ _ _ _ h] at hp; cases hp
  rw [prepare_eq _ _ _ _ _ _ hc] at hp
  injection hp with hp; subst hp
  have h1 : ∀ j, (if j ∈ sel then JState.notSubmitted else state j) = .notSubmitted ↔ (j ∈ sel ∨ state j = .notSubmitted) := by
    intro j; by_cases hj : j ∈ sel <;> simp [hj]
  refine ⟨h1, ?_⟩
  simp only [h1]
  constructor
  · intro h j hj hs; exact (h j hj).1 (Or.inr hs)
  · intro h j hj
    exact ⟨fun hh => hh.elim id (h j hj), Or.inl⟩

/-- Default flags (`--missing` on) on a coherent completed submission — a never-submitted job has no result, the
    results belong to jobs of the submission —: the state the command writes satisfies the status invariants, so
    the system-level theorems apply to the rerun. -/
theorem prepare_statusInv_with_missing (n : Nat) (blockers : JobId → List JobId) (sm : List Row)
    (failed successful : Bool) (mem : Cfg) (state : JobId → JState) (bb : JobId → List JobId)
    (st : CState) (p : Prepared)
    (hnames : ∀ r ∈ sm, r.name < n)
    (hcoh : ∀ j, j < n → state j = .notSubmitted → resultOf sm j = none)
    (hcl : resubmitClosure n blockers (resubmitSelect n sm failed true successful) = .ok st)
    (hp : prepareForResubmission n mem state bb st.cur st.upd = .ok p) :
    StatusInv n p.state p.cfg := by
  obtain ⟨hsub, _, hnd, hlt⟩ := closure_contains_selection n blockers _ st hcl
  have hlt' : ∀ j ∈ st.cur, j < n := by
    intro j hj
    rcases hlt j hj with h | h
    · rcases (mem_resubmitSelect n sm failed true successful j).1 h with ⟨r, hr, _⟩ | ⟨_, h, _⟩
      · have := resultOf_some_mem hr
        rw [← this.2]; exact hnames r this.1
      · exact h
    · exact h
  rw [prepare_statusInv_iff n mem state bb st.cur st.upd p hp (hnd (select_nodup n sm failed true successful)) hlt']
  intro j hj hs
  exact hsub j ((mem_resubmitSelect n sm failed true successful j).2 (Or.inr ⟨rfl, hj, hcoh j hj hs⟩))

/-- Every blocker written for a job of the rerun set is itself in the rerun set, hence NOT_SUBMITTED: the reset
    state is self-contained (a rerun job waits only for rerun jobs, and for all of its configured blockers that
    are rerun). -/
theorem rerun_blockers_in_closure (n : Nat) (blockers : JobId → List JobId) (sel : List JobId) (st : CState)
    (mem : Cfg) (state : JobId → JState) (bb : JobId → List JobId) (p : Prepared)
    (hcl : resubmitClosure n blockers sel = .ok st)
    (hp : prepareForResubmission n mem state bb st.cur st.upd = .ok p) (j : JobId) (hj : j < n) (hin : j ∈ st.cur) :
    p.state j = .notSubmitted ∧
    p.blockedBy j = (blockers j).filter (fun b => st.cur.contains b) ∧
    (∀ b ∈ p.blockedBy j, b ∈ blockers j ∧ b ∈ st.cur ∧ p.state b = .notSubmitted) ∧
    (∀ b ∈ blockers j, b ∈ st.cur → b ∈ p.blockedBy j) := by
  have hc : mem.isComplete = true := by
    cases h : mem.isComplete with
    | true => rfl
    | false => rw [prepare_error _ _ _ _ _ _ h] at hp; cases hp
  rw [prepare_eq _ _ _ _ _ _ hc] at hp
  injection hp with hp; subst hp
  have hw := (closure_blockers_written n blockers sel st hcl j hj).1
  simp only [hin, if_true, hw]
  refine ⟨trivial, trivial, ?_, ?_⟩
  · intro b hb
    have := List.mem_filter.1 hb
    have hbc : b ∈ st.cur := by simpa using this.2
    exact ⟨this.1, hbc, by simp [hbc]⟩
  · intro b hb hbc
    exact List.mem_filter.2 ⟨hb, by simpa using hbc⟩

/-! ## The command: refusal and failure behaviour -/

/-- On a submission that is not complete the command exits with code 1 and leaves every file as it was — job
    states, blockers, results, results.json, counters, flags, events —; the submitter field too: untouched while
    somebody holds the role, released again when the command itself had been promoted.  (Model without the
    version counters of the cluster files.) -/
theorem refuses_incomplete (env : Env) (fl : Flags) (s : Sub) (hl : env.loadFails = false)
    (hc : s.cfg.isComplete = false) :
    (resubmitCmd env fl s).outcome = .exit 1 ∧ (resubmitCmd env fl s).s = s ∧
    (resubmitCmd env fl s).roundEntered = false ∧ (resubmitCmd env fl s).pruned = false :=
  cmd_refuses_incomplete env fl s hl hc

/-- …also while another node (or this one) is the submitter: its role is not taken away. -/
theorem refuses_incomplete_keeps_foreign_role (env : Env) (fl : Flags) (s : Sub) (hl : env.loadFails = false)
    (hc : s.cfg.isComplete = false) (h : String) (hh : s.cfg.submitter = some h) :
    (resubmitCmd env fl s).s.cfg.submitter = some h := by
  rw [(refuses_incomplete env fl s hl hc).2.1]; exact hh

/-- Full-strength reading of "a failure never leaves the submission with results erased and no way forward":
    for EVERY environment (every failure point: load, groups file, results.json, closure, reset before/after the
    rewrite, the three writes of prepare, events cleanup, JobSubmitter.load, the submit round) — whenever this run
    removed or rewrote result rows, the submitter role is free afterwards, so try-submit-jobs or a repeated
    resubmit-jobs can act. -/
theorem failure_not_stranded (env : Env) (fl : Flags) (s : Sub) :
    ((resubmitCmd env fl s).pruned = true ∨ (resubmitCmd env fl s).s.rows ≠ s.rows) →
      (resubmitCmd env fl s).s.cfg.submitter = none := by
  intro h
  apply cmd_pruned_released
  rcases h with h | h
  · exact h
  · cases hp : (resubmitCmd env fl s).pruned with
    | true => rfl
    | false => exact absurd ((cmd_frame env fl s).2.2.2 hp) h

/-- Every failure point behind a successful promotion — except a groups file that cannot be read — releases the
    role (the steps run inside `try/finally: demote_from_submitter`). -/
theorem failure_releases_role (env : Env) (fl : Flags) (s : Sub) (hl : env.loadFails = false)
    (hc : s.cfg.isComplete = true) (hfree : s.cfg.submitter = none) (hg : env.groups ≠ .raises) :
    (resubmitCmd env fl s).s.cfg.submitter = none :=
  cmd_released env fl s hl hc hfree hg

/-- "…and no way forward", positively, for EVERY way the command can end on a complete submission whose role was
    free — success or any failure point (missing results.json, closure, reset before/after the rewrite, the last
    write of prepare, events cleanup, JobSubmitter.load, the submit round) — EXCEPT a failure at one of the first
    two writes of `prepare_for_resubmission` (excluded by hypothesis; see `prepare_write_failure_witness`):
    the role is released, and the files are either
    * untouched apart from the rows of the rerun set: config/status exactly as before, hence still complete and
      free, so the command can be repeated (and `repeat_after_failure_same_result` says where that ends), or
    * fully prepared: exactly the rows, job states, blockers, counters and flags that a successful command hands to
      its own submit round (`success_spec`), with the role free, so try-submit-jobs can act on it. -/
theorem failure_leaves_way_forward (env : Env) (fl : Flags) (s : Sub) (hl : env.loadFails = false)
    (hc : s.cfg.isComplete = true) (hfree : s.cfg.submitter = none)
    (hg : env.groups = .absent ∨ env.groups = .ok)
    (hp1 : env.prepFails ≠ some .config) (hp2 : env.prepFails ≠ some .jobs) :
    (resubmitCmd env fl s).s.cfg.submitter = none ∧
    (((resubmitCmd env fl s).s.cfg = s.cfg ∧ (resubmitCmd env fl s).s.state = s.state ∧
      (resubmitCmd env fl s).s.blockedBy = s.blockedBy ∧
      ((resubmitCmd env fl s).pruned = false → (resubmitCmd env fl s).s.rows = s.rows) ∧
      ((resubmitCmd env fl s).pruned = true → ∃ sm st, s.summary = some sm ∧
        resubmitClosure s.n s.blockers (resubmitSelect s.n sm fl.failed fl.missing fl.successful) = .ok st ∧
        (resubmitCmd env fl s).s.rows = clearResults s.rows st.cur)) ∨
     (∃ sm st p, s.summary = some sm ∧
        resubmitClosure s.n s.blockers (resubmitSelect s.n sm fl.failed fl.missing fl.successful) = .ok st ∧
        prepareForResubmission s.n { s.cfg with submitter := some env.host } s.state s.blockedBy st.cur st.upd = .ok p ∧
        (resubmitCmd env fl s).s.state = p.state ∧ (resubmitCmd env fl s).s.blockedBy = p.blockedBy ∧
        (resubmitCmd env fl s).s.cfg = { p.cfg with submitter := none } ∧
        (resubmitCmd env fl s).s.rows = clearResults s.rows st.cur)) :=
  cmd_way_forward env fl s hl hc hfree hg hp1 hp2

/-- Observation (not a violation of the property's conjunction: nothing is erased on this path): a
    `--submission-groups-file` that cannot be loaded or validated raises after promotion and before the
    `try/finally`; the submitter field keeps this host, everything else is unchanged … -/
theorem groups_file_failure_keeps_role (env : Env) (fl : Flags) (s : Sub) (hl : env.loadFails = false)
    (hc : s.cfg.isComplete = true) (hfree : s.cfg.submitter = none) (hg : env.groups = .raises) :
    (resubmitCmd env fl s).outcome = .raised .valueError ∧
    (resubmitCmd env fl s).s = { s with cfg := { s.cfg with submitter := some env.host } } ∧
    (resubmitCmd env fl s).pruned = false ∧ (resubmitCmd env fl s).roundEntered = false :=
  cmd_groups_raises env fl s hl hc hfree hg

/-- … and from then on every resubmit-jobs on the (complete) submission dies on `assert promoted`, changing
    nothing. -/
theorem held_role_blocks_resubmission (env : Env) (fl : Flags) (s : Sub) (hl : env.loadFails = false)
    (hc : s.cfg.isComplete = true) (hheld : s.cfg.submitter ≠ none) :
    (resubmitCmd env fl s).outcome = .raised .assertion ∧ (resubmitCmd env fl s).s = s ∧
    (resubmitCmd env fl s).pruned = false ∧ (resubmitCmd env fl s).roundEntered = false :=
  cmd_held_complete env fl s hl hc hheld

/-- The command never writes config.json or results.json, so whatever happened — including a failure after the
    rows were pruned — a repeated command computes the same selection and the same rerun set: selection reads
    results.json, not the pruned CSV. -/
theorem repeat_after_failure_same_selection (env : Env) (fl fl' : Flags) (s : Sub) (sm : List Row)
    (hsm : s.summary = some sm) :
    (resubmitCmd env fl s).s.summary = some sm ∧
    resubmitSelect (resubmitCmd env fl s).s.n sm fl'.failed fl'.missing fl'.successful =
      resubmitSelect s.n sm fl'.failed fl'.missing fl'.successful ∧
    ∀ sel, (resubmitClosure (resubmitCmd env fl s).s.n (resubmitCmd env fl s).s.blockers sel).toOption.map (·.cur) =
           (resubmitClosure s.n s.blockers sel).toOption.map (·.cur) := by
  obtain ⟨h1, h2, h3, _⟩ := cmd_frame env fl s
  refine ⟨by rw [h3, hsm], by rw [h1], fun sel => by rw [h1, h2]⟩

/-- A failure in the closure step or in `_reset_results` (before or after the CSV was rewritten) on a complete
    submission: exception, role released, submission still complete, and the only possible change is that the
    rows of the rerun set are gone. -/
theorem early_failure_state (env : Env) (fl : Flags) (s : Sub) (sm : List Row) (st : CState)
    (hl : env.loadFails = false) (hc : s.cfg.isComplete = true) (hfree : s.cfg.submitter = none)
    (hg : env.groups = .absent ∨ env.groups = .ok) (hsm : s.summary = some sm)
    (hcl : resubmitClosure s.n s.blockers (resubmitSelect s.n sm fl.failed fl.missing fl.successful) = .ok st)
    (hfail : env.closureFails = true ∨ env.resetFails ≠ none) :
    (resubmitCmd env fl s).outcome = .raised .ioError ∧
    (resubmitCmd env fl s).roundEntered = false ∧
    (resubmitCmd env fl s).s =
      { s with rows := if env.closureFails = false ∧ env.resetFails = some true then clearResults s.rows st.cur else s.rows } :=
  cmd_early_failure env fl s sm st hl hc hfree hg hsm hcl hfail

/-- …and repeating the same command (now without failure) ends exactly where a first run without failure would
    have ended: same exit code, rows, job states, blockers, counters, flags, events. -/
theorem repeat_after_failure_same_result (env env' : Env) (fl : Flags) (s : Sub) (sm : List Row) (st : CState)
    (rs : RoundStatus)
    (hl : env.loadFails = false) (hc : s.cfg.isComplete = true) (hfree : s.cfg.submitter = none)
    (hg : env.groups = .absent ∨ env.groups = .ok) (hsm : s.summary = some sm)
    (hcl : resubmitClosure s.n s.blockers (resubmitSelect s.n sm fl.failed fl.missing fl.successful) = .ok st)
    (hfail : env.closureFails = true ∨ env.resetFails ≠ none)
    (hl' : env'.loadFails = false) (hg' : env'.groups = .absent ∨ env'.groups = .ok)
    (h1 : env'.closureFails = false) (h2 : env'.resetFails = none) (h3 : env'.prepFails = none)
    (h4 : env'.eventsFails = false) (h5 : env'.loadMgrFails = false) (h6 : env'.round = some rs) :
    let r2 := resubmitCmd env' fl (resubmitCmd env fl s).s
    let r := resubmitCmd env' fl s
    r2.outcome = r.outcome ∧ r2.roundEntered = r.roundEntered ∧ r2.s.rows = r.s.rows ∧ r2.s.state = r.s.state ∧
    r2.s.blockedBy = r.s.blockedBy ∧ r2.s.cfg = r.s.cfg ∧ r2.s.events = r.s.events :=
  cmd_repeat_after_early_failure env env' fl s sm st rs hl hc hfree hg hsm hcl hfail hl' hg' h1 h2 h3 h4 h5 h6

/-- No failure: when the submit round starts the command has removed exactly the rows of the rerun set, written
    the state of `prepare_spec` for (rerun set, blockers dict) of `closure_spec`/`closure_blockers_spec`, emptied
    events/ if it exists (and not failed if it does not); afterwards the role is released and the exit code is 0
    for GOOD / IN_PROGRESS and 1 for ERROR. -/
theorem success_spec (env : Env) (fl : Flags) (s : Sub) (sm : List Row) (st : CState) (rs : RoundStatus)
    (hl : env.loadFails = false) (hc : s.cfg.isComplete = true) (hfree : s.cfg.submitter = none)
    (hg : env.groups = .absent ∨ env.groups = .ok) (hsm : s.summary = some sm)
    (hcl : resubmitClosure s.n s.blockers (resubmitSelect s.n sm fl.failed fl.missing fl.successful) = .ok st)
    (h1 : env.closureFails = false) (h2 : env.resetFails = none) (h3 : env.prepFails = none)
    (h4 : env.eventsFails = false) (h5 : env.loadMgrFails = false) (h6 : env.round = some rs) :
    ∃ p, prepareForResubmission s.n { s.cfg with submitter := some env.host } s.state s.blockedBy st.cur st.upd = .ok p ∧
      (resubmitCmd env fl s).outcome = .exit (if rs = .error then 1 else 0) ∧
      (resubmitCmd env fl s).roundEntered = true ∧
      (resubmitCmd env fl s).s.rows = clearResults s.rows st.cur ∧
      (resubmitCmd env fl s).s.state = p.state ∧
      (resubmitCmd env fl s).s.blockedBy = p.blockedBy ∧
      (resubmitCmd env fl s).s.cfg = { p.cfg with submitter := none } ∧
      (resubmitCmd env fl s).s.events = s.events.map (fun _ => 0) ∧
      (resubmitCmd env fl s).s.summary = s.summary := by
  obtain ⟨p, hp, a1, a2, a3, a4, a5, a6, a7⟩ := cmd_success env fl s sm st rs hl hc hfree hg hsm hcl h1 h2 h3 h4 h5 h6
  refine ⟨p, hp, ?_, a2, a3, a4, a5, a6, a7, (cmd_frame env fl s).2.2.1⟩
  rw [a1]
  cases rs <;> decide

/-! ## The recorded deviation: `--no-missing` with never-submitted jobs -/

/-- three independent jobs of a canceled, then force-completed submission: j0 failed, j1 succeeded, j2 was never
    submitted -/
def noMissingWitness : Sub :=
  { n := 3, blockers := fun _ => [],
    summary := some [⟨0, 1, "finished", "1.5", "1700000000.0", "11"⟩, ⟨1, 0, "finished", "1.5", "1700000001.0", "11"⟩],
    rows := [⟨0, 1, "finished", "1.5", "1700000000.0", "11"⟩, ⟨1, 0, "finished", "1.5", "1700000001.0", "11"⟩],
    state := fun j => if j = 2 then .notSubmitted else .done,
    blockedBy := fun _ => [],
    cfg := { submitter := none, isComplete := true, isCanceled := true, submitted := 2, completed := 2 },
    events := none }

/-- `resubmit-jobs --no-missing` on it: the rerun set is {j0}; the command writes `submitted_jobs = 2` although
    only j1 is submitted/done, and leaves j2 NOT_SUBMITTED, i.e. a candidate of the next submit round although it
    was not selected.  The status invariants do NOT hold for the written state. -/
theorem noMissing_counters_witness :
    let r := resubmitCmd { host := "login1" } { failed := true, missing := false, successful := false } noMissingWitness
    r.outcome = .exit 0 ∧ r.s.rows.map (·.name) = [1] ∧
    (List.range 3).map r.s.state = [.notSubmitted, .done, .notSubmitted] ∧
    r.s.cfg.submitted = 2 ∧ r.s.cfg.completed = 1 ∧
    ¬ StatusInv 3 r.s.state r.s.cfg := by
  decide

/-- the same submission with the default flags: j2 is selected as missing and the invariants hold -/
theorem default_flags_on_witness :
    let r := resubmitCmd { host := "login1" } { failed := true, missing := true, successful := false } noMissingWitness
    (List.range 3).map r.s.state = [.notSubmitted, .done, .notSubmitted] ∧
    r.s.cfg.submitted = 1 ∧ StatusInv 3 r.s.state r.s.cfg := by
  decide

/-- a malformed `--submission-groups-file` on it, then a plain resubmit-jobs: role kept, then assertion -/
theorem groups_file_witness :
    let r1 := resubmitCmd { host := "login1", groups := .raises } { failed := true, missing := true, successful := false } noMissingWitness
    let r2 := resubmitCmd { host := "login1" } { failed := true, missing := true, successful := false } r1.s
    r1.outcome = .raised .valueError ∧ r1.s.cfg.submitter = some "login1" ∧ r1.s.rows = noMissingWitness.rows ∧
    r2.outcome = .raised .assertion ∧ r2.s.cfg.submitter = some "login1" := by
  decide

/-- KNOWN FINDING `resubmit.prepare_failure.wedged` (the role IS released, so `failure_not_stranded` holds, but
    there is no way forward — the case excluded from `failure_leaves_way_forward`): an exception inside
    `prepare_for_resubmission` before job_status.json is written — here at its second write — leaves the rows of
    the rerun set erased, the config written by the `finally` demotion from the already mutated in-memory object
    (`is_complete = false`, counters reset) and the job states untouched (all DONE): the status invariants fail,
    and a repeated resubmit-jobs refuses (exit 1).  (On the implementation every later try-submit-jobs then fails
    the `completed_jobs == num_jobs` assertion of `_are_all_jobs_complete`.) -/
theorem prepare_write_failure_witness :
    let s : Sub := { noMissingWitness with
                     n := 2, state := (fun _ => JState.done),
                     cfg := { submitter := none, isComplete := true, isCanceled := false, submitted := 2, completed := 2 } }
    let fl : Flags := { failed := true, missing := true, successful := false }
    let r1 := resubmitCmd { host := "login1", prepFails := some .jobs } fl s
    let r2 := resubmitCmd { host := "login1" } fl r1.s
    r1.outcome = .raised .ioError ∧ r1.s.rows.map (·.name) = [1] ∧ r1.s.cfg.submitter = none ∧
    r1.s.cfg.isComplete = false ∧ r1.s.cfg.completed = 1 ∧ (List.range 2).map r1.s.state = [.done, .done] ∧
    ¬ StatusInv 2 r1.s.state r1.s.cfg ∧
    r2.outcome = .exit 1 ∧ r2.s.rows = r1.s.rows := by
  decide

/-! ## Non-vacuity -/

/-- reverse-listed chain j0 ← j1 ← j2 ← j3 (job k blocked by k+1), j3 selected -/
def revChain : JobId → List JobId := fun j => [[1], [2], [3], []].getD j []

/-- it takes three adding passes and a fourth that adds nothing (`max_iter = 4`): -/
example : (pass 4 revChain { cur := [3], upd := fun _ => none }).cur = [3, 2] := by decide
example : (pass 4 revChain (pass 4 revChain { cur := [3], upd := fun _ => none })).cur = [3, 2, 1] := by decide
example : (resubmitClosure 4 revChain [3]).toOption.map (·.cur) = some [3, 2, 1, 0] := by decide
example : (resubmitClosure 4 revChain [3]).toOption.map (fun st => (List.range 4).map st.upd)
    = some [some [1], some [2], some [3], none] := by decide
/-- with one pass fewer the loop would stop before j0 is found -/
example : (iter 4 revChain 2 0 { cur := [3], upd := fun _ => none }).toOption.map (·.cur) = some [3, 2, 1] := by decide

/-- diamond 0 → {1, 2} → 3 and an unrelated job 4; job 1 selected: 1 and 3 are rerun, 3 waits only for 1 -/
def diamond : JobId → List JobId := fun j => [[], [0], [0], [1, 2], []].getD j []
example : (resubmitClosure 5 diamond [1]).toOption.map (·.cur) = some [1, 3] := by decide
example : (resubmitClosure 5 diamond [1]).toOption.map (fun st => (List.range 5).map st.upd)
    = some [none, none, none, some [1], none] := by decide
example : (resubmitClosure 5 diamond [0]).toOption.map (fun st => (List.range 5).map st.upd)
    = some [none, some [0], some [0], some [1, 2], none] := by decide

/-- cycle 0 → 1 → 2 → 0 with a self loop on 0 and a job 3 outside: selecting 1 reruns the whole cycle -/
def cyc : JobId → List JobId := fun j => [[2, 0], [0], [1], []].getD j []
example : (resubmitClosure 4 cyc [1]).toOption.map (·.cur) = some [1, 2, 0] := by decide
example : (resubmitClosure 4 cyc [3]).toOption.map (·.cur) = some [3] := by decide
example : (resubmitClosure 4 cyc [1]).toOption.map (fun st => (List.range 4).map st.upd)
    = some [some [2, 0], some [0], some [1], none] := by decide

/-- selection on a mixed result set (0 ok, 1 failed, 2 canceled, 3 missing, 4 ok) -/
def mixed : List Row :=
  [⟨0, 0, "finished", "1.0", "1.0", "1"⟩, ⟨1, 2, "finished", "1.0", "2.0", "1"⟩, ⟨2, 1, "canceled", "0.0", "3.0", ""⟩,
   ⟨4, 0, "finished", "1.0", "4.0", "2"⟩]
example : resubmitSelect 5 mixed true true false = [2, 1, 3] := by decide
example : resubmitSelect 5 mixed false false true = [0, 4] := by decide
example : resubmitSelect 5 mixed true false false = [2, 1] := by decide
example : resubmitSelect 5 mixed false true false = [3] := by decide
example : resubmitSelect 5 mixed false false false = [] := by decide
example : clearResults mixed [1, 3] = [⟨0, 0, "finished", "1.0", "1.0", "1"⟩, ⟨2, 1, "canceled", "0.0", "3.0", ""⟩,
    ⟨4, 0, "finished", "1.0", "4.0", "2"⟩] := by decide

/-- an incomplete submission whose role is held by another host: exit 1, role untouched -/
example :
    let s : Sub := { noMissingWitness with cfg := { submitter := some "node7", isComplete := false, isCanceled := false,
                                                    submitted := 2, completed := 2 } }
    let r := resubmitCmd { host := "login1" } { failed := true, missing := true, successful := false } s
    r.outcome = .exit 1 ∧ r.s.cfg.submitter = some "node7" := by decide

/-- a failure after the rows were rewritten: exception, rows of the rerun set gone, role released, still complete -/
example :
    let r := resubmitCmd { host := "login1", resetFails := some true } { failed := true, missing := true, successful := false } noMissingWitness
    r.outcome = .raised .ioError ∧ r.s.rows.map (·.name) = [1] ∧ r.s.cfg.submitter = none ∧ r.s.cfg.isComplete = true ∧
    r.pruned = true := by decide

end Jade.C13
