import JadeModel.Proofs.SystemGen
import JadeModel.Proofs.SystemGate
import JadeModel.Proofs.SystemRows
import JadeModel.Props.C20
import JadeModel.Props.C01

/-!
# C14 — cancel is final

System theorems over all op sequences (all moments at which the user cancels, all later command
sequences; kills and failures included).  `markCanceled` is accepted only after cancel-jobs has
walked every persisted id (`scancel`), which the history replay checks of the real command.
The gate itself (`HpcSubmitter.run` skips the submit phase when the copy loaded at promotion says
canceled) is the `!x.loc.canceled` conjunct of the `sbatch` guard; every real `sbatch` event must
pass it in the replay.
-/

namespace Jade.C14
open Jade.Sys

variable (sc : Scn) (ops : List Op) (s : Sys)

/-- after the canceled flag is on disk no process can hand a batch to the HPC — neither cancel-jobs'
    own try-submit-jobs nor any later try-submit-jobs / show-status -/
theorem C14_no_sbatch_after_cancel (h : run (init sc) ops = some s) (hc : s.disk.canceled = true)
    (p : Pid) (jobs : List JobId) (hid : Option Hid) : step s (.sbatch p jobs hid) = none := by
  have hi := gateInv_run ops (gateInv_init sc) h
  cases hstep : step s (.sbatch p jobs hid) with
  | none => rfl
  | some s' =>
    exfalso
    simp only [step] at hstep
    split at hstep
    · next x hx =>
      split at hstep
      · next hg =>
        have hp := getSub_eq hx
        have hh : holds x.pc = true := by rw [hg.1]; rfl
        have := (hi.flags p true x hp hh).2
        rw [hc] at this
        simp [this] at hg
      · cases hstep
    · cases hstep

/-- in history form: no `sbatch` event ever happened while the canceled (or complete) flag was set -/
theorem C14_never_late (h : run (init sc) ops = some s) : s.lateSbatch = false :=
  (gateInv_run ops (gateInv_init sc) h).late

/-- the flag is never taken back (there is no resubmission inside one submission epoch) -/
theorem C14_canceled_sticky (s' : Sys) (more : List Op) (hc : s.disk.canceled = true)
    (hm : run s more = some s') (hg : GateInv s) : s'.disk.canceled = true := by
  induction more generalizing s with
  | nil => simp [run] at hm; subst hm; exact hc
  | cons op more ih =>
    simp only [run] at hm
    split at hm
    · next s1 hs =>
      refine ih s1 ?_ hm (gateInv_step hg hs)
      obtain ⟨⟨h1, h2, h3, h4, h5⟩, g1, g2, g3, g4, g5⟩ := hg
      cases op <;> step_cases hs <;> frame_all <;> grind [persistStatus, holds]
    · cases hm

/-- when cancel-jobs marks the submission canceled, every batch that was queued or running has been
    asked to be canceled and none is active any more (unless a crashed round had wedged the
    submission before) -/
theorem C14_all_active_scancelled (h : run (init sc) ops = some s) (p : Pid) (s' : Sys)
    (hs : step s (.markCanceled p) = some s') : Orphan s ∨ ∀ k, activeB s' k = false := by
  have hcap := capInv_run ops (capInv_init sc) h
  have hr := hcap.node.batch.role
  simp only [step] at hs
  split at hs
  · next x hx =>
    split at hs
    · next hg =>
      have hp := getSub_eq hx
      have hh : holds x.pc = true := by rw [hg.1]; rfl
      have hsub := hr.holder p true x hp hh
      by_cases ho : Orphan s
      · exact Or.inl ho
      · right
        intro k
        cases hs
        cases hk : activeB s k with
        | false => simpa [activeB] using hk
        | true =>
          rcases hcap.tracked k hk with ht | ho'
          · simp [trackedIds, holderSub, hsub, hp, hg.2.2] at ht
          · exact absurd ho' ho
    · cases hs
  · cases hs

/-- results recorded before the cancel are kept -/
theorem C14_rows_kept (s' : Sys) (more : List Op) (hm : run s more = some s') (r : Row) (hr : RowOnDisk s r) :
    RowOnDisk s' r :=
  rowOnDisk_run more hm r hr

/-- jobs that never ran are reported missing: the summary lists exactly the configured jobs without a row -/
theorem C14_missing_reported : type_of% @Jade.C20.tally_sum := @Jade.C20.tally_sum

/-! ## Non-vacuity: cancel after the first batch; the remaining job is never submitted -/

def cancelOps : List Op :=
  [.spawnSub 1 false, .promote 1, .passEnd 1 [], .collectDone 1, .mark 1, .sbatch 1 [0] (some 100),
   .persist 1, .unmark 1, .demote 1, .exit 1,
   .spawnSub 2 true, .promote 2, .scancel 2 100, .markCanceled 2, .demote 2, .exit 2,
   .spawnSub 3 false, .promote 3, .poll 3 [100], .passEnd 3 [], .collectDone 3, .mark 3]

example : ((run (init Jade.C01.demoScn) cancelOps).map fun s => (s.disk.canceled, activeCount s)) = some (true, 0) := by
  decide

example : (run (init Jade.C01.demoScn) (cancelOps ++ [.sbatch 3 [1] (some 101)])).isNone = true := by decide

end Jade.C14
