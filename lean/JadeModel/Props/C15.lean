import JadeModel.Proofs.Pipeline

/-!
# C15 — pipeline stages run strictly in order, each exactly once

Property theorems only.  The model (`Model/Pipeline.lean`) interprets the statement programs and the
tests/expressions generated from `PipelineManager._submit_next_stage`, the CLI commands `jade pipeline submit` /
`submit-next-stage` and the tail of `JobSubmitter._handle_completion` (`Gen/Pipeline.lean`, regenerated from the
working tree on every run).

`run (init n) ops` is the pipeline directory of an `n`-stage pipeline after ANY finite sequence `ops` of CLI
commands (`start` = `jade pipeline submit`, `next k rc` = `jade pipeline submit-next-stage --stage-num=k
--return-code=rc`), each with an arbitrary behaviour of the environment (`Outcome`: does the stage's auto-config
succeed, what does `run_submit_jobs` return).  All statements are for every `n`, every such sequence (duplicates,
out-of-order, repeated, before the start, after completion), every integer stage number and return code —
unbounded, by induction over the sequence.

`submitted` (ghost) lists the `pipeline_stage_num` of every invocation of `JobSubmitter.run_submit_jobs`, in order.
A call is *accepted* (`Res.accepted`) when it passed the stage test and its effects were persisted: results `ok`
and `execError` (the latter: auto-config or `run_submit_jobs` failed AFTER `pipeline.json` was rewritten).

Outside the model: `pipeline.json` has no lock; that the completion of a stage's submission — and hence the
`submit-next-stage` command — happens once is property C05; the stage's own batches/submitters are C01–C06.
-/

namespace Jade.C15
open Jade.Pipeline Jade.Gen.Pipeline

/-! ## 1. Which calls are accepted, and what a refused call does -/

/-- **Exact outcome of every `submit-next-stage` call** in any reachable state: before `jade pipeline submit` it
    fails (no directory); a stage number other than `stage_num + 1` raises `InvalidParameter`; the number
    `stage_num + 1` is accepted unless the pipeline is already complete, in which case the call dies with
    `IndexError` (`stages[stage_num - 2]` is out of range). -/
theorem C15_next_outcome (n : Nat) (ops : List Op) (k rc : Int) (out : Outcome) :
    let s := run (init n) ops
    let r := (step s (.next k rc out)).2
    (s.created = false → r = .noPipeline) ∧
    (s.created = true → k ≠ ((s.stageNum + 1 : Nat) : Int) → r = .invalidParam) ∧
    (s.created = true → k = ((s.stageNum + 1 : Nat) : Int) → s.isComplete = true → r = .indexError) ∧
    (s.created = true → k = ((s.stageNum + 1 : Nat) : Int) → s.isComplete = false → r.accepted = true) := by
  intro s r
  have hg : Good n s := good_run (good_init n) ops
  have hci := hg.complete_iff
  refine ⟨fun hc => ?_, fun hc hk => ?_, fun hc hk hcomp => ?_, fun hc hk hcomp => ?_⟩
  · show (step s (.next k rc out)).2 = _
    rw [step_next_fresh s k rc out hc]
  · rcases next_cases hg hc k rc out with ⟨_, e⟩ | ⟨h, _⟩ | ⟨h, _⟩ | ⟨h, _⟩ | ⟨h, _⟩
    · show (step s (.next k rc out)).2 = _
      rw [e]
    all_goals exact absurd h hk
  · have hs := (hci.mp hcomp).2
    rcases next_cases hg hc k rc out with ⟨h, _⟩ | ⟨_, _, e⟩ | ⟨_, h2, _⟩ | ⟨_, h2, _⟩ | ⟨_, h2, _⟩
    · exact absurd hk h
    · show (step s (.next k rc out)).2 = _
      rw [e]
    all_goals omega
  · have hs : s.cfg.stageNum ≠ n + 1 := by
      intro h
      have h1 : s.cfg.isComplete = true := hci.mpr ⟨hc, h⟩
      have h2 : s.cfg.isComplete = false := hcomp
      rw [h1] at h2
      cases h2
    rcases next_cases hg hc k rc out with ⟨h, _⟩ | ⟨_, h2, _⟩ | ⟨_, _, e⟩ | ⟨_, _, _, e⟩ | ⟨_, _, _, e⟩
    · exact absurd hk h
    · exact absurd h2 hs
    all_goals (show (step s (.next k rc out)).2.accepted = true; rw [e]; first | (simp; done) | (simp [Res.accepted]; done))

/-- **A refused call changes nothing**: whatever is not accepted (wrong stage number, call after completion,
    second `jade pipeline submit`, call before the pipeline exists) leaves `pipeline.json` and the list of
    submitted stages exactly as they were. -/
theorem C15_rejected_unchanged (n : Nat) (ops : List Op) (op : Op)
    (h : (step (run (init n) ops) op).2.accepted = false) :
    (step (run (init n) ops) op).1 = run (init n) ops :=
  rejected_unchanged (good_run (good_init n) ops) op h

/-- **Accepted calls are exactly the stage numbers 2, 3, … in order, each at most once**, in any call sequence. -/
theorem C15_accepts_in_order (n : Nat) (ops : List Op) :
    acceptedStages (init n) ops = (List.range' 2 (acceptedStages (init n) ops).length).map Int.ofNat ∧
    (acceptedStages (init n) ops).Nodup ∧
    (acceptedStages (init n) ops).length ≤ n := by
  obtain ⟨h1, h2⟩ := accepted_spec (good_init n) ops
  have hle := (good_run (good_init n) ops).le
  have h1' : acceptedStages (init n) ops = (List.range' 2 (acceptedStages (init n) ops).length).map Int.ofNat := h1
  refine ⟨h1', ?_, ?_⟩
  · rw [h1']
    exact List.Pairwise.map Int.ofNat (fun a b (h : a ≠ b) h' => h (Int.ofNat.inj h'))
      (List.nodup_range' (s := 2) (n := (acceptedStages (init n) ops).length))
  · have : (run (init n) ops).cfg.stageNum = 1 + (acceptedStages (init n) ops).length := h2
    omega

/-! ## 2. The current stage -/

/-- **`stage_num` = 1 + number of accepted calls**, and it never exceeds `n + 1`. -/
theorem C15_stage_num_matches (n : Nat) (ops : List Op) :
    (run (init n) ops).stageNum = 1 + (acceptedStages (init n) ops).length ∧
    1 ≤ (run (init n) ops).stageNum ∧ (run (init n) ops).stageNum ≤ n + 1 ∧
    (run (init n) ops).numStages = n := by
  have hg := good_run (good_init n) ops
  exact ⟨(accepted_spec (good_init n) ops).2, hg.pos, hg.le, hg.len⟩

/-- **`stage_num` never decreases**, whatever is called afterwards. -/
theorem C15_stage_num_monotone (n : Nat) (ops more : List Op) :
    (run (init n) ops).stageNum ≤ (run (init n) (ops ++ more)).stageNum := by
  rw [run_append]
  exact (run_mono (good_run (good_init n) ops) more).1

/-! ## 3. Each stage is submitted once, in order, and only after the previous stage was reported -/

/-- **The stages handed to `run_submit_jobs` are strictly increasing, within `1 … n`, without duplicates, and never
    beyond the current stage**; if no auto-config command failed they are exactly `1, 2, …, min stage_num n`
    (a prefix of `1 … n`, consecutive), so their number is `min stage_num n`. -/
theorem C15_each_stage_submitted_once (n : Nat) (ops : List Op) :
    let s := run (init n) ops
    s.submitted.Sublist (List.range' 1 (min s.stageNum n)) ∧
    s.submitted.Pairwise (· < ·) ∧ s.submitted.Nodup ∧
    (∀ k ∈ s.submitted, 1 ≤ k ∧ k ≤ s.stageNum ∧ k ≤ n) ∧
    ((∀ op ∈ ops, op.args.out.cfgOk = true) → s.created = true →
      s.submitted = List.range' 1 (min s.stageNum n)) := by
  intro s
  have hg : Good n s := good_run (good_init n) ops
  have hsub : s.submitted.Sublist (List.range' 1 (min s.stageNum n)) := hg.sub
  refine ⟨hsub, List.Pairwise.sublist hsub List.pairwise_lt_range', hsub.nodup List.nodup_range', ?_, ?_⟩
  · intro k hk
    have := List.mem_range'_1.mp (hsub.subset hk)
    have h2 : s.stageNum = s.cfg.stageNum := rfl
    omega
  · intro hops hc
    have hx : Exact n s := exact_run (good_init n) (by intro h; simp [init] at h) ops hops
    exact hx hc

/-- **Number of submissions vs. current stage**: never more submissions than `min stage_num n` (one per stage reached,
    none for the completion call); exactly that many once the pipeline is started and no auto-config failed; and the last
    stage submitted is never ahead of the persisted `stage_num`. -/
theorem C15_submitted_length (n : Nat) (ops : List Op) :
    let s := run (init n) ops
    s.submitted.length ≤ min s.stageNum n ∧
    ((∀ op ∈ ops, op.args.out.cfgOk = true) → s.created = true → s.submitted.length = min s.stageNum n) ∧
    (s.created = false → s.submitted = []) := by
  intro s
  have hg : Good n s := good_run (good_init n) ops
  obtain ⟨hsub, _, _, _, hex⟩ := C15_each_stage_submitted_once n ops
  refine ⟨?_, ?_, ?_⟩
  · have := hsub.length_le
    simpa using this
  · intro hops hc
    have : s.submitted = List.range' 1 (min s.stageNum n) := hex hops hc
    rw [this]; simp
  · intro hc
    have := (hg.fresh hc).2
    show s.handovers.map (·.stage) = []
    rw [this]; rfl

/-- **Stage `j + 1` is submitted only after the call that reported stage `j`**: whenever stage `j + 1` (`j ≥ 1`) has
    been handed to `run_submit_jobs`, the return code of stage `j` is recorded and the call
    `submit-next-stage --stage-num=j+1` is among the accepted ones. -/
theorem C15_submitted_after_report (n : Nat) (ops : List Op) (j : Nat) (hj : 1 ≤ j)
    (h : j + 1 ∈ (run (init n) ops).submitted) :
    (∃ r : Int, (run (init n) ops).returnCodes[j - 1]? = some (some r)) ∧
    ((j + 1 : Nat) : Int) ∈ acceptedStages (init n) ops := by
  have hg := good_run (good_init n) ops
  have hm := List.mem_range'_1.mp (hg.sub.subset h)
  obtain ⟨h1, h2⟩ := accepted_spec (good_init n) ops
  have h2' : (run (init n) ops).cfg.stageNum = 1 + (acceptedStages (init n) ops).length := h2
  constructor
  · exact hg.recorded (j - 1) (by omega)
  · have h1' : acceptedStages (init n) ops = (List.range' 2 (acceptedStages (init n) ops).length).map Int.ofNat := h1
    rw [h1']
    exact List.mem_map.mpr ⟨j + 1, List.mem_range'_1.mpr (by omega), rfl⟩

/-- **Hand-over discipline.**  A command hands at most one stage to `run_submit_jobs`; when it does, `pipeline.json`
    as persisted at that moment is already the file the command leaves behind (nothing is written after the
    hand-over), the stage handed over is the persisted current stage, the configuration loaded, the output directory
    and the `pipeline_stage_num` argument all belong to that stage, the pipeline is not complete, and the stage's
    auto-config did not fail. -/
theorem C15_handover_consistent (n : Nat) (ops : List Op) (op : Op) :
    let s := run (init n) ops
    let s' := (step s op).1
    s'.handovers = s.handovers ∨
    ∃ h : Handover, s'.handovers = s.handovers ++ [h] ∧ h.disk = s'.cfg ∧ h.stage = s'.stageNum ∧
      h.cfgStage = h.stage ∧ h.outStage = h.stage ∧ s'.isComplete = false ∧ h.stage ≤ n ∧
      op.args.out.cfgOk = true := by
  intro s s'
  rcases step_handover (good_run (good_init n) ops) op with h | ⟨h1, h2, h3, h4⟩
  · exact Or.inl h
  · exact Or.inr ⟨_, h1, rfl, rfl, rfl, rfl, h2, h3, h4⟩

/-! ## 4. Return codes -/

/-- **The return code passed with an accepted call is recorded for the stage it reports and never changes**:
    if, after any prefix `pre`, the call `submit-next-stage --stage-num=k --return-code=rc` is accepted, then
    `k = j + 2` for the 0-based stage position `j = stage_num - 1`, and after ANY continuation `post`
    `stages[j].return_code = rc`. -/
theorem C15_return_codes_recorded (n : Nat) (pre post : List Op) (k rc : Int) (out : Outcome)
    (h : (step (run (init n) pre) (.next k rc out)).2.accepted = true) :
    ∃ j : Nat, k = ((j + 2 : Nat) : Int) ∧ j + 1 = (run (init n) pre).stageNum ∧ j < n ∧
      (run (init n) (pre ++ .next k rc out :: post)).returnCodes[j]? = some (some rc) := by
  have hg := good_run (good_init n) pre
  obtain ⟨_, hk, hle, hs, hrc⟩ := next_accepted hg k rc out h
  have hpos := hg.pos
  refine ⟨(run (init n) pre).cfg.stageNum - 1, ?_, ?_, ?_, ?_⟩
  · rw [hk]; congr 1; omega
  · show _ = (run (init n) pre).cfg.stageNum; omega
  · omega
  · rw [run_append, run_cons]
    have hg' := good_step hg (.next k rc out)
    have := (run_mono hg' post).2 ((run (init n) pre).cfg.stageNum - 1) (by rw [hs]; omega)
    exact this.trans hrc

/-- **Stages not yet reported have no return code**; stages already reported have one. -/
theorem C15_return_codes_pending (n : Nat) (ops : List Op) (i : Nat) :
    let s := run (init n) ops
    (s.stageNum ≤ i + 1 → i < n → s.returnCodes[i]? = some none) ∧
    (i + 1 < s.stageNum → ∃ r : Int, s.returnCodes[i]? = some (some r)) := by
  intro s
  have hg : Good n s := good_run (good_init n) ops
  exact ⟨hg.pending i, hg.recorded i⟩

/-! ## 5. Completion -/

/-- **The pipeline is marked complete exactly when the call `submit-next-stage --stage-num=n+1` (the report of the
    last stage) has been accepted** — equivalently when `stage_num = n + 1`, i.e. all `n` reports were accepted. -/
theorem C15_complete_only_after_last (n : Nat) (hn : 1 ≤ n) (ops : List Op) :
    ((run (init n) ops).isComplete = true ↔ ((n + 1 : Nat) : Int) ∈ acceptedStages (init n) ops) ∧
    ((run (init n) ops).isComplete = true ↔ (run (init n) ops).stageNum = n + 1) ∧
    ((run (init n) ops).isComplete = true ↔ (acceptedStages (init n) ops).length = n) := by
  have hg := good_run (good_init n) ops
  obtain ⟨h1, h2⟩ := accepted_spec (good_init n) ops
  have h2' : (run (init n) ops).cfg.stageNum = 1 + (acceptedStages (init n) ops).length := h2
  have h1' : acceptedStages (init n) ops = (List.range' 2 (acceptedStages (init n) ops).length).map Int.ofNat := h1
  have hle := hg.le
  have hcomp : (run (init n) ops).cfg.isComplete = true ↔ (run (init n) ops).cfg.stageNum = n + 1 := by
    rw [hg.complete_iff]
    constructor
    · exact fun h => h.2
    · intro h
      refine ⟨?_, h⟩
      cases hc : (run (init n) ops).created with
      | true => rfl
      | false => have := (hg.fresh hc).1; omega
  have hmem : ((n + 1 : Nat) : Int) ∈ acceptedStages (init n) ops ↔ (acceptedStages (init n) ops).length = n := by
    rw [h1']
    simp only [List.mem_map, List.length_map, List.length_range']
    constructor
    · rintro ⟨a, ha, hcast⟩
      have := List.mem_range'_1.mp ha
      have : a = n + 1 := Int.ofNat.inj hcast
      omega
    · intro h
      exact ⟨n + 1, List.mem_range'_1.mpr (by omega), rfl⟩
  refine ⟨?_, hcomp, ?_⟩
  · rw [hmem]; show (run (init n) ops).cfg.isComplete = true ↔ _; rw [hcomp]; omega
  · show (run (init n) ops).cfg.isComplete = true ↔ _; rw [hcomp]; omega

/-- **Once complete, everything is refused and nothing is submitted any more**: a further `jade pipeline submit`
    exits with "directory exists"; `submit-next-stage` raises `InvalidParameter`, except for the stage number
    `n + 2` which passes the stage test and dies with `IndexError`; in every case `pipeline.json` and the list of
    submitted stages stay as they are, for any continuation. -/
theorem C15_after_complete (n : Nat) (ops : List Op) (h : (run (init n) ops).isComplete = true) :
    (∀ op : Op, (step (run (init n) ops) op).1 = run (init n) ops ∧
      (step (run (init n) ops) op).2 = (match op with
        | .start _ => Res.dirExists
        | .next k _ _ => if k = ((n + 2 : Nat) : Int) then Res.indexError else Res.invalidParam)) ∧
    (∀ more : List Op, run (init n) (ops ++ more) = run (init n) ops) ∧
    (run (init n) ops).submitted.length ≤ n := by
  have hg := good_run (good_init n) ops
  refine ⟨fun op => complete_frozen hg h op, fun more => ?_, ?_⟩
  · rw [run_append]; exact run_complete hg h more
  · have := hg.sub.length_le
    simp only [List.length_range'] at this
    show ((run (init n) ops).handovers.map (·.stage)).length ≤ n
    omega

/-! ## 6. What is persisted when the submission of a stage fails -/

/-- **A failed submission is not rolled back.**  When the accepted call for stage `k` fails afterwards (the
    auto-config command fails, or `run_submit_jobs` returns non-zero) the call raises `ExecutionError`, but
    `pipeline.json` already says `stage_num = k` with the reported return code recorded; repeating the same call is
    therefore refused (`InvalidParameter`, nothing changes), and the stage is handed to `run_submit_jobs` only if its
    auto-config succeeded. -/
theorem C15_failed_submission_persisted (n : Nat) (ops : List Op) (k rc : Int) (out : Outcome)
    (hc : (run (init n) ops).created = true) (hk : k = (((run (init n) ops).stageNum + 1 : Nat) : Int))
    (hlt : (run (init n) ops).stageNum < n) (hfail : out.cfgOk = false ∨ out.ret ≠ 0) :
    let s := run (init n) ops
    let s' := (step s (.next k rc out)).1
    (step s (.next k rc out)).2 = .execError ∧
    s'.stageNum = s.stageNum + 1 ∧ s'.returnCodes[s.stageNum - 1]? = some (some rc) ∧ s'.isComplete = false ∧
    s'.submitted = (if out.cfgOk then s.submitted ++ [s.stageNum + 1] else s.submitted) ∧
    (∀ (rc' : Int) (out' : Outcome), step s' (.next k rc' out') = (s', .invalidParam)) := by
  intro s s'
  have hg : Good n s := good_run (good_init n) ops
  have hg' : Good n s' := good_step hg _
  have hlen := hg.len
  have hpos := hg.pos
  have hs : s.stageNum = s.cfg.stageNum := rfl
  have hlt' : s.cfg.stageNum < n := hlt
  have hk' : k = ((s.cfg.stageNum + 1 : Nat) : Int) := hk
  have hic : s.cfg.isComplete = false := by
    cases h : s.cfg.isComplete with
    | false => rfl
    | true => have := (hg.complete_iff.mp h).2; omega
  have hretry : s'.created = true → s'.cfg.stageNum = s.cfg.stageNum + 1 →
      ∀ (rc' : Int) (out' : Outcome), step s' (.next k rc' out') = (s', .invalidParam) := by
    intro hc' hs' rc' out'
    rcases next_cases hg' hc' k rc' out' with ⟨_, e⟩ | ⟨h, _⟩ | ⟨h, _⟩ | ⟨h, _⟩ | ⟨h, _⟩
    · exact e
    all_goals (rw [hk'] at h; omega)
  rcases next_cases hg hc k rc out with ⟨h, _⟩ | ⟨_, h2, _⟩ | ⟨_, h2, _⟩ | ⟨_, _, h3, e⟩ | ⟨_, _, h3, e⟩
  · exact absurd hk' h
  · omega
  · omega
  · have e1 : s' = { s with cfg := advance s.cfg rc } := congrArg Prod.fst e
    refine ⟨by rw [e], by rw [e1]; rfl, ?_, by rw [e1]; exact hic, ?_, ?_⟩
    · rw [e1]; exact advance_get_self _ _ (by omega)
    · rw [e1, h3]; rfl
    · exact hretry (by rw [e1]; exact hc) (by rw [e1]; rfl)
  · have e1 : s' = { s with cfg := advance s.cfg rc, handovers := s.handovers ++ [handoverOf (advance s.cfg rc)] } :=
      congrArg Prod.fst e
    have hret : out.ret ≠ 0 := by
      rcases hfail with h | h
      · rw [h3] at h; cases h
      · exact h
    refine ⟨by rw [e]; simp [hret], by rw [e1]; rfl, ?_, by rw [e1]; exact hic, ?_, ?_⟩
    · rw [e1]; exact advance_get_self _ _ (by omega)
    · rw [e1, h3]; simp [State.submitted, handoverOf, hs]
    · exact hretry (by rw [e1]; exact hc) (by rw [e1]; rfl)

/-! ## 7. The glue: the next-stage command is issued after `mark_complete`, with the right arguments -/

/-- **Program order of the completion tail** (`completionActions` is generated from the statement order of
    `_handle_completion`): for a submission created with `pipeline_stage_num = p`, `cluster.mark_complete()` comes
    first and the command comes second, and the command is exactly
    `jade pipeline submit-next-stage <dir> --stage-num=<p+1> --return-code=<status>`; a submission that is not a
    pipeline stage marks itself complete and issues no command. -/
theorem C15_next_after_mark_complete (p : Nat) (status : Int) (dir : String) :
    completionActions (some p) status dir =
      [.markComplete,
       .runCmd ("jade pipeline submit-next-stage " ++ dir ++ " --stage-num=" ++ toString (p + 1) ++
                " --return-code=" ++ toString status) (p + 1) status] ∧
    completionActions none status dir = [.markComplete] := by
  constructor
  · simp [completionActions, completionOrder, completionAction, isPipelineStage, nextStage, renderCmd,
      nextStageCmd, renderPiece, String.join]
  · simp [completionActions, completionOrder, completionAction, isPipelineStage]

/-- the status value interpolated into the command: 0 (`Status.GOOD`) when every job has a result, else 1 -/
theorem C15_completion_status (numResults numJobs : Nat) :
    completionStatus numResults numJobs = if numResults = numJobs then 0 else 1 := by
  unfold completionStatus
  by_cases h : numResults = numJobs <;> simp [h]

/-- **Completion of the current stage advances the pipeline by exactly one stage**: when the submission of the
    current stage `p` of a running pipeline completes with status `st`, its completion tail (run against the pipeline
    directory) is accepted, records `st` as the return code of stage `p`, makes `p + 1` the current stage, and marks the
    pipeline complete iff `p` was the last stage. -/
theorem C15_completion_advances (n : Nat) (ops : List Op) (st : Int) (dir : String) (out : Outcome)
    (hc : (run (init n) ops).created = true) (hic : (run (init n) ops).isComplete = false) :
    let s := run (init n) ops
    let r := applyActions s out (completionActions (some s.stageNum) st dir)
    (∃ res : Res, r.2 = [res] ∧ res.accepted = true) ∧
    r.1.stageNum = s.stageNum + 1 ∧ r.1.returnCodes[s.stageNum - 1]? = some (some st) ∧
    (r.1.isComplete = true ↔ s.stageNum = n) := by
  intro s r
  have hg : Good n s := good_run (good_init n) ops
  have hacts := (C15_next_after_mark_complete s.stageNum st dir).1
  have hr : r = ((step s (.next ((s.stageNum + 1 : Nat) : Int) st out)).1, [(step s (.next ((s.stageNum + 1 : Nat) : Int) st out)).2]) := by
    show applyActions s out (completionActions (some s.stageNum) st dir) = _
    rw [hacts]
    simp [applyActions]
  have hacc := (C15_next_outcome n ops ((s.stageNum + 1 : Nat) : Int) st out).2.2.2 hc rfl hic
  obtain ⟨_, _, hle, hs, hrc⟩ := next_accepted hg _ st out hacc
  have hg' := good_step hg (.next ((s.stageNum + 1 : Nat) : Int) st out)
  rw [hr]
  refine ⟨⟨_, rfl, hacc⟩, hs, hrc, ?_⟩
  show (step s (.next ((s.stageNum + 1 : Nat) : Int) st out)).1.cfg.isComplete = true ↔ s.cfg.stageNum = n
  rw [hg'.complete_iff, hs]
  have hcr : (step s (.next ((s.stageNum + 1 : Nat) : Int) st out)).1.created = true := by
    cases h : (step s (.next ((s.stageNum + 1 : Nat) : Int) st out)).1.created with
    | true => rfl
    | false => have := (hg'.fresh h).1; have := hg.pos; omega
  rw [hcr]
  constructor
  · intro h; omega
  · intro h; exact ⟨rfl, by omega⟩

/-! ## 8. The undisturbed run, for every number of stages -/

/-- **A pipeline of any size runs through**: `jade pipeline submit` followed by the in-order reports of stages
    1, 2, …, n with return codes `rcs` (each stage's completion issuing its one command, C05), in a benign environment,
    submits the stages 1, …, n exactly once in order, records exactly the reported return codes, and ends complete.
    (`reports 2 rcs` is the list `next 2 rcs[0], next 3 rcs[1], …`.) -/
theorem C15_orderly_run_completes (rcs : List Int) (hn : 1 ≤ rcs.length) :
    let n := rcs.length
    let s := run (init n) (.start Outcome.good :: reports 2 rcs)
    s.isComplete = true ∧ s.stageNum = n + 1 ∧ s.submitted = List.range' 1 n ∧
    (∀ (i : Nat) (h : i < n), s.returnCodes[i]? = some (some rcs[i])) ∧
    acceptedStages (init n) (.start Outcome.good :: reports 2 rcs) = (List.range' 2 n).map Int.ofNat := by
  intro n s
  -- after `jade pipeline submit`
  have hg0 := good_init n
  have hc0 : (init n).created = false := rfl
  have hg1 : Good n (step (init n) (.start Outcome.good)).1 := good_step hg0 _
  obtain ⟨hs1, _⟩ := start_stageNum hg0 Outcome.good
  have hs1' : (step (init n) (.start Outcome.good)).1.cfg.stageNum = 1 := hs1
  have hc1 : (step (init n) (.start Outcome.good)).1.created = true := by
    rcases start_cases hg0 hc0 Outcome.good with ⟨h0, _⟩ | ⟨_, h, _⟩ | ⟨_, _, e⟩
    · omega
    · cases h
    · rw [e]
  have hops : ∀ op ∈ (Op.start Outcome.good :: reports 2 rcs), op.args.out.cfgOk = true := by
    intro op h
    simp only [List.mem_cons] at h
    rcases h with h | h
    · subst h; rfl
    · exact reports_cfgOk _ _ op h
  have hrun : s = run (step (init n) (.start Outcome.good)).1 (reports 2 rcs) := rfl
  have hall := run_reports hg1 hc1 rcs (by rw [hs1']; omega)
  rw [hs1'] at hall
  have hstage : s.cfg.stageNum = n + 1 := by rw [hrun, hall.1]; omega
  have hcr : s.created = true := by rw [hrun]; exact hall.2
  have hg : Good n s := good_run hg0 _
  have hsub := (C15_each_stage_submitted_once n (.start Outcome.good :: reports 2 rcs)).2.2.2.2 hops hcr
  have hmin : min (n + 1) n = n := by omega
  refine ⟨hg.complete_iff.mpr ⟨hcr, hstage⟩, hstage, ?_, ?_, ?_⟩
  · have : s.submitted = List.range' 1 (min s.stageNum n) := hsub
    rw [this]; show List.range' 1 (min s.cfg.stageNum n) = _; rw [hstage, hmin]
  · intro i hi
    -- split the reports at position i
    have hsplit : rcs = rcs.take i ++ rcs[i] :: rcs.drop (i + 1) := by
      rw [List.getElem_cons_drop, List.take_append_drop]
    have hlen : (rcs.take i).length = i := by simp; omega
    have hops' : (Op.start Outcome.good :: reports 2 rcs) =
        (Op.start Outcome.good :: reports 2 (rcs.take i)) ++
          Op.next ((i + 2 : Nat) : Int) rcs[i] Outcome.good :: reports (i + 2 + 1) (rcs.drop (i + 1)) := by
      conv => lhs; rw [hsplit]
      rw [reports_append, hlen]
      simp [reports, Nat.add_comm]
    -- the state before the report of stage i+1
    have hpre := run_reports hg1 hc1 (rcs.take i) (by rw [hs1', hlen]; omega)
    rw [hs1', hlen] at hpre
    have hgp : Good n (run (init n) (.start Outcome.good :: reports 2 (rcs.take i))) := good_run hg0 _
    have hsp : (run (init n) (.start Outcome.good :: reports 2 (rcs.take i))).cfg.stageNum = i + 1 := by
      show (run (step (init n) (.start Outcome.good)).1 (reports 2 (rcs.take i))).cfg.stageNum = _
      rw [hpre.1]; omega
    have hacc : (step (run (init n) (.start Outcome.good :: reports 2 (rcs.take i)))
        (.next ((i + 2 : Nat) : Int) rcs[i] Outcome.good)).2.accepted = true := by
      have := next_in_order_accepted hgp hpre.2 (by rw [hsp]; omega) rcs[i] Outcome.good
      rw [hsp] at this
      exact this
    obtain ⟨j, hj, hj2, _, hrec⟩ := C15_return_codes_recorded n _ (reports (i + 2 + 1) (rcs.drop (i + 1))) _ _ _ hacc
    have hji : j = i := by
      have : j + 1 = (run (init n) (.start Outcome.good :: reports 2 (rcs.take i))).cfg.stageNum := hj2
      omega
    subst hji
    show (run (init n) (.start Outcome.good :: reports 2 rcs)).returnCodes[j]? = _
    rw [hops']
    exact hrec
  · have h1 := (C15_accepts_in_order n (.start Outcome.good :: reports 2 rcs)).1
    have h2 := (C15_stage_num_matches n (.start Outcome.good :: reports 2 rcs)).1
    have h2' : s.cfg.stageNum = 1 + (acceptedStages (init n) (.start Outcome.good :: reports 2 rcs)).length := h2
    have : (acceptedStages (init n) (.start Outcome.good :: reports 2 rcs)).length = n := by omega
    rw [this] at h1
    exact h1

/-! ## 9. Non-vacuity: concrete runs evaluated by the kernel -/

private def good : Outcome := Outcome.good

/-- a 3-stage pipeline with a duplicate (`2` again) and an out-of-order call (`4` too early) in between -/
private def demo : List Op :=
  [.start good, .next 2 0 good, .next 2 1 good, .next 4 1 good, .next 3 1 good, .next 4 0 good]

example : (trace (init 3) demo).map (·.2.1) =
    [.ok, .ok, .invalidParam, .invalidParam, .ok, .ok] := by decide
example : acceptedStages (init 3) demo = [2, 3, 4] := by decide
example : (run (init 3) demo).submitted = [1, 2, 3] := by decide
example : (run (init 3) demo).cfg = { stageNum := 4, isComplete := true, returnCodes := [some 0, some 1, some 0] } := by
  decide
/-- before the last report the pipeline is not complete -/
example : (run (init 3) (demo.take 5)).cfg = { stageNum := 3, isComplete := false, returnCodes := [some 0, some 1, none] } := by
  decide
/-- after completion: `n + 2` dies with IndexError, everything else is InvalidParameter / "directory exists" -/
example : (trace (run (init 3) demo) [.next 5 0 good, .next 4 0 good, .next 2 0 good, .start good]).map (·.2.1) =
    [.indexError, .invalidParam, .invalidParam, .dirExists] := by decide
/-- `run_submit_jobs` fails for stage 2 and the auto-config fails for stage 3: the state has advanced all the same, the
    retries are refused, stage 3 is never handed over, and the pipeline still completes -/
example : (trace (init 3) [.start good, .next 2 0 { cfgOk := true, ret := 1 }, .next 2 0 good,
      .next 3 5 { cfgOk := false, ret := 0 }, .next 3 5 good, .next 4 7 good]).map (fun x => (x.2.1, x.2.2.cfg.stageNum, x.2.2.submitted)) =
    [(.ok, 1, [1]), (.execError, 2, [1, 2]), (.invalidParam, 2, [1, 2]), (.execError, 3, [1, 2]),
     (.invalidParam, 3, [1, 2]), (.ok, 4, [1, 2])] := by decide
/-- before `jade pipeline submit` nothing is accepted -/
example : (step (init 2) (.next 2 0 good)) = (init 2, .noPipeline) := by decide
/-- API-level hazard (not reachable from the CLI, whose `--return-code` is required): `submit_next_stage(1)` without a
    return code on a running pipeline hands the CURRENT stage to `run_submit_jobs` a second time -/
example : (rawCall (run (init 3) [.start good, .next 2 0 good]) 1 none good).1.submitted = [1, 2, 2] := by decide
example : (rawCall (run (init 3) [.start good, .next 2 0 good]) 2 none good).2 = .assertion := by decide
/-- the completion tail of stage 2 with status 1 -/
example : completionActions (some 2) 1 "/p" =
    [.markComplete, .runCmd "jade pipeline submit-next-stage /p --stage-num=3 --return-code=1" 3 1] := by decide
example : completionActions none 0 "/p" = [.markComplete] := by decide

end Jade.C15
