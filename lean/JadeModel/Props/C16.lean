import JadeModel.Proofs.Lifecycle
import JadeModel.Gen.Replica

set_option linter.unusedSimpArgs false

/-!
# C16 — setup and teardown commands run exactly once, at the right time

All theorems are about `Jade.Lifecycle` (Model/Lifecycle.lean): the interpreter of the programs generated from
`JobSubmitter.submit_jobs`, `JobSubmitter._handle_completion`, `JobRunner.run_jobs` and `jade-internal run-jobs` of the
working tree.  They hold for **all** configurations (the four commands independently set or unset), all return codes
of the commands, local and HPC mode, every list of batches, every queue run on a node (any list of job starts and
result rows: all schedules inside a batch), every list of calls of `submit_jobs` over the life of a submission
(any number of try-submits, resubmissions and completions), every set of result rows at completion (jobs passed,
failed, canceled or missing), and — `C16_setup_before_every_node_event` — every interleaving of the processes.
Hypothesis throughout: `NoLegacy cfg`, the obsolete per-group `node_setup_script`/`node_shutdown_script` are unset
(they are not among the four commands of the property; when set they replace the node commands).

What the code does when a command FAILS is stated, not hidden: a failing `setup_command` / `node_setup_command`
aborts (`check_run_command` raises) — `C16_failing_setup_stops`, `C16_failing_node_setup_aborts`; a failing
`teardown_command` / `node_teardown_command` changes nothing (`C16_commands_transparent_*`).
-/

namespace Jade.C16
open Jade.Lifecycle Jade.Gen.Lifecycle

/-! ## A. The exact trace of every call and every node -/

/-- one call of `submit_jobs`: setup (new submission only), then either nothing (setup failed), or the in-process
    runner and the completion (local mode), or the `sbatch` calls and — if `HpcSubmitter.run` reports completion —
    the completion: summary, teardown, (reports,) flag, (next stage) -/
theorem C16_round_trace (cfg : Cfg) (r : Round) (hl : NoLegacy cfg) :
    roundTrace cfg r = submitTrace (r.ctxFor cfg) ∧ roundErr cfg r = submitErr (r.ctxFor cfg) :=
  ⟨roundTrace_eq cfg r hl, roundErr_eq cfg r hl⟩

/-- one node: node setup, the whole queue run, node teardown, the node's try-submit -/
theorem C16_node_trace (cfg : Cfg) (c : Ctx) (hl : NoLegacy cfg) :
    nodeTrace cfg c = nodeCliTrace { c with cfg := cfg } ∧ nodeErr cfg c = nodeCliErr { c with cfg := cfg } :=
  ⟨nodeTrace_eq cfg c hl, nodeErr_eq cfg c hl⟩

/-- local mode, nothing fails: the complete order of one submission -/
theorem C16_local_order (cfg : Cfg) (r : Round) (hl : NoLegacy cfg) (hloc : r.ctx.isLocal = true)
    (h1 : setupFails (r.ctxFor cfg) = false) (h2 : nodeSetupFails (r.ctxFor cfg) = false) :
    roundTrace cfg r =
      setupEvs (r.ctxFor cfg) ++ nodeSetupEvs (r.ctxFor cfg) ++ queueEvs (r.ctxFor cfg) ++
        nodeTeardownEvs (r.ctxFor cfg) ++ [.collect] ++
        [.summary r.ctx.rows (missingJobs r.ctx.jobs r.ctx.rows)] ++ teardownEvs (r.ctxFor cfg) ++
        reportsEvs (r.ctxFor cfg) ++ [.flag] ++ nextStageEvs (r.ctxFor cfg) := by
  have hloc' : (r.ctxFor cfg).isLocal = true := hloc
  rw [roundTrace_eq cfg r hl]
  have hr : (r.ctxFor cfg).rows = r.ctx.rows := rfl
  have hj : (r.ctxFor cfg).jobs = r.ctx.jobs := rfl
  simp [submitTrace, beforeCompletion, afterSetup, completes, completionEvs, runnerEvs, h1, h2, hloc', hr, hj]

/-! ## B. Only configured commands run, with the documented environment -/

theorem C16_round_commands (cfg : Cfg) (r : Round) (hl : NoLegacy cfg) (h : Hook) (env : List EnvVar) (rc : Int)
    (he : Ev.hook h env rc ∈ roundTrace cfg r) :
    cfg.has h = true ∧ env = documentedEnv h ∧ rc = r.ctx.rc.of h := by
  rw [roundTrace_eq cfg r hl] at he
  exact submitTrace_documented (r.ctxFor cfg) _ he h env rc rfl

theorem C16_node_commands (cfg : Cfg) (c : Ctx) (hl : NoLegacy cfg) (h : Hook) (env : List EnvVar) (rc : Int)
    (he : Ev.hook h env rc ∈ nodeTrace cfg c) :
    cfg.has h = true ∧ env = documentedEnv h ∧ rc = c.rc.of h := by
  rw [nodeTrace_eq cfg c hl] at he
  exact nodeCliTrace_documented { c with cfg := cfg } _ he h env rc rfl

/-! ## C. Setup: once, first, only for the new submission -/

/-- try-submit and resubmit calls never run the setup command -/
theorem C16_no_setup_after_first_call (cfg : Cfg) (r : Round) (hl : NoLegacy cfg) (hr : r.entry ≠ .submitJobs) :
    ∀ e ∈ roundTrace cfg r, e.isHookOf .setup = false := by
  have hn : (r.ctxFor cfg).isNew = false := by
    have := entryIsNew_iff r.entry
    simp only [ctxFor_isNew]
    cases h : entryIsNew r.entry
    · rfl
    · exact absurd (this.1 h) hr
  intro e he
  rw [roundTrace_eq cfg r hl, submitTrace, beforeCompletion, setupEvs_of_not_new _ hn] at he
  simp only [List.nil_append, List.mem_append] at he
  rcases he with he | he
  · exact afterSetup_setup_free _ e he
  · split at he
    · exact completionEvs_setup_free _ e he
    · simp at he

theorem C16_later_calls_setup_free (cfg : Cfg) (rest : List Round) (hl : NoLegacy cfg)
    (h : ∀ x ∈ rest, x.entry ≠ .submitJobs) : ∀ e ∈ submitSide cfg rest, e.isHookOf .setup = false := by
  intro e he
  simp only [submitSide, List.mem_flatMap] at he
  obtain ⟨r, hr, he⟩ := he
  exact C16_no_setup_after_first_call cfg r hl (h r hr) e he

/-- a configured setup command is the very first event of the submit side of every history, and it never runs again —
    whatever happens later (try-submits, cancel, any number of resubmissions and completions) -/
theorem C16_setup_first (cfg : Cfg) (rs : List Round) (hl : NoLegacy cfg) (hh : History rs)
    (hs : cfg.setup = true) :
    ∃ rc tl, submitSide cfg rs = .hook .setup [.runtimeOutput] rc :: tl ∧ ∀ e ∈ tl, e.isHookOf .setup = false := by
  obtain ⟨r, rest, rfl, hr, hrest⟩ := hh
  have hn : (r.ctxFor cfg).isNew = true := by simp [(entryIsNew_iff r.entry).2 hr]
  refine ⟨(r.ctxFor cfg).rc.setup, afterSetup (r.ctxFor cfg) ++
      (if completes (r.ctxFor cfg) then completionEvs (r.ctxFor cfg) else []) ++ submitSide cfg rest, ?_, ?_⟩
  · simp [submitSide, roundTrace_eq cfg r hl, submitTrace, beforeCompletion, setupEvs_of_new _ hn (by simpa using hs)]
  · intro e he
    simp only [List.mem_append] at he
    rcases he with (he | he) | he
    · exact afterSetup_setup_free _ e he
    · split at he
      · exact completionEvs_setup_free _ e he
      · simp at he
    · exact C16_later_calls_setup_free cfg rest hl hrest e he

/-- setup runs exactly once over the whole history if it is configured, never otherwise -/
theorem C16_setup_exactly_once (cfg : Cfg) (rs : List Round) (hl : NoLegacy cfg) (hh : History rs) :
    (submitSide cfg rs).countP (·.isHookOf .setup) = if cfg.setup then 1 else 0 := by
  cases hs : cfg.setup
  · simp only [Bool.false_eq_true, if_false, List.countP_eq_zero]
    intro e he
    simp only [submitSide, List.mem_flatMap] at he
    obtain ⟨r, _, he⟩ := he
    cases e with
    | hook h env rc =>
      have := (C16_round_commands cfg r hl h env rc he).1
      cases h <;> simp_all [Ev.isHookOf, Cfg.has]
    | _ => simp [Ev.isHookOf]
  · obtain ⟨rc, tl, h1, h2⟩ := C16_setup_first cfg rs hl hh hs
    have h0 : tl.countP (·.isHookOf .setup) = 0 := by
      rw [List.countP_eq_zero]; intro e he; simp [h2 e he]
    rw [h1, List.countP_cons, h0]
    simp [Ev.isHookOf]

/-- every other event of the submit side — every `sbatch`, in local mode every job start — comes after the setup command -/
theorem C16_setup_before_everything (cfg : Cfg) (rs : List Round) (hl : NoLegacy cfg) (hh : History rs)
    (hs : cfg.setup = true) (pre post : List Ev) (e : Ev) (hsplit : submitSide cfg rs = pre ++ e :: post)
    (he : e.isHookOf .setup = false) : ∃ rc, Ev.hook .setup [.runtimeOutput] rc ∈ pre := by
  obtain ⟨rc, tl, h1, _⟩ := C16_setup_first cfg rs hl hh hs
  rw [h1] at hsplit
  cases pre with
  | nil =>
    simp at hsplit
    rw [← hsplit.1] at he
    simp [Ev.isHookOf] at he
  | cons x pre' =>
    simp at hsplit
    exact ⟨rc, by rw [← hsplit.1]; simp⟩

/-- in particular: before any batch is handed to the HPC -/
theorem C16_setup_before_sbatch (cfg : Cfg) (rs : List Round) (hl : NoLegacy cfg) (hh : History rs)
    (hs : cfg.setup = true) (pre post : List Ev) (b : Nat) (hsplit : submitSide cfg rs = pre ++ .sbatch b :: post) :
    ∃ rc, Ev.hook .setup [.runtimeOutput] rc ∈ pre :=
  C16_setup_before_everything cfg rs hl hh hs pre post (.sbatch b) hsplit rfl

/-- what the code does when the setup command fails: the call raises right there; nothing is handed to the HPC by it -/
theorem C16_failing_setup_stops (cfg : Cfg) (r : Round) (hl : NoLegacy cfg) (hr : r.entry = .submitJobs)
    (hs : cfg.setup = true) (hf : r.ctx.rc.setup ≠ 0) :
    roundTrace cfg r = [.hook .setup [.runtimeOutput] r.ctx.rc.setup] ∧ roundErr cfg r = some .execError := by
  have hn : (r.ctxFor cfg).isNew = true := (entryIsNew_iff r.entry).2 hr
  have hrc : (r.ctxFor cfg).rc = r.ctx.rc := rfl
  have hn' : entryIsNew r.entry = true := hn
  have hfail : setupFails (r.ctxFor cfg) = true := by
    simp [setupFails, hn', hs, hrc, (commandFailed_iff _).2 hf]
  rw [roundTrace_eq cfg r hl, roundErr_eq cfg r hl]
  simp [submitTrace, beforeCompletion, afterSetup, completes, submitErr, hfail, setupEvs_of_new _ hn (by simpa using hs), hrc]

/-! ## D. Teardown: exactly once per completion, after the summary, before the flag -/

/-- per call: the flag is set once iff the call reaches the completion; the teardown command runs once iff it is
    configured and the call reaches the completion — for every set of results and every return code -/
theorem C16_round_counts (cfg : Cfg) (r : Round) (hl : NoLegacy cfg) :
    (roundTrace cfg r).countP (·.isFlag) = (if completes (r.ctxFor cfg) then 1 else 0) ∧
    (roundTrace cfg r).countP (·.isHookOf .teardown) = (if cfg.teardown && completes (r.ctxFor cfg) then 1 else 0) := by
  rw [roundTrace_eq cfg r hl, submitTrace, List.countP_append, List.countP_append,
    beforeCompletion_count _ _ (by intro e; cases e <;> simp [Ev.isFlag, Ev.isCompletion]),
    beforeCompletion_count _ _ (by
      intro e; cases e with
      | hook h _ _ => cases h <;> simp [Ev.isHookOf, Ev.isCompletion]
      | _ => simp [Ev.isHookOf, Ev.isCompletion])]
  have hcfg : (r.ctxFor cfg).cfg.teardown = cfg.teardown := rfl
  cases completes (r.ctxFor cfg)
  · simp
  · cases ht : cfg.teardown <;> simp [completionEvs_count_flag, completionEvs_count_teardown, hcfg, ht]

/-- over ANY sequence of calls: as many teardown runs as completions (none if no teardown command is configured) -/
theorem C16_teardown_once_per_completion (cfg : Cfg) (rs : List Round) (hl : NoLegacy cfg) :
    (submitSide cfg rs).countP (·.isHookOf .teardown) =
      if cfg.teardown then (submitSide cfg rs).countP (·.isFlag) else 0 := by
  induction rs with
  | nil => simp [submitSide]
  | cons r rs ih =>
    have h := C16_round_counts cfg r hl
    simp only [submitSide, List.flatMap_cons, List.countP_append] at ih ⊢
    rw [ih, h.1, h.2]
    cases cfg.teardown <;> simp

/-- position of every teardown run in every history: immediately after a results summary, and followed — with only the
    report generation in between — by the completion flag; with the documented environment -/
theorem C16_teardown_after_summary_before_flag (cfg : Cfg) (rs : List Round) (hl : NoLegacy cfg)
    (pre post : List Ev) (env : List EnvVar) (rc : Int)
    (hsplit : submitSide cfg rs = pre ++ .hook .teardown env rc :: post) :
    ∃ pre' post' rows missing, pre = pre' ++ [.summary rows missing] ∧
      post = (if cfg.reports then [.reports] else []) ++ .flag :: post' ∧ env = [.runtimeOutput] := by
  obtain ⟨rs1, r, rs2, p, q, _, hr, hpre, hpost⟩ := flatMap_split (roundTrace cfg) hsplit
  rw [roundTrace_eq cfg r hl] at hr
  obtain ⟨e1, e2, e3, _, _, _⟩ := submitTrace_split_teardown (r.ctxFor cfg) p q env rc hr
  refine ⟨rs1.flatMap (roundTrace cfg) ++ beforeCompletion (r.ctxFor cfg),
    nextStageEvs (r.ctxFor cfg) ++ rs2.flatMap (roundTrace cfg),
    (r.ctxFor cfg).rows, missingJobs (r.ctxFor cfg).jobs (r.ctxFor cfg).rows, ?_, ?_, e3⟩
  · rw [hpre, e1]; simp
  · rw [hpost, e2]; simp only [List.append_assoc, List.cons_append]; rfl

/-- every completion flag of every history is preceded by the results summary, then the teardown command iff one is
    configured (then the report generation iff enabled): the flag is never set before the teardown ran -/
theorem C16_flag_after_teardown (cfg : Cfg) (rs : List Round) (hl : NoLegacy cfg) (pre post : List Ev)
    (hsplit : submitSide cfg rs = pre ++ .flag :: post) :
    ∃ pre' rows missing rc, pre = pre' ++ [.summary rows missing] ++
      (if cfg.teardown then [.hook .teardown [.runtimeOutput] rc] else []) ++ (if cfg.reports then [.reports] else []) := by
  obtain ⟨rs1, r, rs2, p, q, _, hr, hpre, hpost⟩ := flatMap_split (roundTrace cfg) hsplit
  rw [roundTrace_eq cfg r hl] at hr
  obtain ⟨e1, _, _⟩ := submitTrace_split_flag (r.ctxFor cfg) p q hr
  refine ⟨rs1.flatMap (roundTrace cfg) ++ beforeCompletion (r.ctxFor cfg), (r.ctxFor cfg).rows,
    missingJobs (r.ctxFor cfg).jobs (r.ctxFor cfg).rows, (r.ctxFor cfg).rc.teardown, ?_⟩
  rw [hpre, e1]; simp only [List.append_assoc]; rfl

/-- "after every job has an outcome": the summary written before the teardown lists, for every job of the configuration,
    a result or reports it missing (results are duplicate-free and belong to the configuration: C03/C08) -/
theorem C16_summary_accounts_for_every_job (jobs rows : List Nat) (hn : rows.Nodup) (hs : ∀ j ∈ rows, j ∈ jobs) :
    ∀ j ∈ jobs, j ∈ rows ∨ j ∈ missingJobs jobs rows := by
  intro j hj
  unfold missingJobs
  cases hinc : resultsIncomplete rows.length jobs.length
  · left
    have hlen : rows.length = jobs.length := by simpa [resultsIncomplete] using hinc
    exact mem_of_nodup_subset_same_length hn hs hlen j hj
  · by_cases h : j ∈ rows
    · exact Or.inl h
    · right; simp [hj, h]

/-- the summary of a call is the one of its results: rows as listed, missing as computed from them -/
theorem C16_summary_content (cfg : Cfg) (r : Round) (hl : NoLegacy cfg) (rows missing : List Nat)
    (h : Ev.summary rows missing ∈ roundTrace cfg r) :
    rows = r.ctx.rows ∧ missing = missingJobs r.ctx.jobs r.ctx.rows := by
  rw [roundTrace_eq cfg r hl] at h
  have key : ∀ e ∈ submitTrace (r.ctxFor cfg), ∀ rows missing, e = Ev.summary rows missing →
      rows = r.ctx.rows ∧ missing = missingJobs r.ctx.jobs r.ctx.rows := by
    apply submitTrace_forall
    · intro e he; unfold setupEvs at he; grind
    · apply runnerEvs_forall
      · intro e he; unfold nodeSetupEvs at he; grind
      · intro e he; obtain ⟨_, rfl⟩ := queueEvs_not_hook _ e he; intro _ _ h; cases h
      · intro e he; unfold nodeTeardownEvs at he; grind
    · intro e he; unfold nodeSetupEvs at he; grind
    · intro _ _ h; cases h
    · intro _ _ _ h; cases h
    · apply completionEvs_forall
      · intro rows missing h; injection h with h1 h2; exact ⟨h1.symm, h2.symm⟩
      · intro e he; unfold teardownEvs at he; grind
      · intro _ _ h; cases h
      · intro _ _ h; cases h
      · intro _ _ h; cases h
  exact key _ h rows missing rfl

/-! ## E. Per batch: node setup before every job, node teardown after all of them, once each -/

/-- every queue event of the batch (every job start, every recorded result) happens after the node setup command,
    which succeeded, and only queue events lie between -/
theorem C16_node_setup_before_jobs (cfg : Cfg) (c : Ctx) (hl : NoLegacy cfg) (hs : cfg.nodeSetup = true)
    (pre post : List Ev) (b : Nat) (e : QEv) (hsplit : nodeTrace cfg c = pre ++ .job b e :: post) :
    ∃ tl, pre = .hook .nodeSetup [.runtimeOutput, .submissionGroup] c.rc.nodeSetup :: tl ∧
      (∀ x ∈ tl, x.isJob = true) ∧ c.rc.nodeSetup = 0 := by
  rw [nodeTrace_eq cfg c hl] at hsplit
  obtain ⟨tl, h1, h2, h3⟩ := nodeCliTrace_split_job { c with cfg := cfg } hs pre post b e hsplit
  refine ⟨tl, h1, h2, ?_⟩
  have : commandFailed c.rc.nodeSetup = false := by simpa [nodeSetupFails, hs] using h3
  by_cases h0 : c.rc.nodeSetup = 0
  · exact h0
  · rw [(commandFailed_iff _).2 h0] at this; cases this

/-- the node teardown command runs after the WHOLE queue run of the batch (every job started and every result recorded
    before it), nothing of the batch runs after it; with the documented environment -/
theorem C16_node_teardown_after_jobs (cfg : Cfg) (c : Ctx) (hl : NoLegacy cfg) (pre post : List Ev)
    (env : List EnvVar) (rc : Int) (hsplit : nodeTrace cfg c = pre ++ .hook .nodeTeardown env rc :: post) :
    pre = nodeSetupEvs { c with cfg := cfg } ++ c.queue.map (.job c.batch) ∧
      post = (if c.distributed then [.trySubmit] else []) ∧ env = [.runtimeOutput, .submissionGroup] := by
  rw [nodeTrace_eq cfg c hl] at hsplit
  obtain ⟨h1, h2, h3, _, _⟩ := nodeCliTrace_split_nodeTeardown { c with cfg := cfg } pre post env rc hsplit
  exact ⟨h1, h2, h3⟩

/-- once per batch: node setup once iff configured; node teardown once iff configured and the node setup did not fail -/
theorem C16_node_commands_once (cfg : Cfg) (c : Ctx) (hl : NoLegacy cfg) :
    (nodeTrace cfg c).countP (·.isHookOf .nodeSetup) = (if cfg.nodeSetup then 1 else 0) ∧
    (nodeTrace cfg c).countP (·.isHookOf .nodeTeardown) =
      (if cfg.nodeTeardown && !nodeSetupFails { c with cfg := cfg } then 1 else 0) := by
  have hq : ∀ (h : Hook) (b : Nat) (q : List QEv), (List.map (Ev.job b) q).countP (·.isHookOf h) = 0 := by
    intro h b q; rw [List.countP_eq_zero]; intro e he
    simp only [List.mem_map] at he
    obtain ⟨_, _, rfl⟩ := he
    simp [Ev.isHookOf]
  have ht0 : ∀ (h : Hook) (d : Bool), (if d then [Ev.trySubmit] else []).countP (·.isHookOf h) = 0 := by
    intro h d; cases d <;> simp [Ev.isHookOf]
  rw [nodeTrace_eq cfg c hl]
  unfold nodeCliTrace runnerEvs queueEvs
  cases hf : nodeSetupFails { c with cfg := cfg } <;> cases hs : cfg.nodeSetup <;> cases ht : cfg.nodeTeardown <;>
    simp only [Bool.false_eq_true, if_false, if_true, List.countP_append, hq, ht0] <;>
    simp [nodeSetupEvs, nodeTeardownEvs, hs, ht, Ev.isHookOf, List.countP_cons]

/-! ## F. Configuring commands never prevents results from being recorded -/

/-- a node whose node setup command does not fail does, apart from the commands themselves, EXACTLY what it does with no
    command configured: the same job starts, the same result rows recorded, the same try-submit, no exception —
    whatever the node teardown command returns -/
theorem C16_commands_transparent_node (cfg : Cfg) (c : Ctx) (hl : NoLegacy cfg)
    (hok : nodeSetupFails { c with cfg := cfg } = false) :
    (nodeTrace cfg c).filter (fun e => !e.isHook) = nodeTrace cfg.noHooks c ∧ nodeErr cfg c = none ∧
      nodeErr cfg.noHooks c = none := by
  have hq : (queueEvs { c with cfg := cfg }).filter (fun e => !e.isHook) = c.queue.map (.job c.batch) := by
    simp only [queueEvs]
    rw [List.filter_eq_self]
    intro e he
    simp only [List.mem_map] at he
    obtain ⟨_, _, rfl⟩ := he
    rfl
  rw [nodeTrace_eq cfg c hl, nodeTrace_eq cfg.noHooks c (noLegacy_noHooks cfg hl), nodeErr_eq cfg c hl,
    nodeErr_eq cfg.noHooks c (noLegacy_noHooks cfg hl)]
  have hok' : nodeSetupFails { c with cfg := cfg.noHooks } = false := by simp [nodeSetupFails, Cfg.noHooks]
  unfold nodeCliTrace nodeCliErr runnerEvs
  rw [hok, hok']
  simp only [Bool.false_eq_true, if_false, List.filter_append, hq]
  cases hs : cfg.nodeSetup <;> cases ht : cfg.nodeTeardown <;> cases hd : c.distributed <;>
    simp [nodeSetupEvs, nodeTeardownEvs, queueEvs, Cfg.noHooks, Ev.isHook, hs, ht]

/-- every result the queue run produces is recorded, and the node hands over with try-submit, whichever commands are
    configured and whatever the node teardown returns -/
theorem C16_rows_recorded (cfg : Cfg) (c : Ctx) (hl : NoLegacy cfg)
    (hok : nodeSetupFails { c with cfg := cfg } = false) :
    (nodeTrace cfg c).filter (·.isJob) = c.queue.map (.job c.batch) ∧
      (c.distributed = true → Ev.trySubmit ∈ nodeTrace cfg c) := by
  have hq : (queueEvs { c with cfg := cfg }).filter (·.isJob) = c.queue.map (.job c.batch) := by
    simp only [queueEvs]
    rw [List.filter_eq_self]
    intro e he
    simp only [List.mem_map] at he
    obtain ⟨_, _, rfl⟩ := he
    rfl
  rw [nodeTrace_eq cfg c hl]
  unfold nodeCliTrace runnerEvs
  rw [hok]
  simp only [Bool.false_eq_true, if_false, List.filter_append, hq]
  constructor
  · cases hs : cfg.nodeSetup <;> cases ht : cfg.nodeTeardown <;> cases hd : c.distributed <;>
      simp [nodeSetupEvs, nodeTeardownEvs, Ev.isJob, hs, ht]
  · intro hd; simp [hd]

/-- what the code does when the node setup command FAILS: the node raises before the queue runs — no job of the batch
    starts, no result is recorded, no node teardown, no try-submit from this node.  (The batch's jobs are later
    reported missing; this is `check_run_command` in `JobRunner.run_jobs`.) -/
theorem C16_failing_node_setup_aborts (cfg : Cfg) (c : Ctx) (hl : NoLegacy cfg) (hs : cfg.nodeSetup = true)
    (hf : c.rc.nodeSetup ≠ 0) :
    nodeTrace cfg c = [.hook .nodeSetup [.runtimeOutput, .submissionGroup] c.rc.nodeSetup] ∧
      nodeErr cfg c = some .execError := by
  have hfail : nodeSetupFails { c with cfg := cfg } = true := by
    simp [nodeSetupFails, hs, (commandFailed_iff _).2 hf]
  rw [nodeTrace_eq cfg c hl, nodeErr_eq cfg c hl]
  simp [nodeCliTrace, nodeCliErr, hfail, nodeSetupEvs, hs]

/-- the submit side: when neither the setup command nor (local mode) the node setup command fails, a call does, apart
    from the commands themselves, EXACTLY what it does with no command configured — same `sbatch` calls, same summary,
    same flag — whatever the teardown commands return -/
theorem C16_commands_transparent_round (cfg : Cfg) (r : Round) (hl : NoLegacy cfg)
    (h1 : setupFails (r.ctxFor cfg) = false)
    (h2 : r.ctx.isLocal = true → nodeSetupFails (r.ctxFor cfg) = false) :
    (roundTrace cfg r).filter (fun e => !e.isHook) = roundTrace cfg.noHooks r ∧ roundErr cfg r = none ∧
      roundErr cfg.noHooks r = none := by
  have hq : ∀ c : Ctx, (queueEvs c).filter (fun e => !e.isHook) = queueEvs c := by
    intro c
    simp only [queueEvs]
    rw [List.filter_eq_self]
    intro e he
    simp only [List.mem_map] at he
    obtain ⟨_, _, rfl⟩ := he
    rfl
  have hb : ∀ l : List Nat, (l.map Ev.sbatch).filter (fun e => !e.isHook) = l.map Ev.sbatch := by
    intro l
    rw [List.filter_eq_self]
    intro e he
    simp only [List.mem_map] at he
    obtain ⟨_, _, rfl⟩ := he
    rfl
  rw [roundTrace_eq cfg r hl, roundTrace_eq cfg.noHooks r (noLegacy_noHooks cfg hl), roundErr_eq cfg r hl,
    roundErr_eq cfg.noHooks r (noLegacy_noHooks cfg hl)]
  have h1' : setupFails (r.ctxFor cfg.noHooks) = false := by simp [setupFails, Cfg.noHooks]
  have h2' : nodeSetupFails (r.ctxFor cfg.noHooks) = false := by simp [nodeSetupFails, Cfg.noHooks]
  have hloc : (r.ctxFor cfg).isLocal = r.ctx.isLocal := rfl
  have hloc' : (r.ctxFor cfg.noHooks).isLocal = r.ctx.isLocal := rfl
  have hqe : queueEvs (r.ctxFor cfg.noHooks) = queueEvs (r.ctxFor cfg) := rfl
  have hbe : (r.ctxFor cfg.noHooks).batches = (r.ctxFor cfg).batches := rfl
  have hhe : (r.ctxFor cfg.noHooks).hpcComplete = (r.ctxFor cfg).hpcComplete := rfl
  have hre : (r.ctxFor cfg.noHooks).rows = (r.ctxFor cfg).rows := rfl
  have hje : (r.ctxFor cfg.noHooks).jobs = (r.ctxFor cfg).jobs := rfl
  have hne : (r.ctxFor cfg.noHooks).isNew = (r.ctxFor cfg).isNew := rfl
  unfold submitTrace submitErr beforeCompletion afterSetup completes completionEvs runnerEvs
  rw [h1, h1', h2', hloc, hloc', hqe, hbe, hhe, hre, hje]
  cases hl' : r.ctx.isLocal
  · simp only [Bool.false_eq_true, if_false, List.filter_append, hb, Bool.not_false, Bool.true_and, Bool.false_and,
      Bool.or_false]
    cases (r.ctxFor cfg).hpcComplete <;> cases hs : cfg.setup <;> cases ht : cfg.teardown <;> cases hr : cfg.reports <;>
      cases hp : cfg.pipelineStage <;> cases hn : (r.ctxFor cfg).isNew <;>
      simp [setupEvs, teardownEvs, reportsEvs, nextStageEvs, Cfg.noHooks, Ev.isHook, hs, ht, hr, hp, hn, hne]
  · rw [h2 hl']
    simp only [if_true, Bool.false_eq_true, if_false, List.filter_append, hq, Bool.not_false, Bool.true_and,
      Bool.and_false, Bool.or_false]
    cases hs : cfg.setup <;> cases ht : cfg.teardown <;> cases hr : cfg.reports <;> cases hns : cfg.nodeSetup <;>
      cases hnt : cfg.nodeTeardown <;>
      cases hp : cfg.pipelineStage <;> cases hn : (r.ctxFor cfg).isNew <;>
      simp [setupEvs, teardownEvs, reportsEvs, nextStageEvs, nodeSetupEvs, nodeTeardownEvs, Cfg.noHooks, Ev.isHook,
        hs, ht, hr, hp, hn, hne, hns, hnt]

/-! ## G. All interleavings: the setup command precedes everything any node does -/

/-- in every interleaving, whatever a node does (node setup, every job start, …) happens after the setup command ran -/
theorem C16_setup_before_every_node_event (cfg : Cfg) (rs : List Round) (g : List (Proc × Ev)) (hl : NoLegacy cfg)
    (hh : History rs) (hx : Execution cfg rs g) (hs : cfg.setup = true)
    (pre post : List (Proc × Ev)) (b : Nat) (e : Ev) (hsplit : g = pre ++ (Proc.node b, e) :: post) :
    ∃ rc, (Proc.submit, Ev.hook .setup [.runtimeOutput] rc) ∈ pre := by
  obtain ⟨p1, p2, hp⟩ := List.append_of_mem (hx.causal pre post b e hsplit)
  obtain ⟨rc, tl, h1, _⟩ := C16_setup_first cfg rs hl hh hs
  have hproj := hx.submit
  rw [hsplit, hp, h1] at hproj
  simp only [proj, List.filterMap_append, List.filterMap_cons, if_true, List.append_assoc, List.cons_append] at hproj
  refine ⟨rc, ?_⟩
  rw [hp]
  generalize hq : List.filterMap (fun x : Proc × Ev => if x.1 = Proc.submit then some x.2 else none) p1 = q at hproj
  cases q with
  | nil => simp at hproj
  | cons y q' =>
    simp only [List.cons_append, List.cons.injEq] at hproj
    have hy : y ∈ List.filterMap (fun x : Proc × Ev => if x.1 = Proc.submit then some x.2 else none) p1 := by
      rw [hq]; simp
    simp only [List.mem_filterMap] at hy
    obtain ⟨⟨pr, ev⟩, hmem, hev⟩ := hy
    simp only at hev
    split at hev
    · rename_i hpr
      simp only [Option.some.injEq] at hev
      subst hpr; subst hev
      rw [hproj.1] at hmem
      simp [hmem]
    · cases hev

/-! ## Non-vacuity: concrete histories evaluated by the kernel -/

/-- all four commands set -/
def cfgAll : Cfg := { setup := true, teardown := true, nodeSetup := true, nodeTeardown := true }

/-- a submission of three jobs: submit-jobs hands over batches 1 and 2; a node's try-submit completes it with a failing
    job and a failing teardown; the user resubmits (batch 3); the next try-submit completes it again -/
def demo : List Round := [
  { entry := .submitJobs, ctx := { cfg := cfgAll, batches := [1, 2], jobs := [0, 1, 2] } },
  { entry := .trySubmit, ctx := { cfg := cfgAll, hpcComplete := true, jobs := [0, 1, 2], rows := [0, 1], rc := { teardown := 3 } } },
  { entry := .resubmit, ctx := { cfg := cfgAll, batches := [3], jobs := [0, 1, 2] } },
  { entry := .trySubmit, ctx := { cfg := cfgAll, hpcComplete := true, jobs := [0, 1, 2], rows := [0, 1, 2] } }]

example : NoLegacy cfgAll ∧ History demo := by decide

example : submitSide cfgAll demo =
    [.hook .setup [.runtimeOutput] 0, .sbatch 1, .sbatch 2,
     .summary [0, 1] [2], .hook .teardown [.runtimeOutput] 3, .flag,
     .sbatch 3,
     .summary [0, 1, 2] [], .hook .teardown [.runtimeOutput] 0, .flag] := by decide

example : (submitSide cfgAll demo).countP (·.isHookOf .setup) = 1 ∧
    (submitSide cfgAll demo).countP (·.isHookOf .teardown) = 2 ∧ (submitSide cfgAll demo).countP (·.isFlag) = 2 := by decide

/-- a node: two jobs overlapping, node teardown fails, results are recorded all the same -/
example : nodeTrace cfgAll { cfg := cfgAll, batch := 2, queue := [.start 0, .start 1, .row 1, .row 0], rc := { nodeTeardown := 1 } } =
    [.hook .nodeSetup [.runtimeOutput, .submissionGroup] 0, .job 2 (.start 0), .job 2 (.start 1), .job 2 (.row 1), .job 2 (.row 0),
     .hook .nodeTeardown [.runtimeOutput, .submissionGroup] 1, .trySubmit] := by decide

/-- a failing node setup aborts the batch: nothing else happens on the node -/
example : nodeTrace cfgAll { cfg := cfgAll, batch := 2, queue := [.start 0, .row 0], rc := { nodeSetup := 2 } } =
    [.hook .nodeSetup [.runtimeOutput, .submissionGroup] 2] ∧
    nodeErr cfgAll { cfg := cfgAll, batch := 2, queue := [.start 0, .row 0], rc := { nodeSetup := 2 } } = some .execError := by decide

/-- local mode, one call: everything in order -/
def localCtx : Ctx :=
  { cfg := cfgAll, isLocal := true, localInputs := true, jobs := [0, 1], rows := [0, 1],
    queue := [.start 0, .row 0, .start 1, .row 1] }

example : roundTrace cfgAll { entry := .submitJobs, ctx := localCtx } =
    [.hook .setup [.runtimeOutput] 0, .hook .nodeSetup [.runtimeOutput, .submissionGroup] 0,
     .job 0 (.start 0), .job 0 (.row 0), .job 0 (.start 1), .job 0 (.row 1),
     .hook .nodeTeardown [.runtimeOutput, .submissionGroup] 0, .collect,
     .summary [0, 1] [], .hook .teardown [.runtimeOutput] 0, .flag] := by decide

/-- nothing configured: no command runs -/
example : submitSide cfgAll.noHooks demo =
    [.sbatch 1, .sbatch 2, .summary [0, 1] [2], .flag, .sbatch 3, .summary [0, 1, 2] [], .flag] := by decide

/-- a global schedule exists (the hypotheses of `C16_setup_before_every_node_event` are satisfiable) -/
example : Execution cfgAll [{ entry := .submitJobs, ctx := { cfg := cfgAll, batches := [1] } }]
    [(.submit, .hook .setup [.runtimeOutput] 0), (.submit, .sbatch 1),
     (.node 1, .hook .nodeSetup [.runtimeOutput, .submissionGroup] 0), (.node 1, .job 1 (.start 0))] := by
  constructor
  · decide
  · intro pre post b e h
    rcases pre with _ | ⟨x1, _ | ⟨x2, _ | ⟨x3, _ | ⟨x4, pre⟩⟩⟩⟩ <;> simp at h
    · obtain ⟨h1, h2, ⟨hb, _⟩, _⟩ := h
      subst h1 h2 hb; simp
    · obtain ⟨h1, h2, h3, ⟨hb, _⟩, _⟩ := h
      subst h1 h2 h3 hb; simp

/-- multi-node allocations: the node setup / node teardown statements of `JobRunner.run_jobs` are guarded by the
    configuration only, never by the node's id or the manager flag (generated from the source) — so the per-node
    statements above hold on every node of an allocation, not only on the manager node -/
theorem C16_node_hooks_on_every_node : Jade.Gen.Replica.nodeHooksOnEveryNode = true := by decide

end Jade.C16
