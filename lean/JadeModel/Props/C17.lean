import JadeModel.Proofs.Config

/-!
# C17 — configurations round-trip losslessly; invalid ones are rejected up front

Property theorems only.  The model is `Jade.Config` (`Model/Config.lean`); its tables, defaults,
decision predicates and statement orders are `Jade.Gen.Config`, regenerated from the working tree of
NREL/jade on every run.  Strings, job lists, group lists and JSON trees are unbounded.

Reading guide
* a *file* is a JSON tree `J` (the `json` library itself and pydantic's type coercions are outside);
* `encodeJob`/`encodeConfig` = `GenericCommandParametersModel.dict()` / `JobConfiguration.serialize()`;
  `serialize` adds the `assert job_id is not None` of `GenericCommandParameters.serialize`;
* `decodeJob`/`decodeConfig` = `_deserialize_jobs` entry / `create_config_from_file`;
* `construct` = building through the public API (`add_job` per job);
* `runChecks` = `JobSubmitter.run_checks`; `runCreate`/`runSubmit` = `JobSubmitter.create` /
  `JobSubmitter.run_submit_jobs` as straight-line programs over the generated statement lists.
-/

namespace Jade.C17
open Jade.Config Jade.Gen.Config

/-! ## 1. Round trip -/

/-- One job: what `dict()` writes (defaults of the popped fields elided), read back by the loader,
    is the same job — name (`None` stays `None`, so the defaulted name stays `str(job_id)`), id,
    command, blockers, flags, estimate, group, `ext`. -/
theorem decode_encode_job (j : Job) (h : NormalJob j) : decodeJob (encodeJob j) = .ok j :=
  decodeJob_encode j h

/-- A whole configuration in normal form: same jobs in the same order, same groups, same four
    lifecycle commands. -/
theorem decode_encode_config (c : Config) (h : Normal c) : decodeConfig (encodeConfig c) = .ok c :=
  decodeConfig_encode c h

/-- `dump` then `create_config_from_file`, with the assertion inside `serialize()`. -/
theorem dump_load_roundtrip (c : Config) (h : Normal c) :
    (serialize c >>= decodeConfig) = .ok c := by
  rw [serialize_stored c h.1]
  exact decodeConfig_encode c h

/-- The normal form is what the loader always produces (for *any* JSON tree it accepts) … -/
theorem decode_normalises (t : J) (c : Config) (h : decodeConfig t = .ok c) : Normal c :=
  decodeConfig_normal t c h

/-- … and what the public constructor + `add_job` always produce. -/
theorem construct_normalises (c c' : Config)
    (hk : ∀ j ∈ c.jobs, ∃ kw, decodeFields kw = .ok j) (h : construct c = .ok c') : Normal c' := by
  obtain ⟨rfl, hs⟩ := (construct_ok_iff c c').1 h
  refine ⟨hs, ?_⟩
  exact withIds_normal _ _ (fun j hj => by obtain ⟨kw, hkw⟩ := hk j hj; exact decodeFields_normal kw j hkw)

/-- So: build through the public API, write, load — nothing changes. -/
theorem public_roundtrip (c c' : Config)
    (hk : ∀ j ∈ c.jobs, ∃ kw, decodeFields kw = .ok j) (h : construct c = .ok c') :
    (serialize c' >>= decodeConfig) = .ok c' :=
  dump_load_roundtrip c' (construct_normalises c c' hk h)

/-- The normal form of the blockers depends only on the *set* (order and repetitions in the
    constructor argument or in the file do not matter) and keeps exactly its members. -/
theorem blockers_order_insensitive (l l' : List String) (h : ∀ z, z ∈ l ↔ z ∈ l') :
    canonSet l = canonSet l' := canonSet_ext l l' h

theorem blockers_members (l : List String) (z : String) : z ∈ canonSet l ↔ z ∈ l := mem_canonSet z l

/-- The `name` property: the given name, else `str(job_id)`. -/
theorem name_defaults_to_job_id (j : Job) :
    j.name = match j.name?, j.jobId with
             | some n, _ => n
             | none, some i => toString i
             | none, none => "None" := by
  unfold Job.name
  cases hn : j.name? with
  | none => cases hi : j.jobId <;> simp [nameUnset, pyStrOptNat]
  | some n => simp [nameUnset]

/-- Blockers are stored as strings (an integer blocker `7` refers to the job named `"7"`). -/
theorem blockers_are_strings : blockedByStringified = true ∧ nameDefaultIsJobId = true := by decide

/-- Keys every written job carries explicitly (only the five listed fields are ever elided, and
    only at their default). -/
theorem explicit_keys (j : Job) (k : String)
    (hk : k ∈ ["name", "command", "blocked_by", "cancel_on_blocking_job_failure",
               "estimated_run_minutes", "submission_group", "job_id", "extension"]) :
    ∃ v, j.fieldValue k = some v ∧
      (match encodeJob j with
       | .obj kvs => kvs.lookup k
       | _ => none) = some v := by
  have hp : ∀ v d, popped k v d = false := by
    intro v d
    simp only [List.mem_cons, List.not_mem_nil, or_false] at hk
    rcases hk with rfl | rfl | rfl | rfl | rfl | rfl | rfl | rfl <;> simp [popped, poppedFields]
  have hl : (jobFields.lookup k).isSome = true := by
    simp only [List.mem_cons, List.not_mem_nil, or_false] at hk
    rcases hk with rfl | rfl | rfl | rfl | rfl | rfl | rfl | rfl <;> decide
  have hv : (j.fieldValue k).isSome = true := by
    simp only [List.mem_cons, List.not_mem_nil, or_false] at hk
    rcases hk with rfl | rfl | rfl | rfl | rfl | rfl | rfl | rfl <;> simp [Job.fieldValue]
  obtain ⟨d, hd⟩ := Option.isSome_iff_exists.1 hl
  obtain ⟨v, hv⟩ := Option.isSome_iff_exists.1 hv
  refine ⟨v, hv, ?_⟩
  simp only [encodeJob]
  rw [lookup_encode j k d v hd hv, hp]
  rfl

/-- Elision is exactly "popped field at its default". -/
theorem elided_iff_default (j : Job) (k : String) (d : PyVal) (v : J)
    (hd : jobFields.lookup k = some d) (hv : j.fieldValue k = some v) :
    (match encodeJob j with
     | .obj kvs => kvs.lookup k
     | _ => none) = none ↔ (k ∈ poppedFields ∧ pyValJ d = some v) := by
  simp only [encodeJob]
  rw [lookup_encode j k d v hd hv]
  constructor
  · intro h
    split at h
    · next hp =>
      refine ⟨?_, popped_default k v d hp⟩
      unfold popped at hp
      simp only [Bool.and_eq_true] at hp
      simpa using hp.1
    · cases h
  · rintro ⟨hk, hdv⟩
    have : popped k v d = true := by
      unfold popped
      simp [hk, hdv, popTest]
    simp [this]

/-! ## 2. `run_checks` accepts exactly the valid configurations -/

/-- `run_checks` succeeds exactly on the configurations that satisfy the declarative conjunction
    (≥ 1 group, unique group names, same `hpc_type`/`max_nodes`/`poll_interval`, every job's group
    defined, estimates present where `per_node_batch_size == 0`, blockers exist, wall times parse,
    estimates fit) — *both* directions, for every configuration. -/
theorem runChecks_iff_checksValid (c : Config) : runChecks c = .ok () ↔ ChecksValid c :=
  runChecks_ok_iff c

/-- For a stored configuration (`add_job` has already enforced unique names and non-empty commands)
    `run_checks` decides `Valid`. -/
theorem runChecks_iff_valid (c : Config) (hs : Stored c.jobs) : runChecks c = .ok () ↔ Valid c := by
  rw [runChecks_ok_iff]; unfold Valid; tauto

/-- End to end: jobs handed to `add_job` one by one, then `run_checks`: accepted iff valid
    (names after id assignment unique, commands non-empty, and all of the above). -/
theorem accepted_iff_valid (c : Config) :
    (∃ c', construct c = .ok c' ∧ runChecks c' = .ok ()) ↔
      Valid { c with jobs := withIds c.jobs firstJobId } := by
  constructor
  · rintro ⟨c', hc, hr⟩
    obtain ⟨rfl, hs⟩ := (construct_ok_iff c c').1 hc
    exact ⟨hs, (runChecks_ok_iff _).1 hr⟩
  · rintro ⟨hs, hv⟩
    exact ⟨_, (construct_ok_iff c _).2 ⟨rfl, hs⟩, (runChecks_ok_iff _).2 hv⟩

/-- What the loader accepts is stored, hence `run_checks` decides `Valid` for every loaded file. -/
theorem loaded_runChecks_iff_valid (t : J) (c : Config) (h : decodeConfig t = .ok c) :
    runChecks c = .ok () ↔ Valid c :=
  runChecks_iff_valid c (decodeConfig_normal t c h).1

/-! ### degenerate inputs the code treats differently -/

/-- No submission group at all: `next(iter(self.submission_groups))` raises StopIteration — an
    error, but not InvalidConfiguration. -/
theorem no_groups_stopIteration (c : Config) (h : c.groups = []) :
    runChecks c = .error .stopIteration := by
  rw [runChecks_eq]; simp [checkSubmissionGroups, h]

/-- A wall time the regex does not match fails the `assert` of `_to_timedelta` (AssertionError) —
    after the three earlier checks, whatever the jobs are. -/
theorem unparsable_walltime_assertion (c : Config)
    (h1 : checkSubmissionGroups c = .ok ()) (h2 : checkEstimatesLoop c c.groups = .ok ())
    (h3 : checkDependencies c = .ok ()) (g : Group) (hg : g ∈ c.groups) (hw : wallOf g = none) :
    runChecks c = .error (.err .assertion) := by
  rw [runChecks_eq, h1, h2, h3]
  simp only []
  obtain ⟨-, -, -, hj⟩ := (checkSubmissionGroups_ok_iff c).1 h1
  cases hr : checkRuntimes c with
  | ok u =>
    have := ((checkRuntimes_ok_iff c ((checkSubmissionGroups_ok_iff c).1 h1).2.1 hj).1 (by rw [hr])).1 g hg
    rw [hw] at this; cases this
  | error e =>
    rcases checkRuntimes_error c hj e hr with ⟨he, -⟩ | ⟨-, hall⟩
    · rw [he]
    · have := hall g hg; rw [hw] at this; cases this

/-- With at least one group and parsable wall times every rejection is InvalidConfiguration. -/
theorem rejection_is_invalidConfiguration (c : Config) (hg : c.groups ≠ [])
    (hw : ∀ g ∈ c.groups, (wallOf g).isSome = true) (e : Rej) (h : runChecks c = .error e) :
    e.isInvalidConfig = true := by
  rw [runChecks_eq] at h
  split at h
  · next e' h1 =>
    cases h
    rcases checkSubmissionGroups_error c _ h1 with ⟨-, hn⟩ | he
    · exact absurd hn hg
    · exact he
  · next h1 =>
    split at h
    · next e' h2 => cases h; rw [checkEstimatesLoop_error _ _ _ h2]; rfl
    · split at h
      · next e' h3 => cases h; rw [checkDependencies_error _ _ h3]; rfl
      · obtain ⟨-, -, -, hj⟩ := (checkSubmissionGroups_ok_iff c).1 h1
        rcases checkRuntimes_error c hj e h with ⟨-, g, hgm, hgw⟩ | ⟨he, -⟩
        · have := hw g hgm; rw [hgw] at this; cases this
        · rw [he]; rfl

/-- Every invalid configuration (with ≥ 1 group and parsable wall times) is rejected with
    InvalidConfiguration; every valid one is accepted. -/
theorem invalid_rejected_valid_accepted (c : Config) (hg : c.groups ≠ [])
    (hw : ∀ g ∈ c.groups, (wallOf g).isSome = true) :
    (ChecksValid c → runChecks c = .ok ()) ∧
    (¬ ChecksValid c → ∃ w, runChecks c = .error (.invalid w)) := by
  refine ⟨(runChecks_ok_iff c).2, ?_⟩
  intro hv
  cases hr : runChecks c with
  | ok u => exact absurd ((runChecks_ok_iff c).1 (by rw [hr])) hv
  | error e =>
    have := rejection_is_invalidConfiguration c hg hw e hr
    cases e with
    | invalid w => exact ⟨w, rfl⟩
    | err e => cases this
    | stopIteration => cases this

/-! ## 3. One theorem per class of invalidity, naming the error

The hypotheses say that the classes the code tests *earlier* are fine, so the named error is the
one the user sees. -/

/-- the parts of `ChecksValid`, in the code's order -/
def GroupsUniform (c : Config) : Prop :=
  ∀ g ∈ c.groups, ∀ f ∈ c.groups,
    g.hpc.type = f.hpc.type ∧ g.maxNodes = f.maxNodes ∧ g.pollInterval = f.pollInterval
def JobGroupsDefined (c : Config) : Prop := ∀ j ∈ c.jobs, j.group ∈ groupNames c
def EstimatesPresent (c : Config) : Prop :=
  ∀ g ∈ c.groups, g.perNodeBatchSize = 0 → ∀ j ∈ c.jobs, j.group = g.name → j.estMinutes.isSome = true
def BlockersExist (c : Config) : Prop := ∀ j ∈ c.jobs, ∀ b ∈ j.blockedBy, b ∈ jobNames c
def WalltimesParse (c : Config) : Prop := ∀ g ∈ c.groups, (wallOf g).isSome = true
def EstimatesFit (c : Config) : Prop := ∀ j ∈ c.jobs, ∀ g ∈ c.groups, g.name = j.group → Fits j g

theorem checksValid_iff (c : Config) :
    ChecksValid c ↔ c.groups ≠ [] ∧ (groupNames c).Nodup ∧ GroupsUniform c ∧ JobGroupsDefined c ∧
      EstimatesPresent c ∧ BlockersExist c ∧ WalltimesParse c ∧ EstimatesFit c := Iff.rfl

private theorem groupsLoop_error_of (c : Config) (first : Group) (rest : List Group)
    (hgs : c.groups = first :: rest) (e : Rej) (hl : checkGroupsLoop first (first :: rest) [] = .error e) :
    runChecks c = .error e := by
  rw [runChecks_eq]; simp [checkSubmissionGroups, hgs, hl]

/-- a submission group name listed twice -/
theorem rejects_duplicate_group (c : Config) (hg : c.groups ≠ []) (hu : GroupsUniform c)
    (hd : ¬ (groupNames c).Nodup) : runChecks c = .error (.invalid .groupTwice) := by
  cases hgs : c.groups with
  | nil => exact absurd hgs hg
  | cons first rest =>
    cases hl : checkGroupsLoop first (first :: rest) [] with
    | ok u =>
      have := ((checkGroupsLoop_ok_iff first _ []).1 (by rw [hl])).2
      exact absurd (by simpa [groupNames, hgs] using this) hd
    | error e =>
      have hf : first ∈ c.groups := by simp [hgs]
      rw [groupsLoop_error_of c first rest hgs e hl]
      rcases checkGroupsLoop_error _ _ _ _ hl with ⟨he, -⟩ | ⟨-, g, hgm, hne⟩ | ⟨p, -, -, g, hgm, hne⟩
      · rw [he]
      · exact absurd (hu g (by rw [hgs]; exact hgm) first hf).1 hne
      · have := hu g (by rw [hgs]; exact hgm) first hf
        tauto

/-- groups with different `hpc_type` -/
theorem rejects_hpc_type (c : Config) (hn : (groupNames c).Nodup)
    (hp : ∀ g ∈ c.groups, ∀ f ∈ c.groups, g.maxNodes = f.maxNodes ∧ g.pollInterval = f.pollInterval)
    (g f : Group) (hg : g ∈ c.groups) (hf : f ∈ c.groups) (hne : g.hpc.type ≠ f.hpc.type) :
    runChecks c = .error (.invalid .hpcType) := by
  cases hgs : c.groups with
  | nil => rw [hgs] at hg; cases hg
  | cons first rest =>
    cases hl : checkGroupsLoop first (first :: rest) [] with
    | ok u =>
      have h1 := ((checkGroupsLoop_ok_iff first _ []).1 (by rw [hl])).1
      have a := (h1 g (by rw [← hgs]; exact hg)).2.1
      have b := (h1 f (by rw [← hgs]; exact hf)).2.1
      exact absurd (a.trans b.symm) hne
    | error e =>
      have hfm : first ∈ c.groups := by simp [hgs]
      rw [groupsLoop_error_of c first rest hgs e hl]
      rcases checkGroupsLoop_error _ _ _ _ hl with ⟨-, hnn⟩ | ⟨he, -⟩ | ⟨p, -, -, x, hxm, hx⟩
      · exfalso; apply hnn
        exact ⟨fun _ _ => by simp, by simpa [groupNames, hgs] using hn⟩
      · rw [he]
      · have := hp x (by rw [hgs]; exact hxm) first hfm
        tauto

/-- groups that differ in a `must_be_same` parameter (`max_nodes`, `poll_interval`) -/
theorem rejects_must_be_same (c : Config) (hn : (groupNames c).Nodup)
    (ht : ∀ g ∈ c.groups, ∀ f ∈ c.groups, g.hpc.type = f.hpc.type)
    (g f : Group) (hg : g ∈ c.groups) (hf : f ∈ c.groups)
    (hne : g.maxNodes ≠ f.maxNodes ∨ g.pollInterval ≠ f.pollInterval) :
    ∃ p ∈ mustBeSame, runChecks c = .error (.invalid (.mustBeSame p)) := by
  cases hgs : c.groups with
  | nil => rw [hgs] at hg; cases hg
  | cons first rest =>
    cases hl : checkGroupsLoop first (first :: rest) [] with
    | ok u =>
      have h1 := ((checkGroupsLoop_ok_iff first _ []).1 (by rw [hl])).1
      have a := (h1 g (by rw [← hgs]; exact hg)).2
      have b := (h1 f (by rw [← hgs]; exact hf)).2
      exfalso
      rcases hne with hne | hne
      · exact hne (a.2.1.trans b.2.1.symm)
      · exact hne (a.2.2.trans b.2.2.symm)
    | error e =>
      have hfm : first ∈ c.groups := by simp [hgs]
      rw [groupsLoop_error_of c first rest hgs e hl]
      rcases checkGroupsLoop_error _ _ _ _ hl with ⟨-, hnn⟩ | ⟨-, x, hxm, hx⟩ | ⟨p, he, hp, -⟩
      · exfalso; apply hnn
        exact ⟨fun _ _ => by simp, by simpa [groupNames, hgs] using hn⟩
      · exact absurd (ht x (by rw [hgs]; exact hxm) first hfm) hx
      · exact ⟨p, hp, by rw [he]⟩

/-- a job whose submission group is not defined -/
theorem rejects_undefined_group (c : Config) (hg : c.groups ≠ []) (hn : (groupNames c).Nodup)
    (hu : GroupsUniform c) (j : Job) (hj : j ∈ c.jobs) (hne : j.group ∉ groupNames c) :
    runChecks c = .error (.invalid .jobGroup) := by
  rw [runChecks_eq]
  cases hgs : c.groups with
  | nil => exact absurd hgs hg
  | cons first rest =>
    have hl : checkGroupsLoop first (first :: rest) [] = .ok () := by
      rw [checkGroupsLoop_ok_iff]
      refine ⟨fun g hgm => ⟨by simp, hu g (by rw [hgs]; exact hgm) first (by simp [hgs])⟩, ?_⟩
      simpa [groupNames, hgs] using hn
    cases hc : checkJobGroups (groupNames c) c.jobs with
    | ok u => exact absurd ((checkJobGroups_ok_iff _ _).1 (by rw [hc]) j hj) hne
    | error e =>
      have := checkJobGroups_error _ _ _ hc
      simp [checkSubmissionGroups, hgs, hl, hc, this]

/-- a job without estimate in a group with `per_node_batch_size == 0` -/
theorem rejects_missing_estimate (c : Config) (h1 : checkSubmissionGroups c = .ok ())
    (hne : ¬ EstimatesPresent c) : runChecks c = .error (.invalid .estimateMissing) := by
  rw [runChecks_eq, h1]
  simp only []
  cases h2 : checkEstimatesLoop c c.groups with
  | ok u => exact absurd ((checkEstimatesLoop_ok_iff c c.groups).1 (by rw [h2])) hne
  | error e => rw [checkEstimatesLoop_error _ _ _ h2]

/-- a dependency on a job that does not exist -/
theorem rejects_missing_blocker (c : Config) (h1 : checkSubmissionGroups c = .ok ())
    (h2 : checkEstimatesLoop c c.groups = .ok ())
    (j : Job) (hj : j ∈ c.jobs) (b : String) (hb : b ∈ j.blockedBy) (hne : b ∉ jobNames c) :
    runChecks c = .error (.invalid .dependencies) := by
  rw [runChecks_eq, h1, h2]
  simp only []
  cases h3 : checkDependencies c with
  | ok u => exact absurd ((checkDependencies_ok_iff c).1 (by rw [h3]) j hj b hb) hne
  | error e => rw [checkDependencies_error _ _ h3]

/-- an estimated run time above the wall time of the job's group -/
theorem rejects_long_estimate (c : Config) (h1 : checkSubmissionGroups c = .ok ())
    (h2 : checkEstimatesLoop c c.groups = .ok ()) (h3 : checkDependencies c = .ok ())
    (hw : WalltimesParse c) (hne : ¬ EstimatesFit c) :
    runChecks c = .error (.invalid .runtime) := by
  rw [runChecks_eq, h1, h2, h3]
  simp only []
  obtain ⟨-, hn, -, hj⟩ := (checkSubmissionGroups_ok_iff c).1 h1
  cases hr : checkRuntimes c with
  | ok u => exact absurd ((checkRuntimes_ok_iff c hn hj).1 (by rw [hr])).2 hne
  | error e =>
    rcases checkRuntimes_error c hj e hr with ⟨-, g, hgm, hgw⟩ | ⟨he, -⟩
    · have := hw g hgm; rw [hgw] at this; cases this
    · rw [he]

/-- the comparison, spelled out: `timedelta(minutes=m) > wall` in seconds; an unset wall time is
    `0xFFFFFFFF` s; otherwise hours·3600 + minutes·60 + seconds of the first `\d+:\d+:\d+`. -/
theorem fits_spelled_out (j : Job) (g : Group) (m w : Nat) (hm : j.estMinutes = some m)
    (hw : wallOf g = some w) : Fits j g ↔ 60 * m ≤ w := by
  rw [fits_iff j g w hw]; simp [hm]

theorem wall_unset (g : Group) (h : g.hpc = .local) : wallOf g = some 0xFFFFFFFF := by
  simp [wallOf, h, Hpc.walltime?, wallUnsetSeconds]

/-- `add_job` refuses an empty command (as the `command` *property* gives it) … -/
theorem rejects_empty_command (j : Job) (names : List String) (n : Nat)
    (h : (assignId j n).1.commandProp = "") :
    admitJob j names n = .error (.invalid .emptyCommand) := by
  cases hr : admitJob j names n with
  | ok r => exact absurd h ((admitJob_ok_iff _ _ _ _).1 hr).2.1
  | error e =>
    rcases admitJob_error _ _ _ _ hr with ⟨he, -⟩ | ⟨-, hc, -⟩
    · rw [he]
    · exact absurd h hc

/-- … and a name that is already stored (explicit or defaulted from the id). -/
theorem rejects_duplicate_name (j : Job) (names : List String) (n : Nat)
    (hc : (assignId j n).1.commandProp ≠ "") (h : (assignId j n).1.name ∈ names) :
    admitJob j names n = .error (.invalid .dupName) := by
  cases hr : admitJob j names n with
  | ok r => exact absurd h ((admitJob_ok_iff _ _ _ _).1 hr).2.2
  | error e =>
    rcases admitJob_error _ _ _ _ hr with ⟨-, he⟩ | ⟨he, -⟩
    · exact absurd he hc
    · rw [he]

/-- Both when building through the API and when loading a file, the only errors of adding jobs are
    these two, and success means: ids assigned in order, all commands non-empty, all names distinct. -/
theorem add_jobs_spec (js : List Job) (n : Nat) :
    (∀ out, addJobs js [] n = .ok out ↔ out = withIds js n ∧ Stored (withIds js n)) ∧
    (∀ e, addJobs js [] n = .error e → e = .invalid .emptyCommand ∨ e = .invalid .dupName) := by
  refine ⟨fun out => ?_, fun e => addJobs_error js [] n e⟩
  rw [addJobs_ok_iff, storedRel_nil]

/-- A *file* with duplicate names or an empty command is refused by the loader (its output is
    always `Stored`). -/
theorem loaded_is_stored (t : J) (c : Config) (h : decodeConfig t = .ok c) :
    (c.jobs.map Job.name).Nodup ∧ ∀ j ∈ c.jobs, j.commandProp ≠ "" ∧ j.jobId.isSome = true := by
  obtain ⟨⟨h1, h2⟩, -⟩ := decodeConfig_normal t c h
  exact ⟨h2, fun j hj => ⟨(h1 j hj).2, (h1 j hj).1⟩⟩

/-! ## 4. Rejection happens before anything is written or handed to the HPC -/

/-- `JobSubmitter.create`: a rejected configuration is not dumped. -/
theorem checks_before_dump (c : Config) (e : Rej) (h : runChecks c = .error e) :
    runCreate c = ([.initDirs], .error e) := by
  simp [runCreate, createSteps, runCreateSteps, h]

/-- `JobSubmitter.run_submit_jobs`: for a rejected configuration the only effects are the output
    directories; no `config.json`, no cluster files, `submit_jobs` (the only place where `sbatch`
    can be invoked) is never entered. -/
theorem checks_before_dump_and_sbatch (c : Config) (e : Rej) (h : runChecks c = .error e) :
    runSubmit c = ([.mkdirs, .initDirs], .error e) := by
  simp [runSubmit, runSubmitSteps, runSubmitSteps', runCreate, createSteps, runCreateSteps, h]

/-- An accepted configuration with at least one job goes all the way, in this order. -/
theorem accepted_effects (c : Config) (h : runChecks c = .ok ()) (hj : c.jobs ≠ []) :
    runSubmit c = ([.mkdirs, .initDirs, .dumpConfig, .clusterCreate, .submitJobs, .demote], .ok ()) := by
  have : c.jobs.isEmpty = false := by cases hc : c.jobs <;> simp_all
  simp [runSubmit, runSubmitSteps, runSubmitSteps', runCreate, createSteps, runCreateSteps, h, this]

/-- Degenerate: a configuration *without jobs* passes the checks; `submit_jobs` then fails on
    `next(iter(self.iter_jobs()))` (StopIteration) after the files were written. -/
theorem no_jobs_stopIteration (c : Config) (h : runChecks c = .ok ()) (hj : c.jobs = []) :
    runSubmit c = ([.mkdirs, .initDirs, .dumpConfig, .clusterCreate, .submitJobs, .demote],
                   .error .stopIteration) := by
  simp [runSubmit, runSubmitSteps, runSubmitSteps', runCreate, createSteps, runCreateSteps, h, hj]

/-! ## Non-vacuity: concrete instances -/

def gSlurm (name wall : String) (pnbs : Nat) : Group :=
  { name := name, hpc := .slurm wall, maxNodes := none, numProcesses := none, perNodeBatchSize := pnbs,
    pollInterval := 10, tryAddBlocked := true, timeBased := false, dryRun := false }

def job (name? : Option String) (id : Nat) (blockedBy : List String) (est : Option Nat)
    (group : String := "default") (command : String := "echo 1") : Job :=
  { name? := name?, jobId := some id, command := command, blockedBy := blockedBy, cancelFlag := false,
    estMinutes := est, group := group, appendJobName := false, appendOutputDir := false,
    useMultiNode := false, ext := [] }

/-- three jobs in two groups; the second is unnamed (its name is "2") and the third is blocked by it -/
def cfgOk : Config :=
  { jobs := [job (some "prep") 1 [] (some 240), job none 2 ["prep"] none,
             { job (some "post") 3 ["2", "prep"] (some 30) "short" with
               appendJobName := true, ext := [("k", .arr [.num 1, .null])] }],
    groups := [gSlurm "default" "4:00:00" 500, gSlurm "short" "00:30:00" 0],
    setup := some "echo hi", teardown := none, nodeSetup := none, nodeTeardown := some "bash t.sh" }

example : Normal cfgOk := by decide
example : decodeConfig (encodeConfig cfgOk) = .ok cfgOk := by decide
example : Valid cfgOk := by decide
example : runChecks cfgOk = .ok () := by decide
example : (cfgOk.jobs.map Job.name) = ["prep", "2", "post"] := by decide
-- the elided defaults: the first job is written with exactly these keys
example : (match encodeJob (job (some "prep") 1 [] (some 240)) with
           | .obj kvs => kvs.map Prod.fst
           | _ => []) =
    ["name", "command", "blocked_by", "cancel_on_blocking_job_failure", "estimated_run_minutes",
     "submission_group", "job_id", "extension"] := by decide
-- integer and string blockers, any order, repetitions: one canonical set
example : (asObj (.obj [("command", .str "x"), ("blocked_by", .arr [.num 2, .str "10", .str "2", .num 10])])
            >>= decodeFields).map (·.blockedBy) = .ok ["10", "2"] := by decide
-- boundary: 240 minutes fit 4:00:00 exactly, 241 do not
example : runChecks { cfgOk with jobs := [job none 1 [] (some 240)] } = .ok () := by decide
example : runChecks { cfgOk with jobs := [job none 1 [] (some 241)] } = .error (.invalid .runtime) := by decide
example : runChecks { cfgOk with jobs := [job none 1 ["7"] none] } = .error (.invalid .dependencies) := by decide
example : runChecks { cfgOk with jobs := [job none 1 [] none "short"] } = .error (.invalid .estimateMissing) := by
  decide
example : runChecks { cfgOk with jobs := [job none 1 [] none "nope"] } = .error (.invalid .jobGroup) := by decide
example : runChecks { cfgOk with groups := [gSlurm "default" "4:00:00" 500, gSlurm "default" "4:00:00" 500] }
    = .error (.invalid .groupTwice) := by decide
example : runChecks { cfgOk with groups := [gSlurm "default" "4:00:00" 500,
                                             { gSlurm "short" "1:00:00" 1 with hpc := .fake "1:00:00" }] }
    = .error (.invalid .hpcType) := by decide
example : runChecks { cfgOk with groups := [gSlurm "default" "4:00:00" 500,
                                             { gSlurm "short" "1:00:00" 1 with pollInterval := 30 }] }
    = .error (.invalid (.mustBeSame "poll_interval")) := by decide
example : runChecks { cfgOk with groups := [] } = .error .stopIteration := by decide
example : construct { cfgOk with jobs := [job (some "2") 7 [] none, { job none 0 [] none with jobId := none },
                                          { job none 0 [] none with jobId := none }] }
    = .error (.invalid .dupName) := by decide   -- ids 1, 2 are assigned: the third job is named "2"
example : construct { cfgOk with jobs := [job none 1 [] none "default" ""] }
    = .error (.invalid .emptyCommand) := by decide
example : (runSubmit { cfgOk with jobs := [job none 1 [] (some 241)] }).1 = [.mkdirs, .initDirs] := by decide
example : (runSubmit cfgOk).1 = [.mkdirs, .initDirs, .dumpConfig, .clusterCreate, .submitJobs, .demote] := by
  decide
-- `_to_timedelta` is a *search*: a SLURM "days-hours" wall time loses its days
example : searchWall "4:00:00".toList = some (4, 0, 0) := by decide
example : searchWall "2-12:30:00".toList = some (12, 30, 0) := by decide
example : searchWall "30:00".toList = none := by decide
-- outside the normal form: multi-node job with `append_output_dir = False` (reachable by attribute
-- assignment) comes back with `True`
example : decodeJob (encodeJob { job none 1 [] none with useMultiNode := true })
    = .ok { job none 1 [] none with useMultiNode := true, appendOutputDir := true } := by decide

end Jade.C17
