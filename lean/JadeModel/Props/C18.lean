import JadeModel.Proofs.Slurm

/-!
# C18 — SLURM boundary: faithful scripts, conservative status, bounded retries

Property theorems only.  Tables and decision predicates come from `Jade.Gen.Slurm`, which is
regenerated from /repo's working tree on every run.
-/

namespace Jade.C18
open Jade.Slurm Jade.Gen.Slurm

/-! ## 1. The submission script is exactly the configured directives -/

/-- Every optional parameter of `SlurmConfig`, in the order the script lists them. -/
def optionalFields : List String :=
  ["gres", "mem", "nodes", "ntasks", "ntasks_per_node", "partition", "qos", "tmp", "reservation"]

/-- The script text the property demands. -/
def expectedScript (cfg : SlurmCfg) (name script path : String) : List String :=
  ["#!/bin/bash",
   "#SBATCH --account=" ++ cfg.account,
   "#SBATCH --job-name=" ++ name,
   "#SBATCH --time=" ++ cfg.walltime,
   "#SBATCH --output=" ++ path ++ "/job_output_%j.o",
   "#SBATCH --error=" ++ path ++ "/job_output_%j.e"]
  ++ optionalFields.filterMap (fun p => (cfg.opt p).map fun v => "#SBATCH --" ++ p ++ "=" ++ v)
  ++ ["", "srun " ++ script]

theorem C18_script_exact (cfg : SlurmCfg) (name script path : String) :
    sbatchScript cfg name script path = expectedScript cfg name script path := by
  simp [sbatchScript, expectedScript, headerLines, trailerLines, optionalParams, optionalLine,
    optionalFields, renderPieces, scriptEnv, optEnv, String.join, String.append_assoc]

/-- Exactly one directive per optional parameter that is set, none for unset ones. -/
theorem C18_script_optional_iff (cfg : SlurmCfg) (name script path p : String) (hp : p ∈ optionalFields) :
    (∃ v, cfg.opt p = some v ∧ ("#SBATCH --" ++ p ++ "=" ++ v) ∈ sbatchScript cfg name script path)
      ↔ (cfg.opt p).isSome := by
  rw [C18_script_exact]
  constructor
  · rintro ⟨v, hv, -⟩; simp [hv]
  · intro h
    obtain ⟨v, hv⟩ := Option.isSome_iff_exists.1 h
    refine ⟨v, hv, ?_⟩
    simp only [expectedScript, List.mem_append, List.mem_filterMap]
    exact Or.inl (Or.inr ⟨p, hp, by simp [hv]⟩)

/-- The run script carries exactly the group's options. -/
theorem C18_run_script (configFile output : String) (o : RunOpts) :
    runScript configFile output o =
      ["#!/bin/bash",
       "jade-internal run-jobs " ++ configFile ++ " --output=" ++ output ++ " "
        ++ (if o.distributed then "--distributed-submitter" else "--no-distributed-submitter")
        ++ (match o.numProcs with
            | some k => " --num-parallel-processes-per-node=" ++ toString k
            | none => "")
        ++ (if o.verbose then " --verbose" else "")] := by
  cases o with
  | mk d n v =>
    cases d <;> cases n <;> cases v <;>
      simp [runScript, runShebang, runCommand, runDsubTrue, runDsubFalse, runNumProcsSuffix,
        runVerboseSuffix, renderPieces, runEnv, String.join, String.append_assoc]

/-! ## 2. A batch reported in a non-finished state is never treated as finished -/

/-- SLURM's terminal job states plus `COMPLETING` (batch script has ended; deliberate choice
    of the code).  Everything else — `PENDING, CONFIGURING, RUNNING, SUSPENDED, STOPPED,
    REQUEUED, REQUEUE_FED, REQUEUE_HOLD, SPECIAL_EXIT, RESIZING, RESV_DEL_HOLD, SIGNALING,
    STAGE_OUT` and any word outside SLURM's vocabulary — is *not* finished. -/
def Finished : List String :=
  ["BOOT_FAIL", "CANCELLED", "COMPLETED", "COMPLETING", "DEADLINE", "FAILED", "NODE_FAIL",
   "OUT_OF_MEMORY", "PREEMPTED", "REVOKED", "TIMEOUT"]

/-- finite-table obligation, discharged by evaluation over the *generated* table -/
theorem table_conservative : ∀ w ∈ completeWords, w ∈ Finished := by decide

theorem defaults_conservative :
    statusDefault ≠ "COMPLETE" ∧ statusDefault ∉ completeStatuses ∧
    completeStatuses = ["COMPLETE", "NONE"] ∧ collectorDefault = "NONE" := by decide

/-- For every squeue text and every id: if JADE decides "complete", then the id is absent
    from the listing or the state word of its (last) line is a finished state. -/
theorem C18_status_conservative (text : List Char) (pairs : List (String × String)) (id : String)
    (_hp : parseSqueue text = .ok pairs) (hc : hpcIsComplete pairs id = true) :
    lastWord pairs id = none ∨ ∃ w, lastWord pairs id = some w ∧ w ∈ Finished := by
  unfold hpcIsComplete checkStatus at hc
  cases hl : lastWord pairs id with
  | none => exact Or.inl rfl
  | some w =>
    right
    refine ⟨w, rfl, ?_⟩
    rw [hl] at hc
    simp only at hc
    have hcs := defaults_conservative.2.2.1
    rw [hcs] at hc
    have : statusOf w = "COMPLETE" ∨ statusOf w = "NONE" := by
      simpa [List.contains_cons, List.contains_nil] using hc
    rcases this with h | h
    · exact table_conservative w (statusOf_complete w h defaults_conservative.1)
    · -- no table entry and no default maps to NONE
      exfalso
      unfold statusOf at h
      split at h
      · next s hs =>
        subst h
        have hm := lookup_mem _ _ _ hs
        revert hm
        have : ∀ p ∈ statuses, p.2 ≠ "NONE" := by decide
        intro hm; exact this _ hm rfl
      · revert h; decide

/-- a failed status query decides nothing: no batch is treated as finished (or as anything) -/
theorem C18_query_failure_decides_nothing (pairs : List (String × String)) (id : String) :
    checkStatusQ false pairs id = .error .execError ∧ hpcIsCompleteQ false pairs id = .error .execError := by
  simp [hpcIsCompleteQ, checkStatusQ, collectorPropagatesQueryFailure, Except.map]

/-- …and with a successful query it is the plain lookup -/
theorem C18_query_ok (pairs : List (String × String)) (id : String) :
    checkStatusQ true pairs id = .ok (checkStatus pairs id) := by simp [checkStatusQ]

/-- The parsed listing is exactly the non-empty lines, each with exactly two fields. -/
theorem C18_parse_exact (text : List Char) (pairs : List (String × String))
    (hp : parseSqueue text = .ok pairs) :
    (splitNl text).filterMap parseLine = pairs.map Except.ok :=
  (parseLines_ok_iff _ _).1 hp

/-- A malformed line raises; it never yields a status (hence never "finished"). -/
theorem C18_malformed_raises (text : List Char) (l : List Char) (hl : l ∈ splitNl text)
    (hne : l ≠ []) (hbad : ∀ a b, splitWs l ≠ [a, b]) :
    parseSqueue text = .error .assertion :=
  parseLines_malformed _ l hl hne hbad

/-! ## 3. An unparsable submit response is a failed submission -/

theorem regex_is_modelled : sbatchRegex = "Submitted batch job (\\d+)" ∧ submitShapeOk = true := by
  decide

theorem C18_sbatch_unparsable_is_error (ret : Int) (stdout : List Char)
    (h : parseSbatch stdout = none) : slurmSubmit ret stdout = (.error, none) := by
  unfold slurmSubmit; split <;> simp [h]

theorem C18_sbatch_failure_is_error (ret : Int) (stdout : List Char) (h : ret ≠ 0) :
    slurmSubmit ret stdout = (.error, none) := by
  unfold slurmSubmit; simp [h]

theorem C18_sbatch_good_has_id (ret : Int) (stdout : List Char) (id : Option (List Char))
    (h : slurmSubmit ret stdout = (.good, id)) :
    ret = 0 ∧ ∃ ds, id = some ds ∧ ds ≠ [] ∧ (∀ c ∈ ds, isAsciiDigit c = true) ∧
      parseSbatch stdout = some ds := by
  unfold slurmSubmit at h
  split at h
  · next hr =>
    refine ⟨hr, ?_⟩
    split at h
    · next ds hd =>
      cases h
      refine ⟨ds, rfl, ?_, ?_, hd⟩
      · -- parseSbatch only returns non-empty digit runs
        clear hr
        induction stdout with
        | nil => simp [parseSbatch] at hd
        | cons c cs ih =>
          simp only [parseSbatch] at hd
          split at hd
          · split at hd
            · next hne => cases hd; exact hne
            · exact ih hd
          · exact ih hd
      · clear hr
        induction stdout with
        | nil => simp [parseSbatch] at hd
        | cons c cs ih =>
          simp only [parseSbatch] at hd
          split at hd
          · split at hd
            · cases hd
              intro c hc
              exact mem_takeWhile_imp hc
            · exact ih hd
          · exact ih hd
    · cases h
  · cases h

/-! ## 4. External commands are retried at most the configured number of times -/

/-- never more than `num_retries + 1` executions -/
theorem C18_retry_bounded (n : Nat) (ho : Bool) (outs : List Attempt) :
    (runCommand' n ho outs).1 ≤ n + 1 := by
  have := retryLoop_count_le n ho (n + 1) 0 outs
  simpa [runCommand'] using this

/-- The generated break test, in plain terms. -/
theorem retryStop_iff (n : Nat) (ho : Bool) (k : Nat) (a : Attempt) :
    retryStop n ho k a = true ↔
      (a.ret = 0 ∨ (a.ret ≠ 0 ∧ 0 < n ∧ ho = true ∧ a.permanent = true) ∨ k = n) := by
  obtain ⟨r, p⟩ := a
  simp only [retryStop, retryBreak, retryIdx, retryEarly]
  by_cases h0 : r = 0 <;> by_cases hn : 0 < n <;> cases ho <;> cases p <;> simp [h0, hn] <;> omega

/-- General loop invariant: the loop stops at the first attempt that is a success, a listed
    permanent error (only with retries configured and an output dict), or the last allowed. -/
theorem retryLoop_spec (n : Nat) (ho : Bool) (fuel k : Nat) (outs : List Attempt)
    (hlen : fuel ≤ outs.length) (hk : k + fuel = n + 1) (hf : 0 < fuel) :
    ∃ j a, j < fuel ∧ outs[j]? = some a ∧
      retryLoop n ho fuel k outs = (k + j + 1, some a) ∧
      (a.ret = 0 ∨ (a.ret ≠ 0 ∧ 0 < n ∧ ho = true ∧ a.permanent = true) ∨ k + j = n) ∧
      ∀ i b, i < j → outs[i]? = some b →
        b.ret ≠ 0 ∧ ¬(0 < n ∧ ho = true ∧ b.permanent = true) ∧ k + i < n := by
  induction fuel generalizing k outs with
  | zero => omega
  | succ f ih =>
    cases outs with
    | nil => simp at hlen
    | cons a rest =>
      simp only [retryLoop]
      by_cases hs : retryStop n ho k a = true
      · refine ⟨0, a, by omega, by simp, by simp [hs], ?_, by intro i b hi; omega⟩
        simpa using (retryStop_iff n ho k a).1 hs
      · have hns := fun h => hs ((retryStop_iff n ho k a).2 h)
        have h0 : a.ret ≠ 0 := fun h => hns (Or.inl h)
        have hp : ¬(0 < n ∧ ho = true ∧ a.permanent = true) := fun h => hns (Or.inr (Or.inl ⟨h0, h⟩))
        have hkn : k ≠ n := fun h => hns (Or.inr (Or.inr h))
        simp only [hs]
        have hf' : 0 < f := by omega
        obtain ⟨j, b, hj, hget, hres, hstop, hprev⟩ :=
          ih (k + 1) rest (by simpa using hlen) (by omega) hf'
        refine ⟨j + 1, b, by omega, by simpa using hget, ?_, ?_, ?_⟩
        · rw [hres, show k + 1 + j + 1 = k + (j + 1) + 1 by omega]; simp
        · rcases hstop with h | h | h
          · exact Or.inl h
          · exact Or.inr (Or.inl h)
          · exact Or.inr (Or.inr (by omega))
        · intro i c hi hc
          cases i with
          | zero =>
            simp at hc; subst hc
            exact ⟨h0, hp, by omega⟩
          | succ i =>
            have := hprev i c (by omega) (by simpa using hc)
            exact ⟨this.1, this.2.1, by omega⟩

/-- `run_command` stops at the first success or listed permanent error, or after exactly
    `num_retries + 1` executions; the returned outcome is the last execution's. -/
theorem C18_retry_spec (n : Nat) (ho : Bool) (outs : List Attempt) (hlen : n + 1 ≤ outs.length) :
    ∃ j a, j ≤ n ∧ outs[j]? = some a ∧ runCommand' n ho outs = (j + 1, some a) ∧
      (a.ret = 0 ∨ (a.ret ≠ 0 ∧ 0 < n ∧ ho = true ∧ a.permanent = true) ∨ j = n) ∧
      ∀ i b, i < j → outs[i]? = some b →
        b.ret ≠ 0 ∧ ¬(0 < n ∧ ho = true ∧ b.permanent = true) := by
  obtain ⟨j, a, hj, hget, hres, hstop, hprev⟩ :=
    retryLoop_spec n ho (n + 1) 0 outs hlen (by omega) (by omega)
  refine ⟨j, a, by omega, hget, ?_, ?_, ?_⟩
  · simp [runCommand', hres]
  · simpa using hstop
  · intro i b hi hb
    have := hprev i b hi hb
    exact ⟨this.1, this.2.1⟩

/-! ## Non-vacuity: concrete instances meeting the hypotheses -/

example : parseSqueue "123  RUNNING\n124 COMPLETED  \n\n125\tPENDING".toList
    = .ok [("123", "RUNNING"), ("124", "COMPLETED"), ("125", "PENDING")] := by decide
example : hpcIsComplete [("123", "RUNNING"), ("124", "COMPLETED")] "124" = true := by decide
example : hpcIsComplete [("123", "RUNNING"), ("124", "COMPLETED")] "123" = false := by decide
example : hpcIsComplete [("123", "RUNNING"), ("124", "COMPLETED")] "999" = true := by decide
example : hpcIsComplete [("123", "SUSPENDED")] "123" = false := by decide
example : parseSqueue "123 RUNNING extra".toList = .error .assertion := by decide
example : slurmSubmit 0 "Submitted batch job 4567\n".toList = (.good, some "4567".toList) := by decide
example : slurmSubmit 0 "sbatch: error".toList = (.error, none) := by decide
example : runCommand' 6 true [⟨1, false⟩, ⟨1, false⟩, ⟨0, false⟩, ⟨1, false⟩, ⟨1, false⟩, ⟨1, false⟩, ⟨1, false⟩]
    = (3, some ⟨0, false⟩) := by decide
example : (runCommand' 6 true [⟨1, false⟩, ⟨1, true⟩, ⟨0, false⟩, ⟨1, false⟩, ⟨1, false⟩, ⟨1, false⟩, ⟨1, false⟩]).1
    = 2 := by decide

end Jade.C18
