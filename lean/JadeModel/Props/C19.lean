import JadeModel.Proofs.Command
import JadeModel.Props.Replica

/-!
# C19 — jobs are launched exactly as configured and their real exit status is recorded

Property theorems only.  `shSplit` is the model of `shlex.split(·, posix=True)`; the posix flag,
the suffix templates and guards of `generate_command`, the environment variable names, the
stdout/stderr file templates and the arguments of `Result(…)` in `_complete`/`cancel` come from
`Jade.Gen.Command`, regenerated from the working tree on every run.

All statements are for arbitrary (unbounded) commands, names, paths and integer exit codes.
-/

namespace Jade.C19
open Jade.Command Jade.Gen.Command

/-! ## Vocabulary -/

/-- characters of a legal job name: `[A-Za-z0-9_.-]` -/
def legalNameChar (c : Char) : Bool := c.isAlphanum || c == '_' || c == '.' || c == '-'

/-- legal job name: non-empty, characters from `[A-Za-z0-9_.-]` -/
def legalName (s : String) : Bool := !s.toList.isEmpty && s.toList.all legalNameChar

/-- benign output directory: characters from `[A-Za-z0-9_.-]` and `/`, non-empty, no trailing slash -/
def benignDir (s : String) : Bool :=
  s.toList.all (fun c => legalNameChar c || c == '/') && noTrailingSlash s.toList

/-! ## 0. The code asks for POSIX mode on the platform the jobs run on -/

theorem posix_on_linux : posixArg "linux" = true := by decide

/-! ## 1. `shlex.split` — word splitting -/

/-- the only way splitting fails is `ValueError` (unterminated quote / dangling backslash) -/
theorem split_error_kind (s : List Char) (e : Err) (h : shSplit s = .error e) : e = .valueError :=
  finish_error _ e h

/-- **Compositional law.** Two complete commands separated by one whitespace character split into
    the words of the first followed by the words of the second. -/
theorem split_concat (a b : List Char) (xs ys : List (List Char)) (c : Char)
    (ha : shSplit a = .ok xs) (hb : shSplit b = .ok ys) (hc : isShWs c = true) :
    shSplit (a ++ c :: b) = .ok (xs ++ ys) := by
  unfold shSplit at hb ⊢
  rw [run_append, run_cons, run_then_ws a xs c ha hc, run_addOut, finish_addOut, hb]
  rfl

/-- leading and trailing whitespace (any mix of space, tab, CR, LF) does not change the words -/
theorem split_pad (pre a post : List Char) (xs : List (List Char)) (ha : shSplit a = .ok xs)
    (hpre : ∀ c ∈ pre, isShWs c = true) (hpost : ∀ c ∈ post, isShWs c = true) :
    shSplit (pre ++ a ++ post) = .ok xs := by
  obtain ⟨hm, -⟩ := finish_ok _ _ ha
  unfold shSplit at ha ⊢
  rw [run_append, run_append, run_ws_init pre hpre, finish_run_ws post _ hm hpost, ha]

/-- a safe word (non-empty, no whitespace/quote/backslash) is exactly one argument -/
theorem split_safe_word (t : List Char) (ht : safeWord t = true) : shSplit t = .ok [t] := by
  have hne : t ≠ [] := by
    intro h; simp [safeWord, h] at ht
  unfold shSplit
  rw [run_safe_space t Lex.init rfl ht]
  simp [Lex.finish, Lex.flush, Lex.init, hne]

/-- **Appended flag.** If the user's command splits into `ws`, then the command followed by a
    space and a safe flag text splits into `ws` followed by exactly that one extra argument:
    the user's argv is unchanged and the flag arrives intact. -/
theorem split_append (cmd t : List Char) (ws : List (List Char))
    (hcmd : shSplit cmd = .ok ws) (ht : safeWord t = true) :
    shSplit (cmd ++ ' ' :: t) = .ok (ws ++ [t]) :=
  split_concat cmd t ws [t] ' ' hcmd (split_safe_word t ht) (by decide)

/-- **List form of the compositional law**: pieces that split on their own, joined by single
    spaces, split into the concatenation of their words. -/
theorem split_concat_list {α : Type} (g : α → List Char) (t : α → List (List Char)) (xs : List α)
    (h : ∀ x ∈ xs, shSplit (g x) = .ok (t x)) :
    shSplit (joinSp (xs.map g)) = .ok (xs.flatMap t) := by
  induction xs with
  | nil => exact (by decide : shSplit [] = .ok [])
  | cons x rest ih =>
    cases rest with
    | nil => simpa [joinSp] using h x (by simp)
    | cons y rest =>
      have h1 := h x (by simp)
      have h2 := ih (fun z hz => h z (by simp [hz]))
      simp only [List.map_cons, joinSp, List.flatMap_cons] at h2 ⊢
      exact split_concat _ _ _ _ ' ' h1 h2 (by decide)

/-- a command made of safe words joined by single spaces splits into exactly those words -/
theorem split_plain_words (ws : List (List Char)) (h : ∀ w ∈ ws, safeWord w = true) :
    shSplit (joinSp ws) = .ok ws := by
  have := split_concat_list id (fun w => [w]) ws (fun w hw => split_safe_word w (h w hw))
  simpa using this

/-- single quotes: any text without a single quote, wrapped in single quotes, is one argument
    carrying exactly that text (whitespace, `"`, `\`, `$`, `*`, `;`, `#` … all literal) -/
theorem split_quote_roundtrip (w : List Char) (hw : ∀ c ∈ w, c ≠ '\'') :
    shSplit ('\'' :: w ++ ['\'']) = .ok [w] := by
  unfold shSplit
  have h0 : Lex.init.step '\'' = { Lex.init with mode := .quote '\'' } := by decide
  rw [List.cons_append, run_cons, h0, run_squote_body w _ rfl hw]
  simp [Lex.finish, Lex.flush, Lex.init]

/-- double quotes: any text without `"` and `\`, wrapped in double quotes, is one argument -/
theorem split_dquote_roundtrip (w : List Char) (hw : ∀ c ∈ w, c ≠ '"' ∧ c ≠ '\\') :
    shSplit ('"' :: w ++ ['"']) = .ok [w] := by
  unfold shSplit
  have h0 : Lex.init.step '"' = { Lex.init with mode := .quote '"' } := by decide
  rw [List.cons_append, run_cons, h0, run_dquote_body w _ rfl hw]
  simp [Lex.finish, Lex.flush, Lex.init]

/-- every text whatsoever can be passed as one argument: `shQuote` (single quotes, with each
    single quote written `'"'"'`) is inverted exactly -/
theorem split_quote_all (w : List Char) : shSplit (shQuote w) = .ok [w] := by
  unfold shSplit shQuote
  have h0 : Lex.init.step '\'' = { Lex.init with mode := .quote '\'' } := by decide
  rw [List.cons_append, run_cons, h0, run_shQuote_body w _ rfl]
  simp [Lex.finish, Lex.flush, Lex.init]

/-- every argv is expressible and recovered exactly: quoting each intended argument and joining
    with spaces splits back into the intended arguments (including empty ones) -/
theorem split_quoted_words (ws : List (List Char)) :
    shSplit (joinSp (ws.map shQuote)) = .ok ws := by
  have := split_concat_list shQuote (fun w => [w]) ws (fun w _ => split_quote_all w)
  simpa using this

/-- a command without quotes and backslashes always splits (no error) -/
theorem split_total_on_plain (cmd : List Char)
    (h : ∀ c ∈ cmd, isQuote c = false ∧ isEscape c = false) : ∃ ws, shSplit cmd = .ok ws := by
  suffices hs : ∀ (cs : List Char) (s : Lex), (s.mode = .space ∨ s.mode = .word) →
      (∀ c ∈ cs, isQuote c = false ∧ isEscape c = false) →
      ((s.run cs).mode = .space ∨ (s.run cs).mode = .word) by
    exact ⟨_, finish_of_mode _ (hs cmd Lex.init (Or.inl rfl) h)⟩
  intro cs
  induction cs with
  | nil => intro s hm _; exact hm
  | cons c cs ih =>
    intro s hm hc
    rw [run_cons]
    apply ih _ _ (fun d hd => hc d (by simp [hd]))
    obtain ⟨hq, he⟩ := hc c (by simp)
    rcases hm with hm | hm <;>
      simp only [Lex.step, hm, Lex.stepSpace, Lex.stepWord, hq, he] <;> split <;> simp

/-- an unterminated single quote after a complete command: the job is not launched (`ValueError`) -/
theorem split_unterminated_squote (a w : List Char) (xs : List (List Char))
    (ha : shSplit a = .ok xs) (hw : ∀ c ∈ w, c ≠ '\'') :
    shSplit (a ++ '\'' :: w) = .error .valueError := by
  obtain ⟨hm, -⟩ := finish_ok _ _ ha
  unfold shSplit
  rw [run_append, run_cons]
  have h1 : ((Lex.init.run a).step '\'').mode = .quote '\'' := by
    rcases hm with hm | hm <;> simp [Lex.step, hm, Lex.stepSpace, Lex.stepWord, isShWs, isQuote, isEscape]
  suffices hs : ∀ (cs : List Char) (s : Lex), s.mode = .quote '\'' → (∀ c ∈ cs, c ≠ '\'') →
      (s.run cs).mode = .quote '\'' by
    simp [Lex.finish, hs w _ h1 hw]
  intro cs
  induction cs with
  | nil => intro s hm _; exact hm
  | cons c cs ih =>
    intro s hm hc
    rw [run_cons]
    apply ih _ _ (fun d hd => hc d (by simp [hd]))
    simp [Lex.step, hm, Lex.stepQuote, hc c (by simp), isEscapedQuote]

/-- a dangling backslash after a complete command: the job is not launched (`ValueError`) -/
theorem split_trailing_backslash (a : List Char) (xs : List (List Char)) (ha : shSplit a = .ok xs) :
    shSplit (a ++ ['\\']) = .error .valueError := by
  obtain ⟨hm, -⟩ := finish_ok _ _ ha
  unfold shSplit
  rw [run_append, run_cons, run_nil]
  rcases hm with hm | hm <;>
    simp [Lex.step, hm, Lex.stepSpace, Lex.stepWord, isShWs, isQuote, isEscape, Lex.finish]

/-! ## 2. `generate_command` — the documented flags, in all four combinations -/

theorem generateCommand_spec (j : Job) (output : String) :
    generateCommand j output =
      j.command
      ++ (if j.appendJobName then " --jade-job-name=" ++ j.name else "")
      ++ (if j.appendOutputDir then
            " --jade-runtime-output=" ++ String.ofList (dirname output.toList) else "") := by
  obtain ⟨name, command, a, b⟩ := j
  cases a <;> cases b <;>
    simp [generateCommand, cmdSuffixes, cmdInit, cmdLocals, applySuffix, guardVal, genEnv, evalExpr,
      renderPieces, String.join, String.append_assoc]

/-- with `output = <outdir>/job-outputs` (what `_generate_jobs` passes) the directory flag carries
    the submission's output directory itself -/
theorem jobCommand_spec (j : Job) (out : String) (hout : noTrailingSlash out.toList = true) :
    jobCommand j out =
      j.command
      ++ (if j.appendJobName then " --jade-job-name=" ++ j.name else "")
      ++ (if j.appendOutputDir then " --jade-runtime-output=" ++ out else "") := by
  have hd : dirname (pathJoin out.toList jobsOutputDir.toList) = out.toList :=
    dirname_join _ _ hout (by decide)
  rw [jobCommand, generateCommand_spec, String.toList_ofList, hd, String.ofList_toList]

/-! ## 3. The flags are single safe words -/

theorem legalNameChar_plain (c : Char) (h : (legalNameChar c || c == '/') = true) : isPlain c = true := by
  rw [isPlain_iff]
  refine ⟨?_, ?_, ?_⟩
  · cases hc : isShWs c with
    | false => rfl
    | true =>
      exfalso
      simp only [isShWs, Bool.or_eq_true, beq_iff_eq] at hc
      rcases hc with ((hc | hc) | hc) | hc <;> subst hc <;> exact absurd h (by decide)
  · cases hc : isQuote c with
    | false => rfl
    | true =>
      exfalso
      simp only [isQuote, Bool.or_eq_true, beq_iff_eq] at hc
      rcases hc with hc | hc <;> subst hc <;> exact absurd h (by decide)
  · cases hc : isEscape c with
    | false => rfl
    | true =>
      exfalso
      simp only [isEscape, beq_iff_eq] at hc
      subst hc; exact absurd h (by decide)

theorem nameFlag_safe (name : String) (h : legalName name = true) :
    safeWord ("--jade-job-name=".toList ++ name.toList) = true := by
  simp only [legalName, Bool.and_eq_true, List.all_eq_true] at h
  exact safeWord_append _ _ (by decide) (fun c hc => legalNameChar_plain c (by simp [h.2 c hc]))

theorem outputFlag_safe (out : String) (h : benignDir out = true) :
    safeWord ("--jade-runtime-output=".toList ++ out.toList) = true := by
  simp only [benignDir, Bool.and_eq_true, List.all_eq_true] at h
  exact safeWord_append _ _ (by decide) (fun c hc => legalNameChar_plain c (h.1 c hc))

/-! ## 4. The launch, end to end -/

/-- the documented extra arguments, in order -/
def flagArgs (j : Job) (out : String) : List String :=
  (if j.appendJobName then ["--jade-job-name=" ++ j.name] else [])
  ++ (if j.appendOutputDir then ["--jade-runtime-output=" ++ out] else [])

set_option linter.unusedSimpArgs false in
/-- **Launch.** For every command that splits into `ws`, every legal job name, every benign
    output directory and every combination of the `append_*` flags, the process is started with
    argv = the user's words followed by exactly the requested documented flags, with
    `JADE_RUNTIME_OUTPUT` = the output directory and `JADE_JOB_NAME` = the job's name set (and
    nothing else) on top of the inherited environment, and with its own stdout/stderr files
    `<out>/job-stdio/<name>.o|.e`. -/
theorem launch_spec (j : Job) (out : String) (hpc : Option String) (batch : Nat) (mgr : Bool) (rc : Int)
    (ws : List (List Char))
    (hname : legalName j.name = true) (hout : benignDir out = true)
    (hcmd : shSplit j.command.toList = .ok ws) :
    ∃ l : Launch, launch "linux" (jobCtx j out hpc batch mgr rc) = .ok l ∧
      l.argv = ws.map String.ofList ++ flagArgs j out ∧
      l.envGet "JADE_RUNTIME_OUTPUT" = some out ∧
      l.envGet "JADE_JOB_NAME" = some j.name ∧
      (∀ k : String, (l.envGet k).isSome = true → k = "JADE_RUNTIME_OUTPUT" ∨ k = "JADE_JOB_NAME") ∧
      l.inheritsEnv = true ∧
      l.stdout = out ++ "/job-stdio/" ++ j.name ++ ".o" ∧
      l.stderr = out ++ "/job-stdio/" ++ j.name ++ ".e" := by
  have hts : noTrailingSlash out.toList = true := by
    simp only [benignDir, Bool.and_eq_true] at hout; exact hout.2
  have hsplit : shSplit (jobCommand j out).toList
      = .ok (ws ++ (flagArgs j out).map String.toList) := by
    rw [jobCommand_spec j out hts]
    have hn := nameFlag_safe j.name hname
    have ho := outputFlag_safe out hout
    have e1 : " --jade-job-name=".toList = ' ' :: "--jade-job-name=".toList := by decide
    have e2 : " --jade-runtime-output=".toList = ' ' :: "--jade-runtime-output=".toList := by decide
    cases ha : j.appendJobName <;> cases hb : j.appendOutputDir <;>
      simp only [flagArgs, ha, hb, if_true, if_false, Bool.false_eq_true, String.toList_append, e1, e2,
        List.map_nil, List.map_cons, List.append_nil, List.nil_append, List.append_assoc,
        List.cons_append, String.append_empty]
    · simpa using hcmd
    · exact split_append _ _ _ hcmd ho
    · exact split_append _ _ _ hcmd hn
    · have := split_append _ _ _ (split_append _ _ _ hcmd hn) ho
      simpa [List.append_assoc] using this
  refine ⟨_, by simp only [launch, runSplit, posix_on_linux, if_true, splitInput, jobCtx, hsplit]; rfl, ?_⟩
  refine ⟨?_, ?_, ?_, ?_, ?_, ?_, ?_⟩
  · simp [List.map_append, String.ofList_toList, Function.comp_def]
  · simp [Launch.envGet, envAssigns, List.lookup]
  · simp [Launch.envGet, envAssigns, List.lookup]
  · intro k
    simp only [Launch.envGet, envAssigns, List.reverse_cons, List.reverse_nil, List.nil_append,
      List.cons_append, List.lookup]
    repeat' split
    all_goals simp_all
  · rfl
  · simp only [stdoutPath, stdio_path]
  · simp only [stderrPath, stdio_path]

/-! ## 5. The recorded result -/

/-- **Completion.** When the process has ended, the manager node records exactly one row for the
    batch: the job's name, the process's return code unchanged (any integer: exit codes 0–255,
    negative signal numbers, …), status `finished`, and the node's HPC job id. -/
theorem complete_records (x : Ctx) (h : x.isManager = true) :
    completeRow x = some { name := x.jobName, returnCode := x.rc, status := "finished",
                           hpcJobId := x.hpcJobId, batch := x.batchId } := by
  simp [completeRow, completeRecords, completeName, completeReturnCode, completeStatus,
    completeHpcJobId, completeBatch, h]

/-- a non-manager node of a multi-node job records nothing (the manager node does) -/
theorem complete_nonmanager (x : Ctx) (h : x.isManager = false) : completeRow x = none := by
  simp [completeRow, completeRecords, h]

/-- the recorded code is zero exactly when the process's was -/
theorem complete_success_iff (x : Ctx) (r : Row) (h : completeRow x = some r) :
    r.returnCode = 0 ↔ x.rc = 0 := by
  cases hm : x.isManager with
  | false => rw [complete_nonmanager x hm] at h; cases h
  | true => rw [complete_records x hm] at h; cases h; rfl

/-- **Cancellation.** A canceled job is recorded with a non-zero return code (1), status
    `canceled`, under its own name and the node's HPC job id. -/
theorem cancel_records (x : Ctx) (h : x.isManager = true) :
    cancelRow x = some { name := x.jobName, returnCode := 1, status := "canceled",
                         hpcJobId := x.hpcJobId, batch := x.batchId } ∧
    (1 : Int) ≠ 0 := by
  refine ⟨?_, by decide⟩
  simp [cancelRow, cancelRecords, cancelName, cancelReturnCode, cancelStatus, cancelHpcJobId,
    cancelBatch, h]

/-- the job built by `_generate_jobs` records under the configured job's name, the node's batch
    and HPC job id, whatever its command and flags -/
theorem job_complete_records (j : Job) (out : String) (hpc : Option String) (batch : Nat) (rc : Int) :
    completeRow (jobCtx j out hpc batch true rc)
      = some { name := j.name, returnCode := rc, status := "finished", hpcJobId := hpc, batch := batch } :=
  complete_records _ rfl

/-! ## Non-vacuity: concrete instances -/

example : shSplit "python run.py --x=\"a b\" 'c d' e\\ f".toList
    = .ok ["python".toList, "run.py".toList, "--x=a b".toList, "c d".toList, "e f".toList] := by decide
example : shSplit "a\"\"".toList = .ok ["a".toList] := by decide
example : shSplit "''".toList = .ok [[]] := by decide
example : shSplit "\"a\"'b'".toList = .ok ["ab".toList] := by decide
example : shSplit "a\\\nb".toList = .ok ["a\nb".toList] := by decide
example : shSplit "\"a\\$b\\\\c\\\"d\"".toList = .ok ["a\\$b\\c\"d".toList] := by decide
example : shSplit "a #b é".toList = .ok ["a".toList, "#b".toList, "é".toList] := by decide
example : shSplit "'a".toList = .error .valueError := by decide
example : shSplit "a\\".toList = .error .valueError := by decide
example : shSplit "".toList = .ok [] := by decide
example : safeWord "--jade-job-name=job_1.a-b".toList = true := by decide
example : legalName "job_1.a-b" = true := by decide
example : legalName "a b" = false := by decide
example : benignDir "/scratch/u/run-1/out.d" = true := by decide
example : benignDir "out/" = false := by decide
example : shQuote "it's".toList = "'it'\"'\"'s'".toList := by decide
example : generateCommand ⟨"j1", "echo hi", true, true⟩ "/o/job-outputs"
    = "echo hi --jade-job-name=j1 --jade-runtime-output=/o" := by decide
example : (launch "linux" (jobCtx ⟨"j1", "echo 'a b'", true, false⟩ "/o" (some "77") 3 true 5)).map
      (fun l => (l.argv, l.envGet "JADE_JOB_NAME", l.envGet "JADE_RUNTIME_OUTPUT", l.envGet "PATH", l.stdout, l.stderr))
    = .ok (["echo", "a b", "--jade-job-name=j1"], some "j1", some "/o", none,
           "/o/job-stdio/j1.o", "/o/job-stdio/j1.e") := by decide
example : completeRow (jobCtx ⟨"j1", "false", false, false⟩ "/o" (some "77") 3 true 255)
    = some { name := "j1", returnCode := 255, status := "finished", hpcJobId := some "77", batch := 3 } := by
  decide
example : cancelRow (jobCtx ⟨"j1", "false", false, false⟩ "/o" none 3 true 0)
    = some { name := "j1", returnCode := 1, status := "canceled", hpcJobId := none, batch := 3 } := by decide

/-! multi-node allocations: exactly node 0 is the manager node, it records every result of its queue, the other
nodes record none (from the generated `am_i_manager`, `_complete` and `cancel` guards) -/
theorem C19_manager_is_node_zero : type_of% @Jade.Replica.manager_iff := @Jade.Replica.manager_iff
theorem C19_worker_records_nothing : type_of% @Jade.Replica.worker_records_nothing := @Jade.Replica.worker_records_nothing
theorem C19_manager_records_all : type_of% @Jade.Replica.manager_records_all := @Jade.Replica.manager_records_all
theorem C19_runner_flag_is_am_i_manager : type_of% @Jade.Replica.runner_flag_is_am_i_manager := @Jade.Replica.runner_flag_is_am_i_manager

end Jade.C19
