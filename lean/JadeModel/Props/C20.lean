import JadeModel.Proofs.Reports
import JadeModel.Proofs.ReportsOrdered

/-!
# C20 — reports are faithful: events lossless, statistics and tallies correct

Property theorems only.  The sort key / grouping key / `reverse` flag of the consolidation, the if/elif
chains of the statistics update with their initial values and divisions, `Result.is_*`, the
classification chains of `_build_results` / `get_results_by_type` / `show_results` and the missing-jobs
guard come from `Jade.Gen.Reports`, regenerated from /repo's working tree on every run.

An event is `{name, timestamp, payload}` with the payload type a parameter: the consolidation is
parametric in it, so "all fields intact" holds by construction (the JSON encoding of the payload is
outside the model and checked by the `events` suite).
-/

namespace Jade.C20
open Jade.Reports Jade.Gen.Reports

/-! ## 1. The consolidated event summary -/

section events
variable {α : Type}

/-- For every name — present or not — the consolidated list of that name is a permutation of all events
    of that name over all files: each written event appears exactly once, payload untouched. -/
theorem consolidate_perm (files : List (List (Event α))) (n : String) :
    (eventsOf (consolidateEvents files) n).Perm ((allEvents files).filter fun e => e.name == n) := by
  rw [eventsOf_consolidate]
  exact sortEvents_perm _

/-- The names of the summary are exactly the names that occur, each once; and the entry stored under a
    name is what `list_events(name)` returns (never an empty list). -/
theorem consolidate_names (files : List (List (Event α))) :
    ((consolidateEvents files).map (·.1)).Nodup ∧
    (∀ n : String, n ∈ (consolidateEvents files).map (·.1) ↔ ∃ e ∈ allEvents files, e.name = n) ∧
    (∀ (n : String) (evs : List (Event α)), (n, evs) ∈ consolidateEvents files →
        evs = eventsOf (consolidateEvents files) n ∧ evs ≠ []) := by
  refine ⟨?_, ?_, ?_⟩
  · rw [consolidate_keys]; exact nodup_dedup _
  · intro n; rw [consolidate_keys]; exact mem_names_iff _ n
  · intro n evs h
    have hk : n ∈ (consolidateEvents files).map (·.1) := List.mem_map.2 ⟨(n, evs), h, rfl⟩
    rw [consolidate_keys] at hk
    unfold consolidateEvents at h
    obtain ⟨m, _, hm⟩ := List.mem_map.1 h
    cases hm
    refine ⟨(eventsOf_consolidate files n).symm, ?_⟩
    obtain ⟨e, he, hen⟩ := (mem_names_iff _ n).1 hk
    have : e ∈ sortEvents (eventsNamed n (allEvents files)) :=
      (mem_sortEvents _ e).2 ((mem_eventsNamed n _ e).2 ⟨he, hen⟩)
    intro h0; rw [h0] at this; cases this

/-- Each list is ordered by timestamp (the timestamps are compared as the code compares them: as strings). -/
theorem consolidate_sorted (files : List (List (Event α))) (n : String) :
    (eventsOf (consolidateEvents files) n).Pairwise fun a b => a.timestamp ≤ b.timestamp := by
  rw [eventsOf_consolidate]
  refine (sortEvents_sorted _).imp ?_
  intro a b h
  exact (keyLt_false_iff b a).1 h

/-- Events of one name with equal timestamps keep their file/line order (the sort is stable). -/
theorem consolidate_stable (files : List (List (Event α))) (n t : String) :
    (eventsOf (consolidateEvents files) n).filter (fun e => e.timestamp == t) =
      (allEvents files).filter (fun e => e.name == n && e.timestamp == t) := by
  rw [eventsOf_consolidate]
  unfold sortEvents
  rw [sortBy_filter keyLt (fun e => e.timestamp == t)]
  · unfold eventsNamed
    rw [List.filter_filter]
    apply List.filter_congr
    intro e _
    simp [groupKey_eq, Bool.and_comm]
  · intro x y hx hy
    apply keyLt_irrefl_of_eq
    rw [beq_iff_eq] at hx hy
    rw [hx, hy]

/-- Consolidating a consolidated summary again (its per-name lists taken as log files) yields the same
    summary: same names in the same order, same lists. -/
theorem consolidate_idempotent (files : List (List (Event α))) :
    consolidateEvents ((consolidateEvents files).map (·.2)) = consolidateEvents files :=
  consolidate_again files

/-- What the first construction keeps in memory and saves as `events/<name>.json` is, for every name
    that is not a resource statistic (those go to Parquet tables, outside the model), the consolidated list. -/
theorem construct_first (files : List (List (Event α))) (n : String) (hn : n ∉ resourceStats) :
    eventsOf (construct { json := [], parquet := [] } files).1 n = eventsOf (consolidateEvents files) n ∧
    (construct { json := [], parquet := [] } files).2.json = (construct { json := [], parquet := [] } files).1 := by
  refine ⟨?_, rfl⟩
  show eventsOf (keptEvents (consolidateEvents files)) n = _
  generalize consolidateEvents files = s
  unfold eventsOf keptEvents
  induction s with
  | nil => rfl
  | cons p ps ih =>
    obtain ⟨k, v⟩ := p
    by_cases hk : n = k
    · subst hk
      simp [hn]
    · have hb : (n == k) = false := by simpa using hk
      rw [List.filter_cons]
      split
      · simp only [List.lookup_cons, hb]; exact ih
      · simp only [List.lookup_cons, hb]; exact ih

/-- What the real second construction does: once `events/` is non-empty it does not consolidate at all —
    it returns what the first construction saved, whatever the event log files contain by then
    (so constructing again changes nothing; events logged after the first construction are not picked up). -/
theorem construct_second (files later : List (List (Event α)))
    (h : (construct { json := [], parquet := [] } files).2.isEmpty = false) :
    construct (construct { json := [], parquet := [] } files).2 later =
      construct { json := [], parquet := [] } files := by
  generalize hr : construct { json := [], parquet := [] } files = r at h
  have hj : r.2.json = r.1 := by rw [← hr]; rfl
  unfold construct
  simp [h, hj]

/-- … and while `events/` is still empty (no event had been written) the next construction consolidates afresh. -/
theorem construct_second_empty (files later : List (List (Event α)))
    (h : (construct { json := [], parquet := [] } files).2.isEmpty = true) :
    construct (construct { json := [], parquet := [] } files).2 later =
      construct { json := [], parquet := [] } later := by
  generalize construct { json := [], parquet := [] } files = r at h
  unfold construct
  rw [if_pos h, if_pos (by rfl)]

end events

/-! ## 2. Aggregated resource statistics

`MAXSIZE` = `sys.maxsize`.  A system statistic starts from `(max, min, sum) = (0.0, sys.maxsize, 0.0)`;
its samples are the values of the `update_resource_stats` calls (the sample taken in `__init__` only names
the statistics and is not aggregated).  Values are integers here (the suite scales dyadic samples). -/

/-- no hypothesis: what the system summaries are for *any* samples -/
theorem stats_general (MAXSIZE : Int) (xs : List Int) :
    (statsRun 0 MAXSIZE xs).st.mx = xs.foldl max 0 ∧ (statsRun 0 MAXSIZE xs).st.mn = xs.foldl min MAXSIZE := by
  rw [statsRun_spec]; exact ⟨rfl, rfl⟩

/-- the reported maximum is the true maximum of the samples -/
theorem stats_max (MAXSIZE : Int) (xs : List Int) (hne : xs ≠ [])
    (hr : ∀ x ∈ xs, 0 ≤ x ∧ x ≤ MAXSIZE) :
    (statsRun 0 MAXSIZE xs).st.mx ∈ xs ∧ ∀ x ∈ xs, x ≤ (statsRun 0 MAXSIZE xs).st.mx := by
  rw [statsRun_spec]
  exact foldl_max_isMax 0 xs hne (fun x hx => (hr x hx).1)

/-- the reported minimum is the true minimum of the samples -/
theorem stats_min (MAXSIZE : Int) (xs : List Int) (hne : xs ≠ [])
    (hr : ∀ x ∈ xs, 0 ≤ x ∧ x ≤ MAXSIZE) :
    (statsRun 0 MAXSIZE xs).st.mn ∈ xs ∧ ∀ x ∈ xs, (statsRun 0 MAXSIZE xs).st.mn ≤ x := by
  rw [statsRun_spec]
  exact foldl_min_isMin MAXSIZE xs hne (fun x hx => (hr x hx).2)

theorem stats_sum (MAXSIZE : Int) (xs : List Int) : (statsRun 0 MAXSIZE xs).st.sm = xs.sum := by
  rw [statsRun_spec]

theorem stats_count (MAXSIZE : Int) (xs : List Int) : (statsRun 0 MAXSIZE xs).count = xs.length := by
  rw [statsRun_spec]

/-- `finalize` reports nothing without samples; otherwise average = (sum of the samples) / (their number),
    next to the maximum and minimum above. -/
theorem stats_mean (MAXSIZE : Int) (xs : List Int) :
    (xs = [] → statsFinalize (statsRun 0 MAXSIZE xs) = none) ∧
    (xs ≠ [] → ∃ r, statsFinalize (statsRun 0 MAXSIZE xs) = some r ∧
        r.meanNum = xs.sum ∧ r.meanDen = xs.length ∧ r.meanDen ≠ 0 ∧ r.samples = xs.length ∧
        r.maximum = (statsRun 0 MAXSIZE xs).st.mx ∧ r.minimum = (statsRun 0 MAXSIZE xs).st.mn) := by
  constructor
  · rintro rfl; rfl
  · intro hne
    have hl : xs.length ≠ 0 := by
      intro h; exact hne (List.length_eq_zero_iff.1 h)
    rw [statsRun_spec]
    unfold statsFinalize
    simp only [hl, if_false]
    refine ⟨_, rfl, rfl, rfl, ?_, rfl, rfl, rfl⟩
    simp only [sysMeanDen]
    omega

/-- Outside the range the initial values are meant for, the summaries are wrong by construction:
    with only negative samples the maximum stays 0 … -/
theorem stats_negative_max (MAXSIZE : Int) (xs : List Int) (h : ∀ x ∈ xs, x < 0) :
    (statsRun 0 MAXSIZE xs).st.mx = 0 := by
  rw [statsRun_spec]
  simp only
  have hle := (le_foldl_max 0 xs).1
  rcases foldl_max_mem 0 xs with h0 | hm
  · exact h0
  · have := h _ hm; omega

/-- … and with no sample below `sys.maxsize` the minimum stays `sys.maxsize`. -/
theorem stats_huge_min (MAXSIZE : Int) (xs : List Int) (h : ∀ x ∈ xs, MAXSIZE ≤ x) :
    (statsRun 0 MAXSIZE xs).st.mn = MAXSIZE := by
  rw [statsRun_spec]
  simp only
  have hle := (foldl_min_le MAXSIZE xs).1
  rcases foldl_min_mem MAXSIZE xs with h0 | hm
  · exact h0
  · have := h _ hm; omega

/-- the range hypothesis of `stats_max` cannot be dropped -/
theorem stats_max_witness : ¬ ∀ (xs : List Int), xs ≠ [] → (statsRun 0 100 xs).st.mx ∈ xs := by
  intro h
  have := h [-3, -1] (by decide)
  revert this; decide

/-- Per-process statistics start from the first sample: no range hypothesis is needed. -/
theorem proc_max (x : Int) (xs : List Int) :
    ∃ s, procRun (x :: xs) = some s ∧ s.st.mx ∈ x :: xs ∧ ∀ y ∈ x :: xs, y ≤ s.st.mx := by
  rw [procRun_spec]
  exact ⟨_, rfl, isMax_cons_foldl x xs⟩

theorem proc_min (x : Int) (xs : List Int) :
    ∃ s, procRun (x :: xs) = some s ∧ s.st.mn ∈ x :: xs ∧ ∀ y ∈ x :: xs, s.st.mn ≤ y := by
  rw [procRun_spec]
  exact ⟨_, rfl, isMin_cons_foldl x xs⟩

theorem proc_sum (x : Int) (xs : List Int) :
    ∃ s, procRun (x :: xs) = some s ∧ s.st.sm = (x :: xs).sum ∧ s.count = (x :: xs).length := by
  rw [procRun_spec]
  exact ⟨_, rfl, by simp, by simp; omega⟩

/-- a process that was never sampled is not reported; otherwise average = sum / number of its samples -/
theorem proc_mean (xs : List Int) :
    (xs = [] → procFinalize (procRun xs) = none) ∧
    (xs ≠ [] → ∃ r, procFinalize (procRun xs) = some r ∧
        r.meanNum = xs.sum ∧ r.meanDen = xs.length ∧ r.meanDen ≠ 0 ∧ r.samples = xs.length) := by
  constructor
  · rintro rfl; rfl
  · intro hne
    cases xs with
    | nil => exact absurd rfl hne
    | cons x xs =>
      rw [procRun_spec]
      simp only [procFinalize, Option.map_some]
      refine ⟨_, rfl, by simp [procMeanNum], by simp [procMeanDen]; omega, by simp [procMeanDen]; omega,
        by simp; omega⟩

/-- The same for samples from any linearly ordered type with an associative addition with zero (in
    particular any linear ordered field; `Int` above is the instance the suite exercises): with every sample
    in `[0, MAXSIZE]` the system summaries are the true maximum, minimum, sum and number of samples. -/
theorem stats_ordered {β : Type} [LinearOrder β] [AddMonoid β] (MAXSIZE : β) (xs : List β) (hne : xs ≠ [])
    (hr : ∀ x ∈ xs, 0 ≤ x ∧ x ≤ MAXSIZE) :
    ((statsRun 0 MAXSIZE xs).st.mx ∈ xs ∧ ∀ x ∈ xs, x ≤ (statsRun 0 MAXSIZE xs).st.mx) ∧
    ((statsRun 0 MAXSIZE xs).st.mn ∈ xs ∧ ∀ x ∈ xs, (statsRun 0 MAXSIZE xs).st.mn ≤ x) ∧
    (statsRun 0 MAXSIZE xs).st.sm = xs.sum ∧ (statsRun 0 MAXSIZE xs).count = xs.length := by
  rw [Ordered.statsRun_spec]
  exact ⟨Ordered.foldl_max_isMax 0 xs hne (fun x hx => (hr x hx).1),
    Ordered.foldl_min_isMin MAXSIZE xs hne (fun x hx => (hr x hx).2), rfl, rfl⟩

/-- … and the per-process summaries, with no range hypothesis. -/
theorem proc_ordered {β : Type} [LinearOrder β] [AddMonoid β] (x : β) (xs : List β) :
    ∃ s, procRun (x :: xs) = some s ∧
      (s.st.mx ∈ x :: xs ∧ ∀ y ∈ x :: xs, y ≤ s.st.mx) ∧ (s.st.mn ∈ x :: xs ∧ ∀ y ∈ x :: xs, s.st.mn ≤ y) ∧
      s.st.sm = (x :: xs).sum ∧ s.count = (x :: xs).length := by
  rw [Ordered.procRun_spec]
  exact ⟨_, rfl, Ordered.isMax_cons_foldl x xs, Ordered.isMin_cons_foldl x xs, by simp, by simp; omega⟩

/-! ## 3. The results summary -/

/-- rows the rest of JADE produces: a job that ran (any code), or a canceled job with a non-zero code -/
@[reducible] def ValidRow (r : Row) : Prop :=
  r.status = "finished" ∨ (r.status = "canceled" ∧ r.rc ≠ 0)

theorem validRow_iff (r : Row) : ValidRow r ↔ specClass r ≠ none := by
  unfold ValidRow specClass
  by_cases hf : r.status = "finished"
  · by_cases h0 : r.rc = 0 <;> simp [hf, h0]
  · by_cases hc : r.status = "canceled" <;> by_cases h0 : r.rc = 0 <;> simp [hf, hc, h0]

/-- Every valid row is in exactly one class — the same one for `_build_results`, `get_results_by_type`
    and `show_results` — and exactly one of `is_successful / is_failed / is_canceled` holds for it. -/
theorem classify_partition (r : Row) (h : ValidRow r) :
    ∃ c : Cls, classify r = .ok c ∧ typeClassify r.rc r.status = some c ∧ showClassify r.rc r.status = .ok c ∧
      isSuccessful r.rc r.status = (c == .successful) ∧ isFailed r.rc r.status = (c == .failed) ∧
      isCanceled r.rc r.status = (c == .canceled) ∧
      (c = .successful ↔ r.status = "finished" ∧ r.rc = 0) ∧
      (c = .failed ↔ r.status = "finished" ∧ r.rc ≠ 0) ∧
      (c = .canceled ↔ r.status = "canceled") := by
  have hb := buildClassify_spec r
  have ht := typeClassify_spec r
  have hs := showClassify_spec r
  have hfc := finished_ne_canceled
  unfold classify
  rw [hb, ht, hs]
  rcases h with hf | ⟨hc, h0⟩
  · by_cases h0 : r.rc = 0
    · refine ⟨.successful, ?_⟩
      simp [specClass, hf, h0, isSuccessful, isFailed, isCanceled]
    · refine ⟨.failed, ?_⟩
      simp [specClass, hf, h0, isSuccessful, isFailed, isCanceled]
  · refine ⟨.canceled, ?_⟩
    have hnf : r.status ≠ "finished" := by rw [hc]; exact hfc.symm
    simp [specClass, hc, h0, isSuccessful, isFailed, isCanceled, hfc.symm]

/-- Any other row — in particular a canceled row with return code 0 — hits the assertion of
    `_build_results` (and of `show_results`), and `get_results_by_type` silently drops it. -/
theorem classify_invalid (r : Row) (h : ¬ ValidRow r) :
    classify r = .error .assertion ∧ showClassify r.rc r.status = .error .assertion ∧
      typeClassify r.rc r.status = none := by
  have hn : specClass r = none := by
    by_contra hne; exact h ((validRow_iff r).2 hne)
  unfold classify
  rw [buildClassify_spec, showClassify_spec, typeClassify_spec, hn]
  exact ⟨rfl, rfl, rfl⟩

theorem classify_canceled_zero (n : String) :
    classify { name := n, rc := 0, status := "canceled" } = .error .assertion := by
  apply (classify_invalid _ _).1
  simp [ValidRow, finished_ne_canceled.symm]

/-- The tallies of `_build_results` are the true numbers of successful / failed / canceled rows. -/
theorem tally_correct (rows : List Row) (h : ∀ r ∈ rows, ValidRow r) :
    tally rows = .ok
      { successful := rows.countP fun r => r.status == "finished" && r.rc == 0,
        failed := rows.countP fun r => r.status == "finished" && r.rc != 0,
        canceled := rows.countP fun r => r.status == "canceled" } := by
  unfold tally
  rw [tallyWith_spec buildClassify buildClassify_spec rows Tally.zero
    (fun r hr => (validRow_iff r).1 (h r hr))]
  have hcount : ∀ (c : Cls) (p : Row → Bool), (∀ r ∈ rows, (specClass r == some c) = p r) →
      countClass c rows = rows.countP p := by
    intro c p hp
    unfold countClass
    exact List.countP_congr (fun r hr => by rw [hp r hr])
  have hfc := finished_ne_canceled
  simp only [Tally.zero, Nat.zero_add]
  congr 2
  · apply hcount
    intro r hr
    rcases h r hr with hf | ⟨hc, h0⟩
    · by_cases h0 : r.rc = 0 <;> simp [specClass, hf, h0]
    · have hnf : r.status ≠ "finished" := by rw [hc]; exact hfc.symm
      simp [specClass, hc, h0, hfc.symm]
  · apply hcount
    intro r hr
    rcases h r hr with hf | ⟨hc, h0⟩
    · by_cases h0 : r.rc = 0 <;> simp [specClass, hf, h0]
    · have hnf : r.status ≠ "finished" := by rw [hc]; exact hfc.symm
      simp [specClass, hc, h0, hfc.symm]
  · apply hcount
    intro r hr
    rcases h r hr with hf | ⟨hc, h0⟩
    · by_cases h0 : r.rc = 0 <;> simp [specClass, hf, h0]
    · simp [specClass, hc, h0, hfc.symm]

/-- a tally is produced exactly for valid result sets (otherwise the assertion fires) -/
theorem tally_ok_iff (rows : List Row) : (∃ t, tally rows = .ok t) ↔ ∀ r ∈ rows, ValidRow r := by
  constructor
  · rintro ⟨t, ht⟩ r hr
    by_contra hv
    have hn : specClass r = none := by
      by_contra hne; exact hv ((validRow_iff r).2 hne)
    have := tallyWith_error buildClassify buildClassify_spec rows Tally.zero ⟨r, hr, hn⟩
    unfold tally at ht
    rw [this] at ht; cases ht
  · intro h; exact ⟨_, tally_correct rows h⟩

/-- num_successful + num_failed + num_canceled = number of rows; together with num_missing it is the
    number of configured jobs when the rows are for distinct configured jobs; `missing_jobs` are exactly
    the configured jobs without a row.  So every configured job is counted in exactly one of the four. -/
theorem tally_sum (configured : List String) (rows : List Row) (f : ResultsFile)
    (h : handleCompletion configured rows = .ok f) :
    f.tally.successful + f.tally.failed + f.tally.canceled = rows.length ∧
    f.numMissing = f.missing.length ∧
    (configured.Nodup → (rows.map (·.name)).Nodup → (∀ n ∈ rows.map (·.name), n ∈ configured) →
      f.tally.successful + f.tally.failed + f.tally.canceled + f.numMissing = configured.length ∧
      ∀ n : String, n ∈ f.missing ↔ n ∈ configured ∧ n ∉ rows.map (·.name)) := by
  unfold handleCompletion at h
  cases ht : tally rows with
  | error e => rw [ht] at h; cases h
  | ok t =>
    rw [ht] at h
    simp only [Except.ok.injEq] at h
    subst h
    have hv := (tally_ok_iff rows).1 ⟨t, ht⟩
    have hc := tally_correct rows hv
    rw [ht] at hc
    have hsum := countClass_total rows (fun r hr => (validRow_iff r).1 (hv r hr))
    have ht2 := tallyWith_spec buildClassify buildClassify_spec rows Tally.zero
      (fun r hr => (validRow_iff r).1 (hv r hr))
    unfold tally at ht
    rw [ht] at ht2
    simp only [Except.ok.injEq] at ht2
    have hrows : t.successful + t.failed + t.canceled = rows.length := by
      rw [ht2]; simp only [Tally.zero]; omega
    refine ⟨hrows, rfl, ?_⟩
    intro hcn hrn hsub
    refine ⟨?_, fun n => mem_missingJobs configured rows hrn hsub n⟩
    have := missingJobs_length configured rows hcn hrn hsub
    simp only
    omega

/-- `get_results_by_type` on valid rows for distinct jobs: each row is in exactly the list of its class,
    and the three lists together have as many entries as there are rows. -/
theorem byType_partition (rows : List Row) (hn : (rows.map (·.name)).Nodup) (hv : ∀ r ∈ rows, ValidRow r) :
    (∀ (r : Row) (c : Cls), r ∈ rowsOfClass c (byName rows) ↔ r ∈ rows ∧ specClass r = some c) ∧
    (byType rows).1.length + (byType rows).2.1.length + (byType rows).2.2.length = rows.length := by
  have hb := byName_of_nodup rows hn
  unfold byType
  simp only [hb]
  have hmem : ∀ (r : Row) (c : Cls), r ∈ rowsOfClass c rows ↔ r ∈ rows ∧ specClass r = some c := by
    intro r c
    unfold rowsOfClass
    rw [List.mem_filter, typeClassify_spec]
    simp
  refine ⟨hmem, ?_⟩
  have hlen : ∀ c : Cls, (rowsOfClass c rows).length = countClass c rows := by
    intro c
    unfold rowsOfClass countClass
    rw [List.countP_eq_length_filter]
    congr 1
    apply List.filter_congr
    intro r _
    rw [typeClassify_spec]
  rw [hlen, hlen, hlen]
  exact countClass_total rows (fun r hr => (validRow_iff r).1 (hv r hr))

/-- `show_results` prints the same tallies as results.json holds, and neither of its assertions fires. -/
theorem show_agrees (rows : List Row) (missing : List String) (hn : (rows.map (·.name)).Nodup)
    (hv : ∀ r ∈ rows, ValidRow r) :
    ∃ t, tally rows = .ok t ∧
      showResults rows missing = .ok { tally := t, numMissing := missing.length,
                                       total := rows.length + missing.length } := by
  have hspec := fun r hr => (validRow_iff r).1 (hv r hr)
  have h1 := tallyWith_spec buildClassify buildClassify_spec rows Tally.zero hspec
  have h2 := tallyWith_spec showClassify showClassify_spec rows Tally.zero hspec
  have hsum := countClass_total rows hspec
  refine ⟨_, h1, ?_⟩
  unfold showResults
  rw [byName_of_nodup rows hn, h2]
  simp only [Tally.total, Tally.zero, Nat.zero_add, hsum, beq_self_eq_true, if_true]

/-! ## Non-vacuity: concrete instances -/

private def e (n t : String) (p : Nat) : Event Nat := { name := n, timestamp := t, payload := p }

example : consolidateEvents [[e "x" "2" 0, e "y" "1" 1, e "x" "1" 2], [e "x" "1" 3, e "x" "2" 4]]
    = [("x", [e "x" "1" 2, e "x" "1" 3, e "x" "2" 0, e "x" "2" 4]), ("y", [e "y" "1" 1])] := by decide
example : eventsOf (consolidateEvents [[e "x" "2" 0], [e "x" "10" 1]]) "x" = [e "x" "10" 1, e "x" "2" 0] := by
  decide  -- timestamps are compared as strings
example : (construct { json := [], parquet := [] } [[e "cpu_stats" "1" 0, e "x" "1" 1]]).2.parquet = ["cpu_stats"] := by
  decide
example : (construct (construct { json := [], parquet := [] } [[e "x" "2" 0]]).2 [[e "x" "2" 0], [e "y" "3" 1]]).1
    = [("x", [e "x" "2" 0])] := by decide
example : statsFinalize (statsRun 0 1000 [5, 7, 3]) =
    some { maximum := 7, minimum := 3, meanNum := 15, meanDen := 3, samples := 3 } := by decide
example : statsFinalize (statsRun 0 1000 [5]) =
    some { maximum := 5, minimum := 5, meanNum := 5, meanDen := 1, samples := 1 } := by decide
example : (statsRun 0 1000 [-3, -1]).st.mx = 0 := by decide
example : (statsRun 0 1000 [2000]).st.mn = 1000 := by decide
example : procFinalize (procRun [-3, -1, -7]) =
    some { maximum := -1, minimum := -7, meanNum := -11, meanDen := 3, samples := 3 } := by decide
example : handleCompletion ["a", "b", "c", "d"]
      [⟨"a", 0, "finished"⟩, ⟨"c", 2, "finished"⟩, ⟨"d", 1, "canceled"⟩]
    = .ok { tally := { successful := 1, failed := 1, canceled := 1 }, numMissing := 1, missing := ["b"] } := by
  decide
example : handleCompletion ["a"] [⟨"a", 0, "canceled"⟩] = .error .assertion := by decide
example : byType [⟨"a", 0, "finished"⟩, ⟨"c", 2, "finished"⟩, ⟨"d", 1, "canceled"⟩]
    = ([⟨"a", 0, "finished"⟩], [⟨"c", 2, "finished"⟩], [⟨"d", 1, "canceled"⟩]) := by decide

end Jade.C20
