import JadeModel.Props.C20
import JadeModel.Proofs.ReportsAgg

/-!
# C20, continued — from the processes' event files to the consolidated summary

`Props/C20.lean` is about `EventsSummary` on a given set of top-level event files.  These theorems are about how
the events get there over the whole history of a submission (`Model/ReportsAgg.lean`): submitter processes and
node runners append to their own top-level files, job processes append to `job-outputs/<job>/events.log`, and
the runner of a batch moves the files of its jobs into the node's file (`JobRunner._aggregate_events`).  Batches
may be killed before they aggregate, be requeued under the same batch id and node id, and jobs may run again in
later batches (resubmission).  All open modes, the `continue`, the `os.remove` after the copy and the file names
are the constants of `Jade.Gen.ReportsAgg`, regenerated from the source on every run.

An event written by a job process is *pending* while it sits in a per-job file, i.e. until the runner of a batch
that holds the job has aggregated.
-/

namespace Jade.C20
open Jade.Reports Jade.ReportsAgg Jade.Gen.Reports Jade.Gen.ReportsAgg

section aggregation
variable {α : Type}

/-- Conservation, for all histories from any starting directory: the lines of the top-level event files together
    with the lines pending in per-job files are a permutation of what was there plus every event any process
    wrote — nothing is lost, duplicated or altered by any step (in particular by an aggregation, a killed batch,
    a requeue into the same node file, or a job that runs again). -/
theorem aggregate_conservation (s : Out α) (ops : List (Op α)) :
    (content (run s ops).top ++ content (run s ops).job).Perm
      (content s.top ++ content s.job ++ written ops) :=
  total_run s ops

/-- Exactly once: after any history from an empty output directory, when no event is pending in a per-job file,
    consolidating the top-level event files (in whatever order the glob lists them) gives, for every name, a
    permutation of the events of that name that all processes wrote over the whole history. -/
theorem aggregate_exactly_once (ops : List (Op α)) (files : List (List (Event α)))
    (hfiles : files.Perm ((run Out.empty ops).top.map (·.2)))
    (hpending : content (run Out.empty ops).job = []) (n : String) :
    (eventsOf (consolidateEvents files) n).Perm ((written ops).filter fun e => e.name == n) := by
  have hcons := aggregate_conservation (Out.empty : Out α) ops
  rw [hpending] at hcons
  have h1 : (allEvents files).Perm (content (run Out.empty ops).top) := hfiles.flatten
  have h2 : (content (run Out.empty ops).top).Perm (written ops) := by
    simpa [Out.empty, content_nil] using hcons
  exact (consolidate_perm files n).trans ((h1.trans h2).filter _)

/-- … and in general the consolidated events and the pending ones together are exactly the written ones: an
    event is missing from the summary iff it is still pending. -/
theorem aggregate_pending (ops : List (Op α)) (files : List (List (Event α)))
    (hfiles : files.Perm ((run Out.empty ops).top.map (·.2))) (n : String) :
    (eventsOf (consolidateEvents files) n ++ (content (run Out.empty ops).job).filter fun e => e.name == n).Perm
      ((written ops).filter fun e => e.name == n) := by
  have hcons := aggregate_conservation (Out.empty : Out α) ops
  have h1 : (allEvents files).Perm (content (run Out.empty ops).top) := hfiles.flatten
  have hall : (allEvents files ++ content (run Out.empty ops).job).Perm (written ops) := by
    simpa [Out.empty, content_nil] using (List.Perm.append_right _ h1).trans hcons
  have := hall.filter fun e => e.name == n
  rw [List.filter_append] at this
  exact (List.Perm.append_right _ (consolidate_perm files n)).trans this

/-- Per-job files are named apart over every history (a job's runs all go to the one file of that job). -/
theorem job_files_distinct (ops : List (Op α)) : (keys (run (Out.empty : Out α) ops).job).Nodup :=
  nodup_run Out.empty ops (by simp [Out.empty, keys])

/-- When the runner of a batch has aggregated, none of the jobs of its configuration has a per-job event file
    left — whether the job ran in this batch, in an earlier batch that was killed, or not at all — so nothing of
    theirs is pending, and a later run of the job starts from an empty file. -/
theorem aggregate_drains (ops : List (Op α)) (b nd : String) (jobs : List String) :
    ∀ j ∈ jobs, lookupFile (jobPath j jobLogFile) (run Out.empty (ops ++ [Op.aggregate b nd jobs])).job = none := by
  intro j hj
  simp only [run, List.foldl_append, List.foldl_cons, List.foldl_nil, step, aggregate]
  rw [← aggJobFile_eq]
  refine aggLoop_drains _ jobs _ ?_ j hj
  exact job_files_distinct ops

/-- `jade resubmit-jobs` empties `events/`, so the next construction of the summary consolidates the event files
    as they are then (and `aggregate_exactly_once` applies to it). -/
theorem resubmit_reconsolidates (d : EventsDir α) (files : List (List (Event α))) :
    construct (clearEvents d) files = construct { json := [], parquet := [] } files := by
  simp [clearEvents, resubmitClearsEvents_eq]

end aggregation

/-! ## Non-vacuity: a job that runs in two batches, a killed batch that is requeued -/

private def ev (n t : String) (p : Nat) : Event Nat := { name := n, timestamp := t, payload := p }

/-- job `j0` fails in batch 1 and runs again in batch 2 after a resubmission: each attempt's events are in
    exactly one node file, no per-job file is left -/
example : run Out.empty
    [.submitterStart, .submitterLog [ev "submit" "1" 0],
     .runnerStart "1" "0", .jobRun "j0" (some [ev "x" "2" 1]), .jobRun "j1" (some [ev "x" "3" 2]),
     .aggregate "1" "0" ["j0", "j1"],
     .submitterStart, .submitterLog [ev "submit" "4" 3],
     .runnerStart "2" "0", .jobRun "j0" (some [ev "x" "5" 4]), .aggregate "2" "0" ["j0"]]
    = { top := [("submit_jobs_events.log", [ev "submit" "1" 0, ev "submit" "4" 3]),
                ("run_jobs_batch_1_0_events.log", [ev "x" "2" 1, ev "x" "3" 2]),
                ("run_jobs_batch_2_0_events.log", [ev "x" "5" 4])],
        job := [] } := by decide

/-- batch 1 is killed before it aggregates and requeued (same batch id, same node): the first attempt's events
    wait in the per-job file and reach the node's file once, with the second attempt's; `j1` never opens a file -/
example : run Out.empty
    [.runnerStart "1" "0", .runnerLog "1" "0" [ev "r" "1" 0], .jobRun "j0" (some [ev "x" "2" 1]),
     .runnerStart "1" "0", .runnerLog "1" "0" [ev "r" "3" 2], .jobRun "j0" (some [ev "x" "4" 3]), .jobRun "j1" none,
     .aggregate "1" "0" ["j1", "j0"]]
    = { top := [("run_jobs_batch_1_0_events.log", [ev "r" "1" 0, ev "r" "3" 2, ev "x" "2" 1, ev "x" "4" 3])],
        job := [] } := by decide

/-- before the requeued batch aggregates, the first attempt's event is pending, not consolidated -/
example : let s := run Out.empty [.runnerStart "1" "0", .jobRun "j0" (some [ev "x" "2" 1])]
    (eventsOf (consolidateEvents (s.top.map (·.2))) "x", content s.job) = ([], [ev "x" "2" 1]) := by decide

example : eventsOf (consolidateEvents ((run Out.empty
    [.runnerStart "1" "0", .jobRun "j0" (some [ev "x" "2" 1]), .aggregate "1" "0" ["j0"],
     .runnerStart "2" "0", .jobRun "j0" (some [ev "x" "1" 2]), .aggregate "2" "0" ["j0"]]).top.map (·.2))) "x"
    = [ev "x" "1" 2, ev "x" "2" 1] := by decide

end Jade.C20
