import JadeModel.Proofs.ClusterStatus

/-!
# Cluster-API part of C09 — persisted status consistent and only moving forward

Facts about `Model/Cluster.lean` (`jade/jobs/cluster.py`) that the system-level C09 file builds on.  (The clause "every done
job has a recorded result" and the reachability of `update_job_status` arguments through real submitter rounds are
system-level facts and are not stated here.)

* `StatusInv d`   — the C09 relations on the four files: `num_jobs` = number of jobs, `completed_jobs` = #DONE,
  `submitted_jobs` = #(SUBMITTED ∨ DONE), no blockers left on SUBMITTED/DONE jobs, version inside each file = version file
  (`completed ≤ submitted ≤ total` follows: `StatusInv.order`).
* `Mono d d'`     — the two-state relation: counters, per-job state order n < s < d, blocker sets ⊆, `is_complete` sticky,
  versions non-decreasing and increasing when a file changed.
* `UpdateArgsOK d mj a` — the exact well-formedness of `update_job_status` arguments under which no assertion fires and the
  invariant is preserved.  A job the round canceled is NOT_SUBMITTED on disk, listed in `canceled_jobs` (→ `submitted += 1`)
  AND in `completed_job_names` (→ DONE, `completed += 1`): it is counted once in each counter.
* "current handle": the acting handle's config copy equals the config on disk and its job-status copy has the disk's
  version (`C10_protocol_never_stale`: true of every role holder under the protocol); `Coherent s` holds after EVERY
  tamper-free history (`Coherent.exec`).
-/

namespace Jade.ClusterStatus
open Jade.Cluster Jade.Gen.Cluster

export Jade.Cluster (StatusInv Mono UpdateArgsOK JobsAhead stateRank isDone isSubm Coherent)

/-- completed ≤ submitted ≤ total -/
theorem StatusInv.order {d : Disk} (h : StatusInv d) :
    d.cfg.completed ≤ d.cfg.submitted ∧ d.cfg.submitted ≤ d.cfg.numJobs := by
  rw [h.completed, h.submitted, h.total]
  refine ⟨List.countP_mono_left ?_, List.countP_le_length⟩
  intro v _ hv
  simp only [isDone, beq_iff_eq] at hv
  simp [isSubm, hv]

/-- `Cluster.create` establishes the invariant -/
theorem create_statusInv (host : Host) (spec : List (List JobId × Bool)) (brk : Bool) :
    StatusInv (create host spec brk).disk ∧ (create host spec brk).disk.marker = false :=
  ⟨create_status host spec brk, rfl⟩

/-- `update_job_status` with well-formed arguments by a current handle on consistent files: no exception, no marker,
    the files are consistent afterwards, they only moved forward, and the job-status version strictly increased. -/
theorem update_preserves (s : Sys) (h : Hid) (x : Handle) (mj : JsView) (a : UpdateArgs) (hC : Coherent s)
    (hx : s.handles h = some x) (hfree : s.disk.marker = false) (hI : StatusInv s.disk)
    (hcfg : x.cfg = s.disk.cfg) (hjs : x.js = some mj) (hver : mj.version = s.disk.jsVer)
    (hok : UpdateArgsOK s.disk mj a) :
    (step s (.update h a)).2 = .ok ∧ (step s (.update h a)).1.disk.marker = false ∧
    StatusInv (step s (.update h a)).1.disk ∧ Mono s.disk (step s (.update h a)).1.disk ∧
    s.disk.jsVer < (step s (.update h a)).1.disk.jsVer ∧
    (step s (.update h a)).1.disk.js.hpcIds = a.hpcIds ∧ (step s (.update h a)).1.disk.js.batchIdx = a.batchIdx := by
  have hxv : x.cfg.version = s.disk.cfgVer := by rw [hcfg]; exact hI.verCfg
  obtain ⟨r1, _, r3, r4, r5, r6, r7⟩ := doUpdate_status a s.disk x mj hI hcfg hjs hver
    (fun c hc => hC.hash h x c hx hc hxv) (fun j => hC.hashWf h x j hx) hok
  simp only [step]
  rw [locked_run s h _ x hx hfree]
  simp only [r1]
  refine ⟨trivial, rfl, ?_, ?_, r5, r6, r7⟩
  · exact ⟨r3.total, r3.completed, r3.submitted, r3.blockers, r3.verCfg, r3.verJs⟩
  · exact ⟨r4.submitted, r4.completed, r4.total, r4.jobs, r4.complete, r4.cfgVer, r4.jsVer, r4.cfgChanged, r4.jsChanged⟩

/-- Which violation makes the code raise: a job listed as submitted twice, or listed as submitted while the handle's
    copy already says SUBMITTED, is an AssertionError under the lock — never a silent overwrite: the four files are
    unchanged and the deadlock marker is left.  (The guard is `state != SUBMITTED`: a DONE job listed as submitted passes
    it, see `update_resubmits_done_silently`.) -/
theorem update_assertion_double_submit (s : Sys) (h : Hid) (x : Handle) (mj : JsView) (a : UpdateArgs)
    (hx : s.handles h = some x) (hfree : s.disk.marker = false) (hv : x.cfg.version = s.disk.cfgVer)
    (hjs : x.js = some mj) (hver : mj.version = s.disk.jsVer) (hvalid : ∀ i ∈ a.submitted, i < mj.jobs.length)
    (hbad : ¬ a.submitted.Nodup ∨ ∃ i ∈ a.submitted, ∃ v : JobView, mj.jobs[i]? = some v ∧ v.state = .submitted) :
    (step s (.update h a)).2 = .err .assertion ∧ (step s (.update h a)).1.disk = { s.disk with marker := true } := by
  obtain ⟨r1, r2⟩ := doUpdate_double_submit a s.disk x mj hv hjs hver hbad hvalid
  simp only [step]
  rw [locked_run s h _ x hx hfree]
  simp only [r1, r2]
  exact ⟨trivial, rfl⟩

/-- … and conversely well-formed arguments never raise (part of `update_preserves`); together:
    for a current handle and a submitted list of valid indices whose jobs are NOT_SUBMITTED or SUBMITTED in the handle's
    copy, the submitted loop raises AssertionError IFF some job is listed twice or is already SUBMITTED. -/
theorem update_assertion_iff (subs : List JobId) (m : Mem) (hvalid : ∀ i ∈ subs, i < m.js.jobs.length)
    (hnd : ∀ i ∈ subs, ∀ v : JobView, m.js.jobs[i]? = some v → v.state ≠ .done) :
    (forEach submitOne subs m).2 = some .assertion ↔
      (¬ subs.Nodup ∨ ∃ i ∈ subs, ∃ v : JobView, m.js.jobs[i]? = some v ∧ v.state = .submitted) := by
  constructor
  · intro herr
    by_cases hgood : subs.Nodup ∧ ∀ i ∈ subs, ∃ v : JobView, m.js.jobs[i]? = some v ∧ v.state = .notSubmitted
    · have := (submitLoop_closed subs m hgood.1 hgood.2).1
      rw [this] at herr; cases herr
    · by_cases hn : subs.Nodup
      · right
        apply Classical.byContradiction
        intro hno
        apply hgood
        refine ⟨hn, ?_⟩
        intro i hi
        have hl := hvalid i hi
        refine ⟨m.js.jobs[i], List.getElem?_eq_getElem hl, ?_⟩
        cases hs : (m.js.jobs[i]).state with
        | submitted => exact absurd ⟨i, hi, _, List.getElem?_eq_getElem hl, hs⟩ hno
        | notSubmitted => rfl
        | done => exact absurd hs (hnd i hi _ (List.getElem?_eq_getElem hl))
      · exact Or.inl hn
  · intro hbad
    have h1 : (forEach submitOne subs m).2 ≠ none := by
      rcases hbad with hb | hb
      · exact submitLoop_err_of_dup _ _ hb
      · exact submitLoop_err_of_submitted _ _ hb
    rcases submitLoop_err_kind subs m hvalid with h2 | h2
    · exact absurd h2 h1
    · exact h2

/-- promote / demote / mark_complete / mark_canceled / complete_hpc_job_id by a handle whose copy of the file it writes
    is the disk's: the invariant is preserved and the files only move forward; `mark_complete` makes the submission
    complete, and a complete submission stays complete under all of these (and under `update`, see `update_preserves`). -/
theorem promote_demote_preserve (s : Sys) (h : Hid) (x : Handle) (hC : Coherent s) (hx : s.handles h = some x)
    (hfree : s.disk.marker = false) (hI : StatusInv s.disk) (hcfg : x.cfg = s.disk.cfg) :
    (StatusInv (step s (.promote h)).1.disk ∧ Mono s.disk (step s (.promote h)).1.disk) ∧
    (StatusInv (step s (.demote h)).1.disk ∧ Mono s.disk (step s (.demote h)).1.disk) ∧
    (StatusInv (step s (.markCanceled h)).1.disk ∧ Mono s.disk (step s (.markCanceled h)).1.disk ∧
      (step s (.markCanceled h)).2 = .ok) := by
  have hxv : x.cfg.version = s.disk.cfgVer := by rw [hcfg]; exact hI.verCfg
  obtain ⟨⟨p1, p2, _⟩, ⟨d1, d2, _⟩, _, ⟨k1, k2, _, k4⟩⟩ :=
    cfgOps_status s.disk x hI hcfg (fun c hc => hC.hash h x c hx hc hxv)
  simp only [step]
  rw [locked_run s h _ x hx hfree, locked_run s h _ x hx hfree, locked_run s h _ x hx hfree]
  refine ⟨⟨?_, ?_⟩, ⟨?_, ?_⟩, ?_, ?_, k4⟩
  · exact ⟨p1.total, p1.completed, p1.submitted, p1.blockers, p1.verCfg, p1.verJs⟩
  · exact ⟨p2.submitted, p2.completed, p2.total, p2.jobs, p2.complete, p2.cfgVer, p2.jsVer, p2.cfgChanged, p2.jsChanged⟩
  · exact ⟨d1.total, d1.completed, d1.submitted, d1.blockers, d1.verCfg, d1.verJs⟩
  · exact ⟨d2.submitted, d2.completed, d2.total, d2.jobs, d2.complete, d2.cfgVer, d2.jsVer, d2.cfgChanged, d2.jsChanged⟩
  · exact ⟨k1.total, k1.completed, k1.submitted, k1.blockers, k1.verCfg, k1.verJs⟩
  · exact ⟨k2.submitted, k2.completed, k2.total, k2.jobs, k2.complete, k2.cfgVer, k2.jsVer, k2.cfgChanged, k2.jsChanged⟩

theorem markComplete_preserves (s : Sys) (h : Hid) (x : Handle) (hC : Coherent s) (hx : s.handles h = some x)
    (hfree : s.disk.marker = false) (hI : StatusInv s.disk) (hcfg : x.cfg = s.disk.cfg) :
    StatusInv (step s (.markComplete h)).1.disk ∧ Mono s.disk (step s (.markComplete h)).1.disk ∧
    (s.disk.cfg.isComplete = false →
      (step s (.markComplete h)).2 = .ok ∧ (step s (.markComplete h)).1.disk.cfg.isComplete = true) ∧
    (s.disk.cfg.isComplete = true →
      (step s (.markComplete h)).2 = .err .assertion ∧ (step s (.markComplete h)).1.disk.files = s.disk.files) := by
  have hxv : x.cfg.version = s.disk.cfgVer := by rw [hcfg]; exact hI.verCfg
  obtain ⟨_, _, ⟨m1, m2, _, m4⟩, _⟩ := cfgOps_status s.disk x hI hcfg (fun c hc => hC.hash h x c hx hc hxv)
  simp only [step]
  rw [locked_run s h _ x hx hfree]
  refine ⟨?_, ?_, ?_, ?_⟩
  · exact ⟨m1.total, m1.completed, m1.submitted, m1.blockers, m1.verCfg, m1.verJs⟩
  · exact ⟨m2.submitted, m2.completed, m2.total, m2.jobs, m2.complete, m2.cfgVer, m2.jsVer, m2.cfgChanged, m2.jsChanged⟩
  · intro hic; exact ⟨(m4 hic).1, (m4 hic).2⟩
  · intro hic
    have : doMarkComplete s.disk x = (s.disk, x, .err .assertion) := by
      unfold doMarkComplete
      have : markCompleteAssert x.cfg.isComplete = false := by
        rw [Bool.eq_false_iff, ne_eq, markCompleteAssert_iff, hcfg, hic]; simp
      simp only [this, Bool.false_eq_true, if_false]
    rw [this]
    exact ⟨rfl, rfl⟩

theorem completeHpcId_preserves (s : Sys) (h : Hid) (x : Handle) (id : Nat) (hx : s.handles h = some x)
    (hfree : s.disk.marker = false) (hI : StatusInv s.disk) (hjs : x.js = some s.disk.js) :
    StatusInv (step s (.completeHpcId h id)).1.disk ∧ Mono s.disk (step s (.completeHpcId h id)).1.disk := by
  obtain ⟨c1, c2, _⟩ := doCompleteHpcId_status id s.disk x hI hjs
  simp only [step]
  rw [locked_run s h _ x hx hfree]
  exact ⟨⟨c1.total, c1.completed, c1.submitted, c1.blockers, c1.verCfg, c1.verJs⟩,
    ⟨c2.submitted, c2.completed, c2.total, c2.jobs, c2.complete, c2.cfgVer, c2.jsVer, c2.cfgChanged, c2.jsChanged⟩⟩

/-- monotonicity of every non-resubmit operation, collected: a well-formed `update`, promote, demote, mark_complete,
    mark_canceled and complete_hpc_job_id by a current handle move the files only forward -/
theorem update_monotone (s : Sys) (h : Hid) (x : Handle) (mj : JsView) (hC : Coherent s) (hx : s.handles h = some x)
    (hfree : s.disk.marker = false) (hI : StatusInv s.disk) (hcfg : x.cfg = s.disk.cfg) (hjs : x.js = some mj)
    (hver : mj.version = s.disk.jsVer) :
    (∀ a : UpdateArgs, UpdateArgsOK s.disk mj a → Mono s.disk (step s (.update h a)).1.disk) ∧
    Mono s.disk (step s (.promote h)).1.disk ∧ Mono s.disk (step s (.demote h)).1.disk ∧
    Mono s.disk (step s (.markComplete h)).1.disk ∧ Mono s.disk (step s (.markCanceled h)).1.disk ∧
    (mj = s.disk.js → ∀ id : Nat, Mono s.disk (step s (.completeHpcId h id)).1.disk) := by
  obtain ⟨p, d, k⟩ := promote_demote_preserve s h x hC hx hfree hI hcfg
  refine ⟨fun a hok => (update_preserves s h x mj a hC hx hfree hI hcfg hjs hver hok).2.2.2.1, p.2, d.2,
    (markComplete_preserves s h x hC hx hfree hI hcfg).2.1, k.2.1, ?_⟩
  intro e id
  exact (completeHpcId_preserves s h x id hx hfree hI (by rw [hjs, e])).2

/-! ## `prepare_for_resubmission` -/

/-- the full-strength claim: on a complete, consistent submission, `prepare_for_resubmission` with ANY set of existing
    jobs re-establishes the invariant -/
def PrepareResubmitReestablishes : Prop :=
  ∀ (s : Sys) (h : Hid) (x : Handle) (sel : List JobId) (bl : List (JobId × List JobId)),
    Coherent s → s.handles h = some x → StatusInv s.disk → x.cfg = s.disk.cfg → x.js = some s.disk.js →
    s.disk.cfg.isComplete = true → sel.Nodup → (∀ k ∈ sel, k < s.disk.js.jobs.length) →
    StatusInv (step s (.prepareResubmit h sel bl)).1.disk

/-- What IS proved: it does when `jobs_to_resubmit` contains every job that was never submitted (what `resubmit-jobs`
    passes with `--missing`, the default). -/
theorem prepareResubmit_statusInv (s : Sys) (h : Hid) (x : Handle) (sel : List JobId) (bl : List (JobId × List JobId))
    (hC : Coherent s) (hx : s.handles h = some x) (hI : StatusInv s.disk) (hcfg : x.cfg = s.disk.cfg)
    (hjs : x.js = some s.disk.js) (hcomplete : s.disk.cfg.isComplete = true) (hnd : sel.Nodup)
    (hval : ∀ k ∈ sel, k < s.disk.js.jobs.length)
    (hall : ∀ (k : Nat) (v : JobView), s.disk.js.jobs[k]? = some v → v.state = .notSubmitted → k ∈ sel) :
    (step s (.prepareResubmit h sel bl)).2 = .ok ∧ StatusInv (step s (.prepareResubmit h sel bl)).1.disk ∧
    (step s (.prepareResubmit h sel bl)).1.disk.cfg.isComplete = false := by
  have hxv : x.cfg.version = s.disk.cfgVer := by rw [hcfg]; exact hI.verCfg
  obtain ⟨r1, r2, r3⟩ := doPrepareResubmit_status sel bl s.disk x hI hcfg hjs hcomplete
    (fun c hc => hC.hash h x c hx hc hxv) (fun j => hC.hashWf h x j hx) hnd hval hall
  simp only [step, resubmitLocked_eq, Bool.false_eq_true, if_false]
  rw [unlocked_run s h _ x hx]
  exact ⟨r1, r2, r3⟩

/-- WITNESS (DESIGN 9.7): with an unselected never-submitted job it does NOT.  Two jobs; job 0 runs, the submission is
    canceled, job 0 finishes, the submission completes with job 1 never submitted; `resubmit-jobs --no-missing` selects
    only job 0.  Afterwards job 1 is still NOT_SUBMITTED but `submitted_jobs = num_jobs - 1 = 1` counts it as submitted
    (no job is submitted or done), and the next round, which submits both NOT_SUBMITTED jobs, drives `submitted_jobs` to 3 of
    2 (`show-status` prints `not_submitted_jobs = -1`). -/
theorem prepareResubmit_unselected_breaks_statusInv : ¬ PrepareResubmitReestablishes := by
  intro hall
  let u (sub comp : List JobId) (ids : List Nat) : UpdateArgs :=
    { submitted := sub, blocked := [], canceled := [], completed := comp, hpcIds := ids, batchIdx := 2 }
  let ops : List Op := [.update 0 (u [0] [] [1]), .markCanceled 0, .update 0 (u [] [0] []), .markComplete 0, .demote 0,
    .load 1 1 true true]
  have hnt : ∀ op ∈ ops, op.isTamper = false := by decide
  have hC := Coherent.exec ops _ (Coherent.create 0 [([], false), ([], false)] true) hnt
  generalize hs : exec (create 0 [([], false), ([], false)] true) ops = s at hC
  have hd : s.disk = { cfg := { submitter := some 1, submitted := 1, completed := 1, numJobs := 2, isComplete := true,
                                 isCanceled := true, version := 7 },
                       cfgMissing := false, cfgVer := 7,
                       js := { jobs := [⟨.done, [], false⟩, ⟨.notSubmitted, [], false⟩], hpcIds := [], batchIdx := 2,
                               version := 3 },
                       jsVer := 3, marker := false } := by rw [← hs]; decide
  have hx : s.handles 1 =
      some { host := 1, cfg := s.disk.cfg, js := some s.disk.js, cfgHash := some (Snap.cfg s.disk.cfg),
             jsHash := none } := by rw [← hs]; decide
  have hI : StatusInv s.disk := by
    rw [hd]
    exact ⟨rfl, rfl, rfl, by decide, rfl, rfl⟩
  have := hall s 1 _ [0] [] hC hx hI rfl rfl (by rw [hd]) (by decide) (by rw [hd]; decide)
  have hsub := this.submitted
  have : (step s (.prepareResubmit 1 [0] [])).1.disk.cfg.submitted = 1 ∧
      (step s (.prepareResubmit 1 [0] [])).1.disk.js.jobs.countP isSubm = 0 := by rw [← hs]; decide
  rw [this.1, this.2] at hsub
  cases hsub

/-- the consequence, on the same history: the next (well-formed: both jobs are NOT_SUBMITTED) update drives
    `submitted_jobs` beyond `num_jobs` -/
theorem prepareResubmit_then_submitted_exceeds_total :
    let u (sub comp : List JobId) (ids : List Nat) : UpdateArgs :=
      { submitted := sub, blocked := [], canceled := [], completed := comp, hpcIds := ids, batchIdx := 2 }
    let s := exec (create 0 [([], false), ([], false)] true)
      [.update 0 (u [0] [] [1]), .markCanceled 0, .update 0 (u [] [0] []), .markComplete 0, .demote 0,
       .load 1 1 true true, .prepareResubmit 1 [0] [], .update 1 (u [0, 1] [] [2])]
    s.disk.cfg.submitted = 3 ∧ s.disk.cfg.numJobs = 2 ∧ readStatus s.disk =
      .ok { isComplete := false, isCanceled := false, numJobs := 2, completed := 0, notSubmitted := -1,
            jobs := [⟨.submitted, [], false⟩, ⟨.submitted, [], false⟩] } := by
  decide

/-! ## behaviours of the code worth knowing -/

/-- `_serialize_jobs` compares the job-status hash with `_config_hash` (sic), so the test "changed?" is always true:
    an `update_job_status` that changes nothing (here: right after `create`, empty arguments, same ids and batch index)
    leaves `cluster_config.json` alone but rewrites `job_status.json` with a higher version. -/
theorem serializeJobs_bumps_without_change :
    let s := create 0 [([], false)] true
    let s' := (step s (.update 0 { submitted := [], blocked := [], canceled := [], completed := [], hpcIds := [],
                                   batchIdx := 1 })).1
    s'.disk.cfgVer = s.disk.cfgVer ∧ s'.disk.cfg = s.disk.cfg ∧
    s'.disk.jsVer = s.disk.jsVer + 1 ∧ s'.disk.js = { s.disk.js with version := s.disk.js.version + 1 } := by
  decide

/-- The guard of the submitted loop is `state != SUBMITTED`, not `state == NOT_SUBMITTED`: listing a DONE job as submitted
    is NOT an assertion error — the job silently goes back DONE → SUBMITTED, `submitted_jobs` counts it a second time
    (`submitted_jobs = 2` for a single job).  `UpdateArgsOK` (what a round guarantees: candidates are NOT_SUBMITTED) excludes it. -/
theorem update_resubmits_done_silently :
    let u (sub comp : List JobId) : UpdateArgs :=
      { submitted := sub, blocked := [], canceled := [], completed := comp, hpcIds := [], batchIdx := 2 }
    let r := run (create 0 [([], false)] true) [.update 0 (u [0] []), .update 0 (u [] [0]), .update 0 (u [0] [])]
    r.2 = [.ok, .ok, .ok] ∧ r.1.disk.js.jobs.map (·.state) = [JState.submitted] ∧ r.1.disk.cfg.submitted = 2 ∧
    r.1.disk.cfg.completed = 1 ∧ r.1.disk.cfg.numJobs = 1 := by
  decide

/-! ## non-vacuity -/

/-- a round with a failed job and a canceled dependent, reported the way `HpcSubmitter.run` does, satisfies
    `UpdateArgsOK`: the canceled job (1) is NOT_SUBMITTED on disk, DONE in memory, in `canceled` and in `completed` -/
example :
    let d : Disk := { cfg := { submitter := some 0, submitted := 1, completed := 0, numJobs := 2, isComplete := false,
                               isCanceled := false, version := 2 }, cfgMissing := false, cfgVer := 2,
                      js := { jobs := [⟨.submitted, [], false⟩, ⟨.notSubmitted, [0], true⟩], hpcIds := [5], batchIdx := 2,
                              version := 2 }, jsVer := 2, marker := false }
    let mj : JsView := { d.js with jobs := [⟨.submitted, [], false⟩, ⟨.done, [], true⟩] }
    let a : UpdateArgs := { submitted := [], blocked := [], canceled := [1], completed := [0, 1], hpcIds := [], batchIdx := 2 }
    StatusInv d ∧ UpdateArgsOK d mj a := by
  refine ⟨⟨rfl, rfl, rfl, by decide, rfl, rfl⟩, ⟨rfl, ?_, by decide, by decide, by decide, by decide, ?_, by decide, ?_⟩⟩
  · intro i dv mv hd hm
    match i with
    | 0 => simp at hd hm; subst hd hm; exact ⟨rfl, fun _ h => h, Or.inl rfl⟩
    | 1 => simp at hd hm; subst hd hm; exact ⟨rfl, (fun _ h => by cases h), Or.inr ⟨rfl, rfl, by decide⟩⟩
    | (k + 2) => simp at hd
  · intro i hi
    simp at hi; subst hi
    exact ⟨by decide, ⟨_, rfl, rfl⟩⟩
  · intro i hi
    simp at hi
    rcases hi with rfl | rfl
    · exact ⟨by decide, by decide, Or.inr ⟨_, rfl, rfl⟩⟩
    · exact ⟨by decide, by decide, Or.inl (by decide)⟩

example : (run (create 0 [([], false), ([0], true)] true)
    [.update 0 { submitted := [0], blocked := [(1, [0])], canceled := [], completed := [], hpcIds := [5], batchIdx := 2 },
     .memCancel 0 1,
     .update 0 { submitted := [], blocked := [], canceled := [1], completed := [0, 1], hpcIds := [], batchIdx := 2 },
     .allComplete 0, .markComplete 0]).2 = [.ok, .ok, .ok, .bool true, .ok] := by decide

end Jade.ClusterStatus
