import JadeModel.Proofs.Queue

/-!
# Node-level queue theorems (C02, C04, C06 — the compute-node parts)

Theorems about `Model/Queue.lean` (`JobQueue.submit / process_queue / _check_completions / wait / run` with
`AsyncCliCommand` jobs, and the worker computation of `JobRunner._run_jobs`), for **all** operation sequences
(`runOps depth ops`: any interleaving of `submit` and `process_queue`, any exit events per poll round — a
process may also exit between two passes of the rerun loop), all job graphs, all depths.  The only hypothesis
on operation sequences is `Distinct ops`: the names handed to one queue are distinct.

Ghost logs: `s.log` (launches and appended rows in the order they happen), `s.starts`, `s.rows`.
-/

namespace Jade.QueueProps
open Jade.Queue Jade.Gen.Queue

/-! ## C02 — the node-level gate -/

/-- A step appends to `starts` only jobs whose *remaining* blocker list is empty at that moment: the job
    being submitted, or jobs of the queue as `_check_completions` left it.  (No hypothesis at all.) -/
theorem started_only_unblocked (s : QState) (op : Op) :
    ∃ P : List Job, (step s op).starts = s.starts ++ P.map (·.id) ∧
      ∀ p ∈ P, p.blockers = [] ∧
        (match op with
         | .submit j => p = j
         | .processQueue evs => p ∈ (checkCompletions evs s).queued) := by
  cases op with
  | submit j =>
    simp only [step, submit]
    split
    · next hc =>
      refine ⟨[j], ?_, ?_⟩
      · rw [runJob_eq]; simp [QState.starts, hand, startsOf]
      · intro p hp; simp only [List.mem_singleton] at hp; subst hp
        exact ⟨((submitRuns_iff _ _).1 hc).2, rfl⟩
    · exact ⟨[], by simp [enqueue, hand, QState.starts], by simp⟩
  | processQueue evs =>
    have hcs := checkCompletions_starts evs s
    simp only [step, processQueue]
    split
    · exact ⟨[], by simp [hcs], by simp⟩
    · split
      · exact ⟨[], by simp [hcs], by simp⟩
      · refine ⟨(pick (availableJobs (checkCompletions evs s).depth (checkCompletions evs s).outIds) 0
          (checkCompletions evs s).queued).1, ?_, ?_⟩
        · rw [runPicked_eq]
          simp only [QState.starts, startsOf_append] at hcs ⊢
          rw [hcs]
          congr 1
          simp [startsOf, startEv, List.filterMap_map, Function.comp_def]
        · intro p hp
          have := (pick_mem _ _ 0 p).1 hp
          exact ⟨this.2, this.1⟩

/-- the scan for a completed name removes that name and nothing else from the surviving queued jobs -/
theorem reap_removes_only_the_completed_name (failed : List JobId) (s : QState) (name : JobId) :
    ∀ q' ∈ (reap failed s name).queued, ∃ q ∈ s.queued, q'.id = q.id ∧ q'.cancelFlag = q.cancelFlag ∧
      ∀ b, b ∈ q'.blockers ↔ (b ∈ q.blockers ∧ b ≠ name) := by
  intro q' hq'
  obtain ⟨r, hr, -, rfl⟩ := mem_reap_queued.1 hq'
  exact ⟨r, hr, dropBlocker_id _ _, dropBlocker_flag _ _, mem_dropBlocker _ _⟩

/-- …and every name scanned in a pass (`completed_jobs`) already has its row when the scans start:
    `_complete()` / `cancel()` wrote it before -/
theorem completed_name_has_row {s : QState} (h : Good s) (ev : Poll) :
    ∀ n ∈ completedOf (pollAll ev s), ∃ rc st, (n, rc, st) ∈ (pollAll ev s).rows := by
  intro n hn
  have h1 := good_pollAll ev h
  obtain ⟨o, ho, hst, rfl⟩ := mem_completedOf.1 hn
  cases hs : o.st with
  | running => exact absurd hs hst
  | exited rc => exact ⟨rc, _, mem_rowsOf.2 (h1.oExit o ho rc hs)⟩
  | canceled => exact ⟨_, _, mem_rowsOf.2 (h1.oCan o ho hs)⟩

/-- At every point of every operation sequence: a blocker handed over with a job is missing from the job's
    remaining list only if its row has been written (remaining ⊆ handed; handed \ remaining ⊆ rows). -/
theorem blocker_removed_only_on_completion (d : Nat) (ops : List Op) (hd : Distinct ops) :
    ∀ q ∈ (runOps d ops).queued, ∃ h ∈ handedOf ops, h.id = q.id ∧ h.cancelFlag = q.cancelFlag ∧
      (∀ b ∈ q.blockers, b ∈ h.blockers) ∧
      ∀ b ∈ h.blockers, b ∉ q.blockers → ∃ rc st, (b, rc, st) ∈ (runOps d ops).rows := by
  obtain ⟨g, -, -, hh, -⟩ := good_runOps d ops hd
  intro q hq
  obtain ⟨x, hx, h1, h2, h3, h4⟩ := g.qHanded q hq
  refine ⟨x, hh ▸ hx, h1, h2, h3, ?_⟩
  intro b hb hnb
  rcases h4 b hb with h5 | ⟨⟨rc, st, h5⟩, -⟩
  · exact absurd h5 hnb
  · exact ⟨rc, st, mem_rowsOf.2 h5⟩

/-- **No job starts before every job blocking it has finished**: when `j` is launched, every ORIGINAL
    blocker of `j` (as handed to the queue) has a row written earlier — any interleaving. -/
theorem start_after_blockers (d : Nat) (ops : List Op) (hd : Distinct ops) :
    ∀ (pre post : List Ev) (j : JobId), (runOps d ops).log = pre ++ Ev.start j :: post →
      ∀ h ∈ handedOf ops, h.id = j → ∀ b ∈ h.blockers, ∃ rc st, Ev.row b rc st ∈ pre := by
  obtain ⟨g, -, -, hh, -⟩ := good_runOps d ops hd
  intro pre post j heq h hh' hid b hb
  obtain ⟨-, -, y, hy, hye, hall⟩ := g.logOk.split pre _ post heq
  have : y = h := g.handed_eq hy (hh ▸ hh') (hye.trans hid.symm)
  subst this
  exact (hall b hb).1

theorem started_at_most_once (d : Nat) (ops : List Op) (hd : Distinct ops) : (runOps d ops).starts.Nodup :=
  (good_runOps d ops hd).1.logOk.starts_nodup

theorem row_at_most_once (d : Nat) (ops : List Op) (hd : Distinct ops) :
    ((runOps d ops).rows.map (·.1)).Nodup :=
  (good_runOps d ops hd).1.logOk.rows_nodup

/-- a finished row belongs to a launched job and carries the code some poll of the sequence delivered -/
theorem exit_row_is_real (d : Nat) (ops : List Op) (hd : Distinct ops) (j : JobId) (rc : Int)
    (h : (j, rc, RowStatus.finished) ∈ (runOps d ops).rows) :
    j ∈ (runOps d ops).starts ∧
      ∃ evs, Op.processQueue evs ∈ ops ∧ ∃ ev ∈ evs, ev.lookup j = some rc := by
  have hm := mem_rowsOf.1 h
  refine ⟨mem_startsOf.2 ((good_runOps d ops hd).1.logOk.finished_started hm), ?_⟩
  exact rowsFrom_runOps (fun j rc => ∃ evs, Op.processQueue evs ∈ ops ∧ ∃ ev ∈ evs, ev.lookup j = some rc)
    d ops (fun evs hevs ev hev j rc hl => ⟨evs, hevs, ev, hev, hl⟩) j rc hm

/-- a canceled job: its single row has the cancel code (1, non-zero), and its command is never started -/
theorem cancel_never_runs (d : Nat) (ops : List Op) (hd : Distinct ops) (j : JobId) (rc : Int)
    (h : (j, rc, RowStatus.canceled) ∈ (runOps d ops).rows) :
    rc = cancelRc ∧ cancelRc = 1 ∧ failedCode cancelRc = true ∧ j ∉ (runOps d ops).starts := by
  have := (good_runOps d ops hd).1.logOk.canceled_not_started (mem_rowsOf.1 h)
  exact ⟨this.2, rfl, failedCode_cancelRc, fun hs => this.1 (mem_startsOf.1 hs)⟩

/-- each job has at most one row; so a launched job's only row is its exit row -/
theorem started_row_is_exit_row (d : Nat) (ops : List Op) (hd : Distinct ops) (j : JobId) (rc : Int)
    (st : RowStatus) (h : (j, rc, st) ∈ (runOps d ops).rows) (hs : j ∈ (runOps d ops).starts) :
    st = RowStatus.finished := by
  cases st with
  | finished => rfl
  | canceled => exact absurd hs (cancel_never_runs d ops hd j rc h).2.2.2

/-! ## C04 — the cancel loop of one `_check_completions` call -/

/-- `Doomed Q F` is closed under the cancel rule … -/
theorem doomed_closed (Q : List Job) (F : JobId → Prop) (q : Job) (b : JobId) (hq : q ∈ Q)
    (hf : q.cancelFlag = true) (hb : b ∈ q.blockers) (h : F b ∨ Doomed Q F b) : Doomed Q F q.id := by
  rcases h with h | h
  · exact .base hq hf hb h
  · exact .step hq hf hb h

/-- … and is the least such set -/
theorem doomed_least (Q : List Job) (F : JobId → Prop) (K : JobId → Prop)
    (hK : ∀ q ∈ Q, q.cancelFlag = true → ∀ b ∈ q.blockers, (F b ∨ K b) → K q.id) :
    ∀ j, Doomed Q F j → K j := by
  intro j h
  induction h with
  | base hq hf hb hF => exact hK _ hq hf _ hb (.inl hF)
  | step hq hf hb _ ih => exact hK _ hq hf _ hb (.inr ih)

/-- **One `_check_completions` call cancels exactly the least fixpoint** — chains resolved within the call
    included, for every poll sequence: with `failedNow` = the jobs whose exit row with a non-zero code was
    written in this call, a queued job is canceled (canceled row, code 1) iff it belongs to the least set `K`
    of queued flagged jobs with `blockers ∩ (failedNow ∪ K) ≠ ∅`; exactly the other queued jobs stay queued,
    each with its blocker list minus the names that got a row in this call (exited processes and `K`).
    The code only cancels while scanning for a completed name of the pass in which the blocker became
    failed; this loses nothing for jobs that are queued when the blocker's failure is collected. -/
theorem checkCompletions_spec (d : Nat) (ops : List Op) (hd : Distinct ops) (evs : List Poll) :
    let s0 := runOps d ops
    let s' := checkCompletions evs s0
    ∀ q ∈ s0.queued,
      ((q.id, cancelRc, RowStatus.canceled) ∈ s'.rows ↔ Doomed s0.queued (FailedNow s0 s') q.id) ∧
      (q.id ∈ s'.queuedIds ↔ ¬ Doomed s0.queued (FailedNow s0 s') q.id) ∧
      (∀ q' ∈ s'.queued, q'.id = q.id → q'.cancelFlag = q.cancelFlag ∧
        ∀ b, b ∈ q'.blockers ↔
          (b ∈ q.blockers ∧ ¬ ((∃ rc st, (b, rc, st) ∈ s'.rows) ∧ ¬ ∃ rc st, (b, rc, st) ∈ s0.rows))) ∧
      q.id ∉ s'.starts := by
  intro s0 s' q hq
  obtain ⟨g, c, t, -, -⟩ := good_runOps d ops hd
  have := checkCompletions_lfp g c t evs q hq
  refine ⟨⟨fun h => this.1.1 (mem_rowsOf.1 h), fun h => mem_rowsOf.2 (this.1.2 h)⟩, this.2.1, ?_, ?_⟩
  · intro q' hq' hid
    have h3 := this.2.2 q' hq' hid
    refine ⟨h3.1, fun b => ?_⟩
    rw [h3.2 b]
    simp only [HasRow, QState.rows, mem_rowsOf]
    rfl
  show q.id ∉ (checkCompletions evs (runOps d ops)).starts
  rw [checkCompletions_starts]
  exact fun hs => (g.qNoEv q hq).1 (mem_startsOf.1 hs)

/-- What the side condition does lose (outside `JobQueue.run`, where all submits precede the first poll): a
    flagged job handed over AFTER its blocker's failure was collected is neither canceled nor started — it
    waits forever.  Witness: submit 0; poll (0 exits with 1); submit 1 (flagged, blocked by 0); n polls. -/
theorem late_submit_waits_forever (n : Nat) :
    runOps 2 ([.submit ⟨0, [], false⟩, .processQueue [[(0, 1)]], .submit ⟨1, [0], true⟩] ++
        List.replicate n (.processQueue [[]])) =
      runOps 2 [.submit ⟨0, [], false⟩, .processQueue [[(0, 1)]], .submit ⟨1, [0], true⟩] ∧
    (runOps 2 [.submit ⟨0, [], false⟩, .processQueue [[(0, 1)]], .submit ⟨1, [0], true⟩]).queued
      = [⟨1, [0], true⟩] ∧
    (runOps 2 [.submit ⟨0, [], false⟩, .processQueue [[(0, 1)]], .submit ⟨1, [0], true⟩]).outstanding = [] ∧
    (runOps 2 [.submit ⟨0, [], false⟩, .processQueue [[(0, 1)]], .submit ⟨1, [0], true⟩]).rows
      = [(0, 1, .finished)] ∧
    (runOps 2 [.submit ⟨0, [], false⟩, .processQueue [[(0, 1)]], .submit ⟨1, [0], true⟩]).starts = [0] := by
  refine ⟨?_, by decide, by decide, by decide, by decide⟩
  induction n with
  | zero => simp
  | succ n ih =>
    rw [List.replicate_succ', ← List.append_assoc]
    unfold runOps at ih ⊢
    rw [List.foldl_append, ih]
    decide

/-! ## C04 — exactness for runs to completion -/

/-- failed or canceled -/
@[reducible] def BadOutcome (rc : Int) (st : RowStatus) : Prop := rc ≠ 0 ∨ st = RowStatus.canceled

/-- **Node-level exactness** on any drained queue (any interleaving that leaves nothing outstanding or
    queued): job `j` is canceled ⇔ it is flagged and some blocker's outcome is failed or canceled. -/
theorem canceled_iff (d : Nat) (ops : List Op) (hd : Distinct ops) (hdr : Drained (runOps d ops)) :
    ∀ h ∈ handedOf ops,
      ((h.id, cancelRc, RowStatus.canceled) ∈ (runOps d ops).rows ↔
        (h.cancelFlag = true ∧ ∃ b ∈ h.blockers, ∃ rc st, (b, rc, st) ∈ (runOps d ops).rows ∧ BadOutcome rc st)) := by
  obtain ⟨g, -, -, hh, -⟩ := good_runOps d ops hd
  intro h hm
  have hx : h ∈ (runOps d ops).handed := hh ▸ hm
  have := g.canceled_iff hx (g.all_rows hdr h hx)
  unfold QState.rows
  rw [mem_rowsOf, this]
  constructor
  · rintro ⟨hf, b, hb, rc, st, h1, h2⟩
    refine ⟨hf, b, hb, rc, st, mem_rowsOf.2 h1, ?_⟩
    rcases h2 with h2 | h2
    · exact .inl ((failedCode_iff _).1 h2)
    · exact .inr h2
  · rintro ⟨hf, b, hb, rc, st, h1, h2⟩
    refine ⟨hf, b, hb, rc, st, mem_rowsOf.1 h1, ?_⟩
    rcases h2 with h2 | h2
    · exact .inl ((failedCode_iff _).2 h2)
    · exact .inr h2

/-- every job of a drained queue has exactly one row -/
theorem run_complete (d : Nat) (ops : List Op) (hd : Distinct ops) (hdr : Drained (runOps d ops)) :
    ∀ h ∈ handedOf ops, ∃ rc st, (h.id, rc, st) ∈ (runOps d ops).rows ∧
      ∀ rc' st', (h.id, rc', st') ∈ (runOps d ops).rows → rc' = rc ∧ st' = st := by
  obtain ⟨g, -, -, hh, -⟩ := good_runOps d ops hd
  intro h hm
  obtain ⟨rc, st, hr⟩ := g.all_rows hdr h (hh ▸ hm)
  exact ⟨rc, st, mem_rowsOf.2 hr, fun rc' st' h' => g.logOk.row_unique (mem_rowsOf.1 h') hr⟩

/-- a job without the flag is started and gets its real exit code, whatever its blockers' outcomes -/
theorem unflagged_runs (d : Nat) (ops : List Op) (hd : Distinct ops) (hdr : Drained (runOps d ops)) :
    ∀ h ∈ handedOf ops, h.cancelFlag = false →
      h.id ∈ (runOps d ops).starts ∧
      ∃ rc, (h.id, rc, RowStatus.finished) ∈ (runOps d ops).rows ∧
        ∃ evs, Op.processQueue evs ∈ ops ∧ ∃ ev ∈ evs, ev.lookup h.id = some rc := by
  obtain ⟨g, -, -, hh, -⟩ := good_runOps d ops hd
  intro h hm hf
  have hx : h ∈ (runOps d ops).handed := hh ▸ hm
  obtain ⟨rc, st, hr⟩ := g.all_rows hdr h hx
  cases st with
  | canceled =>
    have := (g.canceled_sound hx hr).1
    rw [hf] at this; cases this
  | finished =>
    have := exit_row_is_real d ops hd h.id rc (mem_rowsOf.2 hr)
    exact ⟨this.1, rc, mem_rowsOf.2 hr, this.2⟩

/-- the polls of a schedule deliver the exit codes `rcOf` -/
@[reducible] def SchedOk (rcOf : JobId → Int) (sched : List (List Poll)) : Prop :=
  ∀ evs ∈ sched, ∀ ev ∈ evs, ∀ j rc, ev.lookup j = some rc → rc = rcOf j

/-- `wait`'s assertion `_num_completed == _num_jobs` never fails: `run` cannot raise it -/
theorem wait_assertion_holds (d : Nat) (jobs : List Job) (sched : List (List Poll))
    (hn : (jobs.map (·.id)).Nodup) : ∃ r, runAll d jobs sched = .ok r := by
  obtain ⟨r, _, h, -⟩ := runAll_ok d jobs sched hn
  exact ⟨r, h⟩

/-- …and when the queue drains the two counters agree (the assertion, stated on the state) -/
theorem drained_counts_agree (d : Nat) (ops : List Op) (hd : Distinct ops) (hdr : Drained (runOps d ops)) :
    (runOps d ops).numCompleted = (runOps d ops).numJobs := by
  obtain ⟨-, c, -⟩ := good_runOps d ops hd
  simp only [Counted, hdr.1, List.length_nil] at c
  omega

/-- **The rows of a completed `JobQueue.run` are the reference evaluation** of the batch (all blockers inside
    the batch, acyclic): exactly one row per job, canceled with code 1 where `ref` says so, else finished
    with the job's exit code. -/
theorem rows_eq_ref (d : Nat) (jobs : List Job) (sched : List (List Poll)) (rcOf : JobId → Int)
    (hn : (jobs.map (·.id)).Nodup) (hca : ClosedAcyclic jobs) (hs : SchedOk rcOf sched)
    (r : RunOut) (hr : runAll d jobs sched = .ok r) (hdr : r.drained = true) :
    ∀ j rc st, (j, rc, st) ∈ r.final.rows ↔ (∃ x ∈ jobs, x.id = j ∧ (rc, st) = ref jobs rcOf j) := by
  obtain ⟨r', k, hr', hfin, hdrained⟩ := runAll_ok d jobs sched hn
  rw [hr] at hr'; cases hr'
  have hdist : Distinct (runOpsOf jobs sched k) := by
    show ((handedOf (runOpsOf jobs sched k)).map (·.id)).Nodup
    rw [handedOf_runOpsOf]; exact hn
  obtain ⟨g, -, -, hh, -⟩ := good_runOps d _ hdist
  rw [handedOf_runOpsOf] at hh
  have hD := hdrained hdr
  rw [hfin] at hD ⊢
  have hrc : RcOk rcOf (runOps d (runOpsOf jobs sched k)) :=
    rowsFrom_runOps (fun j rc => rc = rcOf j) d _
      (fun evs hevs ev hev j rc hl => hs evs (mem_runOpsOf_pq hevs) ev hev j rc hl)
  obtain ⟨rank, hrank⟩ := hca.ranked
  have href : ∀ x ∈ jobs, Ev.row x.id (ref jobs rcOf x.id).1 (ref jobs rcOf x.id).2 ∈
      (runOps d (runOpsOf jobs sched k)).log := by
    intro x hx
    have := g.rows_ref hD rcOf hrc rank (by rw [hh]; exact hca.closed)
      (by rw [hh]; exact fun x hx => (hrank x hx).2) jobs.length x (by rw [hh]; exact hx)
      (hrank x hx).1
    rw [hh] at this
    exact this
  intro j rc st
  constructor
  · intro hm
    have hm' := mem_rowsOf.1 hm
    obtain ⟨x, hx, hxe⟩ := g.logOk.mem_handed _ hm'
    rw [hh] at hx
    have hxe' : x.id = j := hxe
    refine ⟨x, hx, hxe', ?_⟩
    have := g.logOk.row_unique hm' (hxe' ▸ href x hx)
    rw [this.1, this.2]
  · rintro ⟨x, hx, rfl, he⟩
    have := href x hx
    rw [← he] at this
    exact mem_rowsOf.2 this

/-- **Independence of schedule and depth**: two completed runs of the same batch, under any two depths and
    any two schedules delivering the same exit codes, record the same rows. -/
theorem run_independent_of_schedule (d1 d2 : Nat) (jobs : List Job) (sched1 sched2 : List (List Poll))
    (rcOf : JobId → Int) (hn : (jobs.map (·.id)).Nodup) (hca : ClosedAcyclic jobs)
    (hs1 : SchedOk rcOf sched1) (hs2 : SchedOk rcOf sched2)
    (r1 r2 : RunOut) (hr1 : runAll d1 jobs sched1 = .ok r1) (hr2 : runAll d2 jobs sched2 = .ok r2)
    (hd1 : r1.drained = true) (hd2 : r2.drained = true) :
    ∀ row, row ∈ r1.final.rows ↔ row ∈ r2.final.rows := by
  rintro ⟨j, rc, st⟩
  rw [rows_eq_ref d1 jobs sched1 rcOf hn hca hs1 r1 hr1 hd1, rows_eq_ref d2 jobs sched2 rcOf hn hca hs2 r2 hr2 hd2]

/-- node-level exactness of a completed `JobQueue.run`, in one statement -/
theorem run_canceled_iff (d : Nat) (jobs : List Job) (sched : List (List Poll))
    (hn : (jobs.map (·.id)).Nodup) (r : RunOut) (hr : runAll d jobs sched = .ok r) (hdr : r.drained = true) :
    ∀ h ∈ jobs,
      ((h.id, cancelRc, RowStatus.canceled) ∈ r.final.rows ↔
        (h.cancelFlag = true ∧ ∃ b ∈ h.blockers, ∃ rc st, (b, rc, st) ∈ r.final.rows ∧ BadOutcome rc st)) ∧
      (h.cancelFlag = false → h.id ∈ r.final.starts ∧ ∃ rc, (h.id, rc, RowStatus.finished) ∈ r.final.rows) ∧
      (∃ rc st, (h.id, rc, st) ∈ r.final.rows) := by
  obtain ⟨r', k, hr', hfin, hdrained⟩ := runAll_ok d jobs sched hn
  rw [hr] at hr'; cases hr'
  have hdist : Distinct (runOpsOf jobs sched k) := by
    show ((handedOf (runOpsOf jobs sched k)).map (·.id)).Nodup
    rw [handedOf_runOpsOf]; exact hn
  have hD := hdrained hdr
  rw [hfin] at hD ⊢
  intro h hm
  have hm' : h ∈ handedOf (runOpsOf jobs sched k) := by rw [handedOf_runOpsOf]; exact hm
  refine ⟨canceled_iff d _ hdist hD h hm', ?_, ?_⟩
  · intro hf
    obtain ⟨h1, rc, h2, -⟩ := unflagged_runs d _ hdist hD h hm' hf
    exact ⟨h1, rc, h2⟩
  · obtain ⟨rc, st, h1, -⟩ := run_complete d _ hdist hD h hm'
    exact ⟨rc, st, h1⟩

/-- **`JobQueue.run` never gets stuck** (batch with all blockers inside and acyclic, depth ≥ 1): after every
    `process_queue` call of `wait`'s loop, either some job process is still running or the queue is empty —
    so `wait` keeps looping only while a process has not exited, and every job whose blockers have outcomes
    is started (unflagged) or canceled (flagged, bad blocker) as soon as a worker is free. -/
theorem run_never_stuck (d : Nat) (jobs : List Job) (sched : List (List Poll)) (k : Nat) (evs : List Poll)
    (hn : (jobs.map (·.id)).Nodup) (hca : ClosedAcyclic jobs) (hd : 1 ≤ d) :
    (processQueue evs (runOps d (runOpsOf jobs sched k))).outstanding = [] →
      (processQueue evs (runOps d (runOpsOf jobs sched k))).queued = [] := by
  have hdist : Distinct (runOpsOf jobs sched k) := by
    show ((handedOf (runOpsOf jobs sched k)).map (·.id)).Nodup
    rw [handedOf_runOpsOf]; exact hn
  obtain ⟨g, c, -, hh, hdep⟩ := good_runOps d _ hdist
  rw [handedOf_runOpsOf] at hh
  obtain ⟨rank, hrank⟩ := hca.ranked
  exact never_stuck evs g c (fresh_run d jobs sched k) (by rw [hdep]; exact hd)
    (by rw [hh]; exact hca.closed) rank (by rw [hh]; exact fun x hx => (hrank x hx).2)

/-- **`JobQueue.run` returns once the processes do**: whatever the polls `pre` did, if from then on every poll
    reports every job's process as exited (`ev`), `len(jobs) + 2` more polls drain the queue and `wait`
    returns — so the `drained` hypothesis of the exactness theorems is met by every such schedule. -/
theorem run_drains (d : Nat) (jobs : List Job) (pre : List (List Poll)) (ev : Poll)
    (hn : (jobs.map (·.id)).Nodup) (hca : ClosedAcyclic jobs) (hd : 1 ≤ d)
    (hfull : ∀ x ∈ jobs, ∃ rc, ev.lookup x.id = some rc) :
    ∃ r, runAll d jobs (pre ++ List.replicate (jobs.length + 2) [ev]) = .ok r ∧ r.drained = true := by
  obtain ⟨rank, hrank⟩ := hca.ranked
  have haux := run_drains_aux d jobs rank ev pre hn hd hca.closed (fun x hx => (hrank x hx).2) hfull
  obtain ⟨r, _, hr, -, -⟩ := runAll_ok d jobs (pre ++ List.replicate (jobs.length + 2) [ev]) hn
  refine ⟨r, hr, ?_⟩
  unfold runAll at hr
  simp only [] at hr
  split at hr
  · cases hr
  · cases hr; exact haux

/-! ## C06 — processes per node -/

/-- **At most `depth` job processes at once**, at every point of every operation sequence: the entries of
    `outstanding` are running processes, at most `depth` of them; and the processes that were launched
    and whose exit has not been recorded (`liveProcs`, read off the logs) number at most `depth`. -/
theorem running_le_depth (d : Nat) (ops : List Op) (hd : Distinct ops) :
    (∀ o ∈ (runOps d ops).outstanding, o.st = St.running) ∧
    (runOps d ops).outstanding.length ≤ d ∧
    (liveProcs (runOps d ops)).length ≤ d := by
  obtain ⟨g, -, t, -, hdep⟩ := good_runOps d ops hd
  have h1 := g.live_le t
  have h2 := g.liveProcs_le
  rw [hdep] at h1 h2
  exact ⟨t, h1, h2⟩

/-- …also inside a `_check_completions` call, after any number `k` of passes of the rerun loop, where
    canceled placeholders sit in `outstanding`: real (non-placeholder) entries ≤ depth, live processes ≤
    depth, and `len(outstanding)` = real entries + placeholders ≤ depth + placeholders. -/
theorem running_le_depth_during_check (d : Nat) (ops : List Op) (hd : Distinct ops) (evs : List Poll) (k : Nat) :
    let s := checkLoop k evs [] (runOps d ops)
    (s.outstanding.filter (fun o => o.st != St.canceled)).length ≤ d ∧
    (liveProcs s).length ≤ d ∧
    s.outstanding.length =
      (s.outstanding.filter (fun o => o.st != St.canceled)).length +
      (s.outstanding.filter (fun o => o.st == St.canceled)).length := by
  intro s
  obtain ⟨g, c, -, -, hdep⟩ := good_runOps d ops hd
  have g' := (good_checkLoop k evs [] (runOps d ops) g c (by simp)).1
  have hdep' : s.depth = d := (checkLoop_handed k evs [] (runOps d ops)).2.trans hdep
  have h1 := g'.live
  have h2 := g'.liveProcs_le
  rw [hdep'] at h1 h2
  refine ⟨h1, h2, ?_⟩
  generalize s.outstanding = l
  induction l with
  | nil => rfl
  | cons o l ih => cases hs : o.st <;> simp [hs] <;> omega

/-- `available_jobs` is never negative where `process_queue` computes it (the equality test `== 0` is
    therefore as good as `<= 0`) -/
theorem available_nonneg (d : Nat) (ops : List Op) (hd : Distinct ops) (evs : List Poll) :
    0 ≤ availableJobs (checkCompletions evs (runOps d ops)).depth (checkCompletions evs (runOps d ops)).outIds := by
  obtain ⟨g, c, -, -, -⟩ := good_runOps d ops hd
  obtain ⟨g1, -, t1⟩ := good_checkCompletions evs g c
  exact avail_nonneg g1 t1

/-- the depth `JobRunner._run_jobs` passes: min(number of jobs, configured processes per node — or the
    node's CPU count when unset) -/
theorem workers_eq_min (numJobs : Nat) (numProcs : Option Nat) (cpus : Nat) :
    workers numJobs numProcs cpus = min numJobs (numProcs.getD cpus) := by
  simp [workers, numWorkers_eq, maxNumWorkers_eq]

/-- a node run never has more live job processes than configured (or than CPUs when unset) -/
theorem runNode_running_le_configured (numProcs : Option Nat) (cpus : Nat) (jobs : List Job)
    (sched : List (List Poll)) (hn : (jobs.map (·.id)).Nodup) :
    ∃ r, runNode numProcs cpus jobs sched = .ok r ∧ r.final.depth = min jobs.length (numProcs.getD cpus) ∧
      (liveProcs r.final).length ≤ numProcs.getD cpus ∧ r.final.outstanding.length ≤ numProcs.getD cpus := by
  obtain ⟨r, k, hr, hfin, -⟩ := runAll_ok (workers jobs.length numProcs cpus) jobs sched hn
  have hdist : Distinct (runOpsOf jobs sched k) := by
    show ((handedOf (runOpsOf jobs sched k)).map (·.id)).Nodup
    rw [handedOf_runOpsOf]; exact hn
  have := running_le_depth (workers jobs.length numProcs cpus) _ hdist
  have hdep := (good_runOps (workers jobs.length numProcs cpus) _ hdist).2.2.2.2
  have hw := workers_eq_min jobs.length numProcs cpus
  have hle : workers jobs.length numProcs cpus ≤ numProcs.getD cpus := by
    rw [hw]; exact Nat.min_le_right _ _
  refine ⟨r, hr, by rw [hfin, hdep, hw], ?_, ?_⟩
  · rw [hfin]; exact Nat.le_trans this.2.2 hle
  · rw [hfin]; exact Nat.le_trans this.2.1 hle

/-! ## Non-vacuity -/

/-- a cancel chain of length 3, listed against the dependency order, resolved inside ONE call;
    the unflagged dependent of the failed job runs -/
example : (runOps 2 [.submit ⟨0, [], false⟩, .submit ⟨3, [2], true⟩, .submit ⟨2, [1], true⟩,
      .submit ⟨1, [0], true⟩, .submit ⟨4, [0], false⟩, .processQueue [[(0, 2)]]]).rows =
    [(0, 2, .finished), (1, 1, .canceled), (2, 1, .canceled), (3, 1, .canceled)] := by decide

example : (runOps 2 [.submit ⟨0, [], false⟩, .submit ⟨3, [2], true⟩, .submit ⟨2, [1], true⟩,
      .submit ⟨1, [0], true⟩, .submit ⟨4, [0], false⟩, .processQueue [[(0, 2)]]]).starts = [0, 4] := by decide

/-- a diamond: 3 is blocked by 1 (fails) and 2 (succeeds) -/
def diamond : List Job := [⟨0, [], false⟩, ⟨1, [0], true⟩, ⟨2, [0], true⟩, ⟨3, [1, 2], true⟩, ⟨4, [3], false⟩]
def diamondRc : JobId → Int := fun j => if j = 1 then 1 else 0
def diamondSched : List (List Poll) := List.replicate 6 [[(0, 0), (1, 1), (2, 0), (3, 0), (4, 0)]]

example : (runAll 1 diamond diamondSched).toOption.map (fun r => (r.drained, r.final.rows, r.final.starts)) =
    some (true, [(0, 0, .finished), (1, 1, .finished), (3, 1, .canceled), (2, 0, .finished), (4, 0, .finished)],
      [0, 1, 2, 4]) := by
  decide

/-- depth 1 and depth 3 write the rows in different orders, but the same rows — those of `ref` -/
example : (runAll 3 diamond diamondSched).toOption.map (fun r => (r.drained, r.final.rows, r.final.starts)) =
    some (true, [(0, 0, .finished), (1, 1, .finished), (2, 0, .finished), (3, 1, .canceled), (4, 0, .finished)],
      [0, 1, 2, 4]) := by
  decide

example : diamond.map (fun x => (x.id, ref diamond diamondRc x.id)) =
    [(0, 0, .finished), (1, 1, .finished), (2, 0, .finished), (3, 1, .canceled), (4, 0, .finished)] := by decide

example : ClosedAcyclic diamond :=
  ⟨by decide, ⟨id, by decide⟩⟩

/-- a process that exits between two passes of one call is seen by the second pass -/
example : (runOps 3 [.submit ⟨0, [], false⟩, .submit ⟨1, [], false⟩, .submit ⟨2, [0], true⟩,
      .processQueue [[(0, 1)], [(1, 0)]]]).rows = [(0, 1, .finished), (2, 1, .canceled), (1, 0, .finished)] := by
  decide

/-- the queue is full at depth 1: the second job waits although nothing blocks it -/
example : (runOps 1 [.submit ⟨0, [], false⟩, .submit ⟨1, [], false⟩]).starts = [0] := by decide

/-- Not reachable on a compute node (see `available_nonneg`), but what the equality test `available_jobs == 0`
    would do if `outstanding` ever exceeded the depth (e.g. `existing_jobs` longer than the depth): the test is
    false for a negative value, the first unblocked queued job is started, and the break test stops the loop
    only afterwards — one more process on an over-full queue. -/
def overfull : QState :=
  { depth := 1, outstanding := [⟨7, St.running⟩, ⟨8, St.running⟩],
    queued := [⟨0, [], false⟩, ⟨1, [], false⟩], numJobs := 2, numCompleted := 0,
    handed := [⟨7, [], false⟩, ⟨8, [], false⟩, ⟨0, [], false⟩, ⟨1, [], false⟩],
    log := [Ev.start 7, Ev.start 8] }

example : (processQueue [] overfull).outIds = [7, 8, 0] := by decide

example : workers 5 none 36 = 5 ∧ workers 50 none 36 = 36 ∧ workers 50 (some 4) 36 = 4 := by decide

end Jade.QueueProps
