import JadeModel.Model.Replica
import JadeModel.Props.Queue
import Std.Data.String.ToNat

/-!
Theorems about multi-node allocations (`Model/Replica.lean`), for every number of nodes, every batch and every
schedule of every node's queue.  Used by C03 / C08 (one row per job whatever the allocation size), C01 (each node
launches a job at most once) and C16 (the node lifecycle statements do not depend on the node id).
-/

namespace Jade.Replica
open Jade.Queue Jade.Gen.Queue Jade.QueueProps

theorem nodeId_zero_iff (i : Nat) : (nodeIdOf i == "0") = (i == 0) := by
  have h0 : Nat.repr 0 = "0" := by decide
  unfold nodeIdOf
  by_cases h : i = 0
  · subst h; decide
  · have hne : Nat.repr i ≠ "0" := by
      intro he
      exact h (Nat.repr_inj.1 (he.trans h0.symm))
    have h1 : (Nat.repr i == "0") = false := by simpa using hne
    have h2 : (i == 0) = false := by simpa using h
    show (Nat.repr i == "0") = (i == 0)
    rw [h1, h2]

/-- which node is the manager: exactly node 0 (from the generated `am_i_manager`) -/
theorem manager_iff (base : Jade.Gen.Command.Ctx) (i : Nat) : (nodeCtx base i).isManager = (i == 0) := by
  simp [nodeCtx, Jade.Gen.Replica.amIManager, nodeId_zero_iff]

/-- a non-manager node records nothing, whatever its queue did -/
theorem worker_records_nothing (base : Jade.Gen.Command.Ctx) (i : Nat) (hi : i ≠ 0) (log : List Ev) :
    recorded (nodeCtx base i) log = [] := by
  have hm : (nodeCtx base i).isManager = false := by rw [manager_iff]; simpa using hi
  unfold recorded
  rw [List.filter_eq_nil_iff]
  intro r _
  cases h : r.2.2 <;> simp [records, Jade.Gen.Command.completeRecords, Jade.Gen.Command.cancelRecords, hm]

/-- the manager node records every row of its queue -/
theorem manager_records_all (base : Jade.Gen.Command.Ctx) (log : List Ev) :
    recorded (nodeCtx base 0) log = rowsOf log := by
  have hm : (nodeCtx base 0).isManager = true := by rw [manager_iff]; rfl
  unfold recorded
  rw [List.filter_eq_self]
  intro r _
  cases h : r.2.2 <;> simp [records, Jade.Gen.Command.completeRecords, Jade.Gen.Command.cancelRecords, hm]

theorem recordedFrom_pos (base : Jade.Gen.Command.Ctx) (i : Nat) (hi : i ≠ 0) (a : Allocation) :
    recordedFrom base i a = [] := by
  induction a generalizing i with
  | nil => rfl
  | cons log rest ih =>
    simp [recordedFrom, worker_records_nothing base i hi, ih (i + 1) (by omega)]

/-- **What an allocation of any size records is what its manager node's queue logged**, nothing more. -/
theorem allocation_rows_eq_manager (base : Jade.Gen.Command.Ctx) (mgr : List Ev) (workers : Allocation) :
    allocationRows base (mgr :: workers) = rowsOf mgr := by
  simp [allocationRows, recordedFrom, manager_records_all, recordedFrom_pos]

/-- an allocation without nodes records nothing (never produced by an accepted `sbatch`) -/
theorem allocation_rows_nil (base : Jade.Gen.Command.Ctx) : allocationRows base [] = [] := rfl

/-- **One row per job whatever the number of nodes**: when every node's queue ran the batch's operations (each under
    its own schedule `opsOf i`, its own depth), the job column of everything the allocation recorded is duplicate-free. -/
theorem allocation_row_at_most_once (base : Jade.Gen.Command.Ctx) (d : Nat) (ops : List Op) (hd : Distinct ops)
    (workers : Allocation) :
    ((allocationRows base ((runOps d ops).log :: workers)).map (·.1)).Nodup := by
  rw [allocation_rows_eq_manager]
  exact row_at_most_once d ops hd

/-- …and when the manager's queue drained, every job of the batch has exactly one recorded row -/
theorem allocation_run_complete (base : Jade.Gen.Command.Ctx) (d : Nat) (ops : List Op) (hd : Distinct ops)
    (hdr : Drained (runOps d ops)) (workers : Allocation) :
    ∀ h ∈ handedOf ops, ∃ rc st, (h.id, rc, st) ∈ allocationRows base ((runOps d ops).log :: workers) ∧
      ∀ rc' st', (h.id, rc', st') ∈ allocationRows base ((runOps d ops).log :: workers) → rc' = rc ∧ st' = st := by
  rw [allocation_rows_eq_manager]
  exact run_complete d ops hd hdr

/-- each node launches each job at most once (its queue is the queue of `Model/Queue.lean`) -/
theorem node_launches_at_most_once (d : Nat) (ops : List Op) (hd : Distinct ops) (a : Allocation) (i : Nat)
    (hi : a.getD i [] = (runOps d ops).log) : (launchesOn a i).Nodup := by
  unfold launchesOn; rw [hi]; exact started_at_most_once d ops hd

/-- the node lifecycle statements of `JobRunner.run_jobs` are guarded by the configuration only (generated) -/
theorem node_hooks_on_every_node : Jade.Gen.Replica.nodeHooksOnEveryNode = true := by decide

/-- the runner hands the scheduler interface's answer to every job as its manager flag (generated) -/
theorem runner_flag_is_am_i_manager : Jade.Gen.Replica.runnerManagerFlag = "self._intf.am_i_manager()" := by decide

/-- the manager test and the node's name inside the allocation read the same variable (generated) -/
theorem manager_var_is_node_id : Jade.Gen.Replica.managerVar = Jade.Gen.Replica.nodeIdVar := by decide

/-! non-vacuity: a three-node allocation whose nodes all logged a finished and a canceled row records two rows -/
example : allocationRows ⟨"j", "c", "o", none, 1, false, 0⟩
    [[.start 0, .row 0 3 .finished, .row 1 1 .canceled], [.start 0, .row 0 3 .finished, .row 1 1 .canceled],
     [.start 0, .row 0 3 .finished, .row 1 1 .canceled]] = [(0, 3, .finished), (1, 1, .canceled)] := by decide

end Jade.Replica
