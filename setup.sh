#!/bin/bash
# MANIFEST.setup_cmd: build the framework from files on disk only (offline).
set -e
here="$(cd "$(dirname "$0")" && pwd)"
cd "$here"
export JADE_SRC="${JADE_SRC:-/repo}"
python3 tools/extract.py
python3 tools/gen_lean_index.py
cd lean
lake build JadeModel drv 2>&1 | tail -5
test -x .lake/build/bin/drv
echo "setup ok"
