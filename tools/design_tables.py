#!/usr/bin/env python3
"""Regenerate the generated blocks of DESIGN.md from seeded/RESULTS.json (seed -> {"Cxx:tier": {exit, lines}})."""
import json, re, os
V = os.path.dirname(os.path.dirname(os.path.abspath(__file__)))
res = json.load(open(os.path.join(V, 'seeded', 'RESULTS.json')))
rows = []
for sid in sorted(res):
    meta = json.load(open(os.path.join(V, 'seeded', sid, 'meta.json')))
    first = meta['needs_to_manifest'].splitlines()[0].lstrip('# ').strip()
    cells = []
    for key in sorted(res[sid]):
        r = res[sid][key]
        lines = [l for l in r.get('lines', []) if l.startswith('VIOLATION')]
        if r['exit'] == 1 and lines:
            kind = 'tie' if all('no-failing-input-found' in l for l in lines) else 'oracle'
        elif r['exit'] == 1:
            kind = 'oracle'      # exit 1 is only given for a violation that is not a known finding (lines beyond the stored ones)
        elif r['exit'] == 0:
            kind = 'missed'
        else:
            kind = f"exit {r['exit']}"
        cells.append(f"{key.replace(':', ' ')}: **{kind}**")
    rows.append(f"| {sid} | {first[:110]} | {'; '.join(cells)} |")
def _kind(r):
    lines = [l for l in r.get('lines', []) if l.startswith('VIOLATION')]
    if r['exit'] == 1 and lines:
        return 'tie' if all('no-failing-input-found' in l for l in lines) else 'oracle'
    return 'oracle' if r['exit'] == 1 else ('missed' if r['exit'] == 0 else 'other')
own = {'oracle': 0, 'tie': 0, 'missed': 0, 'other': 0}
anyk = {'oracle': 0, 'tie': 0, 'missed': 0}
for sid in sorted(res):
    prop = sid.split('-')[0]
    kinds = {k.split(':')[0]: _kind(v) for k, v in res[sid].items()}
    own[kinds.get(prop, 'other')] += 1
    best = 'oracle' if 'oracle' in kinds.values() else ('tie' if 'tie' in kinds.values() else 'missed')
    anyk[best] += 1
summary = (f"\n\nTotals over {len(res)} seeds — check of the seed's own property (quick tier): {own['oracle']} concrete failing input, "
           f"{own['tie']} tie only, {own['missed']} missed; counting the checks of other properties that were also run on the "
           f"seeds missed by their own: {anyk['oracle']} concrete, {anyk['tie']} tie only, {anyk['missed']} missed by every check run.")
table = "| seed | change (first line of its README) | checks run → outcome |\n|---|---|---|\n" + "\n".join(rows) + summary
p = os.path.join(V, 'DESIGN.md')
s = open(p).read()
s = re.sub(r"<!-- BEGIN GENERATED:seeds -->.*?<!-- END GENERATED:seeds -->",
           "<!-- BEGIN GENERATED:seeds -->\n" + table + "\n<!-- END GENERATED:seeds -->", s, flags=re.S)
open(p, 'w').write(s)
print(len(rows), "rows")

# ---- per-property table from the registry + the last evidence
import sys
sys.path.insert(0, os.path.join(V, 'harness'))
import registry
prow = []
for pid in sorted(registry.PROPS):
    P = registry.PROPS[pid]
    try:
        ev = json.load(open(os.path.join(V, 'evidence', pid + '.json')))
        cov = ev['coverage']
        nthm = len(cov.get('theorems', []))
        evals = cov.get('evaluations')
        sites = len(cov.get('translator_sites', []))
    except Exception:
        nthm = evals = sites = '?'
    partial = 'partial' if 'PARTIAL' in P['level_text'] else 'full'
    prow.append(f"| {pid} | `{P['module'].replace('JadeModel.', '')}` | {nthm} | {sites} | {', '.join(P['suites'])} | {evals} | {partial} |")
ptable = ("| property | theorem module | theorems audited | translator sites | suites (correspondence + oracle) | evaluations (last run) | statement carried by theorems |\n"
          "|---|---|---|---|---|---|---|\n" + "\n".join(prow))
s = open(p).read()
s = re.sub(r"<!-- BEGIN GENERATED:props -->.*?<!-- END GENERATED:props -->",
           "<!-- BEGIN GENERATED:props -->\n" + ptable + "\n<!-- END GENERATED:props -->", s, flags=re.S)
open(p, 'w').write(s)
print(len(prow), "properties")
