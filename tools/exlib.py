#!/usr/bin/env python3
"""Translator: /repo/jade/**/*.py  ->  lean/JadeModel/Gen/*.lean

Runs first in every check, on the *working tree* ($JADE_SRC, default /repo).  It extracts
 (i) declarative tables / constants and
 (ii) side-effect-free decision predicates (boolean / arithmetic expressions at designated
      sites), translated by a small expression translator into Lean definitions.
The hand-written control-flow skeletons of JadeModel/Model call these definitions, so a
changed comparison, table entry or condition changes the Lean terms the theorems are about.

An unexpected AST shape at a site is never skipped silently: the site is recorded as
`stale` in extract_report.json, the definition falls back to the committed baseline text
(tools/gen_baseline.json), and ./check treats every property that depends on the site as
"tie broken" (failing-input search, then VIOLATION).

This module holds the AST helpers and the expression translator; the sites live in
tools/sites/*.py (one module per Gen file group), extract.py is the entry point.
"""
import ast
import json
import os
import sys
from pathlib import Path

HERE = Path(__file__).resolve().parent
SRC = Path(os.environ.get("JADE_SRC", "/repo"))
OUT = HERE.parent / "lean" / "JadeModel" / "Gen"
BASELINE_DIR = HERE / "baseline"


class SiteError(Exception):
    pass


# ----------------------------------------------------------------------------------------
# AST helpers
# ----------------------------------------------------------------------------------------
_mods = {}


def module(rel):
    if rel not in _mods:
        p = SRC / rel
        try:
            _mods[rel] = ast.parse(p.read_text())
        except (OSError, SyntaxError) as e:
            raise SiteError(f"cannot parse {rel}: {e}")
    return _mods[rel]


def find_def(rel, qual):
    """qual = 'Class.method' or 'function'"""
    node = module(rel)
    for part in qual.split("."):
        found = None
        for ch in node.body:
            if isinstance(ch, (ast.FunctionDef, ast.ClassDef)) and ch.name == part:
                found = ch
                break
        if found is None:
            raise SiteError(f"{rel}: {qual} not found")
        node = found
    return node


def walk_stmts(node):
    """All statements of a function, pre-order, not descending into nested defs."""
    for st in node.body:
        yield from _walk_stmt(st)


def _walk_stmt(st):
    yield st
    for field in ("body", "orelse", "finalbody"):
        for ch in getattr(st, field, []) or []:
            if isinstance(ch, (ast.FunctionDef, ast.ClassDef)):
                continue
            yield from _walk_stmt(ch)
    for h in getattr(st, "handlers", []) or []:
        for ch in h.body:
            yield from _walk_stmt(ch)


def src(node):
    return ast.unparse(node)


def local_names(fn):
    """names bound inside a function (parameters, assignment / loop / with / except targets), not descending into nested defs"""
    out = {a.arg for a in fn.args.posonlyargs + fn.args.args + fn.args.kwonlyargs}
    out |= {a.arg for a in (fn.args.vararg, fn.args.kwarg) if a is not None}
    for st in walk_stmts(fn):
        for n in ast.walk(st):
            if isinstance(n, ast.Name) and isinstance(n.ctx, ast.Store):
                out.add(n.id)
            elif isinstance(n, ast.ExceptHandler) and n.name:
                out.add(n.name)
    return out


def rename_locals(fn, mapping):
    """A copy of function `fn` with its local variables renamed by `mapping` {old: new} (alpha-renaming: the renamed
    function behaves identically).  Used to match statements textually whatever a local happens to be called.
    SiteError if a new name would capture another local of the function."""
    mapping = {a: b for a, b in mapping.items() if a != b}
    if not mapping:
        return fn
    locs = local_names(fn)
    if len(set(mapping.values())) != len(mapping):
        raise SiteError(f"{fn.name}: two locals play the same role: {mapping}")
    for a, b in mapping.items():
        if a not in locs:
            raise SiteError(f"{fn.name}: {a} is not a local")
        if b in locs and b not in mapping:
            raise SiteError(f"{fn.name}: cannot rename {a} to {b}: {b} is another local")
    import copy
    fn2 = copy.deepcopy(fn)

    class R(ast.NodeTransformer):
        def visit_Name(self, n):
            if n.id in mapping:
                n.id = mapping[n.id]
            return n

        def visit_FunctionDef(self, n):
            return n if n is not fn2 else self.generic_visit(n)

        def visit_Lambda(self, n):
            return n
    R().visit(fn2)
    return fn2


def class_assign(rel, cls, name):
    c = find_def(rel, cls)
    for st in c.body:
        if isinstance(st, ast.Assign) and len(st.targets) == 1 and src(st.targets[0]) == name:
            return st.value
    raise SiteError(f"{rel}: {cls}.{name} not found")


def assigns(fn, target):
    return [s for s in walk_stmts(fn) if isinstance(s, ast.Assign) and len(s.targets) == 1 and src(s.targets[0]) == target]


def ifs(fn):
    return [s for s in walk_stmts(fn) if isinstance(s, ast.If)]


def whiles(fn):
    return [s for s in walk_stmts(fn) if isinstance(s, ast.While)]


def the(lst, what, n=1):
    if len(lst) != n:
        raise SiteError(f"expected {n} x {what}, found {len(lst)}")
    return lst[0] if n == 1 else lst


def if_with_test(fn, pred, what):
    m = [s for s in ifs(fn) if pred(src(s.test))]
    return the(m, what)


# ----------------------------------------------------------------------------------------
# Lean rendering helpers
# ----------------------------------------------------------------------------------------
def lstr(s):
    out = ['"']
    for ch in s:
        if ch == '"':
            out.append('\\"')
        elif ch == "\\":
            out.append("\\\\")
        elif ch == "\n":
            out.append("\\n")
        elif ch == "\t":
            out.append("\\t")
        elif 32 <= ord(ch) < 127:
            out.append(ch)
        else:
            out.append("\\u{%x}" % ord(ch))
    out.append('"')
    return "".join(out)


def llist(items):
    return "[" + ", ".join(items) + "]"


def pieces(node):
    """f-string / constant string -> Lean `List Piece`"""
    if isinstance(node, ast.Constant) and isinstance(node.value, str):
        return llist([f".lit {lstr(node.value)}"])
    if isinstance(node, ast.JoinedStr):
        out = []
        for v in node.values:
            if isinstance(v, ast.Constant):
                out.append(f".lit {lstr(v.value)}")
            elif isinstance(v, ast.FormattedValue):
                if v.format_spec is not None or v.conversion != -1:
                    raise SiteError(f"format spec in f-string {src(node)}")
                out.append(f".var {lstr(src(v.value))}")
            else:
                raise SiteError(f"f-string part {ast.dump(v)}")
        return llist(out)
    raise SiteError(f"not a string template: {src(node)}")


def const_str(node):
    if isinstance(node, ast.Constant) and isinstance(node.value, str):
        return node.value
    raise SiteError(f"not a string constant: {src(node)}")


def const_int(node):
    if isinstance(node, ast.Constant) and isinstance(node.value, int) and not isinstance(node.value, bool):
        return node.value
    raise SiteError(f"not an int constant: {src(node)}")


def enum_member(node, enum):
    """HpcJobStatus.QUEUED -> 'QUEUED'"""
    if isinstance(node, ast.Attribute) and src(node.value).split(".")[-1] == enum:
        return node.attr
    raise SiteError(f"not a member of {enum}: {src(node)}")


# ----------------------------------------------------------------------------------------
# Expression translator for decision predicates
# ----------------------------------------------------------------------------------------
class Tr:
    """Translate a Python expression to a Lean Bool/Int term.

    `env` maps the *source text* of a Python sub-expression (e.g. 'self._queue_depth',
    'len(self._outstanding_jobs)') to (lean_term, type) with type in
    {'bool','int','nat','list','opt','str','enum'}.  Look-up is tried on every sub-expression
    before structural translation, so whole calls can be mapped."""

    def __init__(self, env, calls=None):
        self.env = env
        self.calls = calls or {}

    def tr(self, node):
        key = src(node)
        if key in self.env:
            return self.env[key]
        m = getattr(self, "t_" + type(node).__name__, None)
        if m is None:
            raise SiteError(f"untranslatable {type(node).__name__}: {key}")
        return m(node)

    def truth(self, node):
        t, ty = self.tr(node)
        if ty == "bool":
            return t
        if ty in ("int", "nat"):
            return f"({t} != 0)"
        if ty == "list":
            return f"(!({t}).isEmpty)"
        if ty == "opt":
            return f"({t}).isSome"
        raise SiteError(f"no truthiness for {ty}: {src(node)}")

    def t_Constant(self, n):
        v = n.value
        if v is True:
            return ("true", "bool")
        if v is False:
            return ("false", "bool")
        if isinstance(v, int):
            return (f"({v} : Int)" if v < 0 else str(v), "nat")
        if isinstance(v, str):
            return (lstr(v), "str")
        raise SiteError(f"constant {v!r}")

    def t_BoolOp(self, n):
        op = " && " if isinstance(n.op, ast.And) else " || "
        return ("(" + op.join(self.truth(v) for v in n.values) + ")", "bool")

    # `not (a OP b)` is the same decision as `a OP' b` for every operand type this translator accepts
    # (ints, strings, enums, bools, lists, optionals: total orders, no NaN): translate the two spellings to the
    # same Lean term, so that `a != b` <-> `not a == b` (a harmless rewrite) does not change the generated text.
    _NEGATED = {ast.Eq: ast.NotEq, ast.NotEq: ast.Eq, ast.Lt: ast.GtE, ast.GtE: ast.Lt, ast.Gt: ast.LtE,
                ast.LtE: ast.Gt, ast.In: ast.NotIn, ast.NotIn: ast.In, ast.Is: ast.IsNot, ast.IsNot: ast.Is}

    def t_UnaryOp(self, n):
        if isinstance(n.op, ast.Not):
            inner = n.operand
            if (isinstance(inner, ast.Compare) and len(inner.ops) == 1 and src(inner) not in self.env
                    and type(inner.ops[0]) in self._NEGATED):
                flipped = ast.Compare(left=inner.left, ops=[self._NEGATED[type(inner.ops[0])]()],
                                      comparators=inner.comparators)
                return self.tr(ast.copy_location(flipped, inner))
            return (f"(!{self.truth(n.operand)})", "bool")
        if isinstance(n.op, ast.USub):
            t, ty = self.tr(n.operand)
            return (f"(-({t} : Int))", "int")
        raise SiteError(f"unary {src(n)}")

    def num(self, node, want_int):
        t, ty = self.tr(node)
        if ty not in ("int", "nat"):
            raise SiteError(f"not numeric ({ty}): {src(node)}")
        if want_int and ty == "nat":
            return f"(({t} : Nat) : Int)"
        return t

    def t_BinOp(self, n):
        ops = {ast.Add: "+", ast.Sub: "-", ast.Mult: "*"}
        if type(n.op) not in ops:
            raise SiteError(f"binop {src(n)}")
        lt, lty = self.tr(n.left)
        rt, rty = self.tr(n.right)
        if lty not in ("int", "nat") or rty not in ("int", "nat"):
            raise SiteError(f"non-numeric binop {src(n)}")
        # subtraction is always done in Int (Python ints do not truncate)
        is_int = lty == "int" or rty == "int" or isinstance(n.op, ast.Sub)
        l = self.num(n.left, is_int)
        r = self.num(n.right, is_int)
        return (f"({l} {ops[type(n.op)]} {r})", "int" if is_int else "nat")

    def t_Compare(self, n):
        if len(n.ops) != 1:
            raise SiteError(f"chained compare {src(n)}")
        op, a, b = n.ops[0], n.left, n.comparators[0]
        if isinstance(op, (ast.Is, ast.IsNot)):
            if not (isinstance(b, ast.Constant) and b.value is None):
                raise SiteError(f"is-compare {src(n)}")
            t, ty = self.tr(a)
            if ty != "opt":
                raise SiteError(f"`is None` on non-optional {src(a)}")
            return (f"({t}).isNone" if isinstance(op, ast.Is) else f"({t}).isSome", "bool")
        if isinstance(op, (ast.In, ast.NotIn)):
            at, _ = self.tr(a)
            if isinstance(b, ast.Tuple):
                elems = llist([self.tr(e)[0] for e in b.elts])
                t = f"({elems}).contains {at}"
            else:
                bt, bty = self.tr(b)
                if bty != "list":
                    raise SiteError(f"`in` on non-list {src(b)}")
                t = f"({bt}).contains {at}"
            return (f"({t})" if isinstance(op, ast.In) else f"(!({t}))", "bool")
        at, aty = self.tr(a)
        bt, bty = self.tr(b)
        if aty in ("int", "nat") and bty in ("int", "nat"):
            is_int = aty == "int" or bty == "int"
            at, bt = self.num(a, is_int), self.num(b, is_int)
            sym = {ast.Eq: "==", ast.NotEq: "!=", ast.Lt: "<", ast.LtE: "≤", ast.Gt: ">", ast.GtE: "≥"}
            if type(op) not in sym:
                raise SiteError(f"compare {src(n)}")
            s = sym[type(op)]
            if s in ("==", "!="):
                return (f"({at} {s} {bt})", "bool")
            return (f"decide ({at} {s} {bt})", "bool")
        if aty == bty and aty in ("str", "enum", "bool", "list"):
            if isinstance(op, ast.Eq):
                return (f"({at} == {bt})", "bool")
            if isinstance(op, ast.NotEq):
                return (f"({at} != {bt})", "bool")
        raise SiteError(f"compare types {aty}/{bty}: {src(n)}")

    def t_Call(self, n):
        f = n.func
        if isinstance(f, ast.Name) and f.id == "len" and len(n.args) == 1:
            t, ty = self.tr(n.args[0])
            if ty != "list":
                raise SiteError(f"len of {ty}")
            return (f"({t}).length", "nat")
        if isinstance(f, ast.Name) and f.id == "min" and len(n.args) == 2:
            a, b = self.tr(n.args[0]), self.tr(n.args[1])
            return (f"(min {a[0]} {b[0]})", a[1])
        if isinstance(f, ast.Name) and f.id == "timedelta" and not n.args and len(n.keywords) == 1:
            kw = n.keywords[0]
            mult = {"minutes": 60, "seconds": 1, "hours": 3600}.get(kw.arg)
            if mult is None:
                raise SiteError(f"timedelta kw {kw.arg}")
            t, ty = self.tr(kw.value)
            return (f"({mult} * {t})", ty)
        if isinstance(f, ast.Attribute) and len(n.args) == 1 and not n.keywords:
            recv, rty = self.tr(f.value)
            arg, aty = self.tr(n.args[0])
            if f.attr == "issubset" and rty == aty == "list":
                return (f"(Jade.subsetB {recv} {arg})", "bool")
            if f.attr == "intersection" and rty == aty == "list":
                # only ever used for its truthiness
                return (f"(Jade.intersectsB {recv} {arg})", "bool")
        raise SiteError(f"call {src(n)}")

    def t_Tuple(self, n):
        raise SiteError(f"tuple outside `in`: {src(n)}")


def pred(env, node, ctx="bool"):
    t = Tr(env)
    if ctx == "bool":
        return t.truth(node)
    term, ty = t.tr(node)
    return term


# ----------------------------------------------------------------------------------------
# Sites.  Each site: id, gen file, properties affected, function producing Lean text.
# ----------------------------------------------------------------------------------------
SITES = []


def site(sid, genfile, props):
    def deco(fn):
        SITES.append((sid, genfile, props, fn, fn.__module__.split(".")[-1]))
        return fn
    return deco


PREAMBLE = {}

