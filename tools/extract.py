#!/usr/bin/env python3
"""Translator: /repo/jade/**/*.py  ->  lean/JadeModel/Gen/*.lean

Runs first in every check, on the *working tree* ($JADE_SRC, default /repo).  It extracts
 (i) declarative tables / constants and
 (ii) side-effect-free decision predicates (boolean / arithmetic expressions at designated
      sites), translated by a small expression translator into Lean definitions.
The hand-written control-flow skeletons of JadeModel/Model call these definitions, so a
changed comparison, table entry or condition changes the Lean terms the theorems are about.

An unexpected AST shape at a site is never skipped silently: the site is recorded as
`stale` in extract_report.json, the definition falls back to the committed baseline text
(tools/gen_baseline.json), and ./check treats every property that depends on the site as
"tie broken" (failing-input search, then VIOLATION).

Usage: extract.py [--write-baseline] [--out DIR] [--report FILE]
"""
import ast
import json
import os
import sys
from pathlib import Path

HERE = Path(__file__).resolve().parent
SRC = Path(os.environ.get("JADE_SRC", "/repo"))
OUT = HERE.parent / "lean" / "JadeModel" / "Gen"
BASELINE = HERE / "gen_baseline.json"


class SiteError(Exception):
    pass


# ----------------------------------------------------------------------------------------
# AST helpers
# ----------------------------------------------------------------------------------------
_mods = {}


def module(rel):
    if rel not in _mods:
        p = SRC / rel
        try:
            _mods[rel] = ast.parse(p.read_text())
        except (OSError, SyntaxError) as e:
            raise SiteError(f"cannot parse {rel}: {e}")
    return _mods[rel]


def find_def(rel, qual):
    """qual = 'Class.method' or 'function'"""
    node = module(rel)
    for part in qual.split("."):
        found = None
        for ch in node.body:
            if isinstance(ch, (ast.FunctionDef, ast.ClassDef)) and ch.name == part:
                found = ch
                break
        if found is None:
            raise SiteError(f"{rel}: {qual} not found")
        node = found
    return node


def walk_stmts(node):
    """All statements of a function, pre-order, not descending into nested defs."""
    for st in node.body:
        yield from _walk_stmt(st)


def _walk_stmt(st):
    yield st
    for field in ("body", "orelse", "finalbody"):
        for ch in getattr(st, field, []) or []:
            if isinstance(ch, (ast.FunctionDef, ast.ClassDef)):
                continue
            yield from _walk_stmt(ch)
    for h in getattr(st, "handlers", []) or []:
        for ch in h.body:
            yield from _walk_stmt(ch)


def src(node):
    return ast.unparse(node)


def class_assign(rel, cls, name):
    c = find_def(rel, cls)
    for st in c.body:
        if isinstance(st, ast.Assign) and len(st.targets) == 1 and src(st.targets[0]) == name:
            return st.value
    raise SiteError(f"{rel}: {cls}.{name} not found")


def assigns(fn, target):
    return [s for s in walk_stmts(fn) if isinstance(s, ast.Assign) and len(s.targets) == 1 and src(s.targets[0]) == target]


def ifs(fn):
    return [s for s in walk_stmts(fn) if isinstance(s, ast.If)]


def whiles(fn):
    return [s for s in walk_stmts(fn) if isinstance(s, ast.While)]


def the(lst, what, n=1):
    if len(lst) != n:
        raise SiteError(f"expected {n} x {what}, found {len(lst)}")
    return lst[0] if n == 1 else lst


def if_with_test(fn, pred, what):
    m = [s for s in ifs(fn) if pred(src(s.test))]
    return the(m, what)


# ----------------------------------------------------------------------------------------
# Lean rendering helpers
# ----------------------------------------------------------------------------------------
def lstr(s):
    out = ['"']
    for ch in s:
        if ch == '"':
            out.append('\\"')
        elif ch == "\\":
            out.append("\\\\")
        elif ch == "\n":
            out.append("\\n")
        elif ch == "\t":
            out.append("\\t")
        elif 32 <= ord(ch) < 127:
            out.append(ch)
        else:
            out.append("\\u{%x}" % ord(ch))
    out.append('"')
    return "".join(out)


def llist(items):
    return "[" + ", ".join(items) + "]"


def pieces(node):
    """f-string / constant string -> Lean `List Piece`"""
    if isinstance(node, ast.Constant) and isinstance(node.value, str):
        return llist([f".lit {lstr(node.value)}"])
    if isinstance(node, ast.JoinedStr):
        out = []
        for v in node.values:
            if isinstance(v, ast.Constant):
                out.append(f".lit {lstr(v.value)}")
            elif isinstance(v, ast.FormattedValue):
                if v.format_spec is not None or v.conversion != -1:
                    raise SiteError(f"format spec in f-string {src(node)}")
                out.append(f".var {lstr(src(v.value))}")
            else:
                raise SiteError(f"f-string part {ast.dump(v)}")
        return llist(out)
    raise SiteError(f"not a string template: {src(node)}")


def const_str(node):
    if isinstance(node, ast.Constant) and isinstance(node.value, str):
        return node.value
    raise SiteError(f"not a string constant: {src(node)}")


def const_int(node):
    if isinstance(node, ast.Constant) and isinstance(node.value, int) and not isinstance(node.value, bool):
        return node.value
    raise SiteError(f"not an int constant: {src(node)}")


def enum_member(node, enum):
    """HpcJobStatus.QUEUED -> 'QUEUED'"""
    if isinstance(node, ast.Attribute) and src(node.value).split(".")[-1] == enum:
        return node.attr
    raise SiteError(f"not a member of {enum}: {src(node)}")


# ----------------------------------------------------------------------------------------
# Expression translator for decision predicates
# ----------------------------------------------------------------------------------------
class Tr:
    """Translate a Python expression to a Lean Bool/Int term.

    `env` maps the *source text* of a Python sub-expression (e.g. 'self._queue_depth',
    'len(self._outstanding_jobs)') to (lean_term, type) with type in
    {'bool','int','nat','list','opt','str','enum'}.  Look-up is tried on every sub-expression
    before structural translation, so whole calls can be mapped."""

    def __init__(self, env, calls=None):
        self.env = env
        self.calls = calls or {}

    def tr(self, node):
        key = src(node)
        if key in self.env:
            return self.env[key]
        m = getattr(self, "t_" + type(node).__name__, None)
        if m is None:
            raise SiteError(f"untranslatable {type(node).__name__}: {key}")
        return m(node)

    def truth(self, node):
        t, ty = self.tr(node)
        if ty == "bool":
            return t
        if ty in ("int", "nat"):
            return f"({t} != 0)"
        if ty == "list":
            return f"(!({t}).isEmpty)"
        if ty == "opt":
            return f"({t}).isSome"
        raise SiteError(f"no truthiness for {ty}: {src(node)}")

    def t_Constant(self, n):
        v = n.value
        if v is True:
            return ("true", "bool")
        if v is False:
            return ("false", "bool")
        if isinstance(v, int):
            return (f"({v} : Int)" if v < 0 else str(v), "nat")
        if isinstance(v, str):
            return (lstr(v), "str")
        raise SiteError(f"constant {v!r}")

    def t_BoolOp(self, n):
        op = " && " if isinstance(n.op, ast.And) else " || "
        return ("(" + op.join(self.truth(v) for v in n.values) + ")", "bool")

    def t_UnaryOp(self, n):
        if isinstance(n.op, ast.Not):
            return (f"(!{self.truth(n.operand)})", "bool")
        if isinstance(n.op, ast.USub):
            t, ty = self.tr(n.operand)
            return (f"(-({t} : Int))", "int")
        raise SiteError(f"unary {src(n)}")

    def num(self, node, want_int):
        t, ty = self.tr(node)
        if ty not in ("int", "nat"):
            raise SiteError(f"not numeric ({ty}): {src(node)}")
        if want_int and ty == "nat":
            return f"(({t} : Nat) : Int)"
        return t

    def t_BinOp(self, n):
        ops = {ast.Add: "+", ast.Sub: "-", ast.Mult: "*"}
        if type(n.op) not in ops:
            raise SiteError(f"binop {src(n)}")
        lt, lty = self.tr(n.left)
        rt, rty = self.tr(n.right)
        if lty not in ("int", "nat") or rty not in ("int", "nat"):
            raise SiteError(f"non-numeric binop {src(n)}")
        # subtraction is always done in Int (Python ints do not truncate)
        is_int = lty == "int" or rty == "int" or isinstance(n.op, ast.Sub)
        l = self.num(n.left, is_int)
        r = self.num(n.right, is_int)
        return (f"({l} {ops[type(n.op)]} {r})", "int" if is_int else "nat")

    def t_Compare(self, n):
        if len(n.ops) != 1:
            raise SiteError(f"chained compare {src(n)}")
        op, a, b = n.ops[0], n.left, n.comparators[0]
        if isinstance(op, (ast.Is, ast.IsNot)):
            if not (isinstance(b, ast.Constant) and b.value is None):
                raise SiteError(f"is-compare {src(n)}")
            t, ty = self.tr(a)
            if ty != "opt":
                raise SiteError(f"`is None` on non-optional {src(a)}")
            return (f"({t}).isNone" if isinstance(op, ast.Is) else f"({t}).isSome", "bool")
        if isinstance(op, (ast.In, ast.NotIn)):
            at, _ = self.tr(a)
            if isinstance(b, ast.Tuple):
                elems = llist([self.tr(e)[0] for e in b.elts])
                t = f"({elems}).contains {at}"
            else:
                bt, bty = self.tr(b)
                if bty != "list":
                    raise SiteError(f"`in` on non-list {src(b)}")
                t = f"({bt}).contains {at}"
            return (f"({t})" if isinstance(op, ast.In) else f"(!({t}))", "bool")
        at, aty = self.tr(a)
        bt, bty = self.tr(b)
        if aty in ("int", "nat") and bty in ("int", "nat"):
            is_int = aty == "int" or bty == "int"
            at, bt = self.num(a, is_int), self.num(b, is_int)
            sym = {ast.Eq: "==", ast.NotEq: "!=", ast.Lt: "<", ast.LtE: "≤", ast.Gt: ">", ast.GtE: "≥"}
            if type(op) not in sym:
                raise SiteError(f"compare {src(n)}")
            s = sym[type(op)]
            if s in ("==", "!="):
                return (f"({at} {s} {bt})", "bool")
            return (f"decide ({at} {s} {bt})", "bool")
        if aty == bty and aty in ("str", "enum", "bool", "list"):
            if isinstance(op, ast.Eq):
                return (f"({at} == {bt})", "bool")
            if isinstance(op, ast.NotEq):
                return (f"({at} != {bt})", "bool")
        raise SiteError(f"compare types {aty}/{bty}: {src(n)}")

    def t_Call(self, n):
        f = n.func
        if isinstance(f, ast.Name) and f.id == "len" and len(n.args) == 1:
            t, ty = self.tr(n.args[0])
            if ty != "list":
                raise SiteError(f"len of {ty}")
            return (f"({t}).length", "nat")
        if isinstance(f, ast.Name) and f.id == "min" and len(n.args) == 2:
            a, b = self.tr(n.args[0]), self.tr(n.args[1])
            return (f"(min {a[0]} {b[0]})", a[1])
        if isinstance(f, ast.Name) and f.id == "timedelta" and not n.args and len(n.keywords) == 1:
            kw = n.keywords[0]
            mult = {"minutes": 60, "seconds": 1, "hours": 3600}.get(kw.arg)
            if mult is None:
                raise SiteError(f"timedelta kw {kw.arg}")
            t, ty = self.tr(kw.value)
            return (f"({mult} * {t})", ty)
        if isinstance(f, ast.Attribute) and len(n.args) == 1 and not n.keywords:
            recv, rty = self.tr(f.value)
            arg, aty = self.tr(n.args[0])
            if f.attr == "issubset" and rty == aty == "list":
                return (f"(Jade.subsetB {recv} {arg})", "bool")
            if f.attr == "intersection" and rty == aty == "list":
                # only ever used for its truthiness
                return (f"(Jade.intersectsB {recv} {arg})", "bool")
        raise SiteError(f"call {src(n)}")

    def t_Tuple(self, n):
        raise SiteError(f"tuple outside `in`: {src(n)}")


def pred(env, node, ctx="bool"):
    t = Tr(env)
    if ctx == "bool":
        return t.truth(node)
    term, ty = t.tr(node)
    return term


# ----------------------------------------------------------------------------------------
# Sites.  Each site: id, gen file, properties affected, function producing Lean text.
# ----------------------------------------------------------------------------------------
SITES = []


def site(sid, genfile, props):
    def deco(fn):
        SITES.append((sid, genfile, props, fn))
        return fn
    return deco


PREAMBLE = {}

PREAMBLE["Slurm"] = """inductive Piece where
  | lit (s : String)
  | var (name : String)
  deriving Repr, DecidableEq
"""

SLURM = "jade/hpc/slurm_manager.py"
HPCSUB = "jade/hpc/hpc_submitter.py"


@site("slurm.statuses", "Slurm", ["C18", "C06", "C05", "C12"])
def _():
    d = class_assign(SLURM, "SlurmManager", "_STATUSES")
    if not isinstance(d, ast.Dict):
        raise SiteError("_STATUSES is not a dict literal")
    rows = [f"({lstr(const_str(k))}, {lstr(enum_member(v, 'HpcJobStatus'))})" for k, v in zip(d.keys, d.values)]
    return "/-- SlurmManager._STATUSES -/\ndef statuses : List (String × String) := [\n  " + ",\n  ".join(rows) + "]"


@site("slurm.statusDefault", "Slurm", ["C18", "C06"])
def _():
    fn = find_def(SLURM, "SlurmManager._get_statuses_from_output")
    a = the(assigns(fn, "statuses[job_id]"), "statuses[job_id] = …")
    v = a.value
    if not (isinstance(v, ast.Call) and src(v.func) == "SlurmManager._STATUSES.get" and len(v.args) == 2 and src(v.args[0]) == "status"):
        raise SiteError(f"unexpected lookup {src(v)}")
    return "/-- default of `_STATUSES.get(status, …)` in `_get_statuses_from_output` -/\ndef statusDefault : String := " + lstr(enum_member(v.args[1], "HpcJobStatus"))


@site("slurm.parseShape", "Slurm", ["C18", "C06"])
def _():
    """Shape of the parser loop; the model hard-codes it, the flag records that the shape is
    what the model assumes (split on newline, skip empty, strip+split, 2-field assert)."""
    fn = find_def(SLURM, "SlurmManager._get_statuses_from_output")
    text = src(fn)
    need = [
        "lines = output.split('\\n')",
        "if line == '':\n            continue",
        "fields = line.strip().split()",
        "assert len(fields) == 2",
        "job_id = fields[0]",
        "status = fields[1]",
    ]
    ok = all(n in text for n in need)
    if not ok:
        raise SiteError("parser loop shape changed: " + "; ".join(n for n in need if n not in text))
    return "/-- the parser loop has the shape the hand-written model assumes -/\ndef parseShapeOk : Bool := true"


@site("slurm.collectorDefault", "Slurm", ["C18", "C06"])
def _():
    fn = find_def(HPCSUB, "HpcStatusCollector.check_status")
    rets = [s for s in walk_stmts(fn) if isinstance(s, ast.Return)]
    r = the(rets, "return").value
    if not (isinstance(r, ast.Call) and src(r.func) == "self._statuses.get" and len(r.args) == 2 and src(r.args[0]) == "job_id"):
        raise SiteError(f"unexpected return {src(r)}")
    return "/-- default of `self._statuses.get(job_id, …)` in `HpcStatusCollector.check_status` -/\ndef collectorDefault : String := " + lstr(enum_member(r.args[1], "HpcJobStatus"))


@site("slurm.completeStatuses", "Slurm", ["C18", "C06", "C05", "C12"])
def _():
    fn = find_def(HPCSUB, "AsyncHpcSubmitter.is_complete")
    a = the(assigns(fn, "self._is_complete"), "self._is_complete = …")
    v = a.value
    if not (isinstance(v, ast.Compare) and len(v.ops) == 1 and isinstance(v.ops[0], ast.In) and src(v.left) == "status" and isinstance(v.comparators[0], ast.Tuple)):
        raise SiteError(f"unexpected completion test {src(v)}")
    elems = [lstr(enum_member(e, "HpcJobStatus")) for e in v.comparators[0].elts]
    return "/-- tuple tested in `AsyncHpcSubmitter.is_complete` -/\ndef completeStatuses : List String := " + llist(elems)


@site("slurm.script", "Slurm", ["C18", "C07"])
def _():
    fn = find_def(SLURM, "SlurmManager._create_submission_script_text")
    a = the(assigns(fn, "lines"), "lines = […]")
    if not isinstance(a.value, ast.List):
        raise SiteError("lines is not a list literal")
    header = [pieces(e) for e in a.value.elts]
    loops = [s for s in walk_stmts(fn) if isinstance(s, ast.For)]
    lp = the(loops, "for param in (…)")
    if not (isinstance(lp.iter, ast.Tuple) and src(lp.target) == "param"):
        raise SiteError("optional-parameter loop changed")
    params = [lstr(const_str(e)) for e in lp.iter.elts]
    body = lp.body
    if not (len(body) == 2 and src(body[0]) == "value = getattr(self._config.hpc, param, None)" and isinstance(body[1], ast.If)
            and src(body[1].test) == "value is not None" and len(body[1].body) == 1 and not body[1].orelse):
        raise SiteError("optional-parameter loop body changed")
    call = body[1].body[0]
    if not (isinstance(call, ast.Expr) and isinstance(call.value, ast.Call) and src(call.value.func) == "lines.append"):
        raise SiteError("optional-parameter append changed")
    optline = pieces(call.value.args[0])
    appends = [s.value for s in fn.body if isinstance(s, ast.Expr) and isinstance(s.value, ast.Call) and src(s.value.func) == "lines.append"]
    trailer = [pieces(c.args[0]) for c in appends]
    ret = [s for s in fn.body if isinstance(s, ast.Return)]
    if not (len(ret) == 1 and src(ret[0].value) == "lines"):
        raise SiteError("return changed")
    # statement order: assign, for, appends, return
    kinds = [type(s).__name__ for s in fn.body]
    if kinds != ["Assign", "For"] + ["Expr"] * len(appends) + ["Return"]:
        raise SiteError(f"statement order changed: {kinds}")
    return (
        "/-- `lines = [...]` of `_create_submission_script_text` -/\n"
        "def headerLines : List (List Piece) := [\n  " + ",\n  ".join(header) + "]\n\n"
        "def optionalParams : List String := " + llist(params) + "\n\n"
        "def optionalLine : List Piece := " + optline + "\n\n"
        "def trailerLines : List (List Piece) := " + llist(trailer)
    )


@site("slurm.createScriptJoin", "Slurm", ["C18"])
def _():
    fn = find_def(SLURM, "SlurmManager.create_submission_script")
    text = src(fn)
    if "utils.create_script(filename, '\\n'.join(text) + '\\n')" not in text or "text = self._create_submission_script_text(name, script, path)" not in text:
        raise SiteError("create_submission_script changed")
    return "def scriptJoinOk : Bool := true"


@site("slurm.sbatch", "Slurm", ["C18", "C12"])
def _():
    rx = class_assign(SLURM, "SlurmManager", "_REGEX_SBATCH_OUTPUT")
    if not (isinstance(rx, ast.Call) and src(rx.func) == "re.compile" and len(rx.args) == 1):
        raise SiteError("regex definition changed")
    pat = const_str(rx.args[0])
    fn = find_def(SLURM, "SlurmManager.submit")
    a = the(assigns(fn, "ret"), "ret = run_command(…)")
    c = a.value
    if not (isinstance(c, ast.Call) and src(c.func) == "run_command"):
        raise SiteError("submit no longer calls run_command")
    kw = {k.arg: k.value for k in c.keywords}
    retries = const_int(kw["num_retries"]) if "num_retries" in kw else 0
    if "error_strings" in kw:
        raise SiteError("sbatch now has error_strings")
    cmd = c.args[0]
    if src(cmd) != "'sbatch {}'.format(filename)":
        raise SiteError(f"sbatch command changed: {src(cmd)}")
    # decision structure: ret == 0 -> regex search -> match ? GOOD : ERROR ; else ERROR
    i1 = the([s for s in fn.body if isinstance(s, ast.If)], "if ret == 0")
    if src(i1.test) != "ret == 0":
        raise SiteError(f"outer test changed: {src(i1.test)}")
    inner = the([s for s in i1.body if isinstance(s, ast.If)], "if match")
    if src(inner.test) != "match":
        raise SiteError("inner test changed")
    def res(body):
        v = [src(s.value) for s in body if isinstance(s, ast.Assign) and src(s.targets[0]) == "result"]
        return v[-1] if v else None
    if res(inner.body) != "Status.GOOD" or res(inner.orelse) != "Status.ERROR" or res(i1.orelse) != "Status.ERROR":
        raise SiteError("result assignment changed")
    jid = [src(s.value) for s in inner.body if isinstance(s, ast.Assign) and src(s.targets[0]) == "job_id"]
    if jid != ["match.group(1)"]:
        raise SiteError("job id capture changed")
    m = the(assigns(fn, "match"), "match = …")
    if src(m.value) != "self._REGEX_SBATCH_OUTPUT.search(stdout)":
        raise SiteError("regex use changed")
    ret = the([s for s in fn.body if isinstance(s, ast.Return)], "return")
    if src(ret.value) != "(result, job_id, output['stderr'])":
        raise SiteError("return tuple changed")
    return (
        f"def sbatchRegex : String := {lstr(pat)}\n\n"
        f"def sbatchRetries : Nat := {retries}\n\n"
        "/-- `submit`: GOOD iff ret == 0 and the regex matched; job id = group 1 -/\ndef submitShapeOk : Bool := true"
    )


@site("slurm.squeue", "Slurm", ["C18", "C11"])
def _():
    fn = find_def(SLURM, "SlurmManager.check_statuses")
    a = the(assigns(fn, "ret"), "ret = run_command(…)")
    kw = {k.arg: k.value for k in a.value.keywords}
    retries = const_int(kw["num_retries"]) if "num_retries" in kw else 0
    i1 = the([s for s in fn.body if isinstance(s, ast.If)], "if ret != 0")
    if src(i1.test) != "ret != 0" or not any(isinstance(s, ast.Raise) for s in i1.body):
        raise SiteError("failure branch changed")
    ret = the([s for s in fn.body if isinstance(s, ast.Return)], "return")
    if src(ret.value) != "self._get_statuses_from_output(output['stdout'])":
        raise SiteError("return changed")
    return f"def squeueRetries : Nat := {retries}"


@site("slurm.runScript", "Slurm", ["C18", "C07"])
def _():
    fn = find_def(HPCSUB, "HpcSubmitter._create_run_script")
    t0 = the(assigns(fn, "text"), "text = […]")
    if not (isinstance(t0.value, ast.List) and len(t0.value.elts) == 1):
        raise SiteError("shebang list changed")
    sheb = const_str(t0.value.elts[0])
    d = if_with_test(fn, lambda t: t == "submission_group.submitter_params.distributed_submitter", "if distributed_submitter")
    dt = the([s for s in d.body if isinstance(s, ast.Assign) and src(s.targets[0]) == "dsub"], "dsub true")
    df = the([s for s in d.orelse if isinstance(s, ast.Assign) and src(s.targets[0]) == "dsub"], "dsub false")
    cmd = the(assigns(fn, "command"), "command = f…")
    n = if_with_test(fn, lambda t: t == "submission_group.submitter_params.num_parallel_processes_per_node is not None", "if num procs")
    if not (len(n.body) == 1 and isinstance(n.body[0], ast.AugAssign) and src(n.body[0].target) == "command" and not n.orelse):
        raise SiteError("num-procs suffix changed")
    v = if_with_test(fn, lambda t: t == "submission_group.submitter_params.verbose", "if verbose")
    if not (len(v.body) == 1 and isinstance(v.body[0], ast.AugAssign) and src(v.body[0].target) == "command" and not v.orelse):
        raise SiteError("verbose suffix changed")
    tail = [src(s) for s in fn.body[-2:]]
    if tail != ["text.append(command)", "create_script(filename, '\\n'.join(text) + '\\n')"]:
        raise SiteError(f"tail changed: {tail}")
    # order of the statements that build `command`
    order = [fn.body.index(x) for x in (d, cmd, n, v)]
    if order != sorted(order):
        raise SiteError("statement order changed")
    return (
        f"def runShebang : String := {lstr(sheb)}\n"
        f"def runDsubTrue : String := {lstr(const_str(dt.value))}\n"
        f"def runDsubFalse : String := {lstr(const_str(df.value))}\n"
        f"def runCommand : List Piece := {pieces(cmd.value)}\n"
        f"def runNumProcsSuffix : List Piece := {pieces(n.body[0].value)}\n"
        f"def runVerboseSuffix : String := {lstr(const_str(v.body[0].value))}"
    )


RUNCMD = "jade/utils/run_command.py"


@site("runcmd.loop", "Slurm", ["C18"])
def _():
    fn = find_def(RUNCMD, "run_command")
    mt = the(assigns(fn, "max_tries"), "max_tries")
    if src(mt.value) != "num_retries + 1":
        raise SiteError(f"max_tries = {src(mt.value)}")
    lp = the([s for s in fn.body if isinstance(s, ast.For)], "for")
    if src(lp.iter) != "range(max_tries)" or src(lp.target) != "i":
        raise SiteError("loop header changed")
    body = lp.body
    kinds = [type(s).__name__ for s in body]
    if kinds != ["Assign", "Assign", "If", "If", "Expr"]:
        raise SiteError(f"loop body changed: {kinds}")
    if src(body[1]) != "ret = _run_command(command, _output, cwd, **kwargs)":
        raise SiteError("execution statement changed")
    f1, f2 = body[2], body[3]
    env = {
        "ret": ("a.ret", "int"),
        "num_retries": ("numRetries", "nat"),
        "i": ("i", "nat"),
        "max_tries": ("(numRetries + 1)", "nat"),
        "_output": ("hasOutput", "bool"),
        "_should_exit_early(_output['stderr'], error_strings)": ("a.permanent", "bool"),
    }
    g1 = pred(env, f1.test)
    if not (len(f1.body) == 1 and isinstance(f1.body[0], ast.If)):
        raise SiteError("retry-branch body changed")
    g2n = f1.body[0]
    g2 = pred(env, g2n.test)
    if not (len(g2n.body) == 1 and isinstance(g2n.body[0], ast.If)):
        raise SiteError("early-exit nesting changed")
    g3n = g2n.body[0]
    g3 = pred(env, g3n.test)
    if [src(s) for s in g3n.body] != ["i = max_tries - 1"]:
        raise SiteError("early-exit action changed")
    brk = pred(env, f2.test)
    if not any(isinstance(s, ast.Break) for s in f2.body):
        raise SiteError("no break")
    if src(body[4]) != "time.sleep(retry_delay_s)":
        raise SiteError("sleep changed")
    se = find_def(RUNCMD, "_should_exit_early")
    if "for err in error_strings:\n        if err in std_err:\n            return True\n    return False" not in src(se):
        raise SiteError("_should_exit_early changed")
    # `i = max_tries - 1` makes the break test true: model as `early`
    return (
        "structure Attempt where\n  ret : Int\n  permanent : Bool\n  deriving DecidableEq, Repr\n\n"
        "/-- guard of the early-exit assignment `i = max_tries - 1` -/\n"
        f"def retryEarly (numRetries : Nat) (hasOutput : Bool) (a : Attempt) : Bool :=\n  {g1} && {g2} && {g3}\n\n"
        "/-- break test of the loop (with `i` as seen after a possible early-exit assignment) -/\n"
        f"def retryBreak (numRetries : Nat) (i : Nat) (a : Attempt) : Bool :=\n  {brk}"
    )


# ----------------------------------------------------------------------------------------
def run(write_baseline=False, out=OUT, report_file=None):
    baseline = json.loads(BASELINE.read_text()) if BASELINE.exists() else {}
    texts = {}
    report = {"src": str(SRC), "sites": {}}
    new_baseline = {}
    for sid, gen, props, fn in SITES:
        try:
            t = fn()
            status, msg = "ok", ""
        except SiteError as e:
            status, msg = "stale", str(e)
            t = baseline.get(sid)
            if t is None:
                t = f"-- site {sid} failed and has no baseline: {msg}"
        except Exception as e:  # unexpected shape deep inside a helper
            status, msg = "stale", f"{type(e).__name__}: {e}"
            t = baseline.get(sid, f"-- site {sid} failed: {msg}")
        new_baseline[sid] = t
        changed = status == "ok" and sid in baseline and baseline[sid] != t
        report["sites"][sid] = {"status": status, "msg": msg, "gen": gen, "props": props, "differs_from_baseline": changed}
        texts.setdefault(gen, []).append((sid, status, t))
    out.mkdir(parents=True, exist_ok=True)
    for gen, items in texts.items():
        parts = ["-- GENERATED by tools/extract.py from the working tree of NREL/jade — do not edit.",
                 "import JadeModel.Basic", f"namespace Jade.Gen.{gen}", ""]
        if gen in PREAMBLE:
            parts.append(PREAMBLE[gen])
        for sid, status, t in items:
            parts.append(f"-- site: {sid}" + ("  [STALE: baseline text]" if status != "ok" else ""))
            parts.append(t)
            parts.append("")
        parts.append(f"end Jade.Gen.{gen}")
        text = "\n".join(parts) + "\n"
        p = out / f"{gen}.lean"
        if not p.exists() or p.read_text() != text:
            p.write_text(text)
    if write_baseline:
        BASELINE.write_text(json.dumps(new_baseline, indent=1, sort_keys=True) + "\n")
    if report_file:
        Path(report_file).write_text(json.dumps(report, indent=1) + "\n")
    return report


if __name__ == "__main__":
    args = sys.argv[1:]
    wb = "--write-baseline" in args
    rf = None
    if "--report" in args:
        rf = args[args.index("--report") + 1]
    o = OUT
    if "--out" in args:
        o = Path(args[args.index("--out") + 1])
    rep = run(write_baseline=wb, out=o, report_file=rf)
    bad = {k: v for k, v in rep["sites"].items() if v["status"] != "ok"}
    for k, v in bad.items():
        print(f"STALE {k}: {v['msg']}")
    print(f"extract: {len(rep['sites'])} sites, {len(bad)} stale")
