#!/bin/bash
# dev tool: final consistency pass before committing (does not run the checks)
cd "$(dirname "$0")/.."
python3 tools/gen_lean_index.py > /dev/null
python3 tools/mkmanifest.py
python3 tools/design_tables.py
python3-vt - <<'PY'
import json, glob, jsonschema, subprocess, sys
bad = 0
m = json.load(open('MANIFEST.json')); jsonschema.validate(m, json.load(open('/root/.vp/MANIFEST.schema.json')))
es = json.load(open('/root/.vp/EVIDENCE.schema.json'))
ids = {c['property_id'] for c in m['checks']}
for c in m['checks']:
    f = c['evidence_file']
    try:
        jsonschema.validate(json.load(open(f)), es)
    except Exception as e:
        bad += 1; print('EVIDENCE PROBLEM', f, str(e)[:150])
props = [json.loads(l)['id'] for l in open('properties.jsonl')]
na = {x['property_id'] for x in m.get('not_applicable', [])}
for p in props:
    if p not in ids and p not in na:
        bad += 1; print('property neither claimed nor not_applicable:', p)
for f in glob.glob('*.json') + glob.glob('evidence/*.json') + glob.glob('seeded/*/meta.json') + glob.glob('seeded/*.json') + glob.glob('corpus/*/*.json') + glob.glob('tools/baseline/*.json'):
    try: json.load(open(f))
    except Exception as e:
        bad += 1; print('INVALID JSON', f, e)
r = subprocess.run("git grep -n -E '^(<<<<<<<|>>>>>>>) ' -- . ':!seeded'", shell=True, capture_output=True, text=True)
if r.stdout.strip():
    bad += 1; print('conflict markers:\n' + r.stdout[:500])
r = subprocess.run("git -C /repo status --short | head -5; git -C /repo worktree list | tail -n +2", shell=True, capture_output=True, text=True)
if r.stdout.strip():
    print('/repo not clean or has worktrees:\n' + r.stdout)
print('finalize:', 'OK' if not bad else f'{bad} problem(s)')
PY
