#!/usr/bin/env python3
"""dev helper: condense `lean` output: for each error show position, case name, numbered hyps h_*, heq, goal"""
import sys, re
txt = sys.stdin.read()
blocks = re.split(r'(?m)^(?=\S+\.lean:\d+:\d+: )', txt)
n = 0
for b in blocks:
    if ': error' not in b.split('\n', 1)[0]:
        if b.strip() and ('warning' not in b.split('\n',1)[0]):
            pass
        continue
    n += 1
    lines = b.split('\n')
    out = [lines[0]]
    cut = None
    for i, l in enumerate(lines):
        if l.startswith('[grind] Goal diagnostics'):
            cut = i
            break
    body = lines[1:cut]
    keep = []
    on = False
    for l in body:
        if re.match(r'^(case |h(_\d+)? :|heq(_\d+)? :|⊢|hnew|x(_\d+)? :|p q? ?:|op :)', l):
            on = True
            keep.append(l)
        elif on and l.startswith('  '):
            keep.append(l)
        else:
            on = False
    out += keep[:int(sys.argv[1]) if len(sys.argv) > 1 else 40]
    print('\n'.join(out))
    print('-----')
print(f'{n} errors')
