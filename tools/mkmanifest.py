#!/usr/bin/env python3
"""Regenerate MANIFEST.json from harness/registry.py (claimed properties) + properties.jsonl."""
import json, sys
from pathlib import Path
V = Path(__file__).resolve().parent.parent
sys.path.insert(0, str(V / "harness"))
import registry
props = [json.loads(l) for l in (V / "properties.jsonl").read_text().splitlines() if l.strip()]
checks, na = [], []
for p in props:
    pid = p["id"]
    P = registry.PROPS.get(pid)
    if P is None or P.get("unclaimed"):
        na.append({"property_id": pid, "reason": registry.NOT_CLAIMED.get(pid, "Lean model, theorems and correspondence for this property are not built yet; no check is claimed.")})
        continue
    checks.append({
        "property_id": pid,
        "quick_cmd": f"./check {pid} quick",
        "thorough_cmd": f"./check {pid} thorough",
        "evidence_file": f"/verif/evidence/{pid}.json",
        "replay_cmd_template": f"./check {pid} --replay {{path}}",
        "engine": "lean-proof+correspondence",
        "level_claimed": {"category": "proof", "text": P["level_text"], "design_ref": P.get("design_ref", f"DESIGN.md section 7, {pid}")},
        "level_note": P["level_note"],
        "technique": P.get("technique", "Lean 4 theorems over a model tied to the source by a translator (Gen/*.lean) and a differential correspondence check"),
    })
m = {
    "version": 1,
    "setup_cmd": "./setup.sh",
    "hooks": {"guard": "NREL_JADE_VERIF", "enable": "none needed: all instrumentation is applied from the harness process; the guard variable is reserved",
              "baseline_off_cmd": "cd /repo && /venv/bin/python -m pytest -ra -q -p no:cacheprovider --timeout=900 --continue-on-collection-errors",
              "source_commits": registry.HOOK_COMMITS, "add_only": True},
    "engines": [{"name": "lean-proof+correspondence", "path": "/verif/check", "serves_properties": [c["property_id"] for c in checks],
                 "kind_free_text": "Lean 4 machine-checked theorems about JadeModel; Gen/*.lean regenerated from /repo on every run; differential correspondence of the model's executable definitions with the real code; direct oracles for failing-input search"}],
    "checks": checks,
    "notes": "See DESIGN.md. Exit 2 = infrastructure failure/timeout (no VIOLATION line).",
    "not_applicable": na,
}
(V / "MANIFEST.json").write_text(json.dumps(m, indent=1) + "\n")
print(f"{len(checks)} checks, {len(na)} not claimed")
