#!/bin/bash
# dev-only self-test: tools/mut.sh <prop> <file-in-repo> <python-regex> <replacement>
# applies one mutation to $JADE_SRC (default /repo; sub-agents use their own scratch worktree),
# runs the quick check of this /verif copy, and restores the tree.
prop=$1; f=$2; pat=$3; rep=$4
here="$(cd "$(dirname "$0")/.." && pwd)"
src="${JADE_SRC:-/repo}"
cd "$src" || exit 2
python3 - "$f" "$pat" "$rep" <<'PY'
import re,sys
f,pat,rep=sys.argv[1:4]
s=open(f).read()
n=re.subn(pat,rep,s,count=1,flags=re.S)
assert n[1]==1, "pattern not found"
open(f,'w').write(n[0])
PY
[ $? -eq 0 ] || { git checkout -- .; exit 2; }
git diff --stat | tail -1
(cd "$here" && JADE_SRC="$src" ./check $prop quick 2>&1 | tail -4)
git -C "$src" checkout -- .
