#!/bin/bash
# dev tool (false-alarm regression): tools/run_harmless.sh [Hxx ...]
# For every change in harmless/index.json (or the ones named): scratch worktree of /repo HEAD, git apply harmless/Hxx.diff,
# pinned tests (must keep BASELINE.json's stable_pass), `./check P quick` with JADE_SRC=<worktree> for the listed props,
# restore Gen/evidence, remove the worktree.  Prints one line per check; everything must be exit=0.
# Runs in THIS copy of /verif (use an isolated clone: the checks rewrite lean/JadeModel/Gen and evidence/ while they run).
here="$(cd "$(dirname "$0")/.." && pwd)"
wt="${HARMLESS_WT:-/tmp/harmless_wt_$$}"
logs="${HARMLESS_LOGS:-/tmp/harmless_logs}"; mkdir -p "$logs"
ids="$*"; [ -n "$ids" ] || ids=$(/venv/bin/python -c "import json;print(' '.join(k for k in json.load(open('$here/harmless/index.json')) if k[0]=='H'))")
bad=0
for id in $ids; do
  props=$(/venv/bin/python -c "import json;print(' '.join(json.load(open('$here/harmless/index.json'))['$id']['props']))")
  git -C /repo worktree remove --force "$wt" >/dev/null 2>&1
  git -C /repo worktree add --detach "$wt" HEAD >/dev/null 2>&1 || { echo "$id worktree failed"; exit 2; }
  git -C "$wt" apply "$here/harmless/$id.diff" || { echo "$id does not apply"; bad=1; continue; }
  if [ -z "$HARMLESS_SKIP_PINNED" ]; then
    (cd "$wt" && env -u PYTHONPATH -u NREL_JADE_VERIF /venv/bin/python -m pytest -q -p no:cacheprovider --timeout=900 --continue-on-collection-errors --junitxml="$logs/$id.junit.xml" >/dev/null 2>&1)
    lost=$(/venv/bin/python - "$logs/$id.junit.xml" <<'PY'
import json,sys,xml.etree.ElementTree as ET
stable=set(json.load(open('/root/.vp/BASELINE.json'))['stable_pass'])
ok={f"{t.get('classname')}::{t.get('name')}" for t in ET.parse(sys.argv[1]).getroot().iter('testcase') if not any(c.tag in ('failure','error','skipped') for c in t)}
print(len(stable-ok))
PY
)
    find "$wt" -name __pycache__ -type d -prune -exec rm -rf {} + 2>/dev/null
    echo "$id pinned lost=$lost"; [ "$lost" = 0 ] || bad=1
  fi
  for p in $props; do
    (cd "$here" && JADE_SRC="$wt" ./check $p quick > "$logs/${id}_$p.out" 2> "$logs/${id}_$p.err"); rc=$?
    echo "$id $p exit=$rc $(grep '^VIOLATION' "$logs/${id}_$p.out" | tr '\n' ' ')"; [ $rc = 0 ] || bad=1
  done
  (cd "$here" && git checkout -- lean/JadeModel/Gen evidence lean/JadeModel.lean lean/Driver/All.lean 2>/dev/null)
  git -C /repo worktree remove --force "$wt"
done
exit $bad
