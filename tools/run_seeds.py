#!/usr/bin/env python3
"""dev tool: run checks against the seeded changes in an ISOLATED clone of /verif (default /tmp/vseed) with
JADE_SRC pointing at a scratch worktree of /repo carrying the patch.  (The registered way — git -C /repo apply;
./check; git -C /repo checkout -- . — is equivalent; this one does not disturb /repo or /verif/evidence.)
usage: run_seeds.py [--tier quick|thorough] [--props C01,C02] [SEED_ID ...]
Writes <clone>/seed_results.json: seed id -> {prop: {exit, violation_lines}}"""
import json, os, subprocess, sys, glob, shutil, argparse

ap = argparse.ArgumentParser()
ap.add_argument('--tier', default='quick')
ap.add_argument('--props', default='')
ap.add_argument('--clone', default='/tmp/vseed')
ap.add_argument('--seeddir', default='/verif/seeded')
ap.add_argument('ids', nargs='*')
a = ap.parse_args()
clone = a.clone
resf = os.path.join(clone, 'seed_results.json')
results = json.load(open(resf)) if os.path.exists(resf) else {}
ids = a.ids or sorted(os.listdir(a.seeddir))
wt = os.path.join(clone, '_wt')


def sh(cmd, **kw):
    return subprocess.run(cmd, shell=True, capture_output=True, text=True, **kw)


for sid in ids:
    d = os.path.join(a.seeddir, sid)
    meta = json.load(open(os.path.join(d, 'meta.json')))
    props = a.props.split(',') if a.props else [meta['property']]
    sh(f'git -C /repo worktree remove --force {wt}'); shutil.rmtree(wt, ignore_errors=True); sh('git -C /repo worktree prune')
    r = sh(f'git -C /repo worktree add --detach {wt} HEAD'); assert r.returncode == 0, r.stderr
    r = sh(f'git -C {wt} apply {d}/patch.diff'); assert r.returncode == 0, r.stderr
    for prop in props:
        env = dict(os.environ, JADE_SRC=wt)
        try:
            r = subprocess.run([os.path.join(clone, 'check'), prop, a.tier], env=env, capture_output=True, text=True, timeout=7200)
            lines = [l for l in r.stdout.splitlines() if l.startswith(('VIOLATION', 'KNOWN-FINDING'))]
            out = {'exit': r.returncode, 'lines': lines[:6], 'tail': r.stderr.strip().splitlines()[-1:] }
        except subprocess.TimeoutExpired:
            out = {'exit': 'timeout', 'lines': []}
        results.setdefault(sid, {})[f'{prop}:{a.tier}'] = out
        json.dump(results, open(resf, 'w'), indent=1)
        print(sid, prop, a.tier, out['exit'], out['lines'][:2], flush=True)
    sh(f'git -C /repo worktree remove --force {wt}'); shutil.rmtree(wt, ignore_errors=True)
sh('git -C /repo worktree prune')
