"""Translator sites for Gen/Batch.lean: decision predicates of batching and the HPC-level queue gate
(HpcSubmitter._submit_batches/_make_batch, _BatchJobs, JobQueue.is_full)."""
import ast
from exlib import *  # noqa

HPCSUB = "jade/hpc/hpc_submitter.py"
QUEUE = "jade/jobs/job_queue.py"
P_BATCH = ["C01", "C02", "C05", "C07", "C11"]


def _ret(fn):
    return [s for s in walk_stmts(fn) if isinstance(s, ast.Return)]


@site("batch.tryAppend", "Batch", P_BATCH)
def _():
    fn = find_def(HPCSUB, "_BatchJobs.try_append")
    body = [s for s in fn.body if not (isinstance(s, ast.Expr) and isinstance(s.value, ast.Constant))]
    kinds = [type(s).__name__ for s in body]
    if kinds != ["If", "Expr", "Expr", "If", "Return"]:
        raise SiteError(f"try_append statement shape changed: {kinds}")
    rej, app1, app2, post, ret = body
    if [src(s) for s in rej.body] != ["self._is_ready_to_submit = True", "return False"] or rej.orelse:
        raise SiteError("reject branch changed")
    if src(app1) != "self._jobs.append(job)" or src(app2) != "self._job_names.add(job.name)":
        raise SiteError("append statements changed")
    if src(ret) != "return True":
        raise SiteError("final return changed")
    env = {
        "self._time_based_batching": ("timeBased", "bool"),
        "self._estimated_batch_time": ("time", "nat"),
        "job.estimated_run_minutes": ("est", "nat"),
        "self._max_batch_time": ("maxTime", "nat"),
        "self.num_jobs": ("numJobs", "nat"),
        "self._per_node_batch_size": ("batchSize", "nat"),
    }
    reject = pred(env, rej.test)
    # post: if time_based: time += timedelta(minutes=est)  elif num_jobs >= size: ready = True
    if src(post.test) != "self._time_based_batching":
        raise SiteError("post-append test changed")
    if [src(s) for s in post.body] != ["self._estimated_batch_time += timedelta(minutes=job.estimated_run_minutes)"]:
        raise SiteError("time accumulation changed")
    if not (len(post.orelse) == 1 and isinstance(post.orelse[0], ast.If) and not post.orelse[0].orelse
            and [src(s) for s in post.orelse[0].body] == ["self._is_ready_to_submit = True"]):
        raise SiteError("ready-after-append branch changed")
    ready = pred(env, post.orelse[0].test)
    inc = pred(env, post.body[0].value, ctx="term")
    return (
        "/-- `try_append`: the job is refused (and the batch marked ready) -/\n"
        f"def tryAppendReject (timeBased : Bool) (time est maxTime : Nat) : Bool :=\n  {reject}\n\n"
        "/-- seconds added to the batch's estimated time by an accepted job (time-based only) -/\n"
        f"def appendTimeInc (est : Nat) : Nat :=\n  {inc}\n\n"
        "/-- `try_append`: after appending (numJobs counts the new job) the batch becomes ready -/\n"
        f"def appendReady (timeBased : Bool) (numJobs batchSize : Nat) : Bool :=\n  (!timeBased) && {ready}"
    )


@site("batch.maxTime", "Batch", ["C07"])
def _():
    fn = find_def(HPCSUB, "_BatchJobs.__init__")
    i = if_with_test(fn, lambda t: t == "self._time_based_batching", "if time_based in __init__")
    if [src(s) for s in i.body] != ["self._max_batch_time = params.get_wall_time() * self._num_processes"]:
        raise SiteError("max batch time changed")
    a = the(assigns(fn, "self._estimated_batch_time"), "initial time")
    if src(a.value) != "timedelta(seconds=0)":
        raise SiteError("initial batch time changed")
    return "/-- `_max_batch_time = get_wall_time() * num_processes` (seconds) -/\ndef maxBatchTime (wallSec procs : Nat) : Nat := wallSec * procs"


@site("batch.isJobBlocked", "Batch", P_BATCH)
def _():
    fn = find_def(HPCSUB, "_BatchJobs.is_job_blocked")
    body = [s for s in fn.body if not (isinstance(s, ast.Expr) and isinstance(s.value, ast.Constant))]
    if [type(s).__name__ for s in body] != ["If", "If", "Return"]:
        raise SiteError("is_job_blocked shape changed")
    i1, i2, r = body
    for i in (i1, i2):
        if len(i.body) != 1 or not isinstance(i.body[0], ast.Return) or i.orelse:
            raise SiteError("is_job_blocked branch changed")
    present = find_def(HPCSUB, "_BatchJobs.are_blocking_jobs_present")
    pr = the(_ret(present), "return of are_blocking_jobs_present")
    penv = {"blocking_jobs": ("blockedBy", "list"), "self._job_names": ("names", "list")}
    ptxt = pred(penv, pr.value)
    env = {
        "job.blocked_by": ("blockedBy", "list"),
        "self._try_add_blocked_jobs": ("tryAdd", "bool"),
        "self.are_blocking_jobs_present(job.blocked_by)": (ptxt, "bool"),
    }
    def rv(n):
        return pred(env, n.value)
    return (
        "/-- `_BatchJobs.is_job_blocked` (blockedBy = the job's remaining blockers, names = names in the batch) -/\n"
        "def isJobBlocked (blockedBy : List Nat) (tryAdd : Bool) (names : List Nat) : Bool :=\n"
        f"  if {pred(env, i1.test)} then {rv(i1.body[0])}\n"
        f"  else if {pred(env, i2.test)} then {rv(i2.body[0])}\n"
        f"  else {rv(r)}"
    )


@site("batch.makeBatch", "Batch", P_BATCH)
def _():
    fn = find_def(HPCSUB, "HpcSubmitter._make_batch")
    text = src(fn)
    # max_iterations
    mi = if_with_test(fn, lambda t: t == "submission_group.submitter_params.try_add_blocked_jobs", "if try_add")
    if [src(s) for s in mi.body] != ["max_iterations = len(available_jobs)"] or [src(s) for s in mi.orelse] != ["max_iterations = 1"]:
        raise SiteError("max_iterations changed")
    init = [src(s) for s in fn.body[:3]]
    if init != ["blocked_jobs_by_name = {}", "submitted_jobs_by_name = set()", "batch = _BatchJobs(submission_group.submitter_params)"]:
        raise SiteError(f"initialisation changed: {init}")
    top = [x for x in fn.body if isinstance(x, ast.Assign) and src(x.targets[0]) == "highest_index"]
    if src(the(top, "highest_index = -1").value) != "-1":
        raise SiteError("cursor start changed")
    outer = the([s for s in fn.body if isinstance(s, ast.For) and src(s.iter).startswith("range(")], "outer for")
    if src(outer.iter) != "range(max_iterations)":
        raise SiteError("outer loop changed")
    if [type(s).__name__ for s in outer.body] != ["For", "If"] or src(outer.body[1]) != "if done:\n    break":
        raise SiteError("outer loop body changed")
    inner = outer.body[0]
    if src(inner.iter) != "enumerate(available_jobs)" or src(inner.target) != "(i, job)":
        raise SiteError("inner loop header changed")
    b = inner.body
    if [type(s).__name__ for s in b] != ["If", "If", "Assign", "If", "If"]:
        raise SiteError(f"inner loop body changed: {[type(s).__name__ for s in b]}")
    bump, skip, getjob, main, donetest = b
    env = {
        "i": ("(i : Int)", "int"), "highest_index": ("hi", "int"),
        "job.name in submitted_jobs_by_name": ("inBatch", "bool"),
        "batch.is_ready_to_submit": ("ready", "bool"),
        "len(submitted_jobs_by_name)": ("numBatched", "nat"),
        "len(available_jobs)": ("numAvail", "nat"),
    }
    if [src(s) for s in bump.body] != ["highest_index = i"] or bump.orelse:
        raise SiteError("cursor bump changed")
    bump_t = pred(env, bump.test)
    if [src(s) for s in skip.body] != ["continue"] or skip.orelse:
        raise SiteError("membership skip changed")
    skip_t = pred(env, skip.test)
    if src(main.test) != "batch.is_job_blocked(job)" or [src(s) for s in main.body] != ["blocked_jobs_by_name[job.name] = job"]:
        raise SiteError("blocked branch changed")
    oe = main.orelse
    if not (len(oe) == 2 and src(oe[0]) == "jade_job.set_blocking_jobs(job.blocked_by)" and isinstance(oe[1], ast.If)):
        raise SiteError("unblocked branch changed")
    app = oe[1]
    if src(app.test) != "batch.try_append(jade_job)":
        raise SiteError("append test changed")
    if [src(s) for s in app.body] != ["submitted_jobs.append(job)", "submitted_jobs_by_name.add(job.name)", "blocked_jobs_by_name.pop(job.name, None)"]:
        raise SiteError("append bookkeeping changed")
    # rollback: either `else: highest_index -= 1` (pinned tree) or `elif cond: highest_index -= 1`
    if len(app.orelse) == 1 and isinstance(app.orelse[0], ast.If):
        rb = app.orelse[0]
        if [src(s) for s in rb.body] != ["highest_index -= 1"] or rb.orelse:
            raise SiteError("rollback action changed")
        rb_t = pred(env, rb.test)
    elif [src(s) for s in app.orelse if not isinstance(s, ast.Expr)] == ["highest_index -= 1"] or [src(s) for s in app.orelse] == ["highest_index -= 1"]:
        rb_t = "true"
    elif not app.orelse:
        rb_t = "false"
    else:
        raise SiteError("rollback branch changed")
    if [src(s) for s in donetest.body] != ["done = True", "break"] or donetest.orelse:
        raise SiteError("done action changed")
    done_t = pred(env, donetest.test)
    # tail
    tail = fn.body[fn.body.index(outer) + 1:]
    if [type(s).__name__ for s in tail] != ["For", "If", "Return"]:
        raise SiteError("tail changed")
    if src(tail[0]) != "for job in blocked_jobs_by_name.values():\n    blocked_jobs.append(job)":
        raise SiteError("blocked report changed")
    nc = tail[1]
    if [src(s) for s in nc.body] != ["not_checked = []"] or [src(s) for s in nc.orelse] != ["not_checked = available_jobs[highest_index + 1:]"]:
        raise SiteError("not_checked slice changed")
    nc_env = dict(env)
    nc_t = pred(nc_env, nc.test)
    if src(tail[2]) != "return (batch, not_checked)":
        raise SiteError("return changed")
    return (
        "/-- `if i > highest_index: highest_index = i` -/\n"
        f"def cursorBump (i : Nat) (hi : Int) : Bool :=\n  {bump_t}\n\n"
        "/-- `if job.name in submitted_jobs_by_name: continue` -/\n"
        f"def skipBatched (inBatch : Bool) : Bool :=\n  {skip_t}\n\n"
        "/-- guard of `highest_index -= 1` after a failed `try_append` -/\n"
        f"def cursorRollback (i : Nat) (hi : Int) : Bool :=\n  {rb_t}\n\n"
        "/-- `if batch.is_ready_to_submit or len(submitted_jobs_by_name) == len(available_jobs)` -/\n"
        f"def batchDone (ready : Bool) (numBatched numAvail : Nat) : Bool :=\n  {done_t}\n\n"
        "/-- `if highest_index == len(available_jobs) - 1: not_checked = []` -/\n"
        f"def allChecked (hi : Int) (numAvail : Nat) : Bool :=\n  {nc_t}\n\n"
        "/-- passes over the candidate list -/\n"
        "def maxIterations (tryAdd : Bool) (numAvail : Nat) : Nat :=\n  if tryAdd then numAvail else 1"
    )


@site("batch.submitBatches", "Batch", P_BATCH + ["C06"])
def _():
    fn = find_def(HPCSUB, "HpcSubmitter._submit_batches")
    w = the(whiles(fn), "while loop")
    env = {"queue.is_full()": ("full", "bool"), "available_jobs": ("avail", "list"), "batch.num_jobs": ("numJobs", "nat")}
    guard = pred(env, w.test)
    if [type(s).__name__ for s in w.body] != ["Assign", "If"]:
        raise SiteError("while body changed")
    if src(w.body[0]) .replace("(batch, available_jobs)", "batch, available_jobs") != "batch, available_jobs = self._make_batch(available_jobs, submission_group, _submitted_jobs, blocked_jobs)":
        raise SiteError(f"make_batch call changed: {src(w.body[0])}")
    i = w.body[1]
    if [src(s) for s in i.body] != ["self._submit_batch(queue, submission_group, batch)", "num_submitted_jobs += batch.num_jobs"] or i.orelse:
        raise SiteError("submit branch changed")
    nonempty = pred(env, i.test)
    sel = if_with_test(fn, lambda t: "time_based_batching" in t, "candidate selection")
    if src(sel.test) != "not submission_group.submitter_params.time_based_batching or 'JADE_SKIP_SORT_BY_TIME' in os.environ":
        raise SiteError(f"selection test changed: {src(sel.test)}")
    if [src(s) for s in sel.body] != ["available_jobs = self._get_available_jobs(submission_group)"] or [src(s) for s in sel.orelse] != ["available_jobs = self._get_available_jobs_by_time(submission_group)"]:
        raise SiteError("selection branches changed")
    run = find_def(HPCSUB, "HpcSubmitter.run")
    lp = [s for s in walk_stmts(run) if isinstance(s, ast.For) and src(s.iter) == "self._cluster.config.submission_groups"]
    lp = the(lp, "for group in submission_groups")
    if src(lp.body[0]) != "if not queue.is_full():\n    self._submit_batches(queue, group, blocked_jobs, submitted_jobs)":
        raise SiteError("per-group gate changed")
    return (
        "/-- `while not queue.is_full() and available_jobs` -/\n"
        f"def submitLoopGuard (full : Bool) (avail : List Nat) : Bool :=\n  {guard}\n\n"
        "/-- `if batch.num_jobs > 0` -/\n"
        f"def batchNonEmpty (numJobs : Nat) : Bool :=\n  {nonempty}\n\n"
        "/-- candidates are sorted by estimate iff time-based (JADE_SKIP_SORT_BY_TIME unset) -/\n"
        "def sortByTime (timeBased : Bool) : Bool := timeBased"
    )


@site("queue.isFull", "Batch", ["C06", "C05", "C01", "C07"])
def _():
    fn = find_def(QUEUE, "JobQueue.is_full")
    r = the(_ret(fn), "return")
    env = {"len(self._outstanding_jobs)": ("numOutstanding", "nat"), "self._queue_depth": ("depth", "nat")}
    return "/-- `JobQueue.is_full` -/\ndef queueFull (numOutstanding depth : Nat) : Bool :=\n  " + pred(env, r.value)


@site("batch.sortKey", "Batch", ["C07"])
def _():
    fn = find_def(HPCSUB, "HpcSubmitter._get_available_jobs_by_time")
    text = src(fn)
    if "job_order.sort(key=lambda x: x[1])" not in text or "job_order.append((job.name, jade_job.estimated_run_minutes))" not in text:
        raise SiteError("sort changed")
    if "if jade_job.submission_group == submission_group.name:" not in text:
        raise SiteError("group filter changed")
    fn2 = find_def(HPCSUB, "HpcSubmitter._get_available_jobs")
    t2 = src(fn2)
    if "for job in self._cluster.iter_jobs(state=JobState.NOT_SUBMITTED):" not in t2 or "if jade_job.submission_group == submission_group.name:" not in t2:
        raise SiteError("_get_available_jobs changed")
    return "/-- candidates = NOT_SUBMITTED jobs of the group in status order; time-based: stable ascending sort by estimate -/\ndef candidateShapeOk : Bool := true"


@site("batch.batchIndex", "Batch", ["C01", "C11"])
def _():
    fn = find_def(HPCSUB, "HpcSubmitter._make_async_submitter")
    text = src(fn)
    need = ["suffix = f'_batch_{self._batch_index}'", "self._batch_index += 1"]
    if not all(n in text for n in need):
        raise SiteError("batch numbering changed")
    if text.index(need[0]) > text.index(need[1]):
        raise SiteError("batch index incremented before use")
    init = find_def(HPCSUB, "HpcSubmitter.__init__")
    if "self._batch_index = cluster.job_status.batch_index" not in src(init):
        raise SiteError("batch index no longer continues from the persisted index")
    return "/-- batch N uses index N then increments; the first index is the persisted one -/\ndef batchIndexShapeOk : Bool := true"
