"""Translator sites for Gen/Cluster.lean: decision predicates, constants and statement shapes of
jade/jobs/cluster.py (C09, C10; also read by C01/C11/C13 through the system model)."""
import ast
import re
from exlib import *  # noqa

CL = "jade/jobs/cluster.py"
JOBS = "jade/models/jobs.py"
P_ROLE = ["C10", "C11", "C01", "C13"]
P_STATUS = ["C09", "C10", "C13"]
P_ALL = ["C09", "C10", "C11", "C13"]

STATE_ENV = {
    "JobState.NOT_SUBMITTED": ("JState.notSubmitted", "enum"),
    "JobState.SUBMITTED": ("JState.submitted", "enum"),
    "JobState.DONE": ("JState.done", "enum"),
}


def _body(fn):
    """statements of a function without the docstring and without comments"""
    return [s for s in fn.body if not (isinstance(s, ast.Expr) and isinstance(s.value, ast.Constant))]


def _srcs(stmts):
    return [src(s) for s in stmts]


def _camel(name):
    parts = name.lower().split("_")
    return parts[0] + "".join(p.capitalize() for p in parts[1:])


def _aug(stmt, target, var):
    """`target += k` -> Lean term over `var`"""
    if not (isinstance(stmt, ast.AugAssign) and src(stmt.target) == target):
        raise SiteError(f"expected `{target} op= …`, found {src(stmt)}")
    node = ast.BinOp(left=stmt.target, op=stmt.op, right=stmt.value)
    return pred({target: (var, "nat")}, node, ctx="term")


def _guarded_version_write(stmt, call, target):
    """The write of a version file in `_serialize` / `_serialize_jobs`: either the plain statement `call()` (returns None) or

        try:
            call()
        except Exception:
            target -= k          # roll the in-memory bump back: nothing was written
            raise

    (returns the AugAssign of the handler).  Anything else -> None is not returned but SiteError raised by the callers."""
    if isinstance(stmt, ast.Expr) and src(stmt) == f"{call}()":
        return None
    ok = (isinstance(stmt, ast.Try) and not stmt.orelse and not stmt.finalbody and len(stmt.handlers) == 1
          and _srcs(stmt.body) == [f"{call}()"])
    if ok:
        h = stmt.handlers[0]
        ok = (h.type is not None and src(h.type) == "Exception" and h.name is None and len(h.body) == 2
              and isinstance(h.body[0], ast.AugAssign) and src(h.body[0].target) == target
              and isinstance(h.body[1], ast.Raise) and h.body[1].exc is None)
    if not ok:
        raise SiteError(f"write of the version file is neither `{call}()` nor the guarded form with a roll-back of {target}: {src(stmt)}")
    return stmt.handlers[0].body[0]


def _mismatch_if(fn, mine, what):
    """`current = self._get_X_version(); if mine != current: raise XVersionMismatch(...)`"""
    i = if_with_test(fn, lambda t: mine in t and "current" in t, what)
    if len(i.body) != 1 or not isinstance(i.body[0], ast.Raise) or i.orelse:
        raise SiteError(f"{what}: body is not a single raise")
    exc = src(i.body[0].exc.func) if isinstance(i.body[0].exc, ast.Call) else src(i.body[0].exc)
    if not exc.endswith("VersionMismatch"):
        raise SiteError(f"{what}: raises {exc}")
    return i, pred({mine: ("mine", "nat"), "current": ("current", "nat")}, i.test)


@site("cluster.jobState", "Cluster", P_ALL)
def _():
    c = find_def(JOBS, "JobState")
    members = []
    for st in c.body:
        if isinstance(st, ast.Assign) and len(st.targets) == 1 and isinstance(st.targets[0], ast.Name):
            members.append((st.targets[0].id, const_str(st.value)))
    if [m for m, _ in members] != ["NOT_SUBMITTED", "SUBMITTED", "DONE"]:
        raise SiteError(f"JobState members changed: {members}")
    ctors = "\n".join(f"  | {_camel(m)}" for m, _ in members)
    cases = "\n".join(f"  | .{_camel(m)} => {lstr(v)}" for m, v in members)
    return ("/-- `jade.models.JobState` -/\ninductive JState where\n" + ctors + "\n  deriving DecidableEq, Repr, Inhabited\n\n"
            "/-- the enum values as written to job_status.json -/\ndef JState.value : JState → String\n" + cases)


@site("cluster.defaults", "Cluster", P_ALL)
def _():
    c = find_def(JOBS, "JobStatus")
    bi = None
    for st in c.body:
        if isinstance(st, ast.AnnAssign) and src(st.target) == "batch_index":
            for kw in st.value.keywords:
                if kw.arg == "default":
                    bi = const_int(kw.value)
    if bi is None:
        raise SiteError("JobStatus.batch_index default not found")
    fn = find_def(CL, "Cluster.create")
    cfg = the(assigns(fn, "config"), "config = ClusterConfig(…)").value
    js = the(assigns(fn, "job_status"), "job_status = JobStatus(…)").value
    kc = {k.arg: k.value for k in cfg.keywords}
    kj = {k.arg: k.value for k in js.keywords}
    if src(kc.get("submitter")) != "socket.gethostname()":
        raise SiteError("creator is no longer the first submitter")
    if "batch_index" in kj:
        raise SiteError("create passes a batch index")
    if src(kj["hpc_job_ids"]) != "[]":
        raise SiteError("initial hpc_job_ids changed")
    jobkw = {k.arg: src(k.value) for k in kj["jobs"].elt.keywords}
    if jobkw != {"name": "x.name", "blocked_by": "x.get_blocking_jobs()",
                 "cancel_on_blocking_job_failure": "x.cancel_on_blocking_job_failure", "state": "JobState.NOT_SUBMITTED"}:
        raise SiteError(f"initial Job fields changed: {jobkw}")
    for other in ("submitted_jobs", "completed_jobs", "is_complete", "is_canceled"):
        if other in kc:
            raise SiteError(f"create passes {other}")
    tail = _srcs(_body(fn))[2:]
    want = ["cluster = cls(config, job_status=job_status)", "cluster._serialize_config_version()",
            "cluster._serialize_job_status_version()", "cluster.serialize('create')", "cluster.serialize_jobs('create')",
            "cluster.serialize_submission_groups(Path(path))", "return cluster"]
    if tail != want:
        raise SiteError(f"create statement order changed: {tail}")
    init = find_def(CL, "Cluster.__init__")
    for h in ("self._config_hash", "self._job_status_hash"):
        if src(the(assigns(init, h), h).value) != "None":
            raise SiteError(f"{h} no longer starts as None")
    if src(the(assigns(init, "self._hostname"), "hostname").value) != "socket.gethostname()":
        raise SiteError("handle host name is no longer socket.gethostname() at construction")
    return (f"/-- `JobStatus.batch_index` default -/\ndef defaultBatchIndex : Nat := {bi}\n\n"
            f"/-- `version=` passed to ClusterConfig / JobStatus in `Cluster.create` (then both files are serialized once) -/\n"
            f"def createCfgVersion : Nat := {const_int(kc['version'])}\ndef createJsVersion : Nat := {const_int(kj['version'])}\n\n"
            "/-- initial state of every new job in `Cluster.create` -/\ndef createJobState : JState := JState.notSubmitted\n\n"
            "/-- `_config_hash` / `_job_status_hash` of a new handle -/\ndef initialHash {α : Type} : Option α := none")


@site("cluster.promote", "Cluster", P_ROLE)
def _():
    hs = find_def(CL, "Cluster.has_submitter")
    r = the([s for s in walk_stmts(hs) if isinstance(s, ast.Return)], "return of has_submitter")
    has = pred({"self._config.submitter": ("submitter", "opt")}, r.value)
    fn = find_def(CL, "Cluster._promote_to_submitter")
    b = _body(fn)
    if [type(s).__name__ for s in b] != ["If", "Assign", "If", "Return"]:
        raise SiteError(f"_promote_to_submitter shape changed: {_srcs(b)}")
    if _srcs(b[0].body) != ["return False"] or b[0].orelse:
        raise SiteError("refusal branch changed")
    refuse = pred({"self.has_submitter()": ("(hasSubmitter submitter)", "bool")}, b[0].test)
    if src(b[1]) != "self._config.submitter = self._hostname":
        raise SiteError("promotion assignment changed")
    if src(b[2]) != "if serialize:\n    self._serialize('promote_to_submitter')" or src(b[3]) != "return True":
        raise SiteError("promotion tail changed")
    am = find_def(CL, "Cluster.am_i_submitter")
    r2 = the([s for s in walk_stmts(am) if isinstance(s, ast.Return)], "return of am_i_submitter")
    ami = pred({"self._config.submitter": ("submitter", "enum"), "self._hostname": ("(some host)", "enum")}, r2.value)
    de = find_def(CL, "Cluster._demote_from_submitter")
    d = _body(de)
    if [type(s).__name__ for s in d] != ["Assert", "Assign", "If"]:
        raise SiteError(f"_demote_from_submitter shape changed: {_srcs(d)}")
    dassert = pred({"self.am_i_submitter()": ("(amISubmitter submitter host)", "bool")}, d[0].test)
    if src(d[1]) != "self._config.submitter = None":
        raise SiteError("demotion no longer clears the submitter")
    if src(d[2]) != "if serialize:\n    self._serialize('demote_from_submitter')":
        raise SiteError("demotion tail changed")
    return ("/-- `Cluster.has_submitter` -/\n"
            f"def hasSubmitter (submitter : Option Nat) : Bool :=\n  {has}\n\n"
            "/-- `_promote_to_submitter`: `if …: return False` (then `submitter = hostname`, `_serialize`, `return True`) -/\n"
            f"def promoteRefused (submitter : Option Nat) : Bool :=\n  {refuse}\n\n"
            "/-- `Cluster.am_i_submitter`: compares the in-memory submitter with the handle's HOST NAME -/\n"
            f"def amISubmitter (submitter : Option Nat) (host : Nat) : Bool :=\n  {ami}\n\n"
            "/-- the `assert` of `_demote_from_submitter` (then `submitter = None`, `_serialize`) -/\n"
            f"def demoteAssert (submitter : Option Nat) (host : Nat) : Bool :=\n  {dassert}")


@site("cluster.versionCompare", "Cluster", P_ALL)
def _():
    s = find_def(CL, "Cluster._serialize")
    sj = find_def(CL, "Cluster._serialize_jobs")
    cv = find_def(CL, "Cluster._check_versions")
    _, c1 = _mismatch_if(s, "self._config.version", "config version compare in _serialize")
    _, c2 = _mismatch_if(sj, "self._job_status.version", "job-status version compare in _serialize_jobs")
    b = _body(cv)
    if [type(x).__name__ for x in b] != ["Assign", "If", "Assign", "If"]:
        raise SiteError(f"_check_versions shape changed: {_srcs(b)}")
    if src(b[0]) != "current = self._get_config_version()" or src(b[2]) != "current = self._get_job_status_version()":
        raise SiteError("_check_versions reads changed")
    _, c3 = pred_if(b[1], "self._config.version")
    _, c4 = pred_if(b[3], "self._job_status.version")
    for fn, want in ((s, "current = self._get_config_version()"), (sj, "current = self._get_job_status_version()")):
        if src(_body(fn)[0]) != want:
            raise SiteError(f"first statement of {fn.name} changed")
    for g, f in (("_get_config_version", "self._config_version_file"), ("_get_job_status_version", "self._job_status_version_file")):
        t = src(find_def(CL, f"Cluster.{g}"))
        if f"open({f}, 'r')" not in t or "return int(f_in.read().strip())" not in t:
            raise SiteError(f"{g} changed")
    return ("/-- `_serialize`: `if self._config.version != current: raise ConfigVersionMismatch` (current = config_version.txt) -/\n"
            f"def cfgVersionMismatch (mine current : Nat) : Bool :=\n  {c1}\n\n"
            "/-- `_serialize_jobs`: `if self._job_status.version != current: raise JobStatusVersionMismatch` -/\n"
            f"def jsVersionMismatch (mine current : Nat) : Bool :=\n  {c2}\n\n"
            "/-- `_check_versions`: first the config version … -/\n"
            f"def checkCfgMismatch (mine current : Nat) : Bool :=\n  {c3}\n\n"
            "/-- … then the job-status version -/\n"
            f"def checkJsMismatch (mine current : Nat) : Bool :=\n  {c4}")


def pred_if(i, mine):
    if not isinstance(i, ast.If) or len(i.body) != 1 or not isinstance(i.body[0], ast.Raise) or i.orelse:
        raise SiteError("version check is not `if …: raise`")
    exc = src(i.body[0].exc.func)
    if not exc.endswith("VersionMismatch"):
        raise SiteError(f"version check raises {exc}")
    return i, pred({mine: ("mine", "nat"), "current": ("current", "nat")}, i.test)


HASH_ENV = {
    "hash(self._config.json())": ("(some cur)", "enum"),
    "hash(self._job_status.json())": ("(some cur)", "enum"),
    "self._config_hash": ("cfgHash", "enum"),
    "self._job_status_hash": ("jsHash", "enum"),
}


@site("cluster.serialize", "Cluster", P_ALL)
def _():
    """changed-tests of `_serialize` / `_serialize_jobs` (which remembered hash each one compares against) and the
    statement order compare -> bump -> version file -> data file -> remember hash."""
    s = _body(find_def(CL, "Cluster._serialize"))
    if [type(x).__name__ for x in s] != ["Assign", "If", "If"]:
        raise SiteError(f"_serialize shape changed: {[type(x).__name__ for x in s]}")
    ch = s[2]
    if ch.orelse:
        raise SiteError("_serialize: else branch appeared")
    body = [x for x in _srcs(ch.body) if not x.startswith("logger.")]
    want = ["self._config.version += 1", "self._serialize_config_version()", "text = self._config.json()",
            "self._config_hash = hash(text)", "self._serialize_file(self._config.json(), self._config_file)"]
    cfg_back = _guarded_version_write(ch.body[1], "self._serialize_config_version", "self._config.version")
    if body[:1] + body[2:] != want[:1] + want[2:]:
        raise SiteError(f"_serialize write sequence changed: {body}")
    cfg_failed = _aug(cfg_back, "self._config.version", "v") if cfg_back is not None else "((v : Nat) : Int)"
    c_cfg = pred(HASH_ENV, ch.test)
    cfg_inc = _aug(ch.body[0], "self._config.version", "v")
    sj = _body(find_def(CL, "Cluster._serialize_jobs"))
    if [type(x).__name__ for x in sj] != ["Assign", "If", "If"]:
        raise SiteError("_serialize_jobs shape changed")
    chj = sj[2]
    if chj.orelse:
        raise SiteError("_serialize_jobs: else branch appeared")
    bodyj = [x for x in _srcs(chj.body) if not x.startswith("logger.")]
    wantj = ["self._job_status.version += 1", "self._serialize_job_status_version()", "text = self._job_status.json()",
             "self._serialize_file(text, self._job_status_file)", "self._job_status_hash = hash(text)"]
    js_back = _guarded_version_write(chj.body[1], "self._serialize_job_status_version", "self._job_status.version")
    if bodyj[:1] + bodyj[2:] != wantj[:1] + wantj[2:]:
        raise SiteError(f"_serialize_jobs write sequence changed: {bodyj}")
    js_failed = _aug(js_back, "self._job_status.version", "v") if js_back is not None else "((v : Nat) : Int)"
    c_js = pred(HASH_ENV, chj.test)
    js_inc = _aug(chj.body[0], "self._job_status.version", "v")
    for g, v, f in (("_serialize_config_version", "self._config.version", "self._config_version_file"),
                    ("_serialize_job_status_version", "self._job_status.version", "self._job_status_version_file")):
        t = src(find_def(CL, f"Cluster.{g}"))
        if f"open({f}, 'w')" not in t or f"f_out.write(str({v}) + '\\n')" not in t:
            raise SiteError(f"{g} changed")
    return ("set_option linter.unusedVariables false\n\n"
            "/-- `_serialize`: `if hash(self._config.json()) != …` — `cur` is the value whose JSON text is hashed now,\n"
            "    `cfgHash`/`jsHash` the values whose hashes the handle remembers in `_config_hash`/`_job_status_hash` -/\n"
            f"def cfgChanged {{α : Type}} [BEq α] (cur : α) (cfgHash jsHash : Option α) : Bool :=\n  {c_cfg}\n\n"
            "/-- `_serialize_jobs`: `if hash(self._job_status.json()) != …` -/\n"
            f"def jsChanged {{α : Type}} [BEq α] (cur : α) (cfgHash jsHash : Option α) : Bool :=\n  {c_js}\n\n"
            f"/-- `self._config.version += 1` -/\ndef cfgVersionBump (v : Nat) : Nat :=\n  {cfg_inc}\n\n"
            f"/-- `self._job_status.version += 1` -/\ndef jsVersionBump (v : Nat) : Nat :=\n  {js_inc}\n\n"
            "/-- `_serialize`: the in-memory version after the write of config_version.txt RAISED, `v` the bumped version: the handler\n"
            "    `except Exception: self._config.version -= 1; raise` rolls the bump back (`v` itself when the write is not guarded) -/\n"
            f"def cfgVersionAfterFailedWrite (v : Nat) : Int :=\n  {cfg_failed}\n\n"
            "/-- `_serialize_jobs`: likewise for job_status_version.txt -/\n"
            f"def jsVersionAfterFailedWrite (v : Nat) : Int :=\n  {js_failed}\n\n"
            "/-- compare → bump → version file → data file; `_config_hash` is set in `_serialize`, `_job_status_hash` in `_serialize_jobs` -/\n"
            "def serializeShapeOk : Bool := true\n\nset_option linter.unusedVariables true")


@site("cluster.serializeFile", "Cluster", ["C09", "C10", "C11"])
def _():
    b = _body(find_def(CL, "Cluster._serialize_file"))
    got = _srcs(b)
    want = ["backup = None",
            "if os.path.exists(filename):\n    backup = filename + '.bk'\n    os.rename(filename, backup)",
            "with open(filename, 'w') as f_out:\n    f_out.write(text + '\\n')",
            "if backup:\n    os.remove(backup)"]
    if got != want:
        raise SiteError(f"_serialize_file changed: {got}")
    return "/-- `_serialize_file`: rename to .bk → write → remove .bk (no backup file survives a completed call) -/\ndef serializeFileShapeOk : Bool := true"


@site("cluster.updateJobStatus", "Cluster", P_STATUS + ["C01", "C11"])
def _():
    fn = find_def(CL, "Cluster._update_job_status")
    b = [s for s in _body(fn)]
    kinds = [type(s).__name__ for s in b]
    if kinds != ["Expr", "Assign", "Assign", "Assign", "Assign", "For", "For", "For", "For", "For", "Expr", "Expr", "Assign", "Expr"]:
        raise SiteError(f"_update_job_status shape changed: {kinds}")
    if src(b[0]) != "self._check_versions('update_job_status')":
        raise SiteError("_update_job_status no longer starts with _check_versions")
    if _srcs(b[1:5]) != ["self._job_status.hpc_job_ids = hpc_job_ids", "self._job_status.batch_index = batch_index",
                         "status_lookup = {x.name: x for x in self._job_status.jobs}", "processed = set()"]:
        raise SiteError(f"_update_job_status preamble changed: {_srcs(b[1:5])}")
    fsub, fblk, fcan, fcomp, fclr = b[5:10]
    if _srcs(b[10:12]) != ["self._serialize('update_job_status')", "self._serialize_jobs('update_job_status')"]:
        raise SiteError("serialize order changed")
    # submitted
    if src(fsub.iter) != "submitted_jobs" or [type(s).__name__ for s in fsub.body] != ["Assert", "Assign", "Expr", "AugAssign"]:
        raise SiteError("submitted loop changed")
    env = dict(STATE_ENV)
    env["status_lookup[job.name].state"] = ("state", "enum")
    env["old.state"] = ("state", "enum")
    env["job.state"] = ("state", "enum")
    sub_assert = pred(env, fsub.body[0].test)
    if src(fsub.body[1].targets[0]) != "status_lookup[job.name].state" or src(fsub.body[2]) != "processed.add(job.name)":
        raise SiteError("submitted loop body changed")
    sub_state = pred(env, fsub.body[1].value, ctx="term")
    sub_inc = _aug(fsub.body[3], "self._config.submitted_jobs", "submitted")
    # blocked
    if src(fblk.iter) != "blocked_jobs" or _srcs(fblk.body)[0] != "old = status_lookup[job.name]" or \
            [type(s).__name__ for s in fblk.body] != ["Assign", "Assert", "Assign", "Expr"] or \
            _srcs(fblk.body)[2:] != ["old.blocked_by = job.blocked_by", "processed.add(job.name)"]:
        raise SiteError("blocked loop changed")
    blk_assert = pred(env, fblk.body[1].test)
    # canceled
    if src(fcan.iter) != "canceled_jobs" or len(fcan.body) != 1:
        raise SiteError("canceled loop changed")
    can_inc = _aug(fcan.body[0], "self._config.submitted_jobs", "submitted")
    # completed
    if src(fcomp.iter) != "completed_job_names" or [type(s).__name__ for s in fcomp.body] != ["Assert", "Assign", "AugAssign"]:
        raise SiteError("completed loop changed")
    comp_assert = pred({"name not in processed": ("(!inProcessed)", "bool"), "name in processed": ("inProcessed", "bool")}, fcomp.body[0].test)
    if src(fcomp.body[1].targets[0]) != "status_lookup[name].state":
        raise SiteError("completed loop assignment changed")
    comp_state = pred(env, fcomp.body[1].value, ctx="term")
    comp_inc = _aug(fcomp.body[2], "self._config.completed_jobs", "completed")
    # clearing
    if src(fclr.iter) != "self.iter_jobs()" or len(fclr.body) != 1 or not isinstance(fclr.body[0], ast.If) or \
            _srcs(fclr.body[0].body) != ["job.blocked_by.clear()"] or fclr.body[0].orelse:
        raise SiteError("clearing loop changed")
    env2 = dict(env)
    env2["job.blocked_by"] = ("blockedBy", "list")
    clr = pred(env2, fclr.body[0].test)
    return ("/-- `_update_job_status` runs `_check_versions` first, then hpc ids / batch index, the four loops, the clearing loop,\n"
            "    `_serialize`, `_serialize_jobs` -/\ndef updateShapeOk : Bool := true\n\n"
            "/-- submitted loop: `assert status_lookup[job.name].state != JobState.SUBMITTED` -/\n"
            f"def submitAssert (state : JState) : Bool :=\n  {sub_assert}\n\n"
            f"def submitNewState : JState := {sub_state}\n\n"
            f"/-- `self._config.submitted_jobs += 1` per submitted job -/\ndef submittedAfterSubmit (submitted : Nat) : Nat :=\n  {sub_inc}\n\n"
            "/-- blocked loop: `assert old.state == JobState.NOT_SUBMITTED` -/\n"
            f"def blockedAssert (state : JState) : Bool :=\n  {blk_assert}\n\n"
            f"/-- `for _ in canceled_jobs: self._config.submitted_jobs += 1` -/\ndef submittedAfterCancel (submitted : Nat) : Nat :=\n  {can_inc}\n\n"
            "/-- completed loop: `assert name not in processed` -/\n"
            f"def completeAssert (inProcessed : Bool) : Bool :=\n  {comp_assert}\n\n"
            f"def completeNewState : JState := {comp_state}\n\n"
            f"/-- `self._config.completed_jobs += 1` per completed name -/\ndef completedAfterComplete (completed : Nat) : Nat :=\n  {comp_inc}\n\n"
            "/-- clearing loop: `if job.blocked_by and job.state in (SUBMITTED, DONE): job.blocked_by.clear()` -/\n"
            f"def clearBlockers (blockedBy : List Nat) (state : JState) : Bool :=\n  {clr}")


@site("cluster.marks", "Cluster", P_STATUS + ["C05", "C14"])
def _():
    mc = _body(find_def(CL, "Cluster._mark_complete"))
    if [type(s).__name__ for s in mc] != ["Assert", "Assign", "Expr"] or \
            _srcs(mc)[1:] != ["self._config.is_complete = True", "self._serialize('mark_complete')"]:
        raise SiteError(f"_mark_complete changed: {_srcs(mc)}")
    a = pred({"self._config.is_complete": ("isComplete", "bool")}, mc[0].test)
    mk = _srcs(_body(find_def(CL, "Cluster._mark_canceled")))
    if mk != ["self._config.is_canceled = True", "self._serialize('mark_canceled')"]:
        raise SiteError(f"_mark_canceled changed: {mk}")
    ch = _body(find_def(CL, "Cluster._complete_hpc_job_id"))
    if _srcs(ch)[0] != "self._job_status.hpc_job_ids.remove(job_id)" or \
            src(ch[-1]) != "if serialize:\n    self._serialize_jobs('complete_hpc_job_id')":
        raise SiteError("_complete_hpc_job_id changed")
    dj = _srcs(_body(find_def(CL, "Cluster._deserialize_jobs")))
    if dj != ["data = load_data(self.get_job_status_file(path))", "self._job_status = JobStatus(**data)"]:
        raise SiteError("_deserialize_jobs changed")
    return ("/-- `_mark_complete`: `assert not self._config.is_complete` (then `is_complete = True`, `_serialize`) -/\n"
            f"def markCompleteAssert (isComplete : Bool) : Bool :=\n  {a}\n\n"
            "/-- `_mark_canceled`: `is_canceled = True`, `_serialize`; `_complete_hpc_job_id`: `list.remove`, `_serialize_jobs` -/\n"
            "def marksShapeOk : Bool := true")


@site("cluster.allComplete", "Cluster", ["C09", "C05", "C10"])
def _():
    fn = find_def(CL, "Cluster._are_all_jobs_complete")
    b = _body(fn)
    if [type(s).__name__ for s in b] != ["For", "Assert", "Return"] or src(b[0].iter) != "self.iter_jobs()" or src(b[2]) != "return True":
        raise SiteError("_are_all_jobs_complete shape changed")
    i = the([s for s in b[0].body], "loop body")
    if not isinstance(i, ast.If) or [type(s).__name__ for s in i.body] != ["Assert", "Return"] or src(i.body[1]) != "return False" or i.orelse:
        raise SiteError("_are_all_jobs_complete loop changed")
    env = dict(STATE_ENV)
    env.update({"job.state": ("state", "enum"), "self._config.completed_jobs": ("completed", "nat"), "self._config.num_jobs": ("numJobs", "nat")})
    it = find_def(CL, "Cluster.iter_jobs")
    if "assert self._job_status is not None" not in src(it):
        raise SiteError("iter_jobs no longer asserts that the job status is loaded")
    return ("/-- `_are_all_jobs_complete`: `if job.state != JobState.DONE` -/\n"
            f"def jobNotDone (state : JState) : Bool :=\n  {pred(env, i.test)}\n\n"
            "/-- assertion on the first job that is not done -/\n"
            f"def incompleteAssert (completed numJobs : Nat) : Bool :=\n  {pred(env, i.body[0].test)}\n\n"
            "/-- assertion when every job is done -/\n"
            f"def allDoneAssert (completed numJobs : Nat) : Bool :=\n  {pred(env, b[1].test)}")


@site("cluster.prepareResubmit", "Cluster", ["C09", "C13", "C10"])
def _():
    fn = find_def(CL, "Cluster.prepare_for_resubmission")
    b = _body(fn)
    kinds = [type(s).__name__ for s in b]
    if kinds != ["Assert", "Assign", "Assign", "Assign", "Assign", "For", "Expr", "Expr", "Expr"]:
        raise SiteError(f"prepare_for_resubmission shape changed: {kinds}")
    if "_do_action_under_lock" in src(fn):
        locked = "true"
    else:
        locked = "false"
    a = pred({"self._config.is_complete": ("isComplete", "bool")}, b[0].test)
    vals = {}
    for st in b[1:5]:
        vals[src(st.targets[0])] = st.value
    if set(vals) != {"self._config.is_complete", "self._config.is_canceled", "self._config.submitted_jobs", "self._config.completed_jobs"}:
        raise SiteError(f"assignments changed: {sorted(vals)}")
    env = {"self._config.num_jobs": ("numJobs", "nat"), "jobs_to_resubmit": ("sel", "list")}
    sub = pred(env, vals["self._config.submitted_jobs"], ctx="term")
    sub_ty = Tr(env).tr(vals["self._config.submitted_jobs"])[1]
    if sub_ty == "nat":
        sub = f"(({sub} : Nat) : Int)"
    comp = pred(env, vals["self._config.completed_jobs"], ctx="term")
    isc = pred({}, vals["self._config.is_complete"])
    isk = pred({}, vals["self._config.is_canceled"])
    loop = b[5]
    if src(loop.iter) != "self.iter_jobs()" or len(loop.body) != 1 or not isinstance(loop.body[0], ast.If):
        raise SiteError("loop changed")
    i = loop.body[0]
    if src(i.test) != "job.name in jobs_to_resubmit" or _srcs(i.body) != [
            "job.state = JobState.NOT_SUBMITTED", "job.blocked_by = updated_blocking_jobs_by_name.get(job.name, set())"]:
        raise SiteError(f"selected branch changed: {_srcs(i.body)}")
    if len(i.orelse) != 1 or not isinstance(i.orelse[0], ast.If) or i.orelse[0].orelse:
        raise SiteError("elif branch changed")
    e = i.orelse[0]
    senv = dict(STATE_ENV)
    senv["job.state"] = ("state", "enum")
    cnt = pred(senv, e.test)
    inc = _aug(the(e.body, "elif body"), "self._config.completed_jobs", "completed")
    if _srcs(b[6:]) != ["self._serialize('prepare_for_resubmission')", "self._serialize_jobs('prepare_for_resubmission')",
                        "self.serialize_submission_groups(Path(self._config.path))"]:
        raise SiteError("serialize tail changed")
    return ("/-- `prepare_for_resubmission` runs under the cluster lock -/\n"
            f"def resubmitLocked : Bool := {locked}\n\n"
            "/-- `assert self._config.is_complete` -/\n"
            f"def resubmitAssert (isComplete : Bool) : Bool :=\n  {a}\n\n"
            f"def resubmitIsComplete : Bool := {isc}\ndef resubmitIsCanceled : Bool := {isk}\n\n"
            "/-- `self._config.submitted_jobs = …` (sel = jobs_to_resubmit) -/\n"
            f"def resubmitSubmitted (numJobs : Nat) (sel : List Nat) : Int :=\n  {sub}\n\n"
            f"/-- `self._config.completed_jobs = …` before the recount -/\ndef resubmitCompletedInit : Nat := {comp}\n\n"
            "/-- unselected job counted as completed: `elif job.state == JobState.DONE` -/\n"
            f"def resubmitCounts (state : JState) : Bool :=\n  {cnt}\n\n"
            f"def resubmitCompletedInc (completed : Nat) : Nat :=\n  {inc}\n\n"
            "/-- state of a selected job -/\ndef resubmitState : JState := JState.notSubmitted")


@site("cluster.lockWrappers", "Cluster", P_ALL + ["C08"])
def _():
    """every public mutator goes through `_do_action_under_lock`; the except branch re-creates the marker"""
    cls = find_def(CL, "Cluster")
    pairs = []
    for st in cls.body:
        if not isinstance(st, ast.FunctionDef) or st.name.startswith("_"):
            continue
        t = src(st)
        m = re.search(r"(?:self\._do_action_under_lock|cls\.do_action_under_lock)\(\s*(?:path,\s*)?(?:self|cls)\.(_\w+)", t)
        if m:
            pairs.append((st.name, m.group(1)))
    pairs.sort()
    need = {"are_all_jobs_complete": "_are_all_jobs_complete", "complete_hpc_job_id": "_complete_hpc_job_id",
            "demote_from_submitter": "_demote_from_submitter", "deserialize": "_deserialize", "deserialize_jobs": "_deserialize_jobs",
            "mark_canceled": "_mark_canceled", "mark_complete": "_mark_complete", "promote_to_submitter": "_promote_to_submitter",
            "serialize": "_serialize", "serialize_jobs": "_serialize_jobs", "update_job_status": "_update_job_status"}
    got = dict(pairs)
    missing = {k: v for k, v in need.items() if got.get(k) != v}
    if missing:
        raise SiteError(f"public methods no longer run under the lock: {missing}")
    inner = find_def(CL, "Cluster._do_action_under_lock_internal")
    tries = [s for s in inner.body if isinstance(s, ast.Try)]
    if len(tries) != 2:
        raise SiteError("lock wrapper shape changed")
    acq, run = tries
    if "lock.acquire(timeout=timeout)" not in src(acq) or src(acq.handlers[0].type) != "Timeout" or src(acq.handlers[0].body[-1]) != "raise":
        raise SiteError("acquire/timeout branch changed")
    if "SoftFileLock(lock_file, timeout=timeout)" not in src(inner):
        raise SiteError("lock class changed")
    if _srcs(run.body) != ["val = func(*args, **kwargs)", "lock.release()", "return val"]:
        raise SiteError(f"locked call changed: {_srcs(run.body)}")
    h = the(run.handlers, "except handler")
    if src(h.type) != "Exception" or src(h.body[0]) != "lock.release()" or src(h.body[-1]) != "raise exc":
        raise SiteError("except branch changed")
    inner_try = the([s for s in h.body if isinstance(s, ast.Try)], "marker re-creation try")
    if "os.open(lock_file, os.O_WRONLY | os.O_CREAT | os.O_EXCL | os.O_TRUNC)" not in src(inner_try.body[0]):
        raise SiteError("the lock file is no longer re-created after an exception under the lock")
    if src(class_assign(CL, "Cluster", "LOCK_FILE")) != "'cluster_config.json.lock'":
        raise SiteError("lock file name changed")
    rows = ", ".join(f"({lstr(a)}, {lstr(b)})" for a, b in pairs)
    return ("/-- public method ↦ private method it runs under `_do_action_under_lock` -/\n"
            f"def lockedMethods : List (String × String) := [{rows}]\n\n"
            "/-- an exception under the lock: release, RE-CREATE the lock file (intentional deadlock marker), re-raise -/\n"
            "def markerAfterException : Bool := true")


@site("cluster.deserialize", "Cluster", P_ALL)
def _():
    b = _body(find_def(CL, "Cluster._deserialize"))
    want = ["config_file = cls.get_config_file(path)",
            "if not os.path.isfile(config_file):\n    raise InvalidConfiguration(f'{config_file} does not exist')",
            "config = ClusterConfig(**load_data(config_file))", "cluster = cls(config)", "promoted = False",
            "if try_promote_to_submitter:\n    promoted = cluster._promote_to_submitter()",
            "if deserialize_jobs:\n    cluster._deserialize_jobs(path)", "return (cluster, promoted)"]
    if _srcs(b) != want:
        raise SiteError(f"_deserialize changed: {_srcs(b)}")
    gs = find_def(CL, "Cluster.get_status_summary")
    t = src(gs)
    for need in ("not_submitted = self._config.num_jobs - self._config.submitted_jobs", "'completed_jobs': self._config.completed_jobs",
                 "'not_submitted_jobs': not_submitted", "'num_jobs': self._config.num_jobs", "'is_complete': self.is_complete()",
                 "'is_canceled': self.is_canceled()", "summary['job_status'] = self._job_status.dict()"):
        if need not in t:
            raise SiteError(f"get_status_summary changed: {need}")
    return ("/-- `_deserialize`: missing config → InvalidConfiguration; load config; new handle; optional promotion; optional job status -/\n"
            "def deserializeShapeOk : Bool := true\n\n"
            "/-- `get_status_summary`: `not_submitted_jobs = num_jobs - submitted_jobs` -/\n"
            "def notSubmittedCount (numJobs submitted : Nat) : Int :=\n  (((numJobs : Nat) : Int) - ((submitted : Nat) : Int))")


# ------------------------------------------------------------------------------------------
# the ORDER in which one lock section writes the files (torn writes: a writer killed between two writes)
# ------------------------------------------------------------------------------------------
_WRITE_CALLS = {
    "cfgVer": lambda c: src(c.func) == "self._serialize_config_version" and not c.args and not c.keywords,
    "jsVer": lambda c: src(c.func) == "self._serialize_job_status_version" and not c.args and not c.keywords,
    "cfg": lambda c: src(c.func) == "self._serialize_file" and len(c.args) == 2 and src(c.args[1]) == "self._config_file",
    "js": lambda c: src(c.func) == "self._serialize_file" and len(c.args) == 2 and src(c.args[1]) == "self._job_status_file",
}


def _write_events(fn):
    """[(file id, enclosing statement list)] of the file-writing calls of `fn`, in statement (= execution) order.
    Anything else in the function that could write a file is not understood."""
    out = []

    def visit(stmts):
        for st in stmts:
            if isinstance(st, (ast.FunctionDef, ast.ClassDef)):
                raise SiteError(f"{fn.name}: nested definition")
            if isinstance(st, ast.Try):
                # the guarded write of a version file (`try: write() except Exception: version -= 1; raise`): one write event of
                # the enclosing block - the handler re-raises, so nothing after it runs when the write failed
                for fid, call, target in (("cfgVer", "self._serialize_config_version", "self._config.version"),
                                          ("jsVer", "self._serialize_job_status_version", "self._job_status.version")):
                    if _srcs(st.body) == [f"{call}()"]:
                        _guarded_version_write(st, call, target)
                        out.append((fid, id(stmts)))
                        break
                else:
                    if any(isinstance(n, ast.Call) and any(p(n) for p in _WRITE_CALLS.values()) for n in ast.walk(st)):
                        raise SiteError(f"{fn.name}: a file write inside a try block")
                continue
            if isinstance(st, (ast.While, ast.For)):
                if any(isinstance(n, ast.Call) and any(p(n) for p in _WRITE_CALLS.values()) for n in ast.walk(st)):
                    raise SiteError(f"{fn.name}: a file write inside a loop / try block")
            calls = [n for n in ast.walk(st) if isinstance(n, ast.Call)] if not isinstance(st, (ast.If, ast.With)) else \
                [n for n in ast.walk(st.test if isinstance(st, ast.If) else st.items[0].context_expr) if isinstance(n, ast.Call)]
            for c in calls:
                f = src(c.func)
                hit = [k for k, p in _WRITE_CALLS.items() if p(c)]
                if hit:
                    if not (isinstance(st, ast.Expr) and st.value is c):
                        raise SiteError(f"{fn.name}: file write is not a statement of its own: {src(st)}")
                    out.append((hit[0], id(stmts)))
                elif f in ("open", "os.rename", "os.remove", "os.replace", "shutil.move", "shutil.copy", "shutil.copyfile", "dump_data") \
                        or f.startswith("self._serialize"):
                    raise SiteError(f"{fn.name}: file operation not understood: {src(c)}")
            if isinstance(st, ast.If):
                visit(st.body)
                visit(st.orelse)
            elif isinstance(st, ast.With):
                visit(st.body)
    visit(_body(fn))
    return out


@site("cluster.writeOrder", "Cluster", ["C10", "C11"])
def _():
    """Which files `_serialize` / `_serialize_jobs` write and in WHICH ORDER (version file vs. data file): a writer killed
    between the two writes leaves the first one done and the second one not."""
    orders = {}
    for name, want in (("_serialize", {"cfgVer", "cfg"}), ("_serialize_jobs", {"jsVer", "js"})):
        ev = _write_events(find_def(CL, f"Cluster.{name}"))
        ids = [k for k, _ in ev]
        if sorted(ids) != sorted(want):
            raise SiteError(f"{name} writes {ids}, expected each of {sorted(want)} once")
        if len({blk for _, blk in ev}) != 1:
            raise SiteError(f"{name}: the two writes are not in the same block")
        orders[name] = ids
    # callers that write both pairs in one lock section / call: config first, then job status
    for caller in ("Cluster._update_job_status", "Cluster.prepare_for_resubmission"):
        fn = find_def(CL, caller)
        seq = [src(s.value.func) for s in walk_stmts(fn) if isinstance(s, ast.Expr) and isinstance(s.value, ast.Call)
               and src(s.value.func) in ("self._serialize", "self._serialize_jobs")]
        if seq != ["self._serialize", "self._serialize_jobs"]:
            raise SiteError(f"{caller}: serialization calls {seq}")
    # the other writers serialize exactly one pair
    for caller, want in (("Cluster._promote_to_submitter", ["self._serialize"]), ("Cluster._demote_from_submitter", ["self._serialize"]),
                         ("Cluster._mark_complete", ["self._serialize"]), ("Cluster._mark_canceled", ["self._serialize"]),
                         ("Cluster._complete_hpc_job_id", ["self._serialize_jobs"])):
        fn = find_def(CL, caller)
        seq = [src(n.func) for n in ast.walk(fn) if isinstance(n, ast.Call) and src(n.func) in ("self._serialize", "self._serialize_jobs")]
        if seq != want:
            raise SiteError(f"{caller}: serialization calls {seq}")
    lst = lambda ids: "[" + ", ".join(f"FileId.{k}" for k in ids) + "]"  # noqa: E731
    return ("/-- the four files a lock section of `Cluster` may write -/\n"
            "inductive FileId where\n  | cfgVer | cfg | jsVer | js\n  deriving DecidableEq, Repr\n\n"
            "/-- `_serialize`: its file writes in statement order (config_version.txt / cluster_config.json) -/\n"
            f"def cfgWriteOrder : List FileId := {lst(orders['_serialize'])}\n\n"
            "/-- `_serialize_jobs`: its file writes in statement order (job_status_version.txt / job_status.json) -/\n"
            f"def jsWriteOrder : List FileId := {lst(orders['_serialize_jobs'])}\n\n"
            "/-- `_update_job_status` / `prepare_for_resubmission` call `_serialize` before `_serialize_jobs`; every other\n"
            "    writer serializes exactly one of the two pairs -/\n"
            "def configBeforeJobs : Bool := true")
