"""Translator sites for Gen/Command.lean (C19: jobs launched as configured, real exit status recorded).

Extracted from the working tree:
  * `AsyncCliCommand.run`: the string handed to `shlex.split`, the `posix=` argument expression, the
    environment assignments, the stdout/stderr path templates and which file goes to which `Popen` stream;
  * `GenericCommandExecution.generate_command`: the initial command expression, the local definitions and
    the guarded suffix templates in statement order;
  * `AsyncCliCommand._complete` / `.cancel`: the guard, the expressions passed to `Result(...)` (name,
    return_code, status, hpc_job_id) and the arguments of `ResultsAggregator.append`.
The hand-written model (Model/Command.lean) evaluates these generated terms.
"""
import ast
from exlib import *  # noqa

ASYNC = "jade/jobs/async_cli_command.py"
GENEXEC = "jade/extensions/generic_command/generic_command_execution.py"
COMMON = "jade/common.py"
ENUMS = "jade/enums.py"

PREAMBLE["Command"] = """set_option linter.unusedVariables false

inductive Piece where
  | lit (s : String)
  | var (name : String)
  deriving Repr, DecidableEq

/-- What an `AsyncCliCommand` object knows when it runs / completes. -/
structure Ctx where
  /-- `self._job.name` (= `self.name`) -/
  jobName : String
  /-- `self._cli_cmd` -/
  cliCmd : String
  /-- `str(self._output)` -/
  output : String
  /-- `self._hpc_job_id` -/
  hpcJobId : Option String
  /-- `self._batch_id` -/
  batchId : Nat
  /-- `self._is_manager_node` -/
  isManager : Bool
  /-- `self._pipe.returncode` once `poll()` is not None -/
  rc : Int
  deriving Repr, DecidableEq

/-- Python `needle in hay` for strings (as character lists) -/
def isInfix (needle : List Char) : List Char → Bool
  | [] => needle.isEmpty
  | c :: cs => needle.isPrefixOf (c :: cs) || isInfix needle cs

def strContains (hay needle : String) : Bool := isInfix needle.toList hay.toList
"""


# ------------------------------------------------------------------------------------------
# small expression translators over the `Ctx` interface
# ------------------------------------------------------------------------------------------
STR_VARS = {
    "self._job.name": "x.jobName",
    "self.name": "x.jobName",
    "self._cli_cmd": "x.cliCmd",
    "str(self._output)": "x.output",
}
OPT_VARS = {"self._hpc_job_id": "x.hpcJobId"}
INT_VARS = {"self._pipe.returncode": "x.rc"}
NAT_VARS = {"self._batch_id": "x.batchId"}


def straight_assigns(fn):
    """top-level `target = value` statements of a function, in order"""
    return [(src(s.targets[0]), s.value) for s in fn.body if isinstance(s, ast.Assign) and len(s.targets) == 1]


def resolve(fn, node, depth=3):
    """Substitute a name/attribute that is assigned exactly once at the top level of `fn`."""
    for _ in range(depth):
        key = src(node)
        cands = [v for t, v in straight_assigns(fn) if t == key]
        if len(cands) == 1:
            node = cands[0]
        elif len(cands) > 1:
            raise SiteError(f"{key} assigned {len(cands)} times")
        else:
            break
    return node


def enum_value(node, enum):
    """JobCompletionStatus.FINISHED -> 'finished' (value looked up in jade/enums.py)"""
    member = enum_member(node, enum)
    cls = find_def(ENUMS, enum)
    for st in cls.body:
        if isinstance(st, ast.Assign) and len(st.targets) == 1 and src(st.targets[0]) == member:
            return const_str(st.value)
    raise SiteError(f"{enum}.{member} has no string value")


def tr_str(node):
    key = src(node)
    if key in STR_VARS:
        return STR_VARS[key]
    if isinstance(node, ast.Constant) and isinstance(node.value, str):
        return lstr(node.value)
    if isinstance(node, ast.Call) and src(node.func) == "str" and len(node.args) == 1:
        k2 = src(node.args[0])
        if k2 in STR_VARS:
            return STR_VARS[k2]
        if k2 in INT_VARS:
            return f"(toString {INT_VARS[k2]})"
    if isinstance(node, ast.BinOp) and isinstance(node.op, ast.Add):
        return f"({tr_str(node.left)} ++ {tr_str(node.right)})"
    if isinstance(node, ast.JoinedStr):
        parts = []
        for v in node.values:
            if isinstance(v, ast.Constant):
                parts.append(lstr(v.value))
            elif isinstance(v, ast.FormattedValue) and v.format_spec is None and v.conversion == -1:
                parts.append(tr_str(v.value))
            else:
                raise SiteError(f"f-string part in {key}")
        return "(" + " ++ ".join(parts or ['""']) + ")"
    raise SiteError(f"untranslatable string expression: {key}")


def tr_opt(node):
    key = src(node)
    if key in OPT_VARS:
        return OPT_VARS[key]
    if isinstance(node, ast.Constant) and node.value is None:
        return "none"
    try:
        return f"(some {tr_str(node)})"
    except SiteError:
        raise SiteError(f"untranslatable optional string expression: {key}")


class IntTr(Tr):
    """exlib.Tr plus abs()/int()/bool()/conditional expressions for return codes."""

    def t_Call(self, n):
        f = n.func
        if isinstance(f, ast.Name) and len(n.args) == 1 and not n.keywords:
            if f.id == "abs":
                return (f"(Int.ofNat (Int.natAbs {self.num(n.args[0], True)}))", "int")
            if f.id == "int":
                t, ty = self.tr(n.args[0])
                if ty in ("int", "nat"):
                    return (t, ty)
                if ty == "bool":
                    return (f"(if {t} then (1 : Int) else 0)", "int")
            if f.id == "bool":
                return (self.truth(n.args[0]), "bool")
        return super().t_Call(n)

    def t_IfExp(self, n):
        a, b = self.num(n.body, True), self.num(n.orelse, True)
        return (f"(if {self.truth(n.test)} then {a} else {b})", "int")

    def t_BinOp(self, n):
        if isinstance(n.op, (ast.Mod, ast.FloorDiv)):
            a, b = self.num(n.left, True), self.num(n.right, True)
            # Python's % and // are floored; Int.fmod / Int.fdiv are the floored versions
            return (f"(Int.fmod {a} {b})" if isinstance(n.op, ast.Mod) else f"(Int.fdiv {a} {b})", "int")
        return super().t_BinOp(n)


def tr_int(node):
    env = {k: (v, "int") for k, v in INT_VARS.items()}
    env.update({k: (v, "nat") for k, v in NAT_VARS.items()})
    t = IntTr(env)
    term, ty = t.tr(node)
    if ty == "bool":  # a bool recorded as return code prints as True/False; int(row) would fail
        raise SiteError(f"return code is a bool expression: {src(node)}")
    if ty == "nat":
        return f"(({term} : Nat) : Int)"
    if ty != "int":
        raise SiteError(f"return code expression of type {ty}: {src(node)}")
    return term


def common_const(name):
    for st in module(COMMON).body:
        if isinstance(st, ast.Assign) and len(st.targets) == 1 and src(st.targets[0]) == name:
            return const_str(st.value)
    raise SiteError(f"jade/common.py: {name} not found")


# ------------------------------------------------------------------------------------------
# AsyncCliCommand.run
# ------------------------------------------------------------------------------------------
def _run_fn():
    return find_def(ASYNC, "AsyncCliCommand.run")


@site("command.split", "Command", ["C19"])
def _():
    fn = _run_fn()
    a = the(assigns(fn, "cmd"), "cmd = shlex.split(…)")
    c = a.value
    if not (isinstance(c, ast.Call) and src(c.func) == "shlex.split" and len(c.args) == 1):
        raise SiteError(f"cmd is no longer shlex.split(<one arg>, …): {src(c)}")
    kw = {k.arg: k.value for k in c.keywords}
    extra = set(kw) - {"posix"}
    if extra:
        raise SiteError(f"unexpected keyword(s) of shlex.split: {sorted(extra)}")
    text = tr_str(c.args[0])
    p = kw.get("posix")
    if p is None:
        posix = "true"
    elif isinstance(p, ast.Constant) and isinstance(p.value, bool):
        posix = "true" if p.value else "false"
    else:
        posix = _tr_platform(p)
    return (
        "/-- the string `AsyncCliCommand.run` hands to `shlex.split` -/\n"
        f"def splitInput (x : Ctx) : String := {text}\n\n"
        f"/-- the `posix=` argument of that call: `{src(p) if p is not None else 'default True'}` -/\n"
        f"def posixArg (platform : String) : Bool := {posix}"
    )


def _tr_platform(node):
    """boolean expressions over `sys.platform`"""
    if isinstance(node, ast.Compare) and len(node.ops) == 1:
        op, a, b = node.ops[0], node.left, node.comparators[0]
        if isinstance(op, (ast.In, ast.NotIn)) and isinstance(a, ast.Constant) and isinstance(a.value, str) and src(b) == "sys.platform":
            t = f"strContains platform {lstr(a.value)}"
            return f"({t})" if isinstance(op, ast.In) else f"(!({t}))"
        if isinstance(op, (ast.Eq, ast.NotEq)) and src(a) == "sys.platform" and isinstance(b, ast.Constant) and isinstance(b.value, str):
            return f"(platform == {lstr(b.value)})" if isinstance(op, ast.Eq) else f"(platform != {lstr(b.value)})"
    if isinstance(node, ast.UnaryOp) and isinstance(node.op, ast.Not):
        return f"(!{_tr_platform(node.operand)})"
    if isinstance(node, ast.BoolOp):
        op = " && " if isinstance(node.op, ast.And) else " || "
        return "(" + op.join(_tr_platform(v) for v in node.values) + ")"
    if isinstance(node, ast.Constant) and isinstance(node.value, bool):
        return "true" if node.value else "false"
    if isinstance(node, ast.Call) and src(node.func) == "sys.platform.startswith" and len(node.args) == 1:
        return f"(({lstr(const_str(node.args[0]))}).toList.isPrefixOf platform.toList)"
    raise SiteError(f"untranslatable posix= expression: {src(node)}")


@site("command.env", "Command", ["C19"])
def _():
    fn = _run_fn()
    base = the(assigns(fn, "env"), "env = …")
    if src(base.value) != "os.environ.copy()":
        raise SiteError(f"env base changed: {src(base.value)}")
    rows = []
    for s in fn.body:
        if isinstance(s, ast.Assign) and len(s.targets) == 1 and isinstance(s.targets[0], ast.Subscript) and src(s.targets[0].value) == "env":
            rows.append(f"({lstr(const_str(s.targets[0].slice))}, {tr_str(s.value)})")
        elif isinstance(s, ast.Delete) or (isinstance(s, ast.Expr) and src(s).startswith("env.")):
            raise SiteError(f"unexpected env manipulation: {src(s)}")
    return (
        "/-- `env = os.environ.copy()` followed by these assignments, in order -/\n"
        "def envInherits : Bool := true\n\n"
        "def envAssigns (x : Ctx) : List (String × String) := [\n  " + ",\n  ".join(rows) + "]"
    )


def _path_template(fn, node):
    """`self._output / JOBS_STDIO_DIR / f"{self._job.name}.o"` -> list of components (Lean strings)"""
    comps = []
    while isinstance(node, ast.BinOp) and isinstance(node.op, ast.Div):
        comps.append(node.right)
        node = node.left
    comps.append(node)
    comps.reverse()
    out = []
    for i, c in enumerate(comps):
        if i == 0:
            if src(c) != "self._output":
                raise SiteError(f"path does not start at self._output: {src(c)}")
            out.append("x.output")
        elif isinstance(c, ast.Name) and c.id.isupper():
            out.append(lstr(common_const(c.id)))
        else:
            out.append(tr_str(c))
    return llist(out)


@site("command.stdio", "Command", ["C19"])
def _():
    fn = _run_fn()
    call = the(assigns(fn, "self._pipe"), "self._pipe = subprocess.Popen(…)").value
    if not (isinstance(call, ast.Call) and src(call.func) == "subprocess.Popen" and len(call.args) == 1):
        raise SiteError(f"process creation changed: {src(call)}")
    if src(call.args[0]) != "cmd":
        raise SiteError(f"Popen no longer receives `cmd`: {src(call.args[0])}")
    kw = {k.arg: k.value for k in call.keywords}
    if set(kw) != {"env", "stdout", "stderr"}:
        raise SiteError(f"Popen keywords changed: {sorted(kw)}")
    if src(kw["env"]) != "env":
        raise SiteError(f"Popen env changed: {src(kw['env'])}")
    out = {}
    for stream in ("stdout", "stderr"):
        fp = resolve(fn, kw[stream], depth=1)
        if not (isinstance(fp, ast.Call) and src(fp.func) == "open" and len(fp.args) == 2 and not fp.keywords):
            raise SiteError(f"{stream} is not a file opened in run(): {src(fp)}")
        mode = const_str(fp.args[1])
        if mode != "w":
            raise SiteError(f"{stream} opened with mode {mode!r}")
        path = resolve(fn, fp.args[0], depth=1)
        out[stream] = _path_template(fn, path)
    # shlex.split happens before the files are opened (a split error leaves no file behind)
    order = [i for i, s in enumerate(fn.body) if isinstance(s, ast.Assign) and src(s.targets[0]) in ("cmd", "self._stdout_fp", "self._stderr_fp", "self._pipe")]
    names = [src(fn.body[i].targets[0]) for i in order]
    if names[0] != "cmd" or names[-1] != "self._pipe":
        raise SiteError(f"statement order changed: {names}")
    return (
        "/-- path components of the file passed as `stdout=` / `stderr=` to `Popen` (opened with mode \"w\") -/\n"
        f"def stdoutPath (x : Ctx) : List String := {out['stdout']}\n"
        f"def stderrPath (x : Ctx) : List String := {out['stderr']}"
    )


# ------------------------------------------------------------------------------------------
# GenericCommandExecution.generate_command
# ------------------------------------------------------------------------------------------
@site("command.generate", "Command", ["C19"])
def _():
    fn = find_def(GENEXEC, "GenericCommandExecution.generate_command")
    body = [s for s in fn.body if not (isinstance(s, ast.Expr) and isinstance(s.value, ast.Constant))]
    if not (isinstance(body[0], ast.Assign) and src(body[0].targets[0]) == "cmd"):
        raise SiteError("first statement is not `cmd = …`")
    init = src(body[0].value)
    if not (isinstance(body[-1], ast.Return) and src(body[-1].value) == "cmd"):
        raise SiteError("last statement is not `return cmd`")
    sufs, locs = [], []
    for s in body[1:-1]:
        if not (isinstance(s, ast.If) and not s.orelse):
            raise SiteError(f"unexpected statement in generate_command: {src(s)[:60]}")
        guard = src(s.test)
        aug = None
        for t in s.body:
            if isinstance(t, ast.Assign) and len(t.targets) == 1 and isinstance(t.targets[0], ast.Name):
                locs.append(f"({lstr(t.targets[0].id)}, {lstr(src(t.value))})")
            elif isinstance(t, ast.AugAssign) and src(t.target) == "cmd" and isinstance(t.op, ast.Add) and aug is None:
                aug = t.value
            else:
                raise SiteError(f"unexpected statement under `if {guard}`: {src(t)[:60]}")
        if aug is None:
            raise SiteError(f"no `cmd += …` under `if {guard}`")
        sufs.append(f"({lstr(guard)}, {pieces(aug)})")
    return (
        "/-- `cmd = …` -/\n"
        f"def cmdInit : String := {lstr(init)}\n\n"
        "/-- local definitions made inside the guarded blocks: (name, expression) -/\n"
        f"def cmdLocals : List (String × String) := {llist(locs)}\n\n"
        "/-- `if <guard>: cmd += <template>` in statement order -/\n"
        "def cmdSuffixes : List (String × List Piece) := [\n  " + ",\n  ".join(sufs) + "]"
    )


@site("command.jobsOutput", "Command", ["C19"])
def _():
    """`_generate_jobs` passes `self._jobs_output` = os.path.join(output, JOBS_OUTPUT_DIR) as `output`
    and `self._output` as the AsyncCliCommand's output."""
    base = find_def("jade/jobs/job_manager_base.py", "JobManagerBase.__init__")
    a = the(assigns(base, "self._jobs_output"), "self._jobs_output = …")
    if src(a.value) != "os.path.join(self._output, JOBS_OUTPUT_DIR)":
        raise SiteError(f"_jobs_output changed: {src(a.value)}")
    o = the(assigns(base, "self._output"), "self._output = …")
    if src(o.value) != "output_dir":
        raise SiteError(f"_output changed: {src(o.value)}")
    gj = find_def("jade/jobs/job_runner.py", "JobRunner._generate_jobs")
    calls = [n for n in ast.walk(gj) if isinstance(n, ast.Call) and src(n.func) == "AsyncCliCommand"]
    c = the(calls, "AsyncCliCommand(…)")
    args = [src(x) for x in c.args]
    if len(args) != 6 or c.keywords:
        raise SiteError(f"AsyncCliCommand arguments changed: {args}")
    if args[0] != "job" or args[2:] != ["self._output", "self._batch_id", "self._intf.am_i_manager()", "self._intf.get_current_job_id()"]:
        raise SiteError(f"AsyncCliCommand arguments changed: {args}")
    g = c.args[1]
    if not (isinstance(g, ast.Call) and src(g.func) == "job_exec_class.generate_command" and [src(x) for x in g.args[:2]] == ["job", "self._jobs_output"]):
        raise SiteError(f"command argument changed: {src(g)}")
    init = find_def(ASYNC, "AsyncCliCommand.__init__")
    want = {"self._job": "job", "self._cli_cmd": "cmd", "self._output": "Path(output)", "self._batch_id": "batch_id",
            "self._is_manager_node": "is_manager_node", "self._hpc_job_id": "hpc_job_id"}
    for t, v in want.items():
        got = src(the(assigns(init, t), t).value)
        if got != v:
            raise SiteError(f"AsyncCliCommand.__init__: {t} = {got}")
    params = [a.arg for a in init.args.args]
    if params != ["self", "job", "cmd", "output", "batch_id", "is_manager_node", "hpc_job_id"]:
        raise SiteError(f"AsyncCliCommand.__init__ signature changed: {params}")
    return (
        "/-- directory name appended to the output directory for the `output` argument of `generate_command` -/\n"
        f"def jobsOutputDir : String := {lstr(common_const('JOBS_OUTPUT_DIR'))}\n"
        "/-- `_generate_jobs` wires job, generated command, output, batch id, manager flag and HPC job id as modelled -/\n"
        "def generateJobsShapeOk : Bool := true"
    )


# ------------------------------------------------------------------------------------------
# AsyncCliCommand._complete / cancel
# ------------------------------------------------------------------------------------------
def _result_site(qual, label, guard_kind):
    fn = find_def(ASYNC, "AsyncCliCommand." + qual)
    calls = [n for n in ast.walk(fn) if isinstance(n, ast.Call) and src(n.func) == "Result"]
    c = the(calls, "Result(…)")
    fields = ["name", "return_code", "status", "exec_time_s", "completion_time", "hpc_job_id"]
    got = dict(zip(fields, c.args))
    for k in c.keywords:
        if k.arg not in fields or k.arg in got:
            raise SiteError(f"Result keyword {k.arg}")
        got[k.arg] = k.value
    for need in ("name", "return_code", "status"):
        if need not in got:
            raise SiteError(f"Result(…) without {need}")
    name = tr_str(resolve(fn, got["name"]))
    rc = tr_int(resolve(fn, got["return_code"]))
    st_node = resolve(fn, got["status"])
    status = lstr(enum_value(st_node, "JobCompletionStatus"))
    hpc = tr_opt(resolve(fn, got["hpc_job_id"])) if "hpc_job_id" in got else "none"
    # where the row goes
    apps = [n for n in ast.walk(fn) if isinstance(n, ast.Call) and src(n.func) == "ResultsAggregator.append"]
    a = the(apps, "ResultsAggregator.append(…)")
    if [src(x) for x in a.args] != ["self._output", "result"]:
        raise SiteError(f"append arguments changed: {[src(x) for x in a.args]}")
    akw = {k.arg: k.value for k in a.keywords}
    if set(akw) != {"batch_id"}:
        raise SiteError(f"append keywords changed: {sorted(akw)}")
    batch = IntTr({k: (v, "nat") for k, v in NAT_VARS.items()}).tr(akw["batch_id"])
    if batch[1] != "nat":
        raise SiteError(f"batch id expression: {src(akw['batch_id'])}")
    # guard: only the manager node records
    if guard_kind == "return_if_not_manager":
        g = [s for s in fn.body if isinstance(s, ast.If) and any(isinstance(t, ast.Return) for t in s.body)]
        g = the(g, "early-return guard")
        if any(isinstance(n, ast.Call) and src(n.func) in ("Result", "ResultsAggregator.append") for n in ast.walk(g)):
            raise SiteError("early-return block records a result")
        if fn.body.index(g) > min(i for i, s in enumerate(fn.body) if any(n is a for n in ast.walk(s))):
            raise SiteError("guard is after the append")
        records = "(!" + pred({"self._is_manager_node": ("x.isManager", "bool")}, g.test) + ")"
    else:
        g = [s for s in fn.body if isinstance(s, ast.If) and any(n is a for n in ast.walk(s))]
        g = the(g, "if self._is_manager_node")
        if any(n is a for t in g.orelse for n in ast.walk(t)):
            raise SiteError("append in else branch")
        records = pred({"self._is_manager_node": ("x.isManager", "bool")}, g.test)
    return (
        f"/-- `{qual}`: does this node record a row? -/\n"
        f"def {label}Records (x : Ctx) : Bool := {records}\n"
        f"/-- `{qual}`: fields of `Result(…)`; row goes to `results_batch_<{label}Batch>.csv` -/\n"
        f"def {label}Name (x : Ctx) : String := {name}\n"
        f"def {label}ReturnCode (x : Ctx) : Int := {rc}\n"
        f"def {label}Status : String := {status}\n"
        f"def {label}HpcJobId (x : Ctx) : Option String := {hpc}\n"
        f"def {label}Batch (x : Ctx) : Nat := {batch[0]}"
    )


@site("command.complete", "Command", ["C19"])
def _():
    return _result_site("_complete", "complete", "return_if_not_manager")


@site("command.cancel", "Command", ["C19"])
def _():
    return _result_site("cancel", "cancel", "if_manager")


@site("command.isComplete", "Command", ["C19"])
def _():
    """`is_complete` calls `_complete` exactly when `poll()` is not None on a pending job."""
    fn = find_def(ASYNC, "AsyncCliCommand.is_complete")
    text = src(fn)
    need = ["if self._is_complete:\n        return True",
            "if self._pipe.poll() is not None:\n        self._is_pending = False\n        self._complete()",
            "return not self._is_pending"]
    for n in need:
        if n not in text:
            raise SiteError("is_complete changed: missing " + n.split("\n")[0])
    return "def isCompleteShapeOk : Bool := true"
