"""Translator sites for Gen/Config.lean (C17: configuration round trip and up-front validation)."""
import ast
from exlib import *  # noqa

PREAMBLE["Config"] = """/-- a Python default value of a pydantic model field -/
inductive PyVal where
  | none | bool (b : Bool) | int (n : Int) | str (s : String) | emptySet | emptyDict | required
  deriving Repr, DecidableEq

/-- the calls made by `JobSubmitter.run_checks` -/
inductive Check where
  | submissionGroups | estimatedRunMinutes | dependencies | runtimes | sparkConfig
  deriving Repr, DecidableEq

/-- the statements of `JobSubmitter.create` / `JobSubmitter.run_submit_jobs` that have an effect
    outside the process (or can reject) -/
inductive Step where
  | construct | runChecks | dump | ret | makedirs | create | clusterCreate | submitJobs | demote
  deriving Repr, DecidableEq
"""

PARAMS = "jade/extensions/generic_command/generic_command_parameters.py"
GCONF = "jade/extensions/generic_command/generic_command_configuration.py"
JCONF = "jade/jobs/job_configuration.py"
CONT = "jade/jobs/job_container_by_name.py"
SUBM = "jade/jobs/job_submitter.py"
SPAR = "jade/models/submitter_params.py"
HPC = "jade/models/hpc.py"
COMMON = "jade/common.py"


class CTr(Tr):
    """Expression translator + the few extra forms the configuration code uses."""

    def truth(self, node):
        t, ty = self.tr(node)
        if ty == "str":
            return f"({t} != \"\")"
        return super().truth(node)

    def t_Call(self, n):
        f = n.func
        if isinstance(f, ast.Attribute) and f.attr == "difference" and len(n.args) == 1 and not n.keywords:
            recv, rty = self.tr(f.value)
            arg, aty = self.tr(n.args[0])
            if rty == aty == "list":
                return (f"(Jade.diffL {recv} {arg})", "list")
        return super().t_Call(n)


def cpred(env, node, ctx="bool"):
    t = CTr(env)
    if ctx == "bool":
        return t.truth(node)
    return t.tr(node)[0]


def module_const(rel, name):
    for st in module(rel).body:
        if isinstance(st, ast.Assign) and len(st.targets) == 1 and src(st.targets[0]) == name:
            return st.value
    raise SiteError(f"{rel}: {name} not found")


def field_kw(call, what):
    if not (isinstance(call, ast.Call) and src(call.func) == "Field"):
        raise SiteError(f"{what}: not a Field(...) definition: {src(call)}")
    return {k.arg: k.value for k in call.keywords}


def pyval(node, consts=None):
    consts = consts or {}
    if isinstance(node, ast.Name) and node.id in consts:
        node = consts[node.id]
    if isinstance(node, ast.Constant):
        v = node.value
        if v is None:
            return ".none"
        if v is True:
            return ".bool true"
        if v is False:
            return ".bool false"
        if isinstance(v, int):
            return f".int {v}" if v >= 0 else f".int ({v})"
        if isinstance(v, str):
            return f".str {lstr(v)}"
    if isinstance(node, ast.Call) and src(node) == "set()":
        return ".emptySet"
    if isinstance(node, ast.Dict) and not node.keys:
        return ".emptyDict"
    raise SiteError(f"unsupported default {src(node)}")


def model_fields(rel, cls, consts=None):
    """[(field name, annotation text, PyVal text)] in class order (pydantic field order)."""
    c = find_def(rel, cls)
    out = []
    for st in c.body:
        if isinstance(st, ast.AnnAssign) and isinstance(st.target, ast.Name):
            ann = src(st.annotation)
            kw = field_kw(st.value, f"{cls}.{st.target.id}")
            if "default" in kw:
                d = pyval(kw["default"], consts)
            elif "default_factory" in kw:
                raise SiteError(f"{cls}.{st.target.id}: default_factory")
            elif ann.startswith("Optional["):
                d = ".none"
            else:
                d = ".required"
            out.append((st.target.id, ann, d, kw))
    return out


@site("config.jobFields", "Config", ["C17"])
def _():
    ext = module_const(PARAMS, "_EXTENSION")
    grp = module_const(COMMON, "DEFAULT_SUBMISSION_GROUP")
    fields = model_fields(PARAMS, "GenericCommandParametersModel", {"_EXTENSION": ext, "DEFAULT_SUBMISSION_GROUP": grp})
    rows = [f"({lstr(n)}, {d})" for n, _, d, _ in fields]
    anns = [f"({lstr(n)}, {lstr(a)})" for n, a, _, _ in fields]
    return ("/-- fields of `GenericCommandParametersModel` in class order with their defaults -/\n"
            "def jobFields : List (String × PyVal) := [\n  " + ",\n  ".join(rows) + "]\n\n"
            "def jobFieldTypes : List (String × String) := [\n  " + ",\n  ".join(anns) + "]")


@site("config.popped", "Config", ["C17"])
def _():
    fn = find_def(PARAMS, "GenericCommandParametersModel.dict")
    kinds = [type(s).__name__ for s in fn.body]
    if kinds != ["Assign", "For", "Return"]:
        raise SiteError(f"dict() statements changed: {kinds}")
    if src(fn.body[0]) != "data = super().dict(*args, **kwargs)" or src(fn.body[2]) != "return data":
        raise SiteError("dict() head/return changed")
    lp = fn.body[1]
    if not (isinstance(lp.iter, ast.Tuple) and src(lp.target) == "field"):
        raise SiteError("popped-field loop changed")
    names = [lstr(const_str(e)) for e in lp.iter.elts]
    if not (len(lp.body) == 1 and isinstance(lp.body[0], ast.If) and not lp.body[0].orelse):
        raise SiteError("popped-field loop body changed")
    test = lp.body[0]
    if [src(s) for s in test.body] != ["data.pop(field)"]:
        raise SiteError("pop action changed")
    env = {
        "data[field]": ("value", "enum"),
        "GenericCommandParametersModel.__fields__[field].default": ("dflt", "enum"),
    }
    p = cpred(env, test.test)
    return ("/-- tuple of fields `GenericCommandParametersModel.dict` may drop -/\n"
            "def poppedFields : List String := " + llist(names) + "\n\n"
            "/-- the test guarding `data.pop(field)` -/\n"
            f"def popTest {{α}} [BEq α] (value dflt : α) : Bool :=\n  {p}")


@site("config.blockedBy", "Config", ["C17"])
def _():
    fn = find_def(PARAMS, "GenericCommandParametersModel.handle_blocked_by")
    body = [s for s in fn.body if not (isinstance(s, ast.Expr) and isinstance(s.value, ast.Constant))]
    r = the([s for s in body if isinstance(s, ast.Return)], "return")
    if len(body) != 1:
        raise SiteError("handle_blocked_by has extra statements")
    t = src(r.value)
    if t == "{str(x) for x in value}":
        s = "true"
    elif t in ("value", "set(value)", "{x for x in value}"):
        s = "false"
    else:
        raise SiteError(f"unexpected blocker normalisation {t}")
    decos = [src(d) for d in fn.decorator_list]
    if decos != ["validator('blocked_by')"]:
        raise SiteError(f"validator decorator changed: {decos}")
    return ("/-- `handle_blocked_by` returns `{str(x) for x in value}`: every blocker is stored as a string -/\n"
            f"def blockedByStringified : Bool := {s}")


@site("config.name", "Config", ["C17"])
def _():
    name = find_def(PARAMS, "GenericCommandParameters.name")
    r = the([s for s in name.body if isinstance(s, ast.Return)], "return")
    v = r.value
    if not (isinstance(v, ast.IfExp) and src(v.body) == "self._create_name()" and src(v.orelse) == "self._model.name"):
        raise SiteError(f"name property changed: {src(v)}")
    p = cpred({"self._model.name": ("name", "opt")}, v.test)
    cn = find_def(PARAMS, "GenericCommandParameters._create_name")
    r2 = the([s for s in cn.body if isinstance(s, ast.Return)], "return")
    if src(r2.value) != "str(self._model.job_id)":
        raise SiteError(f"_create_name changed: {src(r2.value)}")
    ser = find_def(PARAMS, "GenericCommandParameters.serialize")
    stm = [src(s) for s in ser.body if not (isinstance(s, ast.Expr) and isinstance(s.value, ast.Constant))]
    if stm != ["assert self._model.job_id is not None", "return self._model.dict()"]:
        raise SiteError(f"serialize changed: {stm}")
    des = find_def(PARAMS, "GenericCommandParameters.deserialize")
    if [src(s) for s in des.body] != ["return cls(**data)"]:
        raise SiteError("deserialize changed")
    cmd = find_def(PARAMS, "GenericCommandParameters.command")
    i1 = the([s for s in cmd.body if isinstance(s, ast.If)], "if use_multi_node_manager")
    if src(i1.test) != "self._model.use_multi_node_manager":
        raise SiteError("command property test changed")
    if src(cmd.body[-1]) != "return self._model.command":
        raise SiteError("command property tail changed")
    return ("/-- `name` property: use `_create_name()` (= `str(job_id)`) when this holds -/\n"
            f"def nameUnset (name : Option String) : Bool :=\n  {p}\n\n"
            "/-- `_create_name` returns `str(self._model.job_id)`; `serialize` asserts the id and returns `_model.dict()` -/\n"
            "def nameDefaultIsJobId : Bool := true\n\n"
            "/-- `command` property when `use_multi_node_manager` is set (variables in braces) -/\n"
            f"def multiNodeCommand : List String := {llist([lstr(x) for x in _tmpl_parts(i1)])}")


def _tmpl_parts(ifnode):
    r = the([s for s in ifnode.body if isinstance(s, ast.Return)], "return").value
    if not isinstance(r, ast.JoinedStr):
        raise SiteError("multi-node command is not an f-string")
    out = []
    for v in r.values:
        if isinstance(v, ast.Constant):
            out.append(v.value)
        elif isinstance(v, ast.FormattedValue) and v.format_spec is None and v.conversion == -1:
            out.append("{" + src(v.value) + "}")
        else:
            raise SiteError("multi-node command f-string part")
    return out


@site("config.outputDirValidator", "Config", ["C17"])
def _():
    fn = find_def(PARAMS, "GenericCommandParametersModel.handle_append_output_dir")
    decos = [src(d) for d in fn.decorator_list]
    if decos != ["validator('append_output_dir')"]:
        raise SiteError(f"validator decorator changed: {decos}")
    i1 = the([s for s in fn.body if isinstance(s, ast.If) and "use_multi_node_manager" in src(s.test)], "if multi-node or spark")
    env = {"values['use_multi_node_manager']": ("multiNode", "bool"), "spark_enabled": ("sparkEnabled", "bool")}
    p = cpred(env, i1.test)
    rets = [src(s) for s in i1.body if isinstance(s, ast.Return)]
    if rets != ["return True"] or src(fn.body[-1]) != "return value":
        raise SiteError("validator result changed")
    cfg = find_def("jade/models/base.py", "JadeBaseModel.Config")
    va = [s for s in cfg.body if isinstance(s, ast.Assign) and src(s.targets[0]) == "validate_all"]
    always = "true" if (len(va) == 1 and src(va[0].value) == "True") else "false"
    return ("/-- `handle_append_output_dir`: forces True when this holds -/\n"
            f"def outputDirForced (multiNode sparkEnabled : Bool) : Bool :=\n  {p}\n\n"
            "/-- `JadeBaseModel.Config.validate_all`: validators also run on defaulted (absent) fields -/\n"
            f"def validateAll : Bool := {always}")


@site("config.addJob", "Config", ["C17"])
def _():
    init = find_def(GCONF, "GenericCommandConfiguration.__init__")
    a = the(assigns(init, "self._cur_job_id"), "self._cur_job_id = …")
    first = const_int(a.value)
    fn = find_def(GCONF, "GenericCommandConfiguration.add_job")
    body = [s for s in fn.body if not (isinstance(s, ast.Expr) and isinstance(s.value, ast.Constant))]
    kinds = [type(s).__name__ for s in body]
    if kinds != ["If", "If", "Expr"]:
        raise SiteError(f"add_job statements changed: {kinds}")
    i1, i2, call = body
    if [src(s) for s in i1.body] != ["job.job_id = self._cur_job_id", "self._cur_job_id += 1"] or i1.orelse:
        raise SiteError("id assignment changed")
    p1 = cpred({"job.job_id": ("jobId", "opt")}, i1.test)
    if not (len(i2.body) == 1 and isinstance(i2.body[0], ast.Raise) and src(i2.body[0].exc.func) == "InvalidConfiguration") or i2.orelse:
        raise SiteError("empty-command branch changed")
    p2 = cpred({"job.command": ("command", "str")}, i2.test)
    if src(call) != "self._jobs.add_job(job)":
        raise SiteError("container call changed")
    base = find_def(JCONF, "JobConfiguration._deserialize_jobs")
    want = "for _job in jobs:\n    param_class = self.job_parameters_class(_job['extension'])\n    job = param_class.deserialize(_job)\n    self.add_job(job)"
    if src(base.body[0]) != want:
        raise SiteError("_deserialize_jobs changed")
    return (f"def firstJobId : Nat := {first}\n\n"
            "/-- `add_job`: assign the next id when this holds -/\n"
            f"def idMissing (jobId : Option Nat) : Bool :=\n  {p1}\n\n"
            "/-- `add_job`: raise InvalidConfiguration when this holds (`command` is the *property*) -/\n"
            f"def commandRejected (command : String) : Bool :=\n  {p2}\n\n"
            "/-- order in `add_job`: id assignment, command test, container insert; `_deserialize_jobs` = deserialize + add_job per entry -/\n"
            "def addJobShapeOk : Bool := true")


@site("config.container", "Config", ["C17"])
def _():
    fn = find_def(CONT, "JobContainerByName.add_job")
    kinds = [type(s).__name__ for s in fn.body]
    if kinds[:2] != ["If", "Assign"]:
        raise SiteError(f"container add_job changed: {kinds}")
    i1 = fn.body[0]
    if not (len(i1.body) == 1 and isinstance(i1.body[0], ast.Raise) and src(i1.body[0].exc.func) == "InvalidConfiguration") or i1.orelse:
        raise SiteError("duplicate-name branch changed")
    p = cpred({"job.name": ("name", "str"), "self._jobs": ("names", "list")}, i1.test)
    if src(fn.body[1]) != "self._jobs[job.name] = job":
        raise SiteError("insert changed")
    return ("/-- `JobContainerByName.add_job`: raise InvalidConfiguration when this holds -/\n"
            f"def nameTaken (name : String) (names : List String) : Bool :=\n  {p}")


@site("config.groups", "Config", ["C17"])
def _():
    fn = find_def(JCONF, "JobConfiguration.check_submission_groups")
    mbs = the(assigns(fn, "must_be_same"), "must_be_same = (…)")
    if not isinstance(mbs.value, ast.Tuple):
        raise SiteError("must_be_same is not a tuple")
    names = [lstr(const_str(e)) for e in mbs.value.elts]
    if src(the(assigns(fn, "first_group"), "first_group").value) != "next(iter(self.submission_groups))":
        raise SiteError("first_group changed")
    if src(the(assigns(fn, "hpc_type"), "hpc_type").value) != "first_group.submitter_params.hpc_config.hpc_type":
        raise SiteError("hpc_type changed")
    loops = [s for s in fn.body if isinstance(s, ast.For)]
    gl = [l for l in loops if src(l.iter) == "self.submission_groups" and src(l.target) == "group"]
    gl = the(gl, "for group in self.submission_groups")
    gb = gl.body
    if not (isinstance(gb[0], ast.If) and isinstance(gb[1], ast.Expr) and src(gb[1]) == "group_names.add(group.name)" and isinstance(gb[2], ast.If) and isinstance(gb[3], ast.For)):
        raise SiteError("group loop body changed")

    def raises_invalid(ifn, what):
        if not (len(ifn.body) == 1 and isinstance(ifn.body[0], ast.Raise) and src(ifn.body[0].exc.func) == "InvalidConfiguration") or ifn.orelse:
            raise SiteError(f"{what}: branch does not raise InvalidConfiguration")

    raises_invalid(gb[0], "listed twice")
    p_dup = cpred({"group.name": ("name", "str"), "group_names": ("seen", "list")}, gb[0].test)
    raises_invalid(gb[2], "hpc_type")
    p_hpc = cpred({"group.submitter_params.hpc_config.hpc_type": ("this", "str"), "hpc_type": ("first", "str")}, gb[2].test)
    pl = gb[3]
    if not (src(pl.iter) == "must_be_same" and src(pl.target) == "param"):
        raise SiteError("must_be_same loop changed")
    want = ["first_val = getattr(first_group.submitter_params, param)", "this_val = getattr(group.submitter_params, param)"]
    if [src(s) for s in pl.body[:2]] != want or not isinstance(pl.body[2], ast.If):
        raise SiteError("must_be_same loop body changed")
    raises_invalid(pl.body[2], "must be same")
    p_same = cpred({"this_val": ("this", "enum"), "first_val": ("first", "enum")}, pl.body[2].test)
    jl = the([l for l in loops if src(l.iter) == "self.iter_jobs()"], "for job in self.iter_jobs()")
    ji = [s for s in jl.body if isinstance(s, ast.If)]
    if len(ji) != 2 or src(ji[0].test) != "job.submission_group is None":
        raise SiteError("job loop changed")
    raises_invalid(ji[1], "invalid group")
    p_job = cpred({"job.submission_group": ("group", "str"), "group_names": ("names", "list")}, ji[1].test)
    if fn.body.index(gl) > fn.body.index(jl):
        raise SiteError("loops reordered")
    return ("/-- `must_be_same` of `check_submission_groups` -/\n"
            "def mustBeSame : List String := " + llist(names) + "\n\n"
            f"def groupListedTwice (name : String) (seen : List String) : Bool :=\n  {p_dup}\n\n"
            f"def hpcTypeDiffers (this first : String) : Bool :=\n  {p_hpc}\n\n"
            f"def paramDiffers {{α}} [BEq α] (this first : α) : Bool :=\n  {p_same}\n\n"
            f"def jobGroupInvalid (group : String) (names : List String) : Bool :=\n  {p_job}\n\n"
            "/-- per group: twice-test, add name, hpc_type test, must_be_same loop; then the job loop; first group = `next(iter(groups))` -/\n"
            "def groupCheckShapeOk : Bool := true")


CHECKS = {
    "self._config.check_submission_groups()": ".submissionGroups",
    "self._config.check_job_estimated_run_minutes(group.name)": ".estimatedRunMinutes",
    "self._config.check_job_dependencies()": ".dependencies",
    "self._config.check_job_runtimes()": ".runtimes",
    "self._config.check_spark_config()": ".sparkConfig",
}


@site("config.runChecks", "Config", ["C17"])
def _():
    fn = find_def(SUBM, "JobSubmitter.run_checks")
    body = [s for s in fn.body if not (isinstance(s, ast.Expr) and isinstance(s.value, ast.Constant))]
    calls, guard = [], None
    for st in body:
        if isinstance(st, ast.Expr) and src(st) in CHECKS:
            if CHECKS[src(st)] == ".estimatedRunMinutes":
                raise SiteError("estimate check is no longer per group")
            calls.append(CHECKS[src(st)])
        elif isinstance(st, ast.For):
            if not (src(st.iter) == "self._config.submission_groups" and src(st.target) == "group" and len(st.body) == 1 and isinstance(st.body[0], ast.If)):
                raise SiteError("group loop of run_checks changed")
            g = st.body[0]
            if [src(s) for s in g.body] != ["self._config.check_job_estimated_run_minutes(group.name)"] or g.orelse:
                raise SiteError("guarded call changed")
            guard = cpred({"group.submitter_params.per_node_batch_size": ("perNodeBatchSize", "nat")}, g.test)
            calls.append(".estimatedRunMinutes")
        else:
            raise SiteError(f"unexpected statement in run_checks: {src(st)}")
    if guard is None:
        guard = "false"
    return ("/-- calls of `JobSubmitter.run_checks` in program order -/\n"
            "def runChecksCalls : List Check := " + llist(calls) + "\n\n"
            "/-- guard of the per-group `check_job_estimated_run_minutes` call -/\n"
            f"def estimateGuard (perNodeBatchSize : Nat) : Bool :=\n  {guard}")


@site("config.estimate", "Config", ["C17"])
def _():
    fn = find_def(JCONF, "JobConfiguration.check_job_estimated_run_minutes")
    lp = the([s for s in fn.body if isinstance(s, ast.For)], "for job")
    i1 = the([s for s in lp.body if isinstance(s, ast.If)], "if missing")
    if [src(s) for s in i1.body] != ["missing_estimate.append(job.name)"]:
        raise SiteError("append changed")
    p = cpred({"job.submission_group": ("jobGroup", "str"), "group_name": ("groupName", "str"),
               "job.estimated_run_minutes": ("est", "opt")}, i1.test)
    i2 = the([s for s in fn.body if isinstance(s, ast.If)], "if missing_estimate")
    if src(i2.test) != "missing_estimate" or not any(isinstance(s, ast.Raise) and src(s.exc.func) == "InvalidConfiguration" for s in i2.body):
        raise SiteError("raise changed")
    return ("/-- a job counts as lacking its estimate for group `groupName` when this holds -/\n"
            f"def estimateMissing (jobGroup groupName : String) (est : Option Nat) : Bool :=\n  {p}")


@site("config.dependencies", "Config", ["C17"])
def _():
    fn = find_def(JCONF, "JobConfiguration.check_job_dependencies")
    lp = the([s for s in fn.body if isinstance(s, ast.For)], "for job")
    if [src(s) for s in lp.body] != ["job_names.add(job.name)", "blocking_jobs.update(job.get_blocking_jobs())"]:
        raise SiteError("collection loop changed")
    m = the(assigns(fn, "missing_jobs"), "missing_jobs = …")
    env = {"blocking_jobs": ("blocking", "list"), "job_names": ("names", "list"), "missing_jobs": ("missing", "list")}
    t = cpred(env, m.value, ctx="term")
    i1 = the([s for s in fn.body if isinstance(s, ast.If)], "if missing_jobs")
    if not any(isinstance(s, ast.Raise) and src(s.exc.func) == "InvalidConfiguration" for s in i1.body):
        raise SiteError("raise changed")
    p = cpred(env, i1.test)
    return (f"def missingBlockers (blocking names : List String) : List String :=\n  {t}\n\n"
            f"def dependenciesBad (missing : List String) : Bool :=\n  {p}")


@site("config.runtimes", "Config", ["C17"])
def _():
    fn = find_def(JCONF, "JobConfiguration.check_job_runtimes")
    w = the(assigns(fn, "wall_times"), "wall_times = {…}")
    if src(w.value) != "{x.name: x.submitter_params.get_wall_time() for x in self.submission_groups}":
        raise SiteError("wall_times changed")
    lp = the([s for s in fn.body if isinstance(s, ast.For)], "for job")
    if src(lp.body[0]) != "wall_time = wall_times[job.submission_group]" or not isinstance(lp.body[1], ast.If) or len(lp.body) != 2:
        raise SiteError("job loop changed")
    g = lp.body[1]
    pg = cpred({"job.estimated_run_minutes": ("est", "opt")}, g.test)
    if not (len(g.body) == 2 and isinstance(g.body[0], ast.Assign) and src(g.body[0].targets[0]) == "estimate" and isinstance(g.body[1], ast.If)):
        raise SiteError("estimate branch changed")
    est_t, est_ty = CTr({"job.estimated_run_minutes": ("estMinutes", "nat")}).tr(g.body[0].value)
    c = g.body[1]
    if not (len(c.body) == 1 and isinstance(c.body[0], ast.Raise) and src(c.body[0].exc.func) == "InvalidConfiguration") or c.orelse:
        raise SiteError("raise changed")
    p = cpred({"estimate": (est_t, est_ty), "wall_time": ("wallSeconds", "nat")}, c.test)
    return ("/-- `check_job_runtimes` looks at a job only when this holds -/\n"
            f"def hasEstimate (est : Option Nat) : Bool :=\n  {pg}\n\n"
            "/-- the comparison of `check_job_runtimes`, both sides in seconds -/\n"
            f"def runtimeTooLong (estMinutes wallSeconds : Nat) : Bool :=\n  {p}")


@site("config.walltime", "Config", ["C17"])
def _():
    rx = module_const(SPAR, "_REGEX_WALL_TIME")
    if not (isinstance(rx, ast.Call) and src(rx.func) == "re.compile" and len(rx.args) == 1):
        raise SiteError("wall-time regex changed")
    pat = const_str(rx.args[0])
    fn = find_def(SPAR, "_to_timedelta")
    want = ["match = _REGEX_WALL_TIME.search(wall_time)", "assert match", "hours = int(match.group(1))",
            "minutes = int(match.group(2))", "seconds = int(match.group(3))"]
    if [src(s) for s in fn.body[:-1]] != want:
        raise SiteError("_to_timedelta changed")
    r = fn.body[-1]
    if not (isinstance(r, ast.Return) and isinstance(r.value, ast.Call) and src(r.value.func) == "timedelta" and not r.value.args):
        raise SiteError("_to_timedelta return changed")
    mult = {"hours": 3600, "minutes": 60, "seconds": 1, "days": 86400}
    var = {"hours": "g1", "minutes": "g2", "seconds": "g3"}
    terms = []
    for k in r.value.keywords:
        if k.arg not in mult or not isinstance(k.value, ast.Name) or k.value.id not in var:
            raise SiteError(f"timedelta argument {src(k)}")
        terms.append(f"{mult[k.arg]} * {var[k.value.id]}")
    gw = find_def(SPAR, "SubmitterParams.get_wall_time")
    body = [s for s in gw.body if not (isinstance(s, ast.Expr) and isinstance(s.value, ast.Constant))]
    if src(body[0]) != "wall_time = getattr(self.hpc_config.hpc, 'walltime', None)" or not isinstance(body[1], ast.If) or src(body[1].test) != "wall_time is None":
        raise SiteError("get_wall_time changed")
    rr = the([s for s in body[1].body if isinstance(s, ast.Return)], "return")
    if not (isinstance(rr.value, ast.Call) and src(rr.value.func) == "timedelta" and len(rr.value.keywords) == 1 and rr.value.keywords[0].arg == "seconds"):
        raise SiteError("unset wall time changed")
    unset = const_int(rr.value.keywords[0].value)
    if src(body[2]) != "return _to_timedelta(wall_time)":
        raise SiteError("get_wall_time tail changed")
    return (f"def wallRegex : String := {lstr(pat)}\n\n"
            "/-- `timedelta(...)` of the three regex groups, in seconds -/\n"
            f"def wallSecondsOf (g1 g2 g3 : Nat) : Nat :=\n  {' + '.join(terms)}\n\n"
            "/-- wall time of a configuration without `walltime`, in seconds -/\n"
            f"def wallUnsetSeconds : Nat := {unset}")


@site("config.serialize", "Config", ["C17"])
def _():
    fn = find_def(JCONF, "JobConfiguration.serialize")
    d = the(assigns(fn, "data"), "data = {…}")
    if not isinstance(d.value, ast.Dict):
        raise SiteError("data is not a dict literal")
    rows = [f"({lstr(const_str(k))}, {lstr(src(v))})" for k, v in zip(d.value.keys, d.value.values)]
    i1 = if_with_test(fn, lambda t: t == "include == ConfigSerializeOptions.JOBS", "if include == JOBS")
    a = the([s for s in i1.body if isinstance(s, ast.Assign)], "data['jobs'] = …")
    if src(a) != "data['jobs'] = [x.serialize() for x in self.iter_jobs()]":
        raise SiteError(f"jobs entry changed: {src(a)}")
    ds = find_def(JCONF, "JobConfiguration.deserialize")
    if "return cls(**data)" not in src(ds):
        raise SiteError("deserialize changed")
    init = find_def(JCONF, "JobConfiguration.__init__")
    args = [a.arg for a in init.args.args]
    need = ["submission_groups", "setup_command", "teardown_command", "node_setup_command", "node_teardown_command"]
    if any(n not in args for n in need):
        raise SiteError("constructor arguments changed")
    txt = src(init)
    for n in need[1:]:
        if f"self._{n} = {n}" not in txt:
            raise SiteError(f"constructor no longer stores {n}")
    if "self._submission_groups = [SubmissionGroup(**x) for x in submission_groups or []]" not in txt:
        raise SiteError("constructor group decoding changed")
    props = []
    for n in need[1:]:
        p = find_def(JCONF, f"JobConfiguration.{n}")
        r = the([s for s in p.body if isinstance(s, ast.Return)], "return")
        if src(r.value) != f"self._{n}":
            raise SiteError(f"property {n} changed")
    fv = class_assign(JCONF, "JobConfiguration", "FORMAT_VERSION")
    return ("/-- `data = {...}` of `JobConfiguration.serialize`: key, source expression of the value -/\n"
            "def serializeKeys : List (String × String) := [\n  " + ",\n  ".join(rows) + "]\n\n"
            "def serializeJobsKey : String := \"jobs\"\n\n"
            f"def formatVersion : String := {lstr(const_str(fv))}")


STEP_TEXT = {
    "mgr = cls(config, output, True)": ".construct",
    "mgr.run_checks()": ".runChecks",
    "config.dump(Path(output) / CONFIG_FILE, indent=2)": ".dump",
    "return mgr": ".ret",
    "os.makedirs(output, exist_ok=True)": ".makedirs",
    "mgr = JobSubmitter.create(config, output=output)": ".create",
    "cluster = Cluster.create(output, mgr.config, pipeline_stage_num=pipeline_stage_num)": ".clusterCreate",
    "status = mgr.submit_jobs(cluster, force_local=local)": ".submitJobs",
    "cluster.demote_from_submitter()": ".demote",
}


def _steps(stmts, allowed_skip=()):
    out = []
    for st in stmts:
        if isinstance(st, ast.Expr) and isinstance(st.value, ast.Constant):
            continue
        t = src(st)
        if t in STEP_TEXT:
            out.append(STEP_TEXT[t])
        elif isinstance(st, ast.Try):
            out += _steps(st.body, allowed_skip=("*",))[:1]  # first statement of the try body
            out += [s for s in _steps(st.finalbody, allowed_skip=("*",)) if s == ".demote"]
        elif "*" in allowed_skip or t in allowed_skip:
            continue
        else:
            raise SiteError(f"unexpected statement: {t}")
    return out


@site("config.create", "Config", ["C17"])
def _():
    fn = find_def(SUBM, "JobSubmitter.create")
    steps = _steps(fn.body)
    return ("/-- statements of `JobSubmitter.create` in program order -/\n"
            "def createSteps : List Step := " + llist(steps))


@site("config.runSubmit", "Config", ["C17"])
def _():
    fn = find_def(SUBM, "JobSubmitter.run_submit_jobs")
    steps = _steps(fn.body, allowed_skip=("ret = 1", "return ret"))
    return ("/-- statements of `JobSubmitter.run_submit_jobs` in program order -/\n"
            "def runSubmitSteps : List Step := " + llist(steps))


@site("config.defaults", "Config", ["C17"])
def _():
    c = find_def(SPAR, "SubmitterParams")
    vals = {}
    alias = {}
    for st in c.body:
        if isinstance(st, ast.AnnAssign) and isinstance(st.target, ast.Name):
            kw = field_kw(st.value, f"SubmitterParams.{st.target.id}")
            vals[st.target.id] = (src(st.annotation), kw.get("default"))
            if "alias" in kw:
                alias[st.target.id] = const_str(kw["alias"])

    def opt_nat(name):
        ann, d = vals[name]
        if ann != "Optional[int]" or not (isinstance(d, ast.Constant) and (d.value is None or isinstance(d.value, int))):
            raise SiteError(f"{name}: {ann} default {src(d) if d else None}")
        return "none" if d.value is None else f"some {d.value}"

    def nat(name):
        ann, d = vals[name]
        if ann != "int":
            raise SiteError(f"{name}: {ann}")
        return str(const_int(d))

    def boolean(name):
        ann, d = vals[name]
        if ann != "bool" or not (isinstance(d, ast.Constant) and isinstance(d.value, bool)):
            raise SiteError(f"{name}: {ann}")
        return "true" if d.value else "false"

    if "default" in field_kw(_ann(SPAR, "SubmitterParams", "hpc_config"), "hpc_config"):
        raise SiteError("hpc_config has a default")
    wt = field_kw(_ann(HPC, "SlurmConfig", "walltime"), "SlurmConfig.walltime")
    fw = field_kw(_ann(HPC, "FakeHpcConfig", "walltime"), "FakeHpcConfig.walltime")
    if "default" in fw:
        raise SiteError("FakeHpcConfig.walltime has a default")
    local = find_def(HPC, "LocalHpcConfig")
    if any(isinstance(s, ast.AnnAssign) for s in local.body):
        raise SiteError("LocalHpcConfig has fields")
    if alias != {"num_parallel_processes_per_node": "num_processes"}:
        raise SiteError(f"aliases changed: {alias}")
    return ("/-- defaults of the `SubmitterParams` fields the model carries -/\n"
            f"def dMaxNodes : Option Nat := {opt_nat('max_nodes')}\n"
            f"def dNumProcesses : Option Nat := {opt_nat('num_parallel_processes_per_node')}\n"
            f"def dPerNodeBatchSize : Nat := {nat('per_node_batch_size')}\n"
            f"def dPollInterval : Nat := {nat('poll_interval')}\n"
            f"def dTryAddBlocked : Bool := {boolean('try_add_blocked_jobs')}\n"
            f"def dTimeBased : Bool := {boolean('time_based_batching')}\n"
            f"def dDryRun : Bool := {boolean('dry_run')}\n"
            f"def slurmWalltimeDefault : String := {lstr(const_str(wt['default']))}")


def _ann(rel, cls, name):
    c = find_def(rel, cls)
    for st in c.body:
        if isinstance(st, ast.AnnAssign) and isinstance(st.target, ast.Name) and st.target.id == name:
            return st.value
    raise SiteError(f"{cls}.{name} not found")
