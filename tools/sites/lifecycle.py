"""Translator sites for Gen/Lifecycle.lean (C16): the control-flow skeletons of

  * JobSubmitter.submit_jobs          (setup command only for a new submission, before anything is handed to the HPC)
  * JobSubmitter._handle_completion   (results summary, teardown command, completion flag)
  * JobRunner.run_jobs                (node setup / node teardown around the queue run, `finally:` block)
  * cli/run_jobs.py: run_jobs         (the node's try-submit-jobs after JobRunner.run_jobs)

Each function is flattened into a straight-line program `List Step`: the *relevant* statements in source order,
each with the conjunction of the conditions (`Guard`s) under which it is reached and a flag for statements of a
`finally:` block.  For a lifecycle command the step records which command is run, what happens with a non-zero
return code (`check_run_command` = raise, `run_command` + logged error = ignore) and which environment variables
were stored into the `env=` dictionary before the call.  The model (Model/Lifecycle.lean) interprets these programs.

Statements that cannot influence the order of the modelled events (logging, event records, pure local assignments,
`if`s that contain nothing relevant and no control transfer) are skipped.  Anything else that is not recognised — an
unknown test around a relevant statement, an early `return`/`raise`, a loop or `with` around a relevant statement, an
unknown environment variable or value — raises SiteError: the site is reported stale, Gen keeps the baseline text and
the correspondence suite decides.
"""
import ast
from exlib import *  # noqa

JS = "jade/jobs/job_submitter.py"
JR = "jade/jobs/job_runner.py"
RJ = "jade/cli/run_jobs.py"
TS = "jade/cli/try_submit_jobs.py"
RS = "jade/cli/resubmit_jobs.py"
RC = "jade/utils/run_command.py"
JC = "jade/jobs/job_configuration.py"
P = ["C16"]

PREAMBLE["Lifecycle"] = """/-- the four lifecycle commands of a `JobConfiguration` -/
inductive Hook where
  | setup          -- `setup_command`
  | teardown       -- `teardown_command`
  | nodeSetup      -- `node_setup_command`
  | nodeTeardown   -- `node_teardown_command`
  deriving DecidableEq, Repr

/-- what the code does with a non-zero return code of a command -/
inductive OnFail where
  | raise    -- `check_run_command(cmd, …)`: raises ExecutionError
  | ignore   -- `ret = run_command(cmd, …)`, at most logged: execution continues
  deriving DecidableEq, Repr

/-- environment variables stored into the `env=` dictionary of a lifecycle command -/
inductive EnvVar where
  | runtimeOutput     -- `env["JADE_RUNTIME_OUTPUT"] = str(self._output)`
  | submissionGroup   -- `env["JADE_SUBMISSION_GROUP"] = self._config.get_default_submission_group().name`
  deriving DecidableEq, Repr

/-- conditions under which a statement is reached -/
inductive Guard where
  | isNew                     -- `if self._is_new:`
  | notNew                    -- its `else:`
  | isLocal                   -- `if self._hpc.hpc_type == HpcType.LOCAL or force_local:`
  | notLocal                  -- its `else:`
  | isComplete                -- `if is_complete:`
  | hookSet (h : Hook)        -- `if self._config.<h>_command is not None:`
  | legacySet (h : Hook)      -- obsolete `submitter_params.node_setup_script` / `node_shutdown_script` is set
  | legacyUnset (h : Hook)    -- the `elif` after it
  | reports                   -- `if group.submitter_params.generate_reports:`
  | pipelineStage             -- `if cluster.config.pipeline_stage_num is not None:`
  | distributedLocal          -- `if distributed_submitter and are_inputs_local:`
  | goodDistributed           -- `if status == Status.GOOD and distributed_submitter:`
  deriving DecidableEq, Repr

/-- relevant statements, in the vocabulary of the model -/
inductive Act where
  | createResults       -- `ResultsAggregator.create(self._output)`
  | runHook (h : Hook) (onFail : OnFail) (env : List EnvVar)     -- a lifecycle command of the configuration
  | runLegacy (h : Hook) (onFail : OnFail) (env : List EnvVar)   -- obsolete per-group node script
  | runLocal            -- `result = runner.run_jobs(…)` on a JobRunner built in-process (local mode)
  | processResults      -- `agg.process_results()`
  | setComplete         -- `is_complete = True`
  | submitHpc           -- `is_complete = self._submit_to_hpc(cluster)`
  | handleCompletion    -- `result = self._handle_completion(cluster)`
  | listResults         -- `self._results = ResultsAggregator.list_results(self._output)`
  | computeMissing      -- `if <resultsIncomplete>: missing_jobs = sorted(all − finished) else: missing_jobs = []`
  | writeSummary        -- `self.write_results_summary(RESULTS_FILE, missing_jobs)`
  | generateReports     -- `self.generate_reports(…)`
  | markComplete        -- `cluster.mark_complete()`
  | nextStage           -- `run_command("jade pipeline submit-next-stage …")`
  | runQueue            -- `result = self._run_jobs(jobs, …)`
  | completeHpcJob      -- `self._complete_hpc_job()`
  | runJobs             -- `status = mgr.run_jobs(…)` (cli/run_jobs.py)
  | trySubmit           -- `_try_submit_jobs(output, …)`  = `jade try-submit-jobs <output>`
  deriving DecidableEq, Repr

structure Step where
  guards : List Guard
  act : Act
  /-- statement of a `finally:` block: also runs while an exception propagates -/
  fin : Bool
  deriving DecidableEq, Repr

/-- the entry points that call `JobSubmitter.submit_jobs` -/
inductive Entry where
  | submitJobs   -- `jade submit-jobs` / `JobSubmitter.run_submit_jobs`
  | trySubmit    -- `jade try-submit-jobs` (nodes, users, `jade cancel-jobs`)
  | resubmit     -- `jade resubmit-jobs`
  deriving DecidableEq, Repr
"""

HOOK_ATTR = {
    "self._config.setup_command": "setup",
    "self._config.teardown_command": "teardown",
    "self._config.node_setup_command": "nodeSetup",
    "self._config.node_teardown_command": "nodeTeardown",
}
LEGACY_ATTR = {
    "group.submitter_params.node_setup_script": "nodeSetup",
    "group.submitter_params.node_shutdown_script": "nodeTeardown",
}
ENV_VARS = {
    "JADE_RUNTIME_OUTPUT": ("runtimeOutput", ("str(self._output)",)),
    "JADE_SUBMISSION_GROUP": ("submissionGroup", ("self._config.get_default_submission_group().name", "group.name")),
}
GUARD_TESTS = {
    "self._is_new": ("isNew", "notNew"),
    "self._hpc.hpc_type == HpcType.LOCAL or force_local": ("isLocal", "notLocal"),
    "is_complete": ("isComplete", None),
    "group.submitter_params.generate_reports": ("reports", None),
    "cluster.config.pipeline_stage_num is not None": ("pipelineStage", None),
    "distributed_submitter and are_inputs_local": ("distributedLocal", None),
    "status == Status.GOOD and distributed_submitter": ("goodDistributed", None),
}
# calls (by the source text of the called expression) that make a statement relevant
SIMPLE_CALLS = {
    "ResultsAggregator.create": "createResults",
    "agg.process_results": "processResults",
    "self._submit_to_hpc": "submitHpc",
    "self._handle_completion": "handleCompletion",
    "ResultsAggregator.list_results": "listResults",
    "self.write_results_summary": "writeSummary",
    "self.generate_reports": "generateReports",
    "cluster.mark_complete": "markComplete",
    "self._run_jobs": "runQueue",
    "self._complete_hpc_job": "completeHpcJob",
    "runner.run_jobs": "runLocal",
    "mgr.run_jobs": "runJobs",
    "_try_submit_jobs": "trySubmit",
}
CMD_CALLS = {"check_run_command": "raise", "run_command": "ignore"}
RELEVANT_NAMES = set(SIMPLE_CALLS) | set(CMD_CALLS)
# the same methods called on a receiver with another name (`aggregator.process_results()` after a local was renamed)
# are relevant too: such a statement must never be skipped silently (relevant_simple then reports it, the site is stale)
RELEVANT_METHODS = {k.rsplit(".", 1)[1] for k in SIMPLE_CALLS if "." in k}
RELEVANT_TARGETS = {"is_complete", "missing_jobs"}


def _calls(node):
    return [n for n in ast.walk(node) if isinstance(n, ast.Call)]


def _is_relevant(st):
    """does the statement (with everything nested in it) contain something the model is about?"""
    for c in _calls(st):
        if src(c.func) in RELEVANT_NAMES:
            return True
        if isinstance(c.func, ast.Attribute) and c.func.attr in RELEVANT_METHODS:
            return True
    for n in ast.walk(st):
        if isinstance(n, ast.Assign):
            for t in n.targets:
                if src(t) in RELEVANT_TARGETS:
                    return True
    return False


def _transfers(st):
    """control transfers that would change which statements are reached"""
    for n in ast.walk(st):
        if isinstance(n, (ast.Return, ast.Raise, ast.Break, ast.Continue)):
            return True
        if isinstance(n, ast.Call) and src(n.func) in ("sys.exit", "exit", "os._exit"):
            return True
    return False


_COMPOUND = tuple(getattr(ast, n) for n in ("For", "While", "With", "AsyncWith", "AsyncFor", "Match") if hasattr(ast, n))


class _Walker:
    """flatten one function body into steps"""

    def __init__(self, what):
        self.what = what
        self.steps = []         # (guards tuple, act text, fin)
        self.defs = {}          # named predicates found on the way
        self.aliases = {}       # local name -> source text of the expression it was assigned from
        self.envs = {}          # local dict name -> list of EnvVar constructors stored so far

    def fail(self, msg):
        raise SiteError(f"{self.what}: {msg}")

    def emit(self, guards, act, fin):
        self.steps.append((tuple(guards), act, fin))

    # -------------------------------------------------------------------------------------
    def block(self, stmts, guards, fin, last_of_function=False):
        n = len(stmts)
        i = 0
        while i < n:
            st = stmts[i]
            is_last = last_of_function and i == n - 1
            nxt = stmts[i + 1] if i + 1 < n else None
            consumed = self.stmt(st, nxt, guards, fin, is_last)
            i += 2 if consumed else 1

    def stmt(self, st, nxt, guards, fin, is_last):
        """returns True when the following statement (`if ret != 0: …`) was consumed as part of this one"""
        if isinstance(st, ast.Return):
            if not is_last:
                self.fail(f"early return: {src(st)[:60]}")
            return False
        if isinstance(st, (ast.Raise, ast.Break, ast.Continue)):
            self.fail(f"control transfer: {src(st)[:60]}")
        if isinstance(st, ast.Expr) and isinstance(st.value, ast.Constant):
            return False   # docstring
        self.track_locals(st)
        if isinstance(st, ast.If):
            return self.if_stmt(st, guards, fin)
        if isinstance(st, ast.Try):
            if st.handlers or st.orelse:
                if _is_relevant(st):
                    self.fail("try with except/else around relevant statements")
                if _transfers(st):
                    self.fail("control transfer inside a try")
                return False
            self.block(st.body, guards, fin)
            self.block(st.finalbody, guards, True)
            return False
        if isinstance(st, _COMPOUND):
            if _is_relevant(st):
                self.fail(f"{type(st).__name__} around relevant statements")
            if _transfers(st) and not isinstance(st, (ast.For, ast.While)):
                self.fail(f"control transfer inside {type(st).__name__}")
            if isinstance(st, (ast.For, ast.While)):
                for n in ast.walk(st):
                    if isinstance(n, (ast.Return, ast.Raise)):
                        self.fail("return/raise inside a loop")
            return False
        if not _is_relevant(st):
            if isinstance(st, ast.Expr) and isinstance(st.value, ast.Call) and src(st.value.func) in ("sys.exit", "exit"):
                if not is_last:
                    self.fail("early exit")
            return False
        return self.relevant_simple(st, nxt, guards, fin)

    # -------------------------------------------------------------------------------------
    def track_locals(self, st):
        if isinstance(st, ast.Assign) and len(st.targets) == 1:
            t, v = st.targets[0], st.value
            if isinstance(t, ast.Name):
                if src(v) == "os.environ.copy()":
                    self.envs[t.id] = []
                else:
                    self.envs.pop(t.id, None)
                    self.aliases[t.id] = v
            elif isinstance(t, ast.Subscript) and isinstance(t.value, ast.Name) and t.value.id in self.envs:
                key = t.slice
                if not (isinstance(key, ast.Constant) and isinstance(key.value, str)):
                    self.fail(f"computed environment key: {src(st)[:60]}")
                if key.value not in ENV_VARS:
                    self.fail(f"unknown environment variable {key.value}")
                ctor, values = ENV_VARS[key.value]
                val = src(v)
                if val not in values:
                    self.fail(f"value of {key.value} changed: {val}")
                if val == "group.name":
                    g = self.aliases.get("group")
                    if g is None or src(g) != "self._config.get_default_submission_group()":
                        self.fail("`group` is not the default submission group")
                if ctor not in self.envs[t.value.id]:
                    self.envs[t.value.id].append(ctor)
        elif isinstance(st, (ast.AugAssign, ast.Delete)):
            for n in ast.walk(st):
                if isinstance(n, ast.Name) and n.id in self.envs:
                    self.fail(f"environment dictionary modified: {src(st)[:60]}")
        elif isinstance(st, ast.Expr) and isinstance(st.value, ast.Call):
            f = st.value.func
            if isinstance(f, ast.Attribute) and isinstance(f.value, ast.Name) and f.value.id in self.envs and f.attr in ("pop", "update", "clear", "setdefault"):
                self.fail(f"environment dictionary modified: {src(st)[:60]}")

    def resolve(self, node):
        """follow simple local aliases"""
        seen = 0
        while isinstance(node, ast.Name) and node.id in self.aliases and seen < 5:
            node = self.aliases[node.id]
            seen += 1
        return node

    # -------------------------------------------------------------------------------------
    def guard_of(self, test):
        t = src(test)
        if t in GUARD_TESTS:
            return GUARD_TESTS[t]
        # `X is not None` / truthiness of a lifecycle command or of an obsolete script
        base = None
        if isinstance(test, ast.Compare) and len(test.ops) == 1 and isinstance(test.ops[0], ast.IsNot) and src(test.comparators[0]) == "None":
            base = src(test.left)
        elif isinstance(test, (ast.Attribute, ast.Name)):
            base = src(test)
        if base in HOOK_ATTR:
            return (f"hookSet .{HOOK_ATTR[base]}", None)
        if base in LEGACY_ATTR:
            g = self.aliases.get("group")
            if g is None or src(g) != "self._config.get_default_submission_group()":
                self.fail("`group` is not the default submission group")
            return (f"legacySet .{LEGACY_ATTR[base]}", f"legacyUnset .{LEGACY_ATTR[base]}")
        return None

    def if_stmt(self, st, guards, fin):
        relevant = _is_relevant(st)
        if self.is_missing_block(st):
            self.missing_block(st, guards, fin)
            return False
        if not relevant:
            if _transfers(st):
                self.fail(f"control transfer under `if {src(st.test)[:50]}`")
            return False
        g = self.guard_of(st.test)
        if g is None:
            self.fail(f"unrecognised condition around relevant statements: `{src(st.test)[:80]}`")
        pos, neg = g
        saved = ({k: list(v) for k, v in self.envs.items()}, dict(self.aliases))
        self.block(st.body, guards + [pos], fin)
        self.envs, self.aliases = ({k: list(v) for k, v in saved[0].items()}, dict(saved[1]))
        if st.orelse:
            if neg is None:
                if _is_relevant(ast.Module(body=st.orelse, type_ignores=[])):
                    self.fail(f"`else` of `{src(st.test)[:50]}` contains relevant statements")
                for s in st.orelse:
                    if _transfers(s):
                        self.fail("control transfer in an else branch")
            else:
                self.block(st.orelse, guards + [neg], fin)
        self.envs, self.aliases = saved
        return False

    # ---- `missing_jobs` computation of `_handle_completion`
    def is_missing_block(self, st):
        return any(isinstance(n, ast.Assign) and any(src(t) == "missing_jobs" for t in n.targets) for n in ast.walk(st))

    def missing_block(self, st, guards, fin):
        if _transfers(st):
            self.fail("control transfer in the missing-jobs block")
        for c in _calls(st):
            if src(c.func) in RELEVANT_NAMES:
                self.fail("relevant call inside the missing-jobs block")
        env = {"len(self._results)": ("numResults", "nat"), "self._config.get_num_jobs()": ("numJobs", "nat")}
        test = pred(env, st.test)
        body = {src(s.targets[0]): src(s.value) for s in st.body if isinstance(s, ast.Assign) and len(s.targets) == 1}
        other = {src(s.targets[0]): src(s.value) for s in st.orelse if isinstance(s, ast.Assign) and len(s.targets) == 1}
        want = {"finished_jobs": "{x.name for x in self._results}", "all_jobs": "{x.name for x in self._config.iter_jobs()}",
                "missing_jobs": "sorted(all_jobs.difference(finished_jobs))"}
        for k, v in want.items():
            if body.get(k) != v:
                self.fail(f"missing-jobs computation changed: {k} = {body.get(k)}")
        if other.get("missing_jobs") != "[]" or len(st.orelse) != 1:
            self.fail("else branch of the missing-jobs computation changed")
        if "resultsIncomplete" in self.defs:
            self.fail("two missing-jobs blocks")
        self.defs["resultsIncomplete"] = test
        self.emit(guards, ".computeMissing", fin)

    # -------------------------------------------------------------------------------------
    def relevant_simple(self, st, nxt, guards, fin):
        if isinstance(st, ast.Assign) and len(st.targets) == 1 and src(st.targets[0]) == "is_complete" and src(st.value) == "True":
            self.emit(guards, ".setComplete", fin)
            return False
        call, target = None, None
        if isinstance(st, ast.Expr) and isinstance(st.value, ast.Call):
            call = st.value
        elif isinstance(st, ast.Assign) and len(st.targets) == 1 and isinstance(st.value, ast.Call):
            call, target = st.value, src(st.targets[0])
        if call is None:
            self.fail(f"unrecognised relevant statement: {src(st)[:80]}")
        inner = [c for c in _calls(call) if c is not call and src(c.func) in RELEVANT_NAMES]
        if inner:
            self.fail(f"nested relevant call: {src(st)[:80]}")
        f = src(call.func)
        if f in SIMPLE_CALLS:
            act = SIMPLE_CALLS[f]
            if act == "submitHpc" and target != "is_complete":
                self.fail("the result of _submit_to_hpc is no longer `is_complete`")
            if act == "listResults" and target != "self._results":
                self.fail("list_results is no longer stored in self._results")
            if act == "writeSummary" and (len(call.args) != 2 or src(call.args[1]) != "missing_jobs"):
                self.fail("write_results_summary arguments changed")
            if act == "runLocal":
                r = self.aliases.get("runner")
                if r is None or not (isinstance(r, ast.Call) and src(r.func) == "JobRunner"):
                    self.fail("`runner` is not a JobRunner")
            if act == "runJobs":
                r = self.aliases.get("mgr")
                if r is None or not (isinstance(r, ast.Call) and src(r.func) == "JobRunner"):
                    self.fail("`mgr` is not a JobRunner")
                if target != "status":
                    self.fail("result of run_jobs is no longer `status`")
            self.emit(guards, "." + act, fin)
            return False
        if f in CMD_CALLS:
            return self.command(call, target, nxt, guards, fin, CMD_CALLS[f])
        self.fail(f"unrecognised relevant statement: {src(st)[:80]}")

    def command(self, call, target, nxt, guards, fin, mode):
        if not call.args:
            self.fail("command call without arguments")
        kw = {k.arg: k.value for k in call.keywords}
        if set(kw) - {"env"} or len(call.args) != 1:
            self.fail(f"unexpected arguments: {src(call)[:80]}")
        arg = self.resolve(call.args[0])
        consumed = False
        on_fail = mode
        if mode == "ignore" and target is not None:
            # `ret = run_command(…)` optionally followed by `if ret != 0: <log only>`
            if isinstance(nxt, ast.If) and isinstance(nxt.test, ast.Compare) and src(nxt.test.left) == target:
                if src(nxt.test) != f"{target} != 0" or nxt.orelse:
                    self.fail(f"unexpected test of the return code: {src(nxt.test)}")
                if _is_relevant(nxt):
                    self.fail("relevant statement depends on a command's return code")
                if any(isinstance(n, ast.Raise) for n in ast.walk(nxt)):
                    on_fail = "raise"
                elif _transfers(nxt):
                    self.fail("control transfer depends on a command's return code")
                consumed = True
        envs = []
        if "env" in kw:
            e = kw["env"]
            if not (isinstance(e, ast.Name) and e.id in self.envs):
                self.fail(f"env= is not a tracked copy of os.environ: {src(e)}")
            envs = list(self.envs[e.id])
        envtxt = llist(["." + x for x in envs])
        a = src(arg)
        if a in HOOK_ATTR:
            h = HOOK_ATTR[a]
            if f"hookSet .{h}" not in guards:
                self.fail(f"{a} is run without the `is not None` test")
            self.emit(guards, f".runHook .{h} .{on_fail} {envtxt}", fin)
            return consumed
        if isinstance(arg, ast.JoinedStr) and arg.values:
            first = arg.values[0]
            if isinstance(first, ast.Constant) and str(first.value).startswith("jade pipeline submit-next-stage"):
                self.emit(guards, ".nextStage", fin)
                return consumed
            if isinstance(first, ast.FormattedValue) and src(first.value) in LEGACY_ATTR:
                h = LEGACY_ATTR[src(first.value)]
                self.emit(guards, f".runLegacy .{h} .{on_fail} {envtxt}", fin)
                return consumed
        self.fail(f"unrecognised command: {a[:80]}")


def _render_step(s):
    guards, act, fin = s
    g = llist([f"(.{x})" if " " in x else f".{x}" for x in guards])
    return f"  ⟨{g}, {act}, {'true' if fin else 'false'}⟩"


def _program(name, doc, steps):
    body = ",\n".join(_render_step(s) for s in steps)
    return f"/-- {doc} -/\ndef {name} : List Step := [\n{body}]"


def _canonical(fn, qual):
    """`fn` with the locals that SIMPLE_CALLS / the alias checks mention renamed to the names used there, identified by
    what they are bound to (`aggregator = ResultsAggregator.load(…)` is `agg`): renaming a local is not a change."""
    ren = {}
    for st in walk_stmts(fn):
        if not (isinstance(st, ast.Assign) and len(st.targets) == 1 and isinstance(st.targets[0], ast.Name)):
            continue
        v, role = st.value, None
        if isinstance(v, ast.Call):
            f = src(v.func)
            if f == "JobRunner":
                role = "mgr" if qual == "run_jobs" else "runner"
            elif f == "ResultsAggregator.load":
                role = "agg"
            elif src(v) == "self._config.get_default_submission_group()":
                role = "group"
        if role is not None:
            name = st.targets[0].id
            if ren.get(name, role) != role:
                raise SiteError(f"{qual}: local {name} plays two roles")
            ren[name] = role
    return rename_locals(fn, ren)


def _walk(rel, qual):
    fn = _canonical(find_def(rel, qual), qual)
    w = _Walker(qual)
    w.block(fn.body, [], False, last_of_function=True)
    return fn, w


def _count(w, prefix):
    return sum(1 for _, a, _ in w.steps if a.startswith(prefix))


@site("lifecycle.submitJobs", "Lifecycle", P)
def _():
    fn, w = _walk(JS, "JobSubmitter.submit_jobs")
    names = [a.arg for a in fn.args.args]
    if names != ["self", "cluster", "force_local"]:
        raise SiteError(f"signature changed: {names}")
    for need in (".submitHpc", ".handleCompletion", ".runHook .setup"):
        if _count(w, need) != 1:
            raise SiteError(f"expected exactly one {need} (moved into a helper?)")
    return _program("submitJobsProg", "`JobSubmitter.submit_jobs`: relevant statements in source order", w.steps)


@site("lifecycle.handleCompletion", "Lifecycle", P)
def _():
    fn, w = _walk(JS, "JobSubmitter._handle_completion")
    for need in (".listResults", ".computeMissing", ".writeSummary", ".markComplete", ".runHook .teardown"):
        if _count(w, need) != 1:
            raise SiteError(f"expected exactly one {need} (moved into a helper?)")
    return (
        "/-- `if len(self._results) != self._config.get_num_jobs():` — some job has no result: compute `missing_jobs` -/\n"
        f"def resultsIncomplete (numResults numJobs : Nat) : Bool :=\n  {w.defs['resultsIncomplete']}\n\n"
        + _program("handleCompletionProg", "`JobSubmitter._handle_completion`: relevant statements in source order", w.steps)
    )


@site("lifecycle.runJobs", "Lifecycle", P)
def _():
    fn, w = _walk(JR, "JobRunner.run_jobs")
    for need in (".runQueue", ".runHook .nodeSetup", ".runHook .nodeTeardown"):
        if _count(w, need) != 1:
            raise SiteError(f"expected exactly one {need} (moved into a helper?)")
    # `_run_jobs` reports Status.GOOD on every path (the CLI's try-submit depends on it)
    inner = find_def(JR, "JobRunner._run_jobs")
    rets = [s for s in walk_stmts(inner) if isinstance(s, ast.Return)]
    if not rets or any(r.value is None or src(r.value) != "Status.GOOD" for r in rets):
        raise SiteError("_run_jobs no longer returns Status.GOOD on every path")
    last = fn.body[-1]
    if not (isinstance(last, ast.Return) and src(last.value) == "result"):
        raise SiteError("run_jobs no longer returns the result of _run_jobs")
    res = [s for s in walk_stmts(fn) if isinstance(s, ast.Assign) and any(src(t) == "result" for t in s.targets)]
    if len(res) != 1 or src(res[0].value.func) != "self._run_jobs":
        raise SiteError("`result` is not exactly the value of self._run_jobs")
    local = the(assigns(fn, "are_inputs_local"), "are_inputs_local = …")
    if src(local.value) != "self._intf_type == HpcType.LOCAL":
        raise SiteError("are_inputs_local changed")
    return _program("runJobsProg", "`JobRunner.run_jobs`: relevant statements in source order (`fin` = inside `finally:`)", w.steps)


@site("lifecycle.runJobsCli", "Lifecycle", P)
def _():
    fn, w = _walk(RJ, "run_jobs")
    for need in (".runJobs", ".trySubmit"):
        if _count(w, need) != 1:
            raise SiteError(f"expected exactly one {need}")
    helper = find_def(RJ, "_try_submit_jobs")
    cmd = the(assigns(helper, "try_submit_cmd"), "try_submit_cmd = …").value
    if src(cmd) != "f'jade try-submit-jobs {output}'":
        raise SiteError(f"try-submit command changed: {src(cmd)}")
    runs = [c for c in _calls(helper) if src(c.func) == "run_command"]
    if len(runs) != 1 or [src(a) for a in runs[0].args] != ["try_submit_cmd"]:
        raise SiteError("_try_submit_jobs no longer runs the command once")
    return _program("runJobsCliProg", "`jade-internal run-jobs` (cli/run_jobs.py): relevant statements in source order", w.steps)


@site("lifecycle.checkRunCommand", "Lifecycle", P)
def _():
    fn = find_def(RC, "check_run_command")
    body = [s for s in fn.body if not (isinstance(s, ast.Expr) and isinstance(s.value, ast.Constant))]
    if len(body) != 2 or not isinstance(body[0], ast.Assign) or not isinstance(body[1], ast.If):
        raise SiteError("check_run_command changed shape")
    a, i = body
    if src(a.value) != "run_command(*args, **kwargs)" or len(a.targets) != 1 or not isinstance(a.targets[0], ast.Name):
        raise SiteError("check_run_command no longer forwards to run_command")
    ret = a.targets[0].id
    if i.orelse or len(i.body) != 1 or not isinstance(i.body[0], ast.Raise) or "ExecutionError" not in src(i.body[0]):
        raise SiteError("check_run_command no longer raises ExecutionError only")
    test = pred({ret: ("ret", "int")}, i.test)
    # both modules import the same two functions
    for rel in (JS, JR):
        m = module(rel)
        ok = False
        for st in m.body:
            if isinstance(st, ast.ImportFrom) and st.module in ("jade.utils.run_command", "jade.utils.subprocess_manager"):
                names = {n.name for n in st.names}
                if {"run_command", "check_run_command"} <= names:
                    ok = True
        if not ok:
            raise SiteError(f"{rel} no longer imports run_command/check_run_command from jade.utils")
    return ("/-- `check_run_command`: `ret = run_command(…)`; `if ret != 0: raise ExecutionError` -/\n"
            f"def commandFailed (ret : Int) : Bool :=\n  {test}")


@site("lifecycle.entryPoints", "Lifecycle", P)
def _():
    init = find_def(JS, "JobSubmitter.__init__")
    if [a.arg for a in init.args.args] != ["self", "config_file", "output", "is_new"]:
        raise SiteError("JobSubmitter.__init__ signature changed")
    a = the(assigns(init, "self._is_new"), "self._is_new = …")
    if src(a.value) != "is_new":
        raise SiteError("self._is_new is no longer the constructor argument")
    others = [s for s in ast.walk(find_def(JS, "JobSubmitter")) if isinstance(s, (ast.Assign, ast.AugAssign))
              and any(src(t) == "self._is_new" for t in (s.targets if isinstance(s, ast.Assign) else [s.target]))]
    if len(others) != 1:
        raise SiteError("self._is_new is assigned elsewhere")

    def ctor_flag(qual):
        fn = find_def(JS, qual)
        calls = [c for c in _calls(fn) if src(c.func) == "cls"]
        c = the(calls, f"cls(…) in {qual}")
        if len(c.args) != 3 or c.keywords or src(c.args[2]) not in ("True", "False"):
            raise SiteError(f"{qual}: constructor call changed: {src(c)}")
        return src(c.args[2]) == "True"

    created, loaded = ctor_flag("JobSubmitter.create"), ctor_flag("JobSubmitter.load")

    def entry(rel, qual, maker):
        fn = find_def(rel, qual)
        mk = [s for s in walk_stmts(fn) if isinstance(s, ast.Assign) and isinstance(s.value, ast.Call) and src(s.value.func) in ("JobSubmitter.create", "JobSubmitter.load")]
        m = the(mk, f"JobSubmitter.create/load in {qual}")
        if src(m.value.func) != maker:
            raise SiteError(f"{qual} now uses {src(m.value.func)}")
        var = src(m.targets[0])
        subs = [c for c in _calls(fn) if src(c.func) == f"{var}.submit_jobs"]
        the(subs, f"{var}.submit_jobs(…) in {qual}")
        return created if maker == "JobSubmitter.create" else loaded

    e1 = entry(JS, "JobSubmitter.run_submit_jobs", "JobSubmitter.create")
    e2 = entry(TS, "try_submit_jobs", "JobSubmitter.load")
    e3 = entry(RS, "resubmit_jobs", "JobSubmitter.load")
    b = lambda x: "true" if x else "false"  # noqa
    return ("/-- value of `self._is_new` in the `JobSubmitter` each entry point builds (`create` vs `load`) -/\n"
            "def entryIsNew : Entry → Bool\n"
            f"  | .submitJobs => {b(e1)}\n  | .trySubmit => {b(e2)}\n  | .resubmit => {b(e3)}")


@site("lifecycle.persisted", "Lifecycle", P)
def _():
    """the four commands are written to config.json / config_batch_N.json by `JobConfiguration.serialize` (that is how
    the node commands reach the nodes) and read back by the constructor"""
    fn = find_def(JC, "JobConfiguration.serialize")
    d = the([s for s in walk_stmts(fn) if isinstance(s, ast.Assign) and src(s.targets[0]) == "data" and isinstance(s.value, ast.Dict)], "data = {…}").value
    have = {const_str(k): src(v) for k, v in zip(d.keys, d.values) if isinstance(k, ast.Constant)}
    names = ["setup_command", "teardown_command", "node_setup_command", "node_teardown_command"]
    for n in names:
        if have.get(n) != f"self.{n}":
            raise SiteError(f"serialize no longer writes {n} from self.{n}")
        prop = find_def(JC, f"JobConfiguration.{n}")
        rets = [s for s in walk_stmts(prop) if isinstance(s, ast.Return)]
        if len(rets) != 1 or src(rets[0].value) != f"self._{n}":
            raise SiteError(f"property {n} changed")
    init = find_def(JC, "JobConfiguration.__init__")
    for n in names:
        a = the(assigns(init, f"self._{n}"), f"self._{n} = …")
        if src(a.value) != n:
            raise SiteError(f"constructor no longer stores {n}")
    return ("/-- keys under which `JobConfiguration.serialize` persists the four commands -/\n"
            f"def persistedKeys : List String := {llist([lstr(n) for n in names])}")
